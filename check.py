#!/usr/bin/env python3
"""Single entry point of the verification machinery (DESIGN.md section 2).

  check.py setup                               build the Lean project and the harness from files on disk
  check.py <Cxx> [--tier quick|thorough]       decide one property on /repo's current working tree
  check.py <Cxx> --replay <file>               re-run the case of a replay file against the current tree and the model
  check.py all [--tier quick]                  every claimed property, in parallel

exit 0: the property held on everything explored; exit 1 with `VIOLATION property=<id> replay=<path>` otherwise.
Seed: env VERIF_SEED (default 1). Tier: --tier or env VERIF_TIER.
"""
import argparse
import fcntl
import json
import os
import shutil
import subprocess
import sys
import time

sys.path.insert(0, os.path.dirname(os.path.abspath(__file__)))
from vlib import core  # noqa: E402
from vlib.core import Finding  # noqa: E402
from vlib.props import PROPS, Ctx  # noqa: E402

TRUSTED_BASE = [
    "Lean 4.33.0 kernel (thorough tier: re-checked by leanchecker)",
    "axioms allowed in property theorems: propext, Classical.choice, Quot.sound (audited by #print axioms on every run)",
    "the statements in lean/Dia/Props/<id>.lean and the RFC 6733 reading in lean/Dia/Spec.lean",
    "correspondence check: harness/ (hx: generators, executors), lean/Driver.lean (parsing/printing glue), vlib (diff)",
    "hand-written model lean/Dia/*.lean of src/: tied to the code only by the sampled correspondence run of this check",
]


class Lock:
    def __init__(self, name):
        os.makedirs(core.WORK, exist_ok=True)
        self.path = os.path.join(core.WORK, "." + name + ".lock")

    def __enter__(self):
        self.f = open(self.path, "w")
        fcntl.flock(self.f, fcntl.LOCK_EX)

    def __exit__(self, *a):
        fcntl.flock(self.f, fcntl.LOCK_UN)
        self.f.close()


def setup():
    with Lock("lean"):
        rc, out, secs = core.sh(["lake", "build", "Dia", "driver"], cwd=core.LEAN, timeout=7200)
    print("lake build: rc=%d %.0fs" % (rc, secs))
    if rc != 0:
        print(out[-3000:])
        return 1
    with Lock("cargo"):
        b = core.build_harness()
    print("cargo build: ok=%s %.0fs" % (b["ok"], b["secs"]))
    if not b["ok"]:
        print(b["log"])
        return 1
    return 0


def judge_all(prop, cfg, lines, impl, model, incidents):
    spec = PROPS[prop]
    ctx = Ctx(prop, cfg, core.known_findings())
    findings = []
    evaluations = 0
    distinct = set()
    samples = []
    import hashlib
    h = hashlib.blake2b(digest_size=8)
    nontrivial = False
    skip = False
    inc = dict(incidents)
    BUILD = ("val", "grp_", "avp_", "add", "decode", "reencode", "dadd", "avp ", "doc_end", "dconstruct")
    for i, l in enumerate(lines):
        if l.startswith("#"):
            if l.startswith("#case"):
                h = hashlib.blake2b(digest_size=8)
                nontrivial = False
                skip = False
                ctx.last_dump = None
                ctx.case_label = l
                ctx.case_state = {}
            continue
        if not l:
            continue
        op = l.split(" ")
        h.update(l.encode())
        rep_diff = None
        if op[0] == "repeat" and len(op) > 2:
            # `repeat <n> <probe>`: judged as the probe; runs that differ from the first are a finding of their own
            op = op[2:]
            a0 = impl[i] if impl[i] is not None else "missing"
            if " !run-" in a0:
                impl[i], rep_diff = a0.split(" !run-", 1)
        if op[0] == "parname" and impl[i] is not None and " !threads-differ:" in impl[i]:
            impl[i], rep_diff = impl[i].split(" !threads-differ:", 1)
            rep_diff = "threads that looked the name up at the same moment got " + rep_diff
        if op[0] == "rmode":
            ctx.reader_mode = op[1] if len(op) > 1 else "0"
            continue
        if op[0] == "iomode":
            ctx.count("iomode_" + (op[1] if len(op) > 1 else "0"))
            continue
        if op[0] == "amode":
            ctx.count("amode_" + (op[1] if len(op) > 1 else "0"))
            continue
        if l.startswith(BUILD):
            nontrivial = True
        if skip:
            ctx.count("skipped_after_incident")
            continue
        mi, ms, reason = core.split_model(model[i] if model[i] is not None else "missing")
        a = impl[i] if impl[i] is not None else "missing"
        if a == "not-run":
            ctx.count("not_run_after_repeated_hangs")
            continue
        if i in inc:
            skip = True
        fs = spec["judge"](ctx, i, op, a, mi, ms, reason)
        if rep_diff is not None:
            fs.append(Finding("property", i, "the same probe, repeated on one thread, gives different answers (state builds up inside the library): run " + rep_diff[:300], expected=a[:300], observed=rep_diff[:300], name="history independence of " + op[0]))
        if getattr(ctx, "reader_mode", "0") != "0":
            ctx.count("lines_under_fragmenting_reader")
        if op[0] in spec["probes"]:
            evaluations += 1
            nt = nontrivial or (op[0] in ("dec", "decat", "decq", "deca", "decg") and len(op) > 1 and len(op[-1]) >= 16) or op[0] in ("fx", "sweep", "psweep", "sdec", "senc", "serve", "cli", "cliswitch", "clim", "cliflood", "lsn", "lsnpipe", "sdecmany", "servemany", "tls", "tlsq", "tlsrude", "tlsre", "ctcp")
            if nt:
                distinct.add(h.digest() if op[0] not in ("dec", "decat", "decq", "deca", "decg", "fx", "sweep", "psweep", "sdec", "senc", "serve", "cli", "cliswitch", "clim", "cliflood", "lsn", "lsnpipe", "sdecmany", "servemany", "tls", "tlsq", "tlsrude", "tlsre", "ctcp") else core.sha(l))
            if len(samples) < 6 and (evaluations % 997 == 1):
                samples.append({"line": l[:300], "implementation": a[:300], "model": (model[i] or "")[:400]})
        for f in fs:
            # up to 200 of each kind are kept: a flood of correspondence findings must not crowd out the failing input
            if ctx.stats.get("findings_" + f.kind, 0) < 200:
                findings.append(f)
            ctx.count("findings_" + f.kind)
    return ctx, findings, evaluations, len(distinct), samples


def splice_corpus(prop, cases):
    """minimised past failures and regression inputs of repaired defects (corpus/<id>/*.case) run first: they are
    spliced in right after the generator's preamble"""
    import glob
    files = sorted(glob.glob(os.path.join(core.ROOT, "corpus", prop, "*.case")))
    if not files:
        return
    with open(cases) as f:
        lines = f.read().split("\n")
    first = next((i for i, l in enumerate(lines) if l.startswith("#case")), len(lines))
    extra = []
    for p in files:
        extra += [l for l in open(p).read().split("\n") if l]
    with open(cases, "w") as f:
        f.write("\n".join(lines[:first] + extra + lines[first:]))


def run_once(prop, tier, seed, wd, cfg, extra_head=None, nproc=1):
    spec = PROPS[prop]
    cases = os.path.join(wd, "cases.txt")
    extra = spec["extra"](wd) if "extra" in spec else []
    core.gen_cases(spec["family"], seed, tier, extra, cases, [cfg["line"]])
    splice_corpus(prop, cases)
    del core.PLAIN_DIFFS[:]
    lines, impl, model, incidents = core.run_pair(cases, wd, nproc, spec.get("model_input"), both_builds=spec.get("both_builds", False))
    ctx, findings, evaluations, distinct, samples = judge_all(prop, cfg, lines, impl, model, incidents)
    if spec.get("both_builds"):
        ctx.count("lines_compared_across_builds", len(lines))
        for (i, x, y) in core.PLAIN_DIFFS[:50]:
            # (the time-budget suffix of `decq` may come and go)
            if x.replace(" slow", "") == y.replace(" slow", ""):
                continue
            findings.append(Finding("property", i, "the library answers differently when it is compiled without debug assertions and overflow checks (as `cargo build --release` compiles it): `%s` there" % y[:200], expected=x[:300], observed=y[:300], name="build-profile independence of " + lines[i].split(" ")[0]))
            ctx.count("findings_property")
    return lines, impl, model, incidents, ctx, findings, evaluations, distinct, samples


def shrink(prop, cfg, wd, pre, case, kind):
    """delta-debugging over the lines of the failing case: drop lines while a finding of the same kind remains"""
    def fails(c):
        p = os.path.join(wd, "shrink.txt")
        with open(p, "w") as f:
            f.write("\n".join([cfg["line"]] + pre + c) + "\n")
        try:
            lines, impl, model, inc = core.run_pair(p, wd, 1, PROPS[prop].get("model_input"))
        except Exception:
            return False
        _, fs, _, _, _ = judge_all(prop, cfg, lines, impl, model, inc)
        return any(f.kind == kind for f in fs)
    cur = list(case)
    budget = 150
    n = 2
    # shrinking is a convenience: it gets three minutes, and a hanging candidate is given up on after 20 s
    deadline = time.time() + 180
    old_idle, core.IDLE_LIMIT = core.IDLE_LIMIT, 20
    try:
        cur = _ddmin(cur, fails, budget, n, deadline)
    finally:
        core.IDLE_LIMIT = old_idle
    return cur


def _ddmin(cur, fails, budget, n, deadline):
    while len(cur) > 2 and budget > 0 and time.time() < deadline:
        chunk = max(1, len(cur) // n)
        reduced = False
        for s in range(1, len(cur), chunk):
            cand = cur[:s] + cur[s + chunk:]
            budget -= 1
            if len(cand) >= 2 and fails(cand):
                cur = cand
                n = max(n - 1, 2)
                reduced = True
                break
            if budget <= 0 or time.time() > deadline:
                break
        if not reduced:
            if chunk == 1:
                break
            n = min(len(cur), n * 2)
    return cur


def check(prop, tier, seed):
    t0 = time.time()
    spec = PROPS[prop]
    wd = core.workdir(prop)
    problems = []   # (kind, name, message) that make the check fail without a failing input
    # ---- proof side
    with Lock("lean"):
        bl = core.build_lean(prop)
    if not bl["ok"]:
        problems.append(("proof", "lake build " + " ".join(bl["targets"]), bl["log"][-1500:]))
        au = {"theorems": {}, "bad": ["build failed"], "scan": []}
    else:
        au = core.audit(prop)
        for b in au["bad"]:
            problems.append(("proof", b.split(" ")[0], b))
    checker = None
    if tier == "thorough" and bl["ok"]:
        # independent re-check of the compiled property module
        checker = core.leanchecker(prop)
        if not checker["ok"]:
            problems.append(("proof", "leanchecker Dia.Props." + prop, checker["log"]))
    # ---- correspondence side
    with Lock("cargo"):
        bh = core.build_harness()
    res = None
    if not bh["ok"]:
        problems.append(("correspondence", "harness build against /repo", bh["log"][-1500:]))
    elif not os.path.exists(core.DRIVER):
        problems.append(("correspondence", "model driver", "driver executable missing"))
    else:
        cfg = core.probe()
        nproc = core.NPROC if tier == "thorough" else 4
        res = run_once(prop, tier, seed, wd, cfg, nproc=nproc)
    violations = 0
    out_lines = []
    replay_path = None
    stats = {}
    evaluations = distinct = 0
    samples = []
    known_lines = []
    if res is not None:
        lines, impl, model, incidents, ctx, findings, evaluations, distinct, samples = res
        stats = ctx.stats
        if cfg["limit"] < 16:
            findings.insert(0, Finding("property", 0, "the decoder's nesting limit is %d, below the 16 levels the properties demand" % cfg["limit"], name="nesting limit >= 16"))
        for t, n in sorted(ctx.known_hits.items()):
            known_lines.append("KNOWN-FINDING: property=%s %s AVP with declared length != natural size is accepted (F1, %d frames this run)" % (prop, t, n))
        pf = [f for f in findings if f.kind == "property"]
        cf = [f for f in findings if f.kind == "correspondence"]
        chosen = None
        suffix = ""
        if pf:
            chosen = pf[0]
        elif cf:
            # the tie is broken but the property held at every disagreeing input: search further seeds for a failing input
            for extra_seed in (seed + 101, seed + 202):
                try:
                    r2 = run_once(prop, tier if tier == "quick" else "quick", extra_seed, wd, cfg, nproc=4)
                except Exception:
                    break
                pf2 = [f for f in r2[5] if f.kind == "property"]
                if pf2:
                    lines, impl, model = r2[0], r2[1], r2[2]
                    chosen = pf2[0]
                    seed = extra_seed
                    break
            if chosen is None:
                # restore the first run's view for the replay file
                res = run_once(prop, tier, seed, wd, cfg, nproc=4)
                lines, impl, model = res[0], res[1], res[2]
                cf = [f for f in res[5] if f.kind == "correspondence"] or cf
                chosen = cf[0]
                suffix = " no-failing-input-found"
        if chosen is not None:
            violations = len(pf) + len(cf)
            extra = {"findings_property": len(pf), "findings_correspondence": len(cf)}
            try:
                pre, case, k = core.case_block(lines, chosen.line_idx)
                small = shrink(prop, cfg, wd, pre, case, chosen.kind)
                extra["shrunk_case"] = small
            except Exception as e:  # shrinking is best effort
                extra["shrink_error"] = str(e)
            replay_path = core.write_replay(prop, seed, tier, chosen, lines, impl, model, extra)
            out_lines.append("VIOLATION property=%s replay=%s%s" % (prop, replay_path, suffix))
    if replay_path is None and problems:
        kind, name, msg = problems[0]
        os.makedirs(os.path.join(core.ROOT, "replays"), exist_ok=True)
        replay_path = os.path.join(core.ROOT, "replays", "%s-%s-%s.json" % (prop, seed, kind))
        with open(replay_path, "w") as f:
            json.dump({"property": prop, "kind": kind, "what_no_longer_checks": name, "message": msg, "all_problems": problems}, f, indent=1)
        out_lines.append("VIOLATION property=%s replay=%s no-failing-input-found" % (prop, replay_path))
        violations += len(problems)
    thms = au["theorems"]
    discharged = sum(1 for t, ax in thms.items() if all(a in core.ALLOWED_AXIOMS for a in ax)) if bl["ok"] and not au["scan"] else 0
    obligations = max(len(core.prop_theorems(prop)), 1)
    cov = {
        "obligations": obligations,
        "discharged": discharged,
        "checker_cmd": "cd lean && lake build Dia.Props.%s && lake env lean <#print axioms of every property theorem>%s" % (prop, " && lake env leanchecker Dia.Props.%s" % prop if tier == "thorough" else ""),
        "trusted_base": TRUSTED_BASE,
        "theorems": thms,
        "lean_build_s": bl["secs"],
        "leanchecker": checker,
        "evaluations": evaluations,
        "distinct_nontrivial": distinct,
        "rule": "cases come from harness `hx gen %s` (structure-aware + boundary enumeration + random, one PRNG seeded by VERIF_SEED); "
                "every probe line is executed on the real library and on the compiled Lean model and diffed on the property's projection; "
                "a probe counts as non-trivial when its case built at least one AVP / carries a frame of >= 28 octets / is a fixed-size wire value, "
                "distinct by hash of the case text up to the probe" % spec["family"],
        "samples": samples or [{"note": "no case executed (build problem)"}],
        "histogram": dict(sorted(stats.items())),
        "branches_expected": spec.get("expect_keys", []),
        "branches_unreached": [k for k in spec.get("expect_keys", []) if stats.get(k, 0) == 0] if res is not None else None,
        "probed_parameters": (cfg if res is not None else None),
        "incidents": [(i, k) for (i, k) in (res[3] if res is not None else [])][:20],
        "implementation_vs_oracle_failures": len([1 for l in out_lines if "no-failing-input-found" not in l]),
        "model_disagreements": stats.get("findings_correspondence", 0),
        "known_findings_reported": known_lines,
    }
    ev = {
        "property_id": prop,
        "tier": tier,
        "seed": int(seed),
        "level": "proof",
        "coverage": cov,
        "assumptions": spec.get("assumptions", []) + ["see DESIGN.md section 3 (trusted base) and section 5 for what the model cannot exhibit"],
        "wall_s": round(time.time() - t0, 1),
        "violations": violations,
    }
    core.write_evidence(prop, ev)
    for l in known_lines:
        print(l)
    for l in out_lines:
        print(l)
    print("%s %s tier=%s seed=%s evaluations=%d distinct=%d obligations=%d discharged=%d wall=%.0fs" % (
        prop, "FAIL" if out_lines else "ok", tier, seed, evaluations, distinct, obligations, discharged, time.time() - t0))
    return 1 if out_lines else 0


def replay(prop, path):
    doc = json.load(open(path))
    if "case" not in doc:
        print("replay file names a proof/correspondence obligation, not an input:", doc.get("what_no_longer_checks"))
        return check(prop, "quick", int(os.environ.get("VERIF_SEED", "1")))
    wd = core.workdir(prop)
    with Lock("lean"):
        core.build_lean(prop)
    with Lock("cargo"):
        bh = core.build_harness()
    if not bh["ok"]:
        print(bh["log"])
        return 1
    cfg = core.probe()
    p = os.path.join(wd, "replay.txt")
    case = doc.get("shrunk_case") or doc["case"]
    with open(p, "w") as f:
        f.write("\n".join([cfg["line"]] + doc["preamble"] + case) + "\n")
    lines, impl, model, inc = core.run_pair(p, wd, 1, PROPS[prop].get("model_input"))
    ctx, fs, _, _, _ = judge_all(prop, cfg, lines, impl, model, inc)
    for l, a, b in zip(lines, impl, model):
        if l.startswith("#") or l.split(" ")[0] in ("cfg", "dadd", "dreset", "avp", "app", "cmd", "doc_begin", "doc_end"):
            continue
        print("> " + l[:200])
        print("  implementation: " + (a or "")[:300])
        print("  model | spec  : " + (b or "")[:500])
    bad = [f for f in fs if f.kind in ("property", "correspondence")]
    for f in bad:
        print("FINDING %s: %s" % (f.kind, f.msg))
    if bad:
        print("VIOLATION property=%s replay=%s" % (prop, path))
        return 1
    print("replay passes on the current tree")
    return 0


def main():
    ap = argparse.ArgumentParser()
    ap.add_argument("what")
    ap.add_argument("--tier", default=os.environ.get("VERIF_TIER", "quick"))
    ap.add_argument("--replay")
    a = ap.parse_args()
    seed = int(os.environ.get("VERIF_SEED", "1") or 1)
    if a.what == "setup":
        sys.exit(setup())
    if a.what == "all":
        procs = {p: subprocess.Popen([sys.executable, os.path.abspath(__file__), p, "--tier", a.tier], stdout=subprocess.PIPE, text=True) for p in sorted(PROPS)}
        rc = 0
        for p, pr in procs.items():
            out, _ = pr.communicate()
            sys.stdout.write(out)
            rc |= pr.returncode
        sys.exit(rc)
    if a.what not in PROPS:
        print("unknown property", a.what)
        sys.exit(2)
    if a.replay:
        sys.exit(replay(a.what, a.replay))
    sys.exit(check(a.what, a.tier, seed))


if __name__ == "__main__":
    main()
