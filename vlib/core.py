"""Orchestration shared by all checks: build, probe, generate, run both sides, align answers, evidence, replays.
python3 stdlib only."""
import hashlib
import json
import os
import re
import resource
import shutil
import subprocess
import sys
import time
from concurrent.futures import ThreadPoolExecutor

ROOT = os.path.dirname(os.path.dirname(os.path.abspath(__file__)))
LEAN = os.path.join(ROOT, "lean")
HARN = os.path.join(ROOT, "harness")
WORK = os.path.join(ROOT, "work")
DRIVER = os.path.join(LEAN, ".lake", "build", "bin", "driver")
HX = os.path.join(HARN, "target", "release", "hx")
HX_PLAIN = os.path.join(HARN, "target", "plain", "hx")
REPO = "/repo"
ALLOWED_AXIOMS = {"propext", "Classical.choice", "Quot.sound"}
FORBIDDEN = re.compile(r"\bsorry\b|\badmit\b|^\s*axiom\s|native_decide|bv_decide|implemented_by|\bunsafe\s|maxHeartbeats\s+0")
NPROC = min(16, os.cpu_count() or 4)

ENV = dict(os.environ)
ENV["CARGO_NET_OFFLINE"] = "true"
ENV.setdefault("CARGO_TERM_COLOR", "never")


def sh(cmd, cwd=None, timeout=None, env=None):
    t = time.time()
    p = subprocess.run(cmd, cwd=cwd, env=env or ENV, stdout=subprocess.PIPE, stderr=subprocess.STDOUT, timeout=timeout, text=True, errors="replace")
    return p.returncode, p.stdout, time.time() - t


def workdir(prop):
    d = os.path.join(WORK, prop)
    os.makedirs(d, exist_ok=True)
    return d


# ---------------------------------------------------------------- Lean side

def lean_strip_comments(src):
    src = re.sub(r"/-.*?-/", "", src, flags=re.S)
    src = re.sub(r"--.*", "", src)
    return src


def lean_sources():
    out = []
    for base, _dirs, files in os.walk(LEAN):
        if ".lake" in base:
            continue
        for f in files:
            if f.endswith(".lean"):
                out.append(os.path.join(base, f))
    return sorted(out)


def scan_sources():
    """forbidden constructs outside comments; returns list of (file, line, text)"""
    hits = []
    for p in lean_sources():
        body = lean_strip_comments(open(p, encoding="utf-8").read())
        for i, l in enumerate(body.split("\n")):
            if FORBIDDEN.search(l):
                hits.append((os.path.relpath(p, LEAN), i + 1, l.strip()[:120]))
    return hits


def prop_theorems(prop):
    """fully qualified names of the property theorems of Props/<prop>.lean (a file may hold several namespaces)"""
    p = os.path.join(LEAN, "Dia", "Props", prop + ".lean")
    if not os.path.exists(p):
        return []
    body = lean_strip_comments(open(p, encoding="utf-8").read())
    out, stack = [], []
    for l in body.split("\n"):
        m = re.match(r"^namespace\s+(\S+)", l)
        if m:
            stack.append(m.group(1))
            continue
        m = re.match(r"^end\s+(\S+)", l)
        if m and stack and stack[-1] == m.group(1):
            stack.pop()
            continue
        m = re.match(r"^theorem\s+(\S+)", l)
        if m:
            out.append(".".join(stack + [m.group(1)]))
    return out


def build_lean(prop, clean=False):
    """lake build of the property's theorem module and the driver. Returns dict."""
    if clean:
        # rebuild the property's modules from nothing
        shutil.rmtree(os.path.join(LEAN, ".lake", "build"), ignore_errors=True)
    targets = ["driver"]
    if os.path.exists(os.path.join(LEAN, "Dia", "Props", prop + ".lean")):
        targets.insert(0, "Dia.Props." + prop)
    rc, out, secs = sh(["lake", "build"] + targets, cwd=LEAN, timeout=3600)
    return {"ok": rc == 0, "log": out[-4000:], "secs": round(secs, 1), "targets": targets}


def audit(prop):
    """#print axioms for every property theorem; source scan. Returns dict with per-theorem axioms."""
    thms = prop_theorems(prop)
    res = {"theorems": {}, "bad": [], "scan": scan_sources()}
    if not thms:
        res["bad"].append("no property theorem found for " + prop)
        return res
    wd = workdir(prop)
    ap = os.path.join(wd, "audit.lean")
    with open(ap, "w") as f:
        f.write("import Dia.Props.%s\n" % prop)
        for t in thms:
            f.write("#print axioms %s\n" % t)
    rc, out, _ = sh(["lake", "env", "lean", ap], cwd=LEAN, timeout=1800)
    if rc != 0:
        res["bad"].append("audit file does not compile: " + out[-800:])
        return res
    # "'Dia.x' depends on axioms: [a, b]"  (may wrap over lines)  /  "'Dia.x' does not depend on any axioms"
    flat = re.sub(r"\s+", " ", out)
    for t in thms:
        m = re.search(r"'%s' depends on axioms: \[([^\]]*)\]" % re.escape(t), flat)
        if m:
            ax = [a.strip() for a in m.group(1).split(",") if a.strip()]
        elif re.search(r"'%s' does not depend on any axioms" % re.escape(t), flat):
            ax = []
        else:
            res["bad"].append("no axiom report for " + t)
            continue
        res["theorems"][t] = ax
        extra = [a for a in ax if a not in ALLOWED_AXIOMS]
        if extra:
            res["bad"].append("%s depends on %s" % (t, extra))
    for h in res["scan"]:
        res["bad"].append("forbidden construct %s:%d: %s" % h)
    return res


def leanchecker(prop):
    rc, out, secs = sh(["lake", "env", "leanchecker", "Dia.Props." + prop], cwd=LEAN, timeout=3600)
    return {"ok": rc == 0, "log": out[-2000:], "secs": round(secs, 1)}


# ---------------------------------------------------------------- Rust side

def build_harness():
    lock = os.path.join(HARN, "Cargo.lock")
    if not os.path.exists(lock):
        shutil.copy(os.path.join(REPO, "Cargo.lock"), lock)
    rc, out, secs = sh(["cargo", "build", "--release", "--offline"], cwd=HARN, timeout=3600)
    errs = [l for l in out.split("\n") if l.startswith("error")]
    if rc == 0:
        # the second build (no debug assertions, no overflow checks): used to check that the library answers alike however it
        # is compiled; a failure to build it is reported like one of the first
        rc2, out2, secs2 = sh(["cargo", "build", "--profile", "plain", "--offline"], cwd=HARN, timeout=3600)
        if rc2 != 0:
            rc, out = rc2, out2
            errs = [l for l in out.split("\n") if l.startswith("error")]
        secs += secs2
    return {"ok": rc == 0, "log": "\n".join(errs[:20]) + "\n" + out[-3000:] if rc != 0 else "", "secs": round(secs, 1)}


def probe():
    rc, out, _ = sh([HX, "probe"], timeout=600)
    line = [l for l in out.split("\n") if l.startswith("cfg ")]
    if rc != 0 or not line:
        raise RuntimeError("probe failed: " + out[-500:])
    t = line[0].split(" ")
    return {"line": line[0], "limit": int(t[1]), "short": t[2], "long": t[3]}


def gen_cases(family, seed, tier, extra, out_path, head_lines):
    with open(out_path, "w") as f:
        for l in head_lines:
            f.write(l + "\n")
        f.flush()
        p = subprocess.run([HX, "gen", family, str(seed), tier] + list(extra), stdout=f, stderr=subprocess.PIPE, env=ENV, timeout=3600)
    if p.returncode != 0:
        raise RuntimeError("generator failed: " + p.stderr.decode()[-500:])


# ---------------------------------------------------------------- running both sides

def _count_lines(path):
    n = 0
    try:
        with open(path, "rb") as f:
            for _ in f:
                n += 1
    except FileNotFoundError:
        pass
    return n


IDLE_LIMIT = 90


def run_impl(cases, out, idle_limit=None, hx=None):
    """Supervised execution of `hx run`: an abort (stack overflow, allocation failure) or a hang is attributed to the
    exact line; the worker is restarted after it. Returns list of (line_index, 'abort'|'hang')."""
    if idle_limit is None:
        idle_limit = IDLE_LIMIT
    if os.path.exists(out):
        os.remove(out)
    total = _count_lines(cases)
    start = 0
    incidents = []
    while True:
        p = subprocess.Popen([hx or HX, "run", cases, out, str(start)], env=ENV, stdout=subprocess.DEVNULL, stderr=subprocess.PIPE)
        last_size, last_change = -1, time.time()
        kind = None
        while True:
            try:
                p.wait(timeout=0.5)
                break
            except subprocess.TimeoutExpired:
                sz = os.path.getsize(out) if os.path.exists(out) else 0
                if sz != last_size:
                    last_size, last_change = sz, time.time()
                elif time.time() - last_change > idle_limit:
                    p.kill()
                    p.wait()
                    kind = "hang"
                    break
        done = _count_lines(out)
        if kind is None and p.returncode == 0:
            if done < total:
                # premature end without failure status: treat as abort at the next line
                kind = "abort"
            else:
                break
        if kind is None:
            kind = "abort"
        if done >= total:
            break
        # line `done` is the offender
        with open(out, "a") as f:
            f.write(kind + "\n")
        incidents.append((done, kind))
        start = done + 1
        if start >= total:
            break
        # every hang costs `idle_limit` seconds: after the second one in a chunk (or 200 aborts) the rest of the chunk is
        # not run - the incidents found are reported, the remaining lines are marked and skipped by the judge
        if len(incidents) > 200 or sum(1 for _, k in incidents if k == "hang") >= 2:
            with open(out, "a") as f:
                for _ in range(total - start):
                    f.write("not-run\n")
            break
    return incidents


def run_model(cases, out):
    def big_stack():
        try:
            resource.setrlimit(resource.RLIMIT_STACK, (resource.RLIM_INFINITY, resource.RLIM_INFINITY))
        except Exception:
            pass
    with open(cases, "rb") as fi, open(out, "wb") as fo:
        p = subprocess.run([DRIVER], stdin=fi, stdout=fo, stderr=subprocess.PIPE, preexec_fn=big_stack, timeout=7200)
    if p.returncode != 0:
        raise RuntimeError("model driver failed (rc=%d): %s" % (p.returncode, p.stderr.decode()[-500:]))


def split_cases(cases_path, n, wd):
    """split at `#case` boundaries into n chunks, each with the preamble (everything before the first #case)"""
    with open(cases_path) as f:
        lines = f.read().split("\n")
    if lines and lines[-1] == "":
        lines.pop()
    first = next((i for i, l in enumerate(lines) if l.startswith("#case")), len(lines))
    pre = lines[:first]
    starts = [i for i in range(first, len(lines)) if lines[i].startswith("#case")]
    # a `#case dictionary` block changes the dictionary for what follows: keep such files in one piece per block
    if any(lines[i].startswith("#case") and " dictionary " in lines[i] for i in starts):
        n = 1
    if n <= 1 or len(starts) < 2 * n:
        return [(cases_path, 0, len(lines))], lines, len(pre)

    # weight of a case: heavy lines (range sweeps, large frames) count by their size, so that chunks take equal time
    def weight(l):
        if l.startswith("sweep "):
            try:
                t = l.split(" ")
                # the Time type costs about five times the others on the model side (big-number Int arithmetic)
                return (1 + int(t[3]) // 10) * (5 if t[1] == "time" else 1)
            except Exception:
                return 1
        return 1 + len(l) // 4000

    bounds = starts + [len(lines)]
    cw = [sum(weight(lines[i]) for i in range(bounds[k], bounds[k + 1])) for k in range(len(starts))]
    total = sum(cw)
    chunks = []
    acc = 0
    k0 = 0
    for k in range(len(starts)):
        acc += cw[k]
        if (acc >= total * (len(chunks) + 1) / n and len(chunks) < n - 1) or k == len(starts) - 1:
            s, e = starts[k0], bounds[k + 1]
            p = os.path.join(wd, "chunk%02d.cases" % len(chunks))
            with open(p, "w") as f:
                f.write("\n".join(pre + lines[s:e]) + "\n")
            chunks.append((p, s, e))
            k0 = k + 1
    return chunks, lines, len(pre)


def run_pair(cases_path, wd, nproc=1, model_input=None, both_builds=False):
    """returns (lines, impl_answers, model_answers, incidents); answers aligned with lines.
    model_input(line, impl_answer) -> line for the model: used where the model *replays what was observed* (client
    trace conformance) instead of predicting it from the input alone."""
    chunks, lines, npre = split_cases(cases_path, nproc, wd)
    impl = [None] * len(lines)
    model = [None] * len(lines)
    incidents = []

    def one(ch):
        p, s, e = ch
        io, mo = p + ".impl", p + ".model"
        inc = run_impl(p, io)
        if both_builds and os.path.exists(HX_PLAIN):
            # the same cases on the build without debug assertions and overflow checks: the answers must be the same
            run_impl(p, p + ".plain", hx=HX_PLAIN)
        if model_input is None:
            run_model(p, mo)
        else:
            with open(p) as f:
                cl = f.read().split("\n")
            with open(io) as f:
                al = f.read().split("\n")
            mp = p + ".minput"
            with open(mp, "w") as f:
                for k, l in enumerate(cl):
                    if k == len(cl) - 1 and l == "":
                        break
                    f.write(model_input(l, al[k] if k < len(al) else "missing") + "\n")
            run_model(mp, mo)
        return ch, io, mo, inc

    with ThreadPoolExecutor(max_workers=max(1, nproc)) as ex:
        for (p, s, e), io, mo, inc in ex.map(one, chunks):
            with open(io) as f:
                a = f.read().split("\n")
            with open(mo) as f:
                b = f.read().split("\n")
            if a and a[-1] == "":
                a.pop()
            if b and b[-1] == "":
                b.pop()
            single = (p == cases_path)
            off = 0 if single else npre
            base = 0 if single else s
            n = (e - s) if not single else len(lines)
            for k in range(n):
                impl[base + k] = a[off + k] if off + k < len(a) else "missing"
                model[base + k] = b[off + k] if off + k < len(b) else "missing"
            if not single and s == chunks[0][1]:
                for k in range(npre):
                    impl[k] = a[k] if k < len(a) else "missing"
                    model[k] = b[k] if k < len(b) else "missing"
            for (li, kind) in inc:
                incidents.append(((li if single else li - npre + s), kind))
            if both_builds and os.path.exists(p + ".plain"):
                with open(p + ".plain") as f:
                    c = f.read().split("\n")
                for k in range(n):
                    x = a[off + k] if off + k < len(a) else "missing"
                    y = c[off + k] if off + k < len(c) else "missing"
                    if x != y:
                        PLAIN_DIFFS.append((base + k, x, y))
    return lines, impl, model, incidents


# (line index, answer of the checked build, answer of the plain build) where the two builds of the harness disagree
PLAIN_DIFFS = []


def split_model(ans):
    parts = ans.split(" | ")
    while len(parts) < 3:
        parts.append("-")
    return parts[0], parts[1], parts[2]


# ---------------------------------------------------------------- findings, replays, evidence

class Finding:
    def __init__(self, kind, line_idx, msg, expected=None, observed=None, name=None):
        self.kind = kind          # 'property' | 'correspondence' | 'known'
        self.line_idx = line_idx
        self.msg = msg
        self.expected = expected
        self.observed = observed
        self.name = name          # theorem / correspondence / known-finding id


def case_block(lines, idx):
    """(preamble, case lines, index of idx inside the case). The preamble is every state-building line before the case."""
    s = idx
    while s > 0 and not lines[s].startswith("#case"):
        s -= 1
    e = idx + 1
    while e < len(lines) and not lines[e].startswith("#case"):
        e += 1
    STATE = ("cfg", "dreset", "dadd", "doc_begin", "app", "cmd", "avp", "doc_end", "dconstruct")
    pre = [l for l in lines[:s] if l.split(" ")[0] in STATE]
    return pre, lines[s:e], idx - s


def write_replay(prop, seed, tier, finding, lines, impl, model, extra=None):
    os.makedirs(os.path.join(ROOT, "replays"), exist_ok=True)
    pre, case, k = case_block(lines, finding.line_idx)
    path = os.path.join(ROOT, "replays", "%s-%s-%d.json" % (prop, seed, finding.line_idx))
    doc = {
        "property": prop,
        "seed": seed,
        "tier": tier,
        "kind": finding.kind,
        "what_no_longer_checks": finding.name,
        "message": finding.msg,
        "failing_line_in_case": k,
        "failing_line": case[k] if k < len(case) else None,
        "observed_implementation": finding.observed,
        "expected": finding.expected,
        "model_answer": model[finding.line_idx] if finding.line_idx < len(model) else None,
        "preamble": pre,
        "case": case,
        "replay_cmd": "python3 check.py %s --replay %s" % (prop, path),
    }
    if extra:
        doc.update(extra)
    with open(path, "w") as f:
        json.dump(doc, f, indent=1)
    return path


def write_evidence(prop, doc):
    os.makedirs(os.path.join(ROOT, "evidence"), exist_ok=True)
    with open(os.path.join(ROOT, "evidence", prop + ".json"), "w") as f:
        json.dump(doc, f, indent=1)


def known_findings():
    p = os.path.join(ROOT, "known_findings.json")
    if not os.path.exists(p):
        return []
    return json.load(open(p)).get("findings", [])


def sha(s):
    return hashlib.blake2b(s.encode(), digest_size=8).hexdigest()
