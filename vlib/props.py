"""Per-property definitions: which generator family, which projection of behaviour is compared (scope
discipline, DESIGN.md 2.2), how the property itself is evaluated on the implementation (the `Spec` column is the
oracle), what counts as a non-trivial case."""
import re
from .core import Finding, split_model


def kv(reason):
    d = {}
    for t in reason.split(" "):
        if "=" in t:
            k, v = t.split("=", 1)
            d[k] = v
        elif t:
            d[t] = "1"
    return d


# ---- parsing the canonical tree ------------------------------------------------------------------

def parse_avps(s, i=0):
    """parse 'A(...)A(...)' starting at s[i]; returns (list of dicts, next index). Each dict: code, vendor, vmp, len,
    pad, ty, payload (str) or members (list)."""
    out = []
    while i < len(s) and s.startswith("A(", i):
        i += 2
        fields = []
        for _ in range(5):
            j = s.index(",", i)
            fields.append(s[i:j])
            i = j + 1
        j = s.index(":", i)
        ty = s[i:j]
        i = j + 1
        a = {"code": fields[0], "vendor": fields[1], "vmp": fields[2], "len": int(fields[3]), "pad": int(fields[4]), "ty": ty}
        if ty == "grp":
            assert s[i] == "["
            a["members"], i = parse_avps(s, i + 1)
            assert s[i] == "]"
            i += 1
            a["payload"] = None
        else:
            j = s.index(")", i)
            a["payload"] = s[i:j]
            i = j
        assert s[i] == ")"
        i += 1
        out.append(a)
    return out, i


def parse_msg(s):
    m = re.match(r"M\(([^)]*)\)\[", s)
    if not m:
        return None
    hdr = m.group(1).split(",")
    avps, i = parse_avps(s, m.end())
    return {"hdr": hdr, "avps": avps}


TY_ORDER = ["addr", "ipv4", "ipv6", "ident", "uri", "enum", "f32", "f64", "grp", "i32", "i64", "oct", "time", "u32", "u64", "utf8"]


def acc_expected(avps):
    """what the 16 typed getters must show for these AVPs, computed from the message's own dump (property C18)"""
    out = []
    for a in avps:
        bits = "".join("1" if t == a["ty"] else "0" for t in TY_ORDER)
        if a["ty"] == "grp":
            out.append("{" + bits + "=grp:[" + acc_expected(a["members"]) + "]}")
        else:
            out.append("{" + bits + "=" + a["ty"] + ":" + a["payload"] + "}")
    return "".join(out)


# ---- judges ------------------------------------------------------------------------------------
# judge(ctx, idx, op, impl, mi, ms, reason) -> list of Finding ; ctx carries per-case state and statistics

class Ctx:
    def __init__(self, prop, cfg, known):
        self.prop = prop
        self.cfg = cfg
        self.known = known
        self.stats = {}
        self.known_hits = {}
        self.last_dump = None
        self.skip_case = False
        self.case_label = None
        self.case_state = {}
        self.baselines = {}

    def count(self, key, n=1):
        # (keys are categories, never data: whatever an answer contributes to a key is cut short, and the histogram as a
        # whole stays small - an evidence file is a summary)
        key = key[:64]
        if key not in self.stats and len(self.stats) >= 600 and not key.startswith(("findings_", "known")):
            key = "other"
        self.stats[key] = self.stats.get(key, 0) + n


def same(ctx, idx, op, impl, mi, name):
    if impl != mi:
        return [Finding("correspondence", idx, "implementation and model disagree on `%s`" % op[0], expected=mi, observed=impl, name=name)]
    return []


def judge_c01(ctx, idx, op, impl, mi, ms, reason):
    f = same(ctx, idx, op, impl, mi, "Impl.History/Msg.enc <-> DiameterMessage construction API + encode_to")
    r = kv(reason)
    if op[0] in ("enc", "len"):
        indom = r.get("wf") == "1" and r.get("cons") == "1" and r.get("small") == "1"
        ctx.count("probe_" + op[0] + ("_indomain" if indom else "_outside"))
        if indom:
            want = ("ok " + ms) if op[0] == "enc" else ms
            if impl != want:
                f.append(Finding("property", idx, "encoded octets differ from the independent RFC 6733 encoder" if op[0] == "enc" else "reported length differs from the number of octets of the RFC encoding", expected=want, observed=impl, name="C01_encode_exact"))
    else:
        ctx.count("op_" + op[0] + "_" + (impl.split(" ")[0] if op[0] not in ("dump", "acc") else "answered"))
    return f


def judge_c02(ctx, idx, op, impl, mi, ms, reason):
    f = same(ctx, idx, op, impl, mi, "Impl.decMsg . Impl.Msg.enc <-> decode_from . encode_to")
    if op[0] == "rt":
        r = kv(reason)
        indom = r.get("typed") == "1" and r.get("wf") == "1" and r.get("cons") == "1" and int(r.get("depth", "0")) <= ctx.cfg["limit"]
        ctx.count("rt_indomain" if indom else "rt_outside")
        ctx.count("rt_depth_%s" % r.get("depth"))
        if indom and impl != ms:
            f.append(Finding("property", idx, "decode(encode(m)) differs from m", expected=ms, observed=impl, name="C02_roundtrip"))
    else:
        ctx.count("op_" + op[0] + "_" + impl.split(" ")[0])
    return f


def judge_c03(ctx, idx, op, impl, mi, ms, reason):
    if op[0] == "tables":
        ctx.count("tables")
        f = same(ctx, idx, op, impl, mi, "Tables (probed) <-> CommandCode::from_u32 / ApplicationId::from_u32 (second enumeration over the whole 24-bit / 32-bit space)")
        # the tables are a parameter of the model and may grow; what the pinned commit knew must still be known (the
        # generators build their messages from these codes)
        got = dict(t.split("=", 1) for t in impl.split(" ") if "=" in t)
        pinned = {"cmds": [0, 257, 258, 265, 271, 272, 274, 275, 280, 282, 8388635, 8388636], "apps": [0, 3, 4, 16777236, 16777238, 16777302]}
        for k, want in pinned.items():
            have = set(int(x) for x in got.get(k, "").split(",") if x)
            gone = [x for x in want if x not in have]
            if gone:
                f.append(Finding("correspondence", idx, "the library no longer knows %s %s of the pinned commit: the generators' messages cannot be built" % (k, gone), expected=",".join(map(str, want)), observed=got.get(k, ""), name="Tables (probed) contain the tables of the pinned commit"))
        return f
    if op[0] == "decat":
        # the same frame with the reader positioned somewhere inside a larger buffer: judged exactly as `dec`
        ctx.count("decat")
        op = ["dec", op[2]]
    if op[0] in ("deca", "decg"):
        ctx.count(op[0] + "_" + impl.split(" ")[0])
        return same(ctx, idx, op, impl, mi, "Impl.decAvp / decGroup <-> Avp::decode_from / Grouped::decode_from (public entry points, cursor position)")
    if op[0] != "dec":
        return same(ctx, idx, op, impl, mi, "dictionary set-up")
    r = kv(reason)
    f = []
    full = r.get("full") == "1"
    icls = impl.split(" ")[0]
    scls = ms.split(" ")[0]
    ctx.count("impl_" + icls)
    ctx.count("reason_" + (("ok_lie" + r.get("lie", "?")) if "ok" in r else "e_" + r.get("e", "?")))
    ctx.count("full" if full else "notfull")
    agree = impl == mi
    # classification of a fixed-size length lie (finding F1): accepted by the code and by the model under the probed
    # leniency, rejected by the strict RFC reader, and the only deviation is the lie
    if icls == "ok" and agree and r.get("lie") == "1":
        tys = [t for t in r.get("lieTys", "").split(",") if t]
        listed = set()
        for k in ctx.known:
            if k.get("property") == "C03" and k.get("status") == "known":
                listed.update(k.get("types", []))
        unlisted = [t for t in tys if t not in listed]
        if not unlisted:
            for t in tys:
                ctx.known_hits[t] = ctx.known_hits.get(t, 0) + 1
            ctx.count("known_F1")
            return f
        f.append(Finding("property", idx, "fixed-size type %s accepts a wrong declared length and is not a listed finding" % unlisted, expected=ms, observed=impl, name="C03_faithful"))
        return f
    if not agree:
        f.append(Finding("correspondence", idx, "implementation and model disagree on `dec`", expected=mi, observed=impl, name="Impl.decMsg <-> DiameterMessage::decode_from"))
    if full:
        if icls == "ok":
            # what was returned must be what the RFC reader extracts, and re-encode to the frame up to padding/reserved bits
            if scls != "ok":
                f.append(Finding("property", idx, "accepted a frame the RFC 6733 reader rejects", expected=ms, observed=impl, name="C03_faithful"))
            elif impl.split(" ")[1:4] != ms.split(" ")[1:4]:
                f.append(Finding("property", idx, "returned message or its re-encoding differs from what the octets say", expected=ms, observed=impl, name="C03_faithful"))
        elif icls == "err" and scls == "ok":
            d = kv(ms).get("depth", "0")
            if int(d) <= ctx.cfg["limit"]:
                f.append(Finding("property", idx, "rejected a well-formed frame (known command, application and AVPs)", expected=ms, observed=impl, name="C03_accepts"))
            else:
                ctx.count("refused_too_deep")
        elif icls in ("panic", "abort", "hang"):
            f.append(Finding("property", idx, "decoder did not return", expected=ms, observed=impl, name="C04_no_panic"))
    return f


def judge_c04(ctx, idx, op, impl, mi, ms, reason):
    if op[0] == "envchild":
        ctx.count("envchild_" + impl.split(" ")[0])
        if impl not in ("ok", "err"):
            return [Finding("property", idx, "with %s=%s in the environment of a fresh process, decoding and displaying a well-formed frame ended in `%s`" % (op[1], op[2], impl), expected="ok", observed=impl, name="C04_no_panic")]
        return same(ctx, idx, op, impl, mi, "a well-formed Credit-Control request under the built-in dictionary")
    if op[0] != "decq":
        return same(ctx, idx, op, impl, mi, "dictionary set-up")
    icls = impl.split(" ")[0]
    r = kv(reason)
    ctx.count("impl_" + icls)
    ctx.count("reason_" + ("ok" if "ok" in r else "e_" + r.get("e", "?")))
    if "depth" in r:
        ctx.count("depth_%s" % r["depth"])
    f = []
    if icls not in ("ok", "err"):
        f.append(Finding("property", idx, "decoding (or displaying / inspecting / re-encoding what was returned) ended in `%s`" % icls, expected="ok or err", observed=impl, name="C04_no_panic"))
    elif impl.endswith(" slow"):
        ctx.count("over_time_budget")
        f.append(Finding("property", idx, "decoding (with display, inspection and re-encoding) a frame of %d octets exceeded the time budget of 2 s + 3 s per MiB: not bounded (linear) time" % ((len(op[1]) // 2) if len(op) > 1 else 0), expected="about 0.1 s per MiB", observed=impl, name="C04_fuel"))
    elif impl != mi:
        # Ok-vs-Err is not C04's business (scope discipline); recorded, never an alarm
        ctx.count("class_differs_from_model")
    return f


def judge_c05(ctx, idx, op, impl, mi, ms, reason):
    f = same(ctx, idx, op, impl, mi, "Impl.Msg.enc / encTo <-> DiameterMessage::encode_to on a fault-injecting writer")
    if op[0] in ("ench", "encw"):
        r = kv(reason)
        ok = impl.startswith("ok")
        ctx.count(op[0] + ("_ok" if ok else "_err") + ("" if r.get("rep") == "1" else "_unrepresentable"))
        if op[0] == "encw":
            ctx.count("encw_mode_%s_%s_%s" % (op[2], op[3], op[4]))
            if "total" in r and int(op[1]) < int(r["total"]):
                ctx.count("encw_fault_inside_frame")
        if ok:
            if r.get("rep") != "1":
                f.append(Finding("property", idx, "encoding reports success for a value the wire cannot carry (Time outside the 32-bit 1900-based range, or a length of 2^24 or more)", expected="err", observed=impl, name="C05_range"))
            elif r.get("cons") == "1" and impl != "ok " + ms:
                f.append(Finding("property", idx, "encoding reports success although not every octet of the complete frame was handed to the writer", expected="ok " + ms, observed=impl, name="C05_fault"))
            elif op[0] == "encw" and "total" in r and int(op[1]) < int(r["total"]):
                f.append(Finding("property", idx, "encoding reports success although the writer failed after %s octets" % op[1], expected="err", observed=impl, name="C05_fault"))
    elif op[0] == "encha":
        ctx.count("encha")
        for x, y in zip(impl.split(";"), mi.split(";")):
            if x.startswith("ok") and y == "err":
                f.append(Finding("property", idx, "`Avp::encode_to` reports success for an AVP the wire cannot carry (a length of 2^24 or more)", expected="err", observed=x, name="C05_range"))
                break
            if x.startswith("ok") and x != y:
                f.append(Finding("property", idx, "`Avp::encode_to` reports success but did not produce the AVP's octets", expected=y, observed=x, name="C05_fault"))
                break
    elif op[0] == "senc":
        ctx.count("senc_" + impl.split(" ")[0])
        if mi == "err -" and impl != "err -":
            f.append(Finding("property", idx, "octets of a message that cannot be represented on the wire reached the stream (or the call reported success)", expected="err -", observed=impl[:200], name="C05_codec_nothing_written"))
        elif impl.startswith("ok") and impl != "ok " + ms:
            f.append(Finding("property", idx, "the stream codec reported success but the stream did not receive exactly the message's frame", expected="ok " + ms[:120], observed=impl[:200], name="C05_ok_is_complete"))
    else:
        ctx.count("op_" + op[0] + "_" + impl.split(" ")[0])
    return f


def label_kv(label):
    d = {}
    for t in (label or "").split(" "):
        if "=" in t:
            k, v = t.split("=", 1)
            d[k] = v
    return d


def judge_c06(ctx, idx, op, impl, mi, ms, reason):
    if op[0] == "sdecnt":
        # the same on a runtime without a time driver: judged exactly as `sdec`
        ctx.count("sdecnt")
        op = ["sdec"] + op[1:]
        if impl == "panic":
            return [Finding("property", idx, "on a runtime without a time driver the stream reader panicked", expected=mi, observed=impl, name="C06_read_frame")]
    f = same(ctx, idx, op, impl, mi, "Stream.readExact/Codec.decode/writeAll <-> Codec::decode/encode on scripted streams")
    st = ctx.case_state
    if op[0] == "sdec":
        lab = label_kv(ctx.case_label)
        ctx.count("sdec")
        ctx.count("sdec_events_%d" % min(len(op[2].split(",")), 40))
        toks = op[2].split(",")
        if "i" in toks:
            # a read call fails with `Interrupted` at that point: whatever the calls return, they cannot have taken more
            # than had been delivered by then (a failed read that is started over takes octets twice)
            ctx.count("sdec_interrupted")
            delivered = sum((len(t) - 2) // 2 for t in toks[:toks.index("i")] if t.startswith("d:"))
            used = sum(int(p.rsplit("@", 1)[1]) for p in impl.split(";") if "@" in p and p.rsplit("@", 1)[1].isdigit())
            if used > delivered:
                f.append(Finding("property", idx, "a read that failed with Interrupted after %d delivered octets: %d octets were taken from the stream" % (delivered, used), expected="at most %d" % delivered, observed=impl[-200:], name="C06_read_exact"))
            return f
        key = "base" + op[1]
        if key not in st:
            st[key] = impl
            # the baseline itself: one message per frame, each call consuming exactly its own frame, then end of stream
            if "frames" in lab and op[2].count(",") == 0:
                lens = lab["frames"].split(",")
                parts = impl.split(";")
                n = int(op[1])
                want = lens[:n]
                # (a frame the message decoder refuses counts like any other: the call that meets it takes exactly that frame)
                got = [p.rsplit("@", 1)[1] for p in parts[:len(lens)] if p.startswith("ok:") or p.startswith("err@")]
                if got != want[:len(got)] or len(got) != min(n, len(lens)):
                    f.append(Finding("property", idx, "reading the stream does not yield one message per frame consuming exactly that frame", expected="consumed " + ",".join(want), observed=impl[-200:], name="C06_read_frame"))
        elif impl != st[key]:
            f.append(Finding("property", idx, "the result of reading depends on how the octets are segmented / where Pending is placed", expected=st[key], observed=impl, name="C06_read_independent"))
    elif op[0] == "senc":
        ctx.count("senc")
        wt = op[1].split(",") if len(op) > 1 else []
        if "f" in wt or "a0" in wt or "i" in wt or any(t.startswith("F") for t in wt):
            # the stream fails part way: C06 only asks that the attempt leaves nothing behind for the next write (the
            # lines that follow); what was accepted must be a prefix of the encoding
            ctx.count("senc_failing_stream")
            got = impl.split(" ", 1)[1] if " " in impl else ""
            if impl.startswith("ok") or not ms.startswith(got if got != "-" else ""):
                f.append(Finding("property", idx, "a write over a stream that fails part way reports success, or puts octets on the stream that are not the message's encoding", expected="err <prefix of %s>" % ms[:80], observed=impl[:200], name="C06_write"))
        elif impl != "ok " + ms:
            f.append(Finding("property", idx, "writing over a partially accepting stream does not put exactly the message's encoding on the stream", expected="ok " + ms, observed=impl, name="C06_write"))
    else:
        ctx.count("op_" + op[0])
    return f


def judge_c07(ctx, idx, op, impl, mi, ms, reason):
    if op[0] == "sdecnt":
        ctx.count("sdecnt")
        op = ["sdec"] + op[1:]
        if impl == "panic":
            return [Finding("property", idx, "on a runtime without a time driver the stream reader panicked", expected=mi, observed=impl, name="C07_hostile")]
    f = same(ctx, idx, op, impl, mi, "Stream.Codec.decode <-> Codec::decode on a byte-counting scripted stream")
    if op[0] == "sdecmany":
        ctx.count("sdecmany")
        m = re.match(r"ok=(\d+) consumed=(\d+) hostile=(\S+)$", impl)
        want = "ok=%s .. hostile=err@4,err@4,err@4,err@4" % op[1]
        if not m:
            f.append(Finding("property", idx, "reading %s well-formed frames from one stream and then hostile announcements ended in `%s`" % (op[1], impl[:60]), expected=want, observed=impl[:200], name="C07_hostile"))
        elif m.group(1) != op[1] or m.group(3) != "err@4,err@4,err@4,err@4":
            f.append(Finding("property", idx, "after %s well-formed frames (%s octets) through this process: a well-formed frame was refused, or a hostile announcement was not refused after exactly its 4-octet prefix" % (m.group(1), m.group(2)), expected=want, observed=impl[:200], name="C07_hostile"))
        return f
    if op[0] == "sdec":
        lab = label_kv(ctx.case_label)
        L = int(lab.get("L", "-1"))
        parts = impl.split(";")
        second = lab.get("second") == "1"
        # `second=1`: the announcement under test is the second frame of the stream, behind a well-formed 20-octet one
        first = (parts[1] if len(parts) > 1 else "missing@0") if second else parts[0]
        cls, _, used = first.partition("@")
        cls = cls.split(":")[0]
        ctx.count("L_" + ("lt20" if L < 20 else "gt1MiB" if L > (1 << 20) else "inrange") + "_" + cls + ("_second" if second else ""))
        # how much the script offers at all
        toks = op[2].split(",")
        if "i" in toks:
            # a read call fails with `Interrupted` there: only what was delivered before counts as offered
            toks = toks[:toks.index("i")]
        offered = sum((len(t) - 2) // 2 for t in toks if t.startswith("d:")) - (20 if second else 0)
        bad = None
        if second and not parts[0].startswith("ok:"):
            bad = "the well-formed frame in front of the announcement under test was not read (%s)" % parts[0][:40]
        elif cls not in ("ok", "err"):
            bad = "the stream reader did not return (%s)" % cls
        elif offered >= 4:
            if L > (1 << 20) and not (cls == "err" and used == "4"):
                bad = "a frame announcing more than 1 MiB is not refused after its 4-octet prefix"
            elif L < 20 and cls != "err":
                bad = "a frame announcing less than a Diameter header is not refused"
            elif used.isdigit() and int(used) > max(L, 4):
                bad = "more than max(announced, 4) octets were taken from the stream"
        if bad:
            f.append(Finding("property", idx, bad, expected="see C07", observed=impl[:200], name="C07_hostile"))
    else:
        ctx.count("op_" + op[0])
    return f


def _serve_parts(ans):
    m = re.match(r"calls=\[(.*)\] written=(\S+) end=(\S+)$", ans)
    if not m:
        return None
    calls = [c for c in m.group(1).split(";") if c]
    wr = m.group(2)
    return calls, (0 if wr == "-" else len(wr) // 2), wr, m.group(3)


def judge_c08(ctx, idx, op, impl, mi, ms, reason):
    if op[0] == "lsnpipe":
        # real listener: n pipelined requests with large answers, then one on which the handler fails; the peer reads slowly
        ctx.count("lsnpipe_scenarios")
        kvs = dict(t.split("=", 1) for t in op[1:] if "=" in t)
        m = re.match(r"answers=(\d+) end=(\S+)$", impl)
        if impl.startswith("answers=0 end=no-connection"):
            ctx.count("lsnpipe_no_connection")
            return []
        if not m or int(m.group(1)) != int(kvs.get("n", "0")) or m.group(2) not in ("eof", "reset-after-answers"):
            return [Finding("property", idx, "through the real listener: the answers produced before the handler failed did not all arrive, complete and in order, before the connection ended", expected="answers=%s end=eof" % kvs.get("n"), observed=impl[:200], name="C08_handler_fails")]
        return []
    if op[0] == "servemany":
        ctx.count("servemany")
        f = same(ctx, idx, op, impl, mi, "Server.serve <-> DiameterServer::process_incoming_message (one connection, very many requests)")
        m = re.match(r"calls=(\d+) consumed=(\d+) written=(\d+) end=(\S+)$", impl)
        if not m or m.group(1) != op[1] or m.group(4) != "done" or impl != mi:
            f.append(Finding("property", idx, "one connection carrying %s well-formed requests: not every request was handled and answered (%s)" % (op[1], impl[:80]), expected=mi, observed=impl[:200], name="C08_all_good"))
        return f
    if op[0] == "lsn":
        # the same loop behind the real listeners (plain TCP / TLS): every request answered, in order, to its connection
        f = judge_c10(ctx, idx, op, impl, mi, ms, reason)
        for x in f:
            if x.kind == "property":
                x.name = "C08_all_good"
                x.msg = "through the real listener: " + x.msg
        return f
    f = same(ctx, idx, op, impl, mi, "Server.serve <-> DiameterServer::process_incoming_message (verif_serve_stream)")
    if op[0] != "serve":
        ctx.count("op_" + op[0])
        return f
    lab = label_kv(ctx.case_label)
    p = _serve_parts(impl)
    if p is None:
        f.append(Finding("property", idx, "the connection's task did not complete (%s)" % impl[:40], expected="calls=.. written=.. end=done", observed=impl[:200], name="C09_no_panic"))
        return f
    calls, wlen, wr, end = p
    rl = [int(x) for x in lab.get("reqlens", "").split(",") if x]
    al = [int(x) for x in lab.get("anslens", "").split(",") if x]
    n = len(rl)
    bad = None
    is_good = False
    if end != "done":
        bad = "the connection's task did not end properly: end=%s" % end
    elif "herr" in lab:
        k = int(lab["herr"])
        ctx.count("serve_herr")
        if len(calls) != k + 1 or wlen != sum(al[:k]):
            bad = "after a handler failure at position %d: %d calls, %d octets written (expected %d calls, %d octets)" % (k, len(calls), wlen, k + 1, sum(al[:k]))
    elif "unencodable" in lab:
        k = int(lab["unencodable"])
        ctx.count("serve_unencodable")
        if len(calls) != k + 1 or wlen != sum(al[:k]):
            bad = "answer %d cannot be encoded: %d calls, %d octets written (expected %d calls, %d octets: nothing of a frame that cannot be produced)" % (k, len(calls), wlen, k + 1, sum(al[:k]))
    elif "bad" in lab:
        k = int(lab["bad"])
        ctx.count("serve_malformed_kind" + lab.get("kind", "?"))
        if len(calls) != k or wlen != sum(al[:k]):
            bad = "after a malformed frame at position %d: %d calls, %d octets written (expected %d calls, %d octets)" % (k, len(calls), wlen, k, sum(al[:k]))
    elif "readcut" in lab and "writecut" in lab:
        # both at once: requests that arrived completely are handled one after the other until a write fails
        pcut, q = int(lab["readcut"]), int(lab["writecut"])
        kr, acc = 0, 0
        for l in rl:
            if acc + l <= pcut:
                acc += l
                kr += 1
            else:
                break
        want_calls, acc = 0, 0
        for i in range(kr):
            want_calls = i + 1
            acc += al[i]
            if acc > q:
                break
        want_w = min(q, sum(al[:want_calls]))
        ctx.count("serve_bothcut")
        if len(calls) != want_calls or wlen != want_w:
            bad = "stream cut at offset %d and write failure at offset %d: %d handler calls, %d octets written (expected %d calls, %d octets)" % (pcut, q, len(calls), wlen, want_calls, want_w)
    elif "readcut" in lab:
        pcut = int(lab["readcut"])
        k = 0
        acc = 0
        for l in rl:
            if acc + l <= pcut:
                acc += l
                k += 1
            else:
                break
        ctx.count("serve_readcut")
        if len(calls) != k or wlen != sum(al[:k]):
            bad = "stream cut at offset %d: %d handler calls, %d octets written (expected %d calls for the requests that arrived completely, %d octets)" % (pcut, len(calls), wlen, k, sum(al[:k]))
    elif "writecut" in lab:
        q = int(lab["writecut"])
        k = 0
        acc = 0
        for l in al:
            if acc + l <= q:
                acc += l
                k += 1
            else:
                break
        want_calls = min(k + 1, n)
        want_w = min(q, sum(al))
        ctx.count("serve_writecut")
        if len(calls) != want_calls or wlen != want_w:
            bad = "write failure at offset %d: %d handler calls, %d octets written (expected %d calls, %d octets)" % (q, len(calls), wlen, want_calls, want_w)
    else:
        is_good = True
        ctx.count("serve_good")
        if len(calls) != n or wlen != sum(al):
            bad = "%d requests: %d handler calls, %d octets written (expected %d)" % (n, len(calls), wlen, sum(al))
        else:
            # the same requests and answers under another segmentation must give the same calls and octets
            key = lab.get("corpus", "") + "/" + lab.get("reqlens", "") + "/" + lab.get("anslens", "")
            base = ctx.baselines.get(key)
            if base is None:
                ctx.baselines[key] = (calls, wr)
            elif base != (calls, wr):
                bad = "handler calls or octets written depend on segmentation / Pending placement"
    # whatever was written must be (a prefix of) the handler's answers as RFC 6733 encodes them - the spec column
    spec = "" if ms in ("-", "") else ms
    got = "" if wr in ("-", "") else wr
    if not bad and not spec.startswith(got):
        bad = "the octets written are not (a prefix of) the handler's answers, unmodified and in order"
    elif not bad and is_good and got != spec:
        bad = "the octets written are not exactly the handler's answers"
    if bad:
        f.append(Finding("property", idx, bad, expected=(spec[:200] if "octets written are not" in bad else mi[-200:]), observed=(got[:200] if "octets written are not" in bad else impl[-200:]), name="C08_all_good" if ctx.prop == "C08" else "C09_read_cut"))
    return f


def cli_model_input(line, impl_answer):
    """the model replays the trace the implementation produced (second phase of the client checks)"""
    if line.startswith("clim "):
        t = line.split(" ")
        m = re.match(r"trace=(\S+) res=(\S+) stopped=(\S+)$", impl_answer)
        if not m:
            return "ctracem - -"
        return "ctracem %s %s" % (m.group(1), t[2])
    if not line.startswith("cli "):
        return line
    t = line.split(" ")
    m = re.match(r"trace=(\S+) res=(\S+) stopped=(\d) late=(\S+?)(?: wrote=(\S+))?$", impl_answer)
    if not m:
        return "ctrace - -"
    return "ctrace %s %s" % (m.group(1), t[4])


def judge_ctcp(ctx, idx, op, impl, mi, ms, reason):
    """randomised multi-threaded runs over real TCP through connect(): outcome only (supporting evidence)"""
    f = []
    lab = label_kv(" ".join(op[1:]))
    ctx.count("tcp_scenarios")
    if impl.startswith("skipped"):
        return f
    if impl != mi:
        f.append(Finding("correspondence", idx, "real-TCP client run differs from the outcome the model predicts", expected=mi, observed=impl, name="Client model <-> DiameterClient::connect/handle/send_message over loopback TCP (outcome)"))
    res = impl[4:].split(",") if impl.startswith("res=") else []
    n = int(lab.get("n", "0"))
    base = (int(lab.get("id", "0")) * 1000 + 17) % (1 << 32)
    seen = set()
    for i, rv in enumerate(res):
        if rv.startswith("got:"):
            _, h, e = rv.split(":")
            if int(h) != (base + i) % (1 << 32):
                f.append(Finding("property", idx, "over TCP: the future of request %d received an answer with another hop-by-hop id (%s)" % (i, h), expected="got:%d:*" % ((base + i) % (1 << 32)), observed=rv, name="C11_safety"))
            if e in seen:
                f.append(Finding("property", idx, "over TCP: one answer delivered to two futures", expected="at most once", observed=impl, name="C11_once"))
            seen.add(e)
        elif rv == "pending":
            f.append(Finding("property", idx, "over TCP: a response future is still pending 8 s after the peer %s" % ("closed the connection" if lab.get("cut", "-") != "-" else "answered"), expected="answer or error", observed=impl, name="C12_stopped"))
    if lab.get("cut", "-") == "-" and (len(res) != n or any(not rv.startswith("got:") for rv in res)):
        f.append(Finding("property", idx, "over TCP: a request the peer answered did not get its answer", expected=mi, observed=impl, name="C11_delivery"))
    elif mi.startswith("res="):
        # with a cut: the answers the peer had sent completely before it belong to their futures all the same
        pred = mi[4:].split(",")
        for i, pv in enumerate(pred):
            if pv.startswith("got:") and i < len(res) and not res[i].startswith("got:") and res[i] != "pending":
                f.append(Finding("property", idx, "over TCP: the peer sent the complete answer to request %d before the connection ended, its future completed with `%s`" % (i, res[i]), expected=pv, observed=res[i], name="C12_multi_delivery_enabled"))
                break
    return f


def _fnv(b):
    h = 14695981039346656037
    for x in b:
        h = ((h ^ x) * 1099511628211) & 0xFFFFFFFFFFFFFFFF
    return h


def _cli_request(h, ln):
    """the request the harness builds for `h:len` (CCR, application 4, flags 0x80, end-to-end id h+1000, one OctetString
    AVP 12 of `ln` octets 0x55): its RFC 6733 encoding, written down here independently"""
    padn = (4 - ln % 4) % 4
    total = 20 + 8 + ln + padn
    out = bytes([1]) + total.to_bytes(3, "big") + bytes([0x80]) + (272).to_bytes(3, "big") + (4).to_bytes(4, "big")
    out += (h & 0xFFFFFFFF).to_bytes(4, "big") + ((h + 1000) & 0xFFFFFFFF).to_bytes(4, "big")
    out += (12).to_bytes(4, "big") + bytes([0]) + (8 + ln).to_bytes(3, "big") + b"\x55" * ln + b"\0" * padn
    return out


def cli_written_check(ctx, idx, op, m):
    """what the client put on the stream is exactly the encodings of the requests whose send returned Ok, in order -
    nothing of a request that could not be encoded, nothing left over from an earlier attempt"""
    if not m.group(5):
        return []
    trace = [] if m.group(1) == "-" else m.group(1).split(",")
    plan = []
    if op[1] != "-":
        for t in op[1].split(","):
            p = t.split(":")
            plan.append((int(p[0]), int(p[1]), len(p) > 3 and p[3] == "b"))
    late = op[5].lstrip("c") if len(op) > 5 else "-"
    if late not in ("-", "", "D"):
        plan.append((int(late), 0, False))
    # per send: result and the octets accepted while it was in progress
    cur, acc, rets = None, {}, {}
    for e in trace:
        p = e.split(":")
        if p[0] == "sb":
            cur = int(p[1])
            acc[cur] = 0
        elif p[0] == "wr" and cur is not None:
            acc[cur] = acc.get(cur, 0) + int(p[1])
        elif p[0] == "ret":
            rets[int(p[1])] = p[2]
            cur = None
    want = b""
    for i, (h, ln, bad) in enumerate(plan):
        if i not in rets:
            continue
        if rets[i] == "ok":
            want += _cli_request(h, ln)
        elif acc.get(i, 0) != 0:
            ctx.count("written_check_skipped_partial_write")
            return []
    ctx.count("written_check")
    got = m.group(5)
    exp = "%d:%d" % (len(want), _fnv(want))
    if got != exp:
        return [Finding("property", idx, "the octets the client put on the stream are not exactly the encodings of the requests it reported as sent (a request that failed, or an earlier attempt, left something behind - the peer loses framing and no later answer can be matched)", expected="wrote=" + exp, observed="wrote=" + got, name="C11_delivery")]
    return []


def judge_clim(ctx, idx, op, impl, mi, ms, reason):
    """one client object, several connections: trace conformance with `Dia.Cm`, and C11 / C12 evaluated on what the
    implementation itself reported"""
    f = []
    m = re.match(r"trace=(\S+) res=(\S+) stopped=(\S+)$", impl)
    if not m:
        return [Finding("property", idx, "the multi-connection client scenario did not complete (%s)" % impl[:60], expected="trace=.. res=..", observed=impl[:200], name="C12_multi_stopped")]
    trace = [] if m.group(1) == "-" else m.group(1).split(",")
    res = [] if m.group(2) == "-" else m.group(2).split(",")
    stopped = m.group(3)
    ctx.count("multi_scenarios")
    for e in trace:
        ctx.count("mev_" + e.split(":")[0].split("@")[0])
    if mi.startswith("reject"):
        f.append(Finding("correspondence", idx, "the observed event trace is not a run of the multi-connection client model: " + mi, expected="accept", observed=mi, name="Cm.step <-> connect / send_message / handle on several connections of one client (trace conformance)"))
    else:
        pred = mi.split(" ")[1]
        obs = ",".join(res) if res else "-"
        pl, ol = pred.split(","), obs.split(",")
        if len(pl) != len(ol) or any(a != b and b != "none" for a, b in zip(pl, ol)):
            f.append(Finding("correspondence", idx, "future values differ from what the multi-connection model predicts for the observed trace", expected=pred, observed=obs, name="Cm.step <-> connect / send_message / handle on several connections of one client (outcome)"))
    r = kv(ms)
    ctx.count("multi_polite_%s" % r.get("polite"))
    regs = [e.split(":")[1] for e in trace if e.startswith("reg:")]
    answers = [a for part in op[2].split(";") for a in part.split(",") if a and a != "-"]
    any_stopped = "1" in stopped
    seen = set()
    for w, rv in enumerate(res):
        if rv.startswith("got:"):
            _, h, uid = rv.split(":")
            ctx.count("multi_future_got")
            if w < len(regs) and regs[w] != h:
                f.append(Finding("property", idx, "future of the request with hop-by-hop id %s completed with an answer carrying id %s" % (regs[w], h), expected="got:%s:*" % regs[w], observed=rv, name="C11_multi_safety"))
            if "%s:%s" % (h, uid) not in answers:
                f.append(Finding("property", idx, "a future received a message no peer sent (%s)" % rv, expected="one of " + ",".join(answers), observed=rv, name="C11_multi_safety"))
            if uid in seen:
                f.append(Finding("property", idx, "one answer was delivered to more than one future (%s)" % rv, expected="at most once", observed=",".join(res), name="C11_multi_one_deliverer"))
            seen.add(uid)
        elif rv == "pending":
            ctx.count("multi_future_pending")
            if any_stopped:
                f.append(Finding("property", idx, "a response future is still pending although the reader of one of the client's connections has stopped (the table is closed: nobody can complete it any more)", expected="err or answer", observed=",".join(res) + " stopped=" + stopped, name="C12_multi_stopped"))
        elif rv == "err":
            ctx.count("multi_future_err")
    return f


def judge_cli(ctx, idx, op, impl, mi, ms, reason):
    if op[0] == "clim":
        return judge_clim(ctx, idx, op, impl, mi, ms, reason)
    if op[0] == "cliswitch":
        # two connections on one client object; the first one's reader stops with a request outstanding
        ctx.count("switch_scenarios")
        f = same(ctx, idx, op, impl, mi, "Client model (one table per client object) <-> two verif_attach_stream calls on one DiameterClient")
        if "first=pending" in impl:
            f.append(Finding("property", idx, "the reader of the connection the request was sent on has stopped, its response future is still pending", expected="first=err", observed=impl, name="C12_stopped"))
        return f
    if op[0] == "ctcp":
        return judge_ctcp(ctx, idx, op, impl, mi, ms, reason)
    if op[0] == "cliflood":
        # the code at a very large number of waiters; no model run (the theorems hold for any number)
        ctx.count("flood_scenarios")
        m = re.match(r"pending=(\d+) got=(\d+) late=(\S+)$", impl)
        if not m:
            return [Finding("property", idx, "with %s requests outstanding: %s" % (op[1], impl[:120]), expected=ms, observed=impl[:200], name="C12_stopped")]
        f = []
        if m.group(1) != "0":
            f.append(Finding("property", idx, "%s of %s response futures are still pending after the reader has stopped" % (m.group(1), op[1]), expected=ms, observed=impl, name="C12_stopped"))
        if m.group(2) != "0":
            f.append(Finding("property", idx, "a future received a message the peer did not send", expected=ms, observed=impl, name="C11_safety"))
        if "hang" in m.group(3) or "answered" in m.group(3):
            f.append(Finding("property", idx, "a send attempted after the reader has stopped (after %s outstanding requests) neither fails nor yields a future that fails" % op[1], expected=ms, observed=impl, name="C12_send_after_stop"))
        return f
    if op[0] != "cli":
        return same(ctx, idx, op, impl, mi, "dictionary set-up")
    f = []
    lab = label_kv(ctx.case_label)
    m = re.match(r"trace=(\S+) res=(\S+) stopped=(\d) late=(\S+?)(?: wrote=(\S+))?$", impl)
    if not m:
        f.append(Finding("property", idx, "the client scenario did not complete (%s)" % impl[:60], expected="trace=.. res=..", observed=impl[:200], name="C12_stopped"))
        return f
    f += cli_written_check(ctx, idx, op, m)
    trace = [] if m.group(1) == "-" else m.group(1).split(",")
    res = [] if m.group(2) == "-" else m.group(2).split(",")
    stopped = m.group(3) == "1"
    late = m.group(4)
    ctx.count("scenarios")
    ctx.count("trace_len_%d" % min(len(trace) // 10 * 10, 100))
    for e in trace:
        ctx.count("ev_" + e.split(":")[0])
    # --- correspondence: the observed trace must be a run of the transition system, with the statuses it predicts
    if mi.startswith("reject"):
        f.append(Finding("correspondence", idx, "the observed event trace is not a run of the client model: " + mi, expected="accept", observed=mi, name="Client.step <-> send_message / handle / process_decoded_msg (trace conformance)"))
    else:
        pred = mi.split(" ")[1]
        obs = ",".join(res) if res else "-"
        # futures that were never handed out (send failed after registering) are not compared
        pl, ol = pred.split(","), obs.split(",")
        if len(pl) != len(ol) or any(a != b and b != "none" for a, b in zip(pl, ol)):
            f.append(Finding("correspondence", idx, "future values differ from what the model predicts for the observed trace", expected=pred, observed=obs, name="Client.step <-> send_message / handle / process_decoded_msg (outcome)"))
        r = kv(ms)
        ctx.count("polite_%s" % r.get("polite"))
    # --- the properties, evaluated on the implementation's own observations
    regs = [e.split(":")[1] for e in trace if e.startswith("reg:")]
    answers = op[4].split(",") if op[4] != "-" else []
    seen = set()
    for w, rv in enumerate(res):
        if rv.startswith("got:"):
            _, h, uid = rv.split(":")
            ctx.count("future_got")
            if w < len(regs) and regs[w] != h:
                f.append(Finding("property", idx, "future of the request with hop-by-hop id %s completed with an answer carrying id %s" % (regs[w], h), expected="got:%s:*" % regs[w], observed=rv, name="C11_safety"))
            if "%s:%s" % (h, uid) not in answers:
                f.append(Finding("property", idx, "a future received a message the peer did not send (%s)" % rv, expected="one of " + ",".join(answers), observed=rv, name="C11_safety"))
            if uid in seen:
                f.append(Finding("property", idx, "one answer was delivered to more than one future (%s)" % rv, expected="at most once", observed=",".join(res), name="C11_once"))
            seen.add(uid)
        elif rv == "pending":
            ctx.count("future_pending")
            if stopped:
                f.append(Finding("property", idx, "a response future is still pending although the reader has stopped", expected="err or answer", observed=",".join(res), name="C12_stopped"))
            elif lab.get("silent") != "1":
                f.append(Finding("property", idx, "a response future is pending and the reader never stopped although the peer closed / sent something undecodable", expected="err or answer", observed=",".join(res), name="C12_stopped"))
        elif rv == "err":
            ctx.count("future_err")
    if "complete" in lab:
        # the stream ended inside an answer: what had not arrived completely was not sent, and no future may hold it
        ngot = sum(1 for rv in res if rv.startswith("got:"))
        if ngot > int(lab["complete"]):
            f.append(Finding("property", idx, "%d futures hold an answer although only %s answers had arrived completely when the stream ended: a message the peer did not (completely) send was delivered" % (ngot, lab["complete"]), expected="at most %s answers" % lab["complete"], observed=",".join(res), name="C11_safety"))
    if lab.get("expect") == "good":
        # one of the requests could not be encoded (its send failed); every other request was answered
        sent = [rv for rv in res if rv != "none"]
        ctx.count("badsend_scenarios")
        if any(not rv.startswith("got:") for rv in sent) or len(sent) != len(op[1].split(",")) - 1:
            f.append(Finding("property", idx, "a request that the peer answered did not get its answer (another request of the same client could not be encoded)", expected="every request that was sent got its answer", observed=",".join(res), name="C11_delivery"))
    if lab.get("expect") == "all":
        # polite scenario, every request answered: every future must hold its own answer
        if any(not rv.startswith("got:") for rv in res) or len(res) != len(op[1].split(",")):
            f.append(Finding("property", idx, "a request that the peer answered did not get its answer", expected="every future got its answer", observed=",".join(res), name="C11_delivery"))
    if not stopped and lab.get("silent") != "1":
        f.append(Finding("property", idx, "the reader task did not stop although the connection ended", expected="stopped", observed="running", name="C12_stopped"))
    if late != "none":
        ctx.count("late_" + late.split(":")[0] + ("_" + late.split(":")[1] if ":" in late else ""))
        if stopped and late not in ("err", "fut:err"):
            f.append(Finding("property", idx, "a send attempted after the reader stopped neither failed nor yielded a failing future (%s)" % late, expected="err or fut:err", observed=late, name="C12_send_after_stop"))
    return f


def judge_c10(ctx, idx, op, impl, mi, ms, reason):
    if op[0] != "lsn":
        return same(ctx, idx, op, impl, mi, "set-up")
    f = same(ctx, idx, op, impl, mi, "Accept (listener transition system) <-> DiameterServer::listen over loopback TCP")
    lab = label_kv(" ".join(op[1:]))
    ctx.count("scenario_%s_%s_tls%s" % (lab.get("fault"), lab.get("when"), lab.get("tls")))
    m = re.match(r"clients=(\S*) astray=(\d+) late=(\d+)$", impl)
    if not m:
        f.append(Finding("property", idx, "the listener scenario did not complete (%s)" % impl[:60], expected=mi, observed=impl[:200], name="C10_accept_enabled"))
        return f
    per = [int(x) for x in m.group(1).split(",") if x]
    reqs = int(lab.get("reqs", "0"))
    bad = None
    if int(m.group(2)) > 0:
        bad = "an answer was written to a connection that did not carry its request (%s astray)" % m.group(2)
    elif any(x != reqs for x in per) or len(per) != int(lab.get("good", "0")):
        bad = "a well-behaved connection did not receive all its answers while another peer misbehaved (%s of %d each)" % (m.group(1), reqs)
    elif int(m.group(3)) != 2:
        bad = "a connection opened after the fault was not served: the listener stopped accepting"
    if bad:
        f.append(Finding("property", idx, bad, expected=mi, observed=impl, name="C10_answers_routed" if "astray" in bad else "C10_accept_enabled"))
    return f


def judge_c13(ctx, idx, op, impl, mi, ms, reason):
    if op[0] == "tlsq":
        # a sequence of cells in one fresh process: every cell is judged as a cell of the table
        cells = op[1].split(";")
        ia, ma, sa = impl.split(" ; "), mi.split(" ; "), ms.split(";")
        ctx.count("sequences")
        if len(ia) != len(cells) or len(ma) != len(cells) or len(sa) != len(cells):
            return [Finding("property", idx, "a sequence of connections in one process did not complete (%s)" % impl[:60], expected=mi, observed=impl, name="C13_table")]
        f = []
        for k, c in enumerate(cells):
            for x in judge_c13(ctx, idx, ["tls"] + c.split(","), ia[k], ma[k], sa[k], reason):
                x.msg = "connection %d of a sequence in one process (%s): %s" % (k + 1, c, x.msg)
                f.append(x)
        return f
    if op[0] == "tlsrude":
        # TLS on, and a peer that makes the handshake fail: the client refuses to proceed and says nothing in clear text,
        # on this connection or on any other
        ctx.count("rude_peers")
        f = same(ctx, idx, op, impl, mi, "Tls (a failed handshake is a refusal) <-> DiameterClient::connect against a peer that breaks the handshake")
        if impl.startswith("skipped"):
            return []
        r = kv(impl)
        if not impl.startswith("refused") or r.get("clear") != "0":
            f.append(Finding("property", idx, "with TLS enabled and the handshake failing, the client proceeded or put Diameter octets on a socket in clear text", expected="refused clear=0", observed=impl, name="C13_no_cleartext"))
        return f
    if op[0] == "tlsre":
        if impl.startswith("skipped"):
            return []
        ctx.count("reconnect_" + impl.replace(" ", "_"))
        f = same(ctx, idx, op, impl, mi, "Tls.outcome per connection <-> two connect() calls of one client object")
        if impl != ms:
            f.append(Finding("property", idx, "one client object, two connections: outcomes `%s` where configuration and certificates demand `%s` (what the object met on an earlier connection decides nothing)" % (impl, ms), expected=ms, observed=impl, name="C13_table"))
        return f
    if op[0] != "tls":
        return same(ctx, idx, op, impl, mi, "set-up")
    if impl.startswith("skipped"):
        ctx.count("skipped_no_ipv6")
        return []
    lab = label_kv(" ".join(op[1:]))
    if lab.get("spell", "0") != "0":
        # an address spelling the library does not take: refusing it is fine; if it is taken, the configuration decides
        ctx.count("spell_" + impl.split(" ")[0])
        r = kv(impl)
        bad = None
        if lab.get("ctls") == "1" and r.get("clear") == "1":
            bad = "with TLS enabled the client put Diameter octets on the socket in clear text (address spelled as a DiameterURI)"
        elif lab.get("stls") == "1" and lab.get("ctls") == "0" and (r.get("served") == "1" or r.get("answered") == "1"):
            bad = "a server configured with a TLS identity processed / answered a plain-text request"
        elif not impl.startswith("refused") and impl.split(" ")[0] != ms:
            bad = "outcome `%s` where the configuration demands `%s` (or a refusal of the address): the spelling of the address decided how the connection is protected" % (impl.split(" ")[0], ms)
        return [Finding("property", idx, bad, expected=ms + " or refused", observed=impl, name="C13_table")] if bad else []
    f = same(ctx, idx, op, impl, mi, "Tls.outcome (decision glue + assumed TLS library) <-> DiameterClient::connect / DiameterServer::listen")
    cls = impl.split(" ")[0]
    r = kv(impl)
    ctx.count("cell_" + cls)
    bad = None
    if lab.get("ctls") == "1" and r.get("clear") == "1":
        bad = "with TLS enabled the client put Diameter octets on the socket in clear text"
    elif lab.get("stls") == "1" and lab.get("ctls") == "0" and (r.get("served") == "1" or r.get("answered") == "1"):
        bad = "a server configured with a TLS identity processed / answered a plain-text request"
    elif cls != ms:
        bad = "outcome `%s` where the configuration demands `%s`" % (cls, ms)
    if bad:
        f.append(Finding("property", idx, bad, expected=ms, observed=impl, name="C13_table"))
    return f


def judge_c14(ctx, idx, op, impl, mi, ms, reason):
    if op[0] == "dbyname":
        # any live definition carrying the name is a correct answer (membership, not identity)
        live = [x for x in ms[len("live:"):].split(";") if x] if ms.startswith("live:") else []
        ctx.count("dbyname_live%d" % min(len(live), 3))
        if impl == "none":
            if live:
                return [Finding("property", idx, "lookup by name returns nothing although a live definition carries the name", expected="one of " + ";".join(live), observed=impl, name="C14_by_name_iff")]
        elif impl not in live:
            return [Finding("property", idx, "lookup by name returns a definition that is not live (or does not carry the name)", expected="one of " + ";".join(live) if live else "none", observed=impl, name="C14_by_name_live")]
        return []
    f = same(ctx, idx, op, impl, mi, "Dict (ordered map model) <-> Dictionary")
    if op[0] in ("dget", "dapp", "dcmd"):
        ctx.count(op[0] + ("_none" if impl.startswith("none") else "_some"))
        if f:
            f[0].kind = "property"
            f[0].name = "C14_get" if op[0] == "dget" else "C14_app_declared"
            f[0].msg = "`%s` does not return the most recently supplied definition for exactly that key" % " ".join(op)
    else:
        ctx.count("op_" + op[0])
    return f


def judge_c15(ctx, idx, op, impl, mi, ms, reason):
    if op[0] == "dbyname":
        return judge_c14(ctx, idx, op, impl, mi, ms, reason)
    if op[0] == "dec":
        f = judge_c03(ctx, idx, op, impl, mi, ms, reason)
        for x in f:
            if x.kind == "property":
                if impl.startswith("ok"):
                    x.name = "C15_reject"
                    x.msg = "an AVP without a dictionary entry for its exact (code, vendor) pair, or with an entry of unrecognised type, was accepted (" + x.msg + ")"
                else:
                    x.name = "C15_variant"
                    x.msg = "an AVP whose exact dictionary entry declares a recognised type was refused (" + x.msg + ")"
        return f
    if op[0] == "rt":
        f = judge_c02(ctx, idx, op, impl, mi, ms, reason)
        for x in f:
            if x.kind == "property":
                x.name = "C15_usable"
                x.msg = "a shipped definition with a recognised type cannot encode and decode a value of its declared type"
        return f
    f = same(ctx, idx, op, impl, mi, "Dict.loadDoc/tyOfName <-> parse()")
    lab = label_kv(ctx.case_label)
    if op[0] == "dget" and (ctx.case_label or "").split(" ")[2:3] == ["element"]:
        ctx.count("shipped_element")
        want = "%s,%s,%s,%s,%s" % (op[1], op[2], lab.get("name", ""), lab.get("ty", ""), lab.get("m", ""))
        if impl != want:
            f.append(Finding("property", idx, "a definition of a shipped dictionary does not load: the document declares (%s) but the loaded dictionary has (%s) under that key" % (want, impl), expected=want, observed=impl, name="C15_names"))
        return f
    if op[0] == "dget":
        ctx.count("dget_" + (impl.split(",")[3] if "," in impl else impl))
        if f:
            f[0].kind = "property"
            f[0].name = "C15_names"
            f[0].msg = "`%s`: the entry for this exact (code, vendor) pair is not the one the document declares" % " ".join(op)
    return f


def judge_c16(ctx, idx, op, impl, mi, ms, reason):
    if op[0] == "fbyname":
        # by-name construction through a copy of the dictionary kept earlier: it answers from what the copy holds
        ctx.count("fbyname_" + impl.split(":")[0])
        if mi == "ok:*":
            ok = impl.startswith("ok:")
        else:
            ok = impl == mi
        if not ok:
            return [Finding("property", idx, "a copy of the dictionary taken earlier does not answer a by-name construction from what IT holds (the current dictionary has changed since)", expected=mi, observed=impl, name="C16_which")]
        return []
    label = ctx.case_label or ""
    st = ctx.case_state
    r = kv(reason)
    ambiguous_now = op[0] in ("add_by_name", "avp_name") and int(r.get("n", "0") or 0) > 1
    if ambiguous_now:
        # several live definitions carry the name: any of them is a correct pick (C14); the model's pick (first in key
        # order) is not imposed on the code, and what was built from the pick is not compared until the next `new`
        st["ambiguous"] = True
    if op[0] == "new":
        st.pop("ambiguous", None)
    if st.get("ambiguous") and op[0] in ("add_by_name", "avp_name", "dump", "enc", "len", "add", "rt"):
        f = []
        if op[0] in ("add_by_name", "avp_name") and impl.split(" ")[0] != mi.split(" ")[0]:
            f = same(ctx, idx, op, impl, mi, "Impl.Avp.fromName/Msg.addByName <-> Avp::from_name/add_avp_by_name")
    else:
        f = same(ctx, idx, op, impl, mi, "Impl.Avp.fromName/Msg.addByName <-> Avp::from_name/add_avp_by_name")
    if op[0] in ("add_by_name", "avp_name"):
        ctx.count(op[0] + "_" + impl + ("_ambiguous" if ambiguous_now else ""))
        if impl == "ok" and ms.startswith("def:") and ms != "def:none":
            live = [x.split(",") for x in r.get("live", "").split(";") if x]
            st["expect_defs"] = live if live else [ms[4:].split(",")]
        if impl == "ok" and ms == "def:none":
            f.append(Finding("property", idx, "building an AVP by a name the dictionary does not contain succeeded", expected="err", observed=impl, name="C16_unknown"))
        if impl == "err":
            if ms != "def:none":
                f.append(Finding("property", idx, "building an AVP by a name the dictionary contains failed", expected="ok", observed=impl, name="C16_from_name"))
            elif (label.split(" ")[2:3] == ["element"]):
                # the name is declared by an <avp> element of a shipped document (whatever came later in that document)
                f.append(Finding("property", idx, "a name that a shipped dictionary declares (%s) cannot be used to build an AVP" % " ".join(label.split(" ")[3:]), expected="ok", observed=impl, name="C16_from_name"))
            st["frozen"] = dict(st.get("seen", {}))
    elif op[0] in ("enc", "len", "dump"):
        if "frozen" in st and not st.get("moved"):
            # after a failed by-name addition: the AVP list, reported length and encoding are exactly as before
            want = st["frozen"].get(op[0])
            ctx.count("unchanged_check")
            if want is not None and impl != want:
                f.append(Finding("property", idx, "a failed add_avp_by_name changed the message (`%s` differs)" % op[0], expected=want, observed=impl, name="C16_unknown"))
        st.setdefault("seen", {})[op[0]] = impl
        if op[0] == "dump" and "expect_defs" in st:
            ds = st.pop("expect_defs")
            m = parse_msg(impl)
            ctx.count("byname_dump_check")
            if m and m["avps"]:
                a = m["avps"][-1]
                wants = [(d[0], d[1], ("1" if d[1] != "-" else "0") + d[4] + "0") for d in ds]
                got = (a["code"], a["vendor"], a["vmp"])
                if got not in wants:
                    f.append(Finding("property", idx, "AVP built by name does not carry the code / vendor id / V bit / M flag the dictionary declares for that name", expected=str(wants), observed=str(got), name="C16_from_name"))
        if op[0] == "enc" and " twin " in " " + label + " " and not st.get("ambiguous"):
            st.setdefault("encs", []).append(impl)
            if len(st["encs"]) == 2:
                ctx.count("twin_check")
                if st["encs"][0] != st["encs"][1]:
                    f.append(Finding("property", idx, "the AVP built by name encodes differently from the same AVP built from explicit numbers", expected=st["encs"][1], observed=st["encs"][0], name="C16_from_name"))
    else:
        if "frozen" in st and op[0] in ("add", "add_avp", "decode", "new", "reencode"):
            st["moved"] = True
        ctx.count("op_" + op[0])
    return f


def judge_c17(ctx, idx, op, impl, mi, ms, reason):
    f = same(ctx, idx, op, impl, mi, "Impl.ofFixed/Value.enc <-> <type>::decode_from/value()/encode_to")
    ctx.count(op[0] + "_" + (op[1] if len(op) > 1 else ""))
    if op[0] in ("sweep", "psweep"):
        ctx.count("values_swept", int(op[3]))
    if f and op[0] == "psweep":
        f[0].kind = "property"
        f[0].name = "C17_" + op[1]
        f[0].msg = "%s: values decoded and re-encoded by %s threads at the same moment do not all mean what their octets say (checksums per block differ from the single-threaded ones)" % (op[1], op[5])
    if f and op[0] == "fx":
        f[0].kind = "property"
        f[0].name = "C17_" + op[1]
        f[0].msg = "%s: decoding %s and re-encoding gives `%s`, RFC 6733 says `%s`" % (op[1], op[2], impl, mi)
    return f


def wire_walk(b, nodes, exact):
    """independent walk over the AVPs in `b` (RFC 6733 section 4.1 framing only): do the dumped AVPs `nodes` appear with
    the same code, vendor and length in the same order (recursively for the AVPs the dump shows as groups)?
    `exact`: the octets must hold exactly these AVPs; otherwise `nodes` may continue beyond them (AVPs added later)."""
    off = 0
    k = 0
    while off + 8 <= len(b):
        if k >= len(nodes):
            return "the wire carries more AVPs than the accessor lists"
        code = int.from_bytes(b[off:off + 4], "big")
        fl = b[off + 4]
        ln = int.from_bytes(b[off + 5:off + 8], "big")
        hl = 12 if fl & 0x80 else 8
        if ln < hl or off + ln > len(b):
            return None     # not walkable by length fields alone (finding F1 territory): no verdict
        vendor = str(int.from_bytes(b[off + 8:off + 12], "big")) if fl & 0x80 else "-"
        n = nodes[k]
        if (str(code), vendor, ln) != (n["code"], n["vendor"], n["len"]):
            return "position %d: the wire has AVP (%d, %s) of length %d, the accessor lists (%s, %s) of length %d" % (k, code, vendor, ln, n["code"], n["vendor"], n["len"])
        if n["ty"] == "grp":
            r = wire_walk(b[off + hl:off + ln], n["members"], True)
            if r:
                return "in group (%d, %s): %s" % (code, vendor, r)
        off += ln + (-ln) % 4
        k += 1
    if exact and k != len(nodes):
        return "the accessor lists %d AVPs, the wire carries %d" % (len(nodes), k)
    return None


def judge_c18(ctx, idx, op, impl, mi, ms, reason):
    f = same(ctx, idx, op, impl, mi, "Impl.Msg.getAvp/Avp.getTyped <-> get_avp/get_avps/typed getters")
    if op[0] == "decode":
        # the frame the message was decoded from: the accessors must list its AVPs in wire order
        ctx.case_state["wire"] = bytes.fromhex(op[1]) if impl.startswith("ok") and len(op) > 1 else None
    elif op[0] in ("new", "reencode", "mload"):
        ctx.case_state["wire"] = None
    if op[0] == "dump":
        ctx.last_dump = parse_msg(impl) if impl.startswith("M(") else None
        ctx.count("dump")
        w = ctx.case_state.get("wire")
        if w is not None and ctx.last_dump is not None and len(w) >= 20:
            ctx.count("dump_of_decoded")
            r = wire_walk(w[20:], ctx.last_dump["avps"], False)
            if r:
                f.append(Finding("property", idx, "AVP accessors of a decoded message do not follow the wire order: " + r, expected="wire order", observed=impl[:300], name="C18_decoded_order"))
    elif op[0] == "enc" and ctx.last_dump is not None:
        # built or decoded: what the list accessor shows is what goes on the wire, in that order
        ctx.count("enc_vs_accessors")
        if impl.startswith("ok ") and len(impl) > 3 + 40:
            r = wire_walk(bytes.fromhex(impl[3:])[20:], ctx.last_dump["avps"], True)
            if r:
                f.append(Finding("property", idx, "the AVP list accessor does not show the AVPs in the order they go on the wire: " + r, expected="wire order", observed=impl[:200], name="C18_decoded_order"))
    elif op[0] == "get" and ctx.last_dump is not None:
        codes = [a["code"] for a in ctx.last_dump["avps"]]
        want = str(codes.index(op[1])) if op[1] in codes else "-"
        ctx.count("get_present" if want != "-" else "get_absent")
        if want != "-" and codes.count(op[1]) > 1:
            ctx.count("get_repeated_code")
        if impl != want:
            f.append(Finding("property", idx, "get_avp(%s) does not return the first AVP with that code" % op[1], expected=want, observed=impl, name="C18_get_first"))
    elif op[0] == "acc" and ctx.last_dump is not None:
        want = "[" + acc_expected(ctx.last_dump["avps"]) + "]"
        ctx.count("acc")
        if impl != want:
            f.append(Finding("property", idx, "typed accessors disagree with the message content", expected=want, observed=impl, name="C18_typed"))
    else:
        ctx.last_dump = None if op[0] not in ("get", "acc", "enc") else ctx.last_dump
        ctx.count("op_" + op[0])
    return f


def shipped_defs(wd):
    """the two shipped dictionaries, read independently from the XML by tools/xmlscan.py (the built-in document is
    obtained from DEFAULT_DICT_XML at run time)"""
    import os
    import subprocess
    from . import core
    bx = os.path.join(wd, "builtin.xml")
    with open(bx, "w") as f:
        subprocess.run([core.HX, "builtin-xml"], stdout=f, check=True)
    scan = os.path.join(core.ROOT, "tools", "xmlscan.py")
    tg = os.path.join(core.REPO, "dict", "3gpp-ro-rf.xml")
    a = subprocess.run(["python3", scan, bx, "load", "builtin"], stdout=subprocess.PIPE, check=True, text=True).stdout
    b = subprocess.run(["python3", scan, tg, "load", "file", tg], stdout=subprocess.PIPE, check=True, text=True).stdout
    ra = subprocess.run(["python3", scan, "--rules", bx], stdout=subprocess.PIPE, check=True, text=True).stdout
    rb = subprocess.run(["python3", scan, "--rules", tg], stdout=subprocess.PIPE, check=True, text=True).stdout
    paths = []
    for name, body, rules in (("builtin", a, ra), ("tgpp", b, rb), ("builtin+tgpp", a + b, ra + rb)):
        p = os.path.join(wd, name + ".defs")
        with open(p, "w") as f:
            f.write(body)
        # (side file: which members the <rule> children of the grouped definitions name)
        with open(os.path.join(wd, name + ".rules"), "w") as f:
            f.write(rules)
        paths.append(p)
    return paths


PROPS = {
    "C01": dict(both_builds=True, family="c01", judge=judge_c01, probes=("enc", "len", "dump"), title="Encoded bytes are exactly the RFC 6733 wire format"),
    "C02": dict(both_builds=True, family="c02", extra=shipped_defs, judge=judge_c02, probes=("rt",), title="Encode then decode returns the same message"),
    "C03": dict(both_builds=True, family="c03", judge=judge_c03, probes=("dec", "decat", "deca", "decg", "tables"), expect_keys=["tables", 'reason_e_addr', 'reason_e_app', 'reason_e_cmd', 'reason_e_eof', 'reason_e_mismatch', 'reason_e_short', 'reason_e_unknownAvp', 'reason_e_utf8', 'reason_ok_lie0', 'reason_ok_lie1', 'refused_too_deep', 'deca_ok', 'deca_err', 'decg_ok', 'decg_err', 'full', 'notfull'], title="Decoding is faithful"),
    "C04": dict(family="c04", extra=shipped_defs, judge=judge_c04, probes=("decq", "envchild"), expect_keys=['reason_e_addr', 'reason_e_app', 'reason_e_cmd', 'reason_e_eof', 'reason_e_mismatch', 'reason_e_short', 'reason_e_unknownAvp', 'reason_e_utf8', 'reason_e_deep', 'reason_ok', 'depth_32'], title="The decoder is total"),
    "C05": dict(family="c05", judge=judge_c05, probes=("ench", "encw", "senc"), expect_keys=["senc_ok", "senc_err", "ench_ok", "ench_err_unrepresentable", "encw_ok", "encw_err", "encw_err_unrepresentable", "encw_fault_inside_frame", "encw_mode_1_2_zero", "encw_mode_0_0_err"], title="Encoding never reports success for a frame it did not fully produce"),
    "C06": dict(family="c06", judge=judge_c06, probes=("sdec", "sdecnt", "senc"), title="Stream framing is independent of how bytes are segmented"),
    "C07": dict(family="c07", judge=judge_c07, probes=("sdec", "sdecnt", "sdecmany"), expect_keys=["L_gt1MiB_err", "L_inrange_err", "L_inrange_ok", "L_lt20_err"], title="Hostile frame lengths on a stream are refused cheaply and safely"),
    "C08": dict(family="c08", judge=judge_c08, probes=("serve", "lsn", "lsnpipe", "servemany"), expect_keys=["serve_good", "serve_herr", "serve_unencodable", "serve_malformed_kind0", "serve_malformed_kind1", "serve_malformed_kind2", "serve_malformed_kind3", "serve_malformed_kind4", "serve_malformed_kind5"], title="Server answers each request exactly once, in order, unmodified"),
    "C09": dict(family="c09", judge=judge_c08, probes=("serve", "lsn"), expect_keys=["serve_readcut", "serve_writecut"], title="Server survives connection loss at any byte offset"),
    "C10": dict(family="c10", judge=judge_c10, probes=("lsn",), title="One misbehaving connection cannot disturb the others"),
    "C13": dict(family="c13", judge=judge_c13, probes=("tls", "tlsq", "tlsrude", "tlsre"), title="TLS settings are honoured exactly"),
    "C11": dict(family="c11", judge=judge_cli, probes=("cli", "ctcp", "clim"), model_input=cli_model_input, title="Client delivers each answer to the request it belongs to"),
    "C12": dict(family="c12", judge=judge_cli, probes=("cli", "ctcp", "cliswitch", "clim", "cliflood"), expect_keys=["ev_stop", "ev_refused", "ev_rm", "ev_dl", "future_err", "future_got", "future_pending", "late_err", "tcp_scenarios"], model_input=cli_model_input, title="Every response future eventually completes"),
    "C14": dict(both_builds=True, family="c14", judge=judge_c14, probes=("dget", "dbyname", "dapp", "dcmd"), title="Dictionary lookups reflect exactly what was loaded, latest wins"),
    "C15": dict(both_builds=True, family="c15", extra=shipped_defs, judge=judge_c15, probes=("dec", "dget", "dbyname", "rt"), title="AVPs are typed by their exact dictionary entry or rejected"),
    "C16": dict(both_builds=True, family="c16", extra=shipped_defs, judge=judge_c16, probes=("add_by_name", "avp_name", "enc", "dump", "len"), title="Building an AVP by name follows the dictionary; failure changes nothing"),
    "C17": dict(both_builds=True, family="c17", judge=judge_c17, probes=("fx", "sweep", "psweep"), title="Four-octet data types are exact bijections"),
    "C18": dict(both_builds=True, family="c18", judge=judge_c18, probes=("dump", "get", "acc"), title="AVP lookup and typed accessors agree with the message content"),
}
