//! `hx` - correspondence harness for lwlee2608/diameter-rs (DESIGN.md section 2.2).
//!   hx run <cases.txt> <impl.out> [start]   execute the cases against the real library (worker; supervised by vlib)
//!   hx gen <family> <seed> <tier>           write cases to stdout
//!   hx probe                                measure the decoder's nesting limit and per-type length leniency
//!   hx builtin-xml                          print the built-in dictionary document

mod gen;
mod interp;
mod net;
mod sio;
mod util;

use std::io::{BufRead, Write};
use std::panic::{catch_unwind, AssertUnwindSafe};

fn run(cases: &str, out: &str, start: usize) {
    let f = std::fs::File::open(cases).expect("cases file");
    let mut o = std::fs::OpenOptions::new().create(true).append(true).open(out).expect("out file");
    // trust for the TLS scenarios is injected through SSL_CERT_FILE; it has to be in place before any TLS object exists
    // (always our own file next to the output: an inherited SSL_CERT_FILE names the system bundle, which must neither
    // be trusted by the scenarios nor ever be written to)
    std::env::set_var("SSL_CERT_FILE", format!("{}.ca.pem", out));
    std::env::set_var("VERIF_CA_FILE", format!("{}.ca.pem", out));
    // every log statement of the library is evaluated (a statement that can panic or that costs time must show)
    util::install_logger();
    let mut st = interp::State::new();
    // keep panic messages out of the way; the outcome class is what is recorded
    std::panic::set_hook(Box::new(|_| {}));
    let all: Vec<String> = std::io::BufReader::new(f).lines().map(|l| l.unwrap()).collect();
    let is_net = |l: &str| l.starts_with("lsn ") || l.starts_with("tls ") || l.starts_with("tlsq ") || l.starts_with("tlsrude ") || l.starts_with("ctcp ");
    for (i, line) in all.iter().enumerate() {
        let line = line.clone();
        if i >= start && is_net(&line) {
            if !st.net_cache.contains_key(&i) {
                let batch: Vec<(usize, String)> = all.iter().enumerate().skip(i).filter(|(_, l)| is_net(l)).take(24).map(|(j, l)| (j, l.clone())).collect();
                let r = catch_unwind(AssertUnwindSafe(|| st.run_net_batch(batch.clone())));
                if r.is_err() {
                    for (j, _) in &batch {
                        st.net_cache.insert(*j, "panic".into());
                    }
                }
            }
            let mut buf = st.net_cache.remove(&i).unwrap_or_else(|| "missing".into()).into_bytes();
            buf.push(b'\n');
            o.write_all(&buf).unwrap();
            continue;
        }
        if line.starts_with('#') {
            if i >= start {
                writeln!(o, "#").unwrap();
            }
            continue;
        }
        // after a restart the state-building lines before `start` are replayed silently
        if i < start {
            let replay = matches!(
                line.split(' ').next().unwrap_or(""),
                "cfg" | "dreset" | "dadd" | "doc_begin" | "app" | "cmd" | "avp" | "doc_end" | "dconstruct"
            );
            if replay {
                let _ = catch_unwind(AssertUnwindSafe(|| st.step(&line)));
            }
            continue;
        }
        let r = catch_unwind(AssertUnwindSafe(|| st.step(&line)));
        let ans = match r {
            Ok(s) => s,
            Err(_) => "panic".to_string(),
        };
        // one write per line so that an abort loses nothing that was answered
        let mut buf = ans.into_bytes();
        buf.push(b'\n');
        o.write_all(&buf).unwrap();
    }
}

fn main() {
    let args: Vec<String> = std::env::args().collect();
    let cmd = args.get(1).map(|s| s.as_str()).unwrap_or("");
    match cmd {
        "run" => {
            let cases = args[2].clone();
            let out = args[3].clone();
            let start: usize = args.get(4).and_then(|s| s.parse().ok()).unwrap_or(0);
            // C04: decoding must work on an ordinary 2 MiB thread stack
            let h = std::thread::Builder::new()
                .stack_size(2 * 1024 * 1024)
                .spawn(move || run(&cases, &out, start))
                .unwrap();
            if h.join().is_err() {
                std::process::exit(3);
            }
        }
        "gen" => {
            let family = args[2].clone();
            let seed: u64 = args.get(3).and_then(|s| s.parse().ok()).unwrap_or(1);
            let tier = args.get(4).cloned().unwrap_or_else(|| "quick".into());
            let out = std::io::stdout();
            let mut w = std::io::BufWriter::with_capacity(1 << 20, out.lock());
            gen::generate(&family, seed, &tier, &args[5..], &mut w);
            w.flush().unwrap();
        }
        "probe" => {
            let h = std::thread::Builder::new().stack_size(64 * 1024 * 1024).spawn(gen::probe).unwrap();
            let line = h.join().unwrap();
            println!("{}", line);
        }
        "tlsq" => {
            util::install_logger();
            net::tls_sequence_child(&args[2], &args[3], &diameter::dictionary::DEFAULT_DICT_XML);
        }
        "builtin-xml" => {
            print!("{}", *diameter::dictionary::DEFAULT_DICT_XML);
        }
        _ => {
            eprintln!("usage: hx run|gen|probe|builtin-xml ...");
            std::process::exit(2);
        }
    }
}
