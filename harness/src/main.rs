//! `hx` - correspondence harness for lwlee2608/diameter-rs (DESIGN.md section 2.2).
//!   hx run <cases.txt> <impl.out> [start]   execute the cases against the real library (worker; supervised by vlib)
//!   hx gen <family> <seed> <tier>           write cases to stdout
//!   hx probe                                measure the decoder's nesting limit and per-type length leniency
//!   hx builtin-xml                          print the built-in dictionary document

mod gen;
mod interp;
mod net;
mod sio;
mod util;

use std::io::{BufRead, Write};
use std::panic::{catch_unwind, AssertUnwindSafe};

fn run(cases: &str, out: &str, start: usize) {
    let f = std::fs::File::open(cases).expect("cases file");
    let mut o = std::fs::OpenOptions::new().create(true).append(true).open(out).expect("out file");
    // trust for the TLS scenarios is injected through SSL_CERT_FILE; it has to be in place before any TLS object exists
    // (always our own file next to the output: an inherited SSL_CERT_FILE names the system bundle, which must neither
    // be trusted by the scenarios nor ever be written to)
    std::env::set_var("SSL_CERT_FILE", format!("{}.ca.pem", out));
    std::env::set_var("VERIF_CA_FILE", format!("{}.ca.pem", out));
    // every log statement of the library is evaluated (a statement that can panic or that costs time must show)
    util::install_logger();
    let mut st = interp::State::new();
    // keep panic messages out of the way; the outcome class is what is recorded
    std::panic::set_hook(Box::new(|_| {}));
    let all: Vec<String> = std::io::BufReader::new(f).lines().map(|l| l.unwrap()).collect();
    let is_net = |l: &str| l.starts_with("lsn ") || l.starts_with("lsnpipe ") || l.starts_with("tls ") || l.starts_with("tlsq ") || l.starts_with("tlsrude ") || l.starts_with("tlsre ") || l.starts_with("ctcp ");
    for (i, line) in all.iter().enumerate() {
        let line = line.clone();
        if i >= start && is_net(&line) {
            if !st.net_cache.contains_key(&i) {
                let batch: Vec<(usize, String)> = all.iter().enumerate().skip(i).filter(|(_, l)| is_net(l)).take(24).map(|(j, l)| (j, l.clone())).collect();
                let r = catch_unwind(AssertUnwindSafe(|| st.run_net_batch(batch.clone())));
                if r.is_err() {
                    for (j, _) in &batch {
                        st.net_cache.insert(*j, "panic".into());
                    }
                }
            }
            let mut buf = st.net_cache.remove(&i).unwrap_or_else(|| "missing".into()).into_bytes();
            buf.push(b'\n');
            o.write_all(&buf).unwrap();
            continue;
        }
        if line.starts_with('#') {
            if i >= start {
                writeln!(o, "#").unwrap();
            }
            continue;
        }
        // after a restart the state-building lines before `start` are replayed silently
        if i < start {
            let replay = matches!(
                line.split(' ').next().unwrap_or(""),
                "cfg" | "dreset" | "dadd" | "doc_begin" | "app" | "cmd" | "avp" | "doc_end" | "dconstruct"
            );
            if replay {
                let _ = catch_unwind(AssertUnwindSafe(|| st.step(&line)));
            }
            continue;
        }
        let r = catch_unwind(AssertUnwindSafe(|| st.step(&line)));
        let ans = match r {
            Ok(s) => s,
            Err(_) => "panic".to_string(),
        };
        // one write per line so that an abort loses nothing that was answered
        let mut buf = ans.into_bytes();
        buf.push(b'\n');
        o.write_all(&buf).unwrap();
    }
}


/// passes everything through; right behind every `stride`-th case (small ones only) it writes that case once more, under
/// a reader mode other than the plain cursor. The copy follows its original immediately, so it meets the same dictionary.
struct SampleTee<'a> {
    w: &'a mut dyn Write,
    stride: usize,
    ncase: usize,
    copies: usize,
    cur: Option<(usize, Vec<String>, usize)>,
    part: Vec<u8>,
}

impl<'a> SampleTee<'a> {
    fn new(w: &'a mut dyn Write, stride: usize) -> Self {
        SampleTee { w, stride, ncase: 0, copies: 0, cur: None, part: vec![] }
    }
    fn close_case(&mut self) {
        if let Some((idx, lines, size)) = self.cur.take() {
            // (a `#case dictionary` block only sets the dictionary for what follows; very large cases are left alone)
            if size <= 65536 && idx % self.stride == 0 && !lines[0].contains(" dictionary ") && lines.len() > 1 {
                let modes = [1u32, 4, 6, 2, 5, 7, 3];
                let mode = modes[self.copies % modes.len()];
                self.copies += 1;
                let label = lines[0].splitn(3, ' ').nth(2).unwrap_or("");
                writeln!(self.w, "#case {}r frag{} {}", idx, mode, label).unwrap();
                writeln!(self.w, "rmode {}", mode).unwrap();
                for l in &lines[1..] {
                    writeln!(self.w, "{}", l).unwrap();
                }
                writeln!(self.w, "rmode 0").unwrap();
            }
        }
    }
    fn feed(&mut self, line: &str) {
        if line.starts_with("#case") {
            self.close_case();
            self.cur = Some((self.ncase, vec![line.to_string()], 0));
            self.ncase += 1;
        } else if let Some((_, lines, size)) = self.cur.as_mut() {
            *size += line.len();
            if *size <= 65536 {
                lines.push(line.to_string());
            }
        }
    }
    fn finish(&mut self) {
        if !self.part.is_empty() {
            let l = String::from_utf8_lossy(&self.part).to_string();
            self.feed(&l);
            self.w.write_all(&self.part).ok();
            self.w.write_all(b"\n").ok();
            self.part.clear();
        }
        self.close_case();
    }
}

impl<'a> Write for SampleTee<'a> {
    fn write(&mut self, buf: &[u8]) -> std::io::Result<usize> {
        // line by line: a copy must go out exactly at a case boundary, i.e. before the next `#case` line is passed on
        for &b in buf {
            if b == b'\n' {
                let l = String::from_utf8_lossy(&self.part).to_string();
                self.feed(&l);
                // the pending line is passed on only now: `feed` has written the copy of the case before it, if any
                self.w.write_all(&self.part)?;
                self.w.write_all(b"\n")?;
                self.part.clear();
            } else {
                self.part.push(b);
            }
        }
        Ok(buf.len())
    }
    fn flush(&mut self) -> std::io::Result<()> {
        self.w.flush()
    }
}

fn main() {
    let args: Vec<String> = std::env::args().collect();
    let cmd = args.get(1).map(|s| s.as_str()).unwrap_or("");
    match cmd {
        "run" => {
            let cases = args[2].clone();
            let out = args[3].clone();
            let start: usize = args.get(4).and_then(|s| s.parse().ok()).unwrap_or(0);
            // C04: decoding must work on an ordinary 2 MiB thread stack
            let h = std::thread::Builder::new()
                .stack_size(2 * 1024 * 1024)
                .spawn(move || run(&cases, &out, start))
                .unwrap();
            if h.join().is_err() {
                std::process::exit(3);
            }
        }
        "gen" => {
            let family = args[2].clone();
            let seed: u64 = args.get(3).and_then(|s| s.parse().ok()).unwrap_or(1);
            let tier = args.get(4).cloned().unwrap_or_else(|| "quick".into());
            let out = std::io::stdout();
            let mut w = std::io::BufWriter::with_capacity(1 << 20, out.lock());
            // families whose cases decode octets: a sample of the cases is run again through readers that hand out the
            // octets in pieces (`rmode`); whatever the reader, every answer must be the same
            let cap = if tier == "thorough" { 31 } else { 9 };
            if matches!(family.as_str(), "c01" | "c02" | "c03" | "c04" | "c15" | "c16" | "c16h" | "c17" | "c18") {
                let mut tee = SampleTee::new(&mut w, cap);
                gen::generate(&family, seed, &tier, &args[5..], &mut tee);
                tee.finish();
            } else {
                gen::generate(&family, seed, &tier, &args[5..], &mut w);
            }
            w.flush().unwrap();
        }
        "probe" => {
            let h = std::thread::Builder::new().stack_size(64 * 1024 * 1024).spawn(gen::probe).unwrap();
            let line = h.join().unwrap();
            println!("{}", line);
        }
        "tlsq" => {
            util::install_logger();
            net::tls_sequence_child(&args[2], &args[3], &diameter::dictionary::DEFAULT_DICT_XML);
        }
        "envdec" => {
            // child of `envchild`: a fresh process whose environment was set before anything of the library ran: decode the
            // frame under the built-in dictionary, display it (into a string and into sinks that run out of room)
            std::panic::set_hook(Box::new(|_| {}));
            let b = util::unhex(&args[2]).unwrap_or_default();
            let d = std::sync::Arc::new(diameter::dictionary::Dictionary::new(&[&diameter::dictionary::DEFAULT_DICT_XML]));
            let r = std::panic::catch_unwind(move || {
                let st = interp::State::with_dict(d);
                st.decode_line(&b)
            });
            match r {
                Ok(a) => println!("{}", a.split(' ').next().unwrap_or("err")),
                Err(_) => println!("panic"),
            }
        }
        "builtin-xml" => {
            print!("{}", *diameter::dictionary::DEFAULT_DICT_XML);
        }
        _ => {
            eprintln!("usage: hx run|gen|probe|builtin-xml ...");
            std::process::exit(2);
        }
    }
}
