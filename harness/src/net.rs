//! Real-socket scenarios: the listener with several concurrent peers (C10) and the TLS decision table (C13).
//! Runs on a multi-threaded tokio runtime over loopback; certificates are generated with the `openssl` crate that
//! `native-tls` already depends on; trust is injected through SSL_CERT_FILE (set at process start, see main.rs).

use diameter::avp::*;
use diameter::dictionary::Dictionary;
use diameter::transport::{DiameterClient, DiameterClientConfig, DiameterServer, DiameterServerConfig};
use diameter::{ApplicationId, CommandCode, DiameterMessage};
use std::sync::atomic::{AtomicUsize, Ordering};
use std::sync::{Arc, Mutex};
use std::time::Duration;
use tokio::io::{AsyncReadExt, AsyncWriteExt};
use tokio::net::{TcpListener, TcpStream};

pub struct Pki {
    pub ca_pem: Vec<u8>,
    pub good: (Vec<u8>, Vec<u8>),      // certificate (PEM), pkcs8 key (PEM): trusted, SANs localhost / 127.0.0.1 / ::1
    pub wrongname: (Vec<u8>, Vec<u8>), // trusted, SAN other.example only
    pub wrongname_host: (Vec<u8>, Vec<u8>), // trusted; names other.example and the loopback ADDRESSES - wrong for the host name `localhost`
    pub wrongname_ip: (Vec<u8>, Vec<u8>),   // trusted; the NAME localhost and a foreign address - wrong for an address literal
    pub wrongname_ca2: (Vec<u8>, Vec<u8>),  // a certificate for other.example issued by a second trusted CA whose own name is `localhost`
    pub untrusted: (Vec<u8>, Vec<u8>), // self-signed, right names
    pub good_far: (Vec<u8>, Vec<u8>),  // trusted, right names, valid for thirty years
    pub good_rsa: (Vec<u8>, Vec<u8>),  // trusted, right names, RSA-2048 key
    pub weak: (Vec<u8>, Vec<u8>),      // trusted, right names, 1024-bit RSA key: parses as an identity, but no acceptor can be built from it
}

fn make_cert(cn: &str, sans_dns: &[&str], sans_ip: &[&str], issuer: Option<(&openssl::x509::X509, &openssl::pkey::PKey<openssl::pkey::Private>)>, is_ca: bool) -> (openssl::x509::X509, openssl::pkey::PKey<openssl::pkey::Private>) {
    make_cert_with(cn, sans_dns, sans_ip, issuer, is_ca, None, 365)
}

/// `rsa_bits`: an RSA key of that size instead of the P-256 key (a 1024-bit key is one the TLS library refuses to serve)
fn make_cert_with(cn: &str, sans_dns: &[&str], sans_ip: &[&str], issuer: Option<(&openssl::x509::X509, &openssl::pkey::PKey<openssl::pkey::Private>)>, is_ca: bool, rsa_bits: Option<u32>, days: u32) -> (openssl::x509::X509, openssl::pkey::PKey<openssl::pkey::Private>) {
    use openssl::asn1::Asn1Time;
    use openssl::bn::{BigNum, MsbOption};
    use openssl::ec::{EcGroup, EcKey};
    use openssl::hash::MessageDigest;
    use openssl::nid::Nid;
    use openssl::pkey::PKey;
    use openssl::x509::extension::{BasicConstraints, KeyUsage, SubjectAlternativeName};
    use openssl::x509::{X509NameBuilder, X509};
    let group = EcGroup::from_curve_name(Nid::X9_62_PRIME256V1).unwrap();
    let key = match rsa_bits {
        Some(bits) => PKey::from_rsa(openssl::rsa::Rsa::generate(bits).unwrap()).unwrap(),
        None => PKey::from_ec_key(EcKey::generate(&group).unwrap()).unwrap(),
    };
    let mut name = X509NameBuilder::new().unwrap();
    name.append_entry_by_text("CN", cn).unwrap();
    let name = name.build();
    let mut b = X509::builder().unwrap();
    b.set_version(2).unwrap();
    let mut serial = BigNum::new().unwrap();
    serial.rand(100, MsbOption::MAYBE_ZERO, false).unwrap();
    b.set_serial_number(&serial.to_asn1_integer().unwrap()).unwrap();
    b.set_subject_name(&name).unwrap();
    b.set_pubkey(&key).unwrap();
    b.set_not_before(&Asn1Time::days_from_now(0).unwrap()).unwrap();
    b.set_not_after(&Asn1Time::days_from_now(days).unwrap()).unwrap();
    match issuer {
        Some((c, _)) => b.set_issuer_name(c.subject_name()).unwrap(),
        None => b.set_issuer_name(&name).unwrap(),
    }
    if is_ca {
        b.append_extension(BasicConstraints::new().critical().ca().build().unwrap()).unwrap();
        b.append_extension(KeyUsage::new().critical().key_cert_sign().crl_sign().build().unwrap()).unwrap();
    } else {
        let mut san = SubjectAlternativeName::new();
        for d in sans_dns {
            san.dns(d);
        }
        for i in sans_ip {
            san.ip(i);
        }
        let ctx = b.x509v3_context(issuer.map(|x| &**x.0), None);
        let ext = san.build(&ctx).unwrap();
        b.append_extension(ext).unwrap();
    }
    match issuer {
        Some((_, k)) => b.sign(k, MessageDigest::sha256()).unwrap(),
        None => b.sign(&key, MessageDigest::sha256()).unwrap(),
    }
    (b.build(), key)
}

pub fn make_pki() -> Pki {
    let (ca, cak) = make_cert("verif throw-away CA", &[], &[], None, true);
    let (g, gk) = make_cert("localhost", &["localhost"], &["127.0.0.1", "::1"], Some((&ca, &cak)), false);
    let (w, wk) = make_cert("other.example", &["other.example"], &["192.0.2.7"], Some((&ca, &cak)), false);
    let (wh, whk) = make_cert("other.example", &["other.example"], &["127.0.0.1", "::1"], Some((&ca, &cak)), false);
    let (wi, wik) = make_cert("other.example", &["localhost", "other.example"], &["192.0.2.7"], Some((&ca, &cak)), false);
    // (who issued a certificate says nothing about whom it is for)
    let (ca2, ca2k) = make_cert("localhost", &[], &[], None, true);
    let (w2, w2k) = make_cert("other.example", &["other.example"], &["192.0.2.7"], Some((&ca2, &ca2k)), false);
    let (u, uk) = make_cert("localhost", &["localhost"], &["127.0.0.1", "::1"], None, false);
    let pem = |c: &openssl::x509::X509, k: &openssl::pkey::PKey<openssl::pkey::Private>| (c.to_pem().unwrap(), k.private_key_to_pem_pkcs8().unwrap());
    let (k, kk) = make_cert_with("localhost", &["localhost"], &["127.0.0.1", "::1"], Some((&ca, &cak)), false, Some(1024), 365);
    // the good certificate in other clothes: valid into the 2050s (RFC 5280 spells such a date as GeneralizedTime), an RSA key
    let (gf, gfk) = make_cert_with("localhost", &["localhost"], &["127.0.0.1", "::1"], Some((&ca, &cak)), false, None, 11000);
    let (gr, grk) = make_cert_with("localhost", &["localhost"], &["127.0.0.1", "::1"], Some((&ca, &cak)), false, Some(2048), 365);
    Pki { ca_pem: [ca.to_pem().unwrap(), ca2.to_pem().unwrap()].concat(), wrongname_ca2: pem(&w2, &w2k), good: pem(&g, &gk), wrongname: pem(&w, &wk), wrongname_host: pem(&wh, &whk), wrongname_ip: pem(&wi, &wik), untrusted: pem(&u, &uk), weak: pem(&k, &kk), good_far: pem(&gf, &gfk), good_rsa: pem(&gr, &grk) }
}

fn identity(p: &(Vec<u8>, Vec<u8>)) -> native_tls::Identity {
    native_tls::Identity::from_pkcs8(&p.0, &p.1).unwrap()
}

fn request(dict: &Arc<Dictionary>, hbh: u32, e2e: u32, marker: &str) -> DiameterMessage {
    request_cmd(dict, 272, hbh, e2e, marker)
}

/// a request of the given command (Capabilities-Exchange and the other base commands under application 0)
fn request_cmd(dict: &Arc<Dictionary>, cmd: u32, hbh: u32, e2e: u32, marker: &str) -> DiameterMessage {
    let (cc, app) = match cmd {
        257 => (CommandCode::CapabilitiesExchange, ApplicationId::Common),
        280 => (CommandCode::DeviceWatchdog, ApplicationId::Common),
        282 => (CommandCode::DisconnectPeer, ApplicationId::Common),
        271 => (CommandCode::Accounting, ApplicationId::Accounting),
        _ => (CommandCode::CreditControl, ApplicationId::CreditControl),
    };
    let mut m = DiameterMessage::new(cc, app, 0x80, hbh, e2e, dict.clone());
    m.add_avp(263, None, 0x40, UTF8String::new(marker).into());
    m
}

/// what the scenarios' handler answers: identifiers and marker echoed, a Result-Code that rotates with the end-to-end id over
/// success, protocol error, transient and permanent failure (an answer is an answer, whatever it says)
fn echo_answer(cc: CommandCode, app: ApplicationId, hbh: u32, e2e: u32, marker: &str, dict: Arc<Dictionary>) -> DiameterMessage {
    let mut res = DiameterMessage::new(cc, app, 0, hbh, e2e, dict);
    res.add_avp(263, None, 0x40, UTF8String::new(marker).into());
    res.add_avp(268, None, 0x40, Unsigned32::new([2001u32, 3004, 4001, 5012][(e2e % 4) as usize]).into());
    res
}

fn frame(m: &DiameterMessage) -> Vec<u8> {
    let mut v = Vec::new();
    m.encode_to(&mut v).unwrap();
    v
}

pub const PANIC_HBH: u32 = 0xdead_0001;
pub const PANIC_SYNC_HBH: u32 = 0xdead_0002;
pub const FAIL_HBH: u32 = 0xdead_0003;
pub const BIG_HBH: u32 = 0xb160_0000;

fn big_answer(req: &DiameterMessage, dict: Arc<Dictionary>) -> DiameterMessage {
    let kib = (req.get_hop_by_hop_id() & 0xfffff) as usize;
    let mut res = DiameterMessage::new(req.get_command_code(), req.get_application_id(), 0, req.get_hop_by_hop_id(), req.get_end_to_end_id(), dict);
    res.add_avp(268, None, 0x40, Unsigned32::new(2001).into());
    res.add_avp(25, None, 0, diameter::avp::OctetString::new(vec![(req.get_end_to_end_id() & 0xff) as u8; kib * 1024]).into());
    res
}

/// the handler of every scenario: echoes identifiers and the marker; panics on a designated request
fn echo_handler(dict: Arc<Dictionary>, seen: Arc<Mutex<Vec<String>>>) -> impl Fn(DiameterMessage) -> std::pin::Pin<Box<dyn std::future::Future<Output = diameter::Result<DiameterMessage>> + Send>> + Clone + Send + 'static {
    move |req: DiameterMessage| {
        // (a handler may also panic before it returns its future)
        if req.get_hop_by_hop_id() == PANIC_SYNC_HBH {
            panic!("scripted handler panic (synchronous part)");
        }
        let dict = dict.clone();
        let seen = seen.clone();
        Box::pin(async move {
            if req.get_hop_by_hop_id() == PANIC_HBH {
                // (a formatted message: the payload of the panic is a `String`, as it is for `unwrap()` / `expect()` failures)
                panic!("scripted handler panic for request {:#x}", req.get_hop_by_hop_id());
            }
            if req.get_hop_by_hop_id() == FAIL_HBH {
                return Err(diameter::Error::ServerError("scripted handler failure".into()));
            }
            if req.get_hop_by_hop_id() & 0xfff0_0000 == BIG_HBH {
                // a large answer: (hop-by-hop id & 0xfffff) KiB of payload
                return Ok(big_answer(&req, dict));
            }
            let marker = req.get_avp(263).and_then(|a| a.get_utf8string().map(|s| s.value().to_string())).unwrap_or_default();
            seen.lock().unwrap().push(marker.clone());
            Ok(echo_answer(req.get_command_code(), req.get_application_id(), req.get_hop_by_hop_id(), req.get_end_to_end_id(), &marker, dict))
        })
    }
}

async fn start_server(tls: Option<native_tls::Identity>, dict: Arc<Dictionary>, seen: Arc<Mutex<Vec<String>>>) -> std::net::SocketAddr {
    let mut server = DiameterServer::new("127.0.0.1:0", DiameterServerConfig { native_tls: tls }).await.unwrap();
    let addr = server.verif_local_addr().unwrap();
    let h = echo_handler(dict.clone(), seen);
    tokio::spawn(async move {
        // the configuration, not the history of the server object, decides how connections are protected: `listen` is
        // entered, abandoned (the future is dropped) and entered again before the scenario starts
        {
            let first = server.listen(h.clone(), dict.clone());
            tokio::select! {
                _ = first => {}
                _ = tokio::time::sleep(Duration::from_millis(5)) => {}
            }
        }
        let _ = server.listen(h, dict).await;
        // `listen` has returned (an identity that cannot be used, for instance): the server object - and with it the port -
        // is kept for a while, so that the port number cannot pass to some other scenario's server while this scenario's
        // clients are still on their way to it
        tokio::time::sleep(Duration::from_secs(20)).await;
        drop(server);
    });
    tokio::time::sleep(Duration::from_millis(20)).await;
    addr
}

/* ---------------------------------------------------------------- C10 */

enum Peer {
    Plain(TcpStream),
    Tls(tokio_native_tls::TlsStream<TcpStream>),
}
impl Peer {
    async fn write_all(&mut self, b: &[u8]) -> std::io::Result<()> {
        match self {
            Peer::Plain(s) => s.write_all(b).await,
            Peer::Tls(s) => s.write_all(b).await,
        }
    }
    async fn read_exact(&mut self, b: &mut [u8]) -> std::io::Result<usize> {
        match self {
            Peer::Plain(s) => s.read_exact(b).await,
            Peer::Tls(s) => s.read_exact(b).await,
        }
    }
}

async fn open_peer(addr: std::net::SocketAddr, tls: bool) -> Option<Peer> {
    let s = tokio::time::timeout(Duration::from_secs(5), TcpStream::connect(addr)).await.ok()?.ok()?;
    s.set_nodelay(true).ok();
    if !tls {
        return Some(Peer::Plain(s));
    }
    let c = tokio_native_tls::TlsConnector::from(native_tls::TlsConnector::builder().danger_accept_invalid_certs(true).build().ok()?);
    let t = tokio::time::timeout(Duration::from_secs(5), c.connect("localhost", s)).await.ok()?.ok()?;
    Some(Peer::Tls(t))
}

/// one request, one answer; returns the (hop-by-hop, end-to-end, marker) of the answer
async fn exchange(p: &mut Peer, dict: &Arc<Dictionary>, hbh: u32, e2e: u32, marker: &str, deadline: Duration) -> Option<(u32, u32, String)> {
    // the command rotates over Credit-Control and the base commands (to this server a request is a request), and every third
    // request carries a Proxy-Info group (relayed traffic)
    let cmd = [272u32, 257, 280, 282, 271][(hbh % 5) as usize];
    let mut req = request_cmd(dict, cmd, hbh, e2e, marker);
    if hbh % 3 == 0 {
        let mut g = diameter::avp::Grouped::new(vec![], dict.clone());
        g.add_avp(280, None, 0x40, diameter::avp::Identity::new("relay.example.org").into());
        g.add_avp(33, None, 0x40, diameter::avp::OctetString::new(vec![1, 2, 3]).into());
        req.add_avp(284, None, 0x40, g.into());
    }
    // the answer must be, octet for octet, what the handler returned
    let want = frame(&echo_answer(req.get_command_code(), req.get_application_id(), hbh, e2e, marker, dict.clone()));
    let f = frame(&req);
    // (now and then the request goes out in two pieces, most of a second apart in real time)
    if hbh % 7 == 3 && f.len() > 24 {
        p.write_all(&f[..21]).await.ok()?;
        tokio::time::sleep(Duration::from_millis(700)).await;
        p.write_all(&f[21..]).await.ok()?;
    } else {
        p.write_all(&f).await.ok()?;
    }
    let r = tokio::time::timeout(deadline, async {
        let mut pre = [0u8; 4];
        p.read_exact(&mut pre).await.ok()?;
        let l = u32::from_be_bytes([0, pre[1], pre[2], pre[3]]) as usize;
        if !(20..=1 << 20).contains(&l) {
            return None;
        }
        let mut buf = vec![0u8; l];
        buf[..4].copy_from_slice(&pre);
        p.read_exact(&mut buf[4..]).await.ok()?;
        if buf != want {
            return None;
        }
        let m = DiameterMessage::decode_from(&mut std::io::Cursor::new(&buf), dict.clone()).ok()?;
        let marker = m.get_avp(263).and_then(|a| a.get_utf8string().map(|s| s.value().to_string())).unwrap_or_default();
        Some((m.get_hop_by_hop_id(), m.get_end_to_end_id(), marker))
    })
    .await;
    r.ok().flatten()
}

/// `lsn tls=<0|1> good=<k> reqs=<n> fault=<kind> when=<before|during|after> nfaulty=<j>`
/// answer: per well-behaved client the number of correct answers, how many answers went astray, whether a client
/// opened after the fault was served
pub async fn listener_scenario(pki: Arc<Pki>, dict: Arc<Dictionary>, spec: Vec<String>) -> String {
    let mut kv = std::collections::HashMap::new();
    for t in spec.iter() {
        if let Some((k, v)) = t.split_once('=') {
            kv.insert(k.to_string(), v.to_string());
        }
    }
    let tls = kv.get("tls").map(|x| x == "1").unwrap_or(false);
    let good: usize = kv.get("good").and_then(|x| x.parse().ok()).unwrap_or(1);
    let reqs: usize = kv.get("reqs").and_then(|x| x.parse().ok()).unwrap_or(3);
    let fault = kv.get("fault").cloned().unwrap_or_else(|| "none".into());
    let when = kv.get("when").cloned().unwrap_or_else(|| "during".into());
    let nfaulty: usize = kv.get("nfaulty").and_then(|x| x.parse().ok()).unwrap_or(1);
    // `hold=<s>`: every well-behaved client stays idle for that many (real) seconds in the middle of its exchanges
    let hold: u64 = kv.get("hold").and_then(|x| x.parse().ok()).unwrap_or(0);
    let id = if tls { Some(identity(&pki.good)) } else { None };
    {
        let seen: Arc<Mutex<Vec<String>>> = Default::default();
        let addr = start_server(id, dict.clone(), seen.clone()).await;
        let astray = Arc::new(AtomicUsize::new(0));
        let deadline = Duration::from_secs(8);
        // the misbehaving peers; each returns the connection (kept open where the fault is a stall)
        let faulty = |k: usize| {
            let dict = dict.clone();
            let fault = fault.clone();
            async move {
                let mut keep: Vec<Peer> = vec![];
                match fault.as_str() {
                    "none" => {}
                    "stall_handshake" => {
                        // connects and never says anything (with TLS: never starts the handshake)
                        if let Ok(s) = TcpStream::connect(addr).await {
                            keep.push(Peer::Plain(s));
                        }
                    }
                    "garbage_close" | "hello_close" | "plain_req_close" => {
                        // something that is no TLS handshake (and, for the first two, no Diameter either), then gone:
                        // on a TLS listener the handshake fails, on a plain one the first frame is refused / the answer
                        // finds nobody
                        if let Ok(mut s) = TcpStream::connect(addr).await {
                            let bytes: Vec<u8> = match fault.as_str() {
                                "garbage_close" => b"GET / HTTP/1.1\r\nHost: x\r\n\r\n".to_vec(),
                                "hello_close" => vec![0x16, 0x03, 0x01, 0x00],
                                _ => frame(&request(&dict, 0xbad0_0100 + k as u32, 6, "faulty-plain")),
                            };
                            let _ = s.write_all(&bytes).await;
                            let _ = s.shutdown().await;
                            drop(s);
                        }
                    }
                    "half_hello" => {
                        // a few octets of a TLS record (or of a Diameter prefix), then silence
                        if let Ok(mut s) = TcpStream::connect(addr).await {
                            let _ = s.write_all(&[0x16, 0x03, 0x01]).await;
                            keep.push(Peer::Plain(s));
                        }
                    }
                    _ => {
                        if let Some(mut p) = open_peer(addr, tls).await {
                            match fault.as_str() {
                                "malformed" => {
                                    let _ = exchange(&mut p, &dict, 0xbad0_0000 + k as u32, 1, "faulty-ok", deadline).await;
                                    let mut f = frame(&request(&dict, 0xbad0_0001, 2, "faulty-bad"));
                                    f[5] = 0x7f; // unknown command code
                                    let _ = p.write_all(&f).await;
                                    keep.push(p);
                                }
                                "deepnest" => {
                                    // a frame well inside the size limit that nests grouped AVPs tens of thousands deep
                                    // (Failed-AVP in Failed-AVP ...): refused, never walked recursively to the bottom
                                    let depth = 60000usize;
                                    let total = 20 + 8 * depth;
                                    let mut f = Vec::with_capacity(total);
                                    f.push(1);
                                    f.extend(&(total as u32).to_be_bytes()[1..]);
                                    f.extend([0x80, 0, 1, 16, 0, 0, 0, 4, 0, 0, 0, 1, 0, 0, 0, 2]);
                                    for i in 0..depth {
                                        f.extend(279u32.to_be_bytes());
                                        f.push(0x40);
                                        f.extend(&((8 * (depth - i)) as u32).to_be_bytes()[1..]);
                                    }
                                    let _ = p.write_all(&f).await;
                                    keep.push(p);
                                }
                                "unknown_avp" => {
                                    // a correctly framed request that carries an AVP the dictionary has no entry for: this
                                    // connection's business, nobody else's
                                    let _ = exchange(&mut p, &dict, 0xbad1_0000 + k as u32, 1, "faulty-ok", deadline).await;
                                    let mut req = request(&dict, 0xbad1_0001, 2, "faulty-unknown");
                                    req.add_avp(9999, None, 0, diameter::avp::OctetString::new(vec![1, 2, 3, 4]).into());
                                    let _ = p.write_all(&frame(&req)).await;
                                    keep.push(p);
                                }
                                "oversized" => {
                                    let _ = p.write_all(&[1, 0xff, 0xff, 0xff, 0x80, 0, 1, 16]).await;
                                    keep.push(p);
                                }
                                "short" => {
                                    let _ = p.write_all(&[1, 0, 0, 2, 0, 0, 0, 0]).await;
                                    keep.push(p);
                                }
                                "stall_announce_max" => {
                                    // announces the largest frame the transport admits (1 MiB), delivers the header, stalls:
                                    // what one connection may hold back must not be taken from a budget shared with others
                                    let _ = p.write_all(&[1, 0x10, 0, 0, 0x80, 0, 1, 16, 0, 0, 0, 4, 0, 0, 0, 1, 0, 0, 0, 2]).await;
                                    keep.push(p);
                                }
                                "stall_midframe" => {
                                    let f = frame(&request(&dict, 0xbad0_0002, 3, "faulty-stall"));
                                    let _ = p.write_all(&f[..f.len() / 2]).await;
                                    keep.push(p);
                                }
                                "reset" => {
                                    // a valid request, then an abrupt reset (SO_LINGER 0) without reading the answer
                                    let f = frame(&request(&dict, 0xbad0_0003 + k as u32, 4, "faulty-reset"));
                                    let _ = p.write_all(&f).await;
                                    if let Peer::Plain(s) = p {
                                        let _ = s.set_linger(Some(Duration::from_secs(0)));
                                        drop(s);
                                    }
                                }
                                "panic_sync" => {
                                    let f = frame(&request(&dict, PANIC_SYNC_HBH, 5, "faulty-panic-sync"));
                                    let _ = p.write_all(&f).await;
                                    keep.push(p);
                                }
                                "panic" => {
                                    let f = frame(&request(&dict, PANIC_HBH, 5, "faulty-panic"));
                                    let _ = p.write_all(&f).await;
                                    keep.push(p);
                                }
                                _ => {}
                            }
                        }
                    }
                }
                keep
            }
        };
        let mut kept: Vec<Peer> = vec![];
        if when == "before" {
            for k in 0..nfaulty {
                kept.extend(faulty(k).await);
            }
        }
        // the well-behaved clients: `reqs` exchanges each, identifiers unique per client
        let mut tasks = vec![];
        let (go_tx, go_rx) = tokio::sync::watch::channel(false);
        for c in 0..good {
            let dict = dict.clone();
            let astray = astray.clone();
            let mut go = go_rx.clone();
            tasks.push(tokio::spawn(async move {
                let mut ok = 0usize;
                let mut p = match open_peer(addr, tls).await {
                    Some(p) => p,
                    None => return 0usize,
                };
                for i in 0..reqs {
                    if i == reqs / 2 {
                        // let the fault happen in the middle of the good traffic
                        let _ = tokio::time::timeout(Duration::from_secs(8), go.wait_for(|x| *x)).await;
                        if hold > 0 {
                            tokio::time::sleep(Duration::from_secs(hold)).await;
                        }
                    }
                    let hbh = ((c as u32 + 1) << 16) | i as u32;
                    let marker = format!("good;{};{}", c, i);
                    match exchange(&mut p, &dict, hbh, hbh ^ 0x5a5a, &marker, deadline).await {
                        Some((h, e, m)) if h == hbh && e == (hbh ^ 0x5a5a) && m == marker => ok += 1,
                        Some(_) => {
                            astray.fetch_add(1, Ordering::SeqCst);
                        }
                        None => break,
                    }
                }
                ok
            }));
        }
        if when == "during" {
            for k in 0..nfaulty {
                kept.extend(faulty(k).await);
            }
        }
        let _ = go_tx.send(true);
        let mut per_client = vec![];
        for t in tasks {
            per_client.push(t.await.unwrap_or(0));
        }
        if when == "after" {
            for k in 0..nfaulty {
                kept.extend(faulty(k).await);
            }
        }
        // a connection opened afterwards must be served too: the listener keeps accepting
        let mut late_ok = 0usize;
        if let Some(mut p) = open_peer(addr, tls).await {
            for i in 0..2u32 {
                let hbh = 0x7700_0000 | i;
                if let Some((h, _, m)) = exchange(&mut p, &dict, hbh, 9, "late", deadline).await {
                    if h == hbh && m == "late" {
                        late_ok += 1;
                    } else {
                        astray.fetch_add(1, Ordering::SeqCst);
                    }
                }
            }
        }
        drop(kept);
        let pc: Vec<String> = per_client.iter().map(|x| x.to_string()).collect();
        format!("clients={} astray={} late={}", pc.join(","), astray.load(Ordering::SeqCst), late_ok)
    }
}

/* ---------------------------------------------------------------- C13 */

/// forwards both ways and records everything the client put on the socket
async fn relay(target: std::net::SocketAddr, kind: &str) -> Option<(std::net::SocketAddr, Arc<Mutex<Vec<u8>>>)> {
    relay_on(target, kind, 0).await
}

/// `port` 0: any free port; otherwise that very port (well-known numbers: what a client does must not depend on them),
/// waiting a few seconds for it to become free
async fn relay_on(target: std::net::SocketAddr, kind: &str, port: u16) -> Option<(std::net::SocketAddr, Arc<Mutex<Vec<u8>>>)> {
    if port != 0 {
        let host = match kind {
            "ip6" => "[::1]",
            "host" => "[::]",
            _ => "127.0.0.1",
        };
        // (a few seconds at most: if somebody else on this machine holds the port the cell is skipped, not failed)
        for _ in 0..12 {
            if let Ok(l) = TcpListener::bind(format!("{}:{}", host, port)).await {
                return relay_with(l, vec![target]).await;
            }
            tokio::time::sleep(Duration::from_millis(500)).await;
        }
        return None;
    }
    relay_any(target, kind).await
}

async fn relay_any(target: std::net::SocketAddr, kind: &str) -> Option<(std::net::SocketAddr, Arc<Mutex<Vec<u8>>>)> {
    // "localhost" resolves to ::1 and 127.0.0.1: the relay for a host-name address listens on both families (one
    // dual-stack wildcard socket), otherwise the ::1 attempt could reach another scenario's listener that happens to
    // own the same port number in the other family
    let l = TcpListener::bind(match kind {
        "ip6" => "[::1]:0",
        "host" => "[::]:0",
        _ => "127.0.0.1:0",
    })
    .await
    .ok()?;
    relay_with(l, vec![target]).await
}

/// the k-th accepted connection is forwarded to the k-th target (the last one for all later connections)
async fn relay_with(l: TcpListener, targets: Vec<std::net::SocketAddr>) -> Option<(std::net::SocketAddr, Arc<Mutex<Vec<u8>>>)> {
    let addr = l.local_addr().ok()?;
    let cap: Arc<Mutex<Vec<u8>>> = Default::default();
    let cap2 = cap.clone();
    tokio::spawn(async move {
        let mut nth = 0usize;
        while let Ok((mut c, _)) = l.accept().await {
            let cap = cap2.clone();
            let target = targets[nth.min(targets.len() - 1)];
            nth += 1;
            tokio::spawn(async move {
                let mut s = match TcpStream::connect(target).await {
                    Ok(s) => s,
                    Err(_) => return,
                };
                let (mut cr, mut cw) = c.split();
                let (mut sr, mut sw) = s.split();
                let up = async {
                    let mut b = [0u8; 4096];
                    loop {
                        match cr.read(&mut b).await {
                            Ok(0) | Err(_) => break,
                            Ok(n) => {
                                cap.lock().unwrap().extend_from_slice(&b[..n]);
                                if sw.write_all(&b[..n]).await.is_err() {
                                    break;
                                }
                            }
                        }
                    }
                    let _ = sw.shutdown().await;
                };
                let down = async {
                    let mut b = [0u8; 4096];
                    loop {
                        match sr.read(&mut b).await {
                            Ok(0) | Err(_) => break,
                            Ok(n) => {
                                if cw.write_all(&b[..n]).await.is_err() {
                                    break;
                                }
                            }
                        }
                    }
                    let _ = cw.shutdown().await;
                };
                tokio::join!(up, down);
            });
        }
    });
    Some((addr, cap))
}

fn contains(h: &[u8], n: &[u8]) -> bool {
    !n.is_empty() && h.windows(n.len()).any(|w| w == n)
}

/// `tls ctls=<0|1> verify=<0|1> stls=<0|1> cert=<good|wrongname|untrusted> addr=<host|ip|ip6> id=<n>`
/// answer: `<session|plain|refused> clear=<0|1> answered=<0|1> served=<0|1>`
pub async fn tls_cell(pki: Arc<Pki>, dict: Arc<Dictionary>, spec: Vec<String>) -> String {
    let mut kv = std::collections::HashMap::new();
    for t in spec.iter() {
        if let Some((k, v)) = t.split_once('=') {
            kv.insert(k.to_string(), v.to_string());
        }
    }
    let ctls = kv.get("ctls").map(|x| x == "1").unwrap_or(false);
    let verify = kv.get("verify").map(|x| x == "1").unwrap_or(false);
    let stls = kv.get("stls").map(|x| x == "1").unwrap_or(false);
    let cert = kv.get("cert").cloned().unwrap_or_else(|| "good".into());
    let addr_kind = kv.get("addr").cloned().unwrap_or_else(|| "host".into());
    let cell_id = kv.get("id").cloned().unwrap_or_default();
    let cmd: u32 = kv.get("cmd").and_then(|x| x.parse().ok()).unwrap_or(272);
    let id = if stls {
        let idt = identity(match cert.as_str() {
            // "trusted, but not for the name asked for" comes in three kinds: names that have nothing to do with the
            // address; the right ADDRESSES where a host name was asked for; the right NAME where an address was
            "wrongname" => match (kv.get("wn").and_then(|x| x.parse::<usize>().ok()).unwrap_or(0), addr_kind.as_str()) {
                (0, _) => &pki.wrongname,
                (2, _) => &pki.wrongname_ca2,
                (_, "host") => &pki.wrongname_host,
                _ => &pki.wrongname_ip,
            },
            "untrusted" => &pki.untrusted,
            "weak" => &pki.weak,
            _ => match kv.get("cv").map(|x| x.as_str()) {
                Some("1") => &pki.good_far,
                Some("2") => &pki.good_rsa,
                _ => &pki.good,
            },
        });
        if cert == "weak" && native_tls::TlsAcceptor::new(idt.clone()).is_ok() {
            // this platform's TLS library serves even this key: the cell says nothing here
            return "skipped weak-identity-accepted".to_string();
        }
        Some(idt)
    } else {
        None
    };
    {
        let seen: Arc<Mutex<Vec<String>>> = Default::default();
        let saddr = start_server(id, dict.clone(), seen.clone()).await;
        let port: u16 = kv.get("port").and_then(|x| x.parse().ok()).unwrap_or(0);
        let (raddr, cap) = match relay_on(saddr, &addr_kind, port).await {
            Some(x) => x,
            None => return if port != 0 { "skipped port-in-use".to_string() } else { "skipped no-ipv6-loopback".to_string() },
        };
        let address = match addr_kind.as_str() {
            "ip" => format!("127.0.0.1:{}", raddr.port()),
            "ip6" => format!("[::1]:{}", raddr.port()),
            _ => format!("localhost:{}", raddr.port()),
        };
        // `spell=<k>`: the same peer written as an RFC 6733 DiameterURI. The library takes `host:port`; whatever it makes of
        // another spelling, how the connection is protected is decided by the configuration
        let address = match kv.get("spell").map(|x| x.as_str()) {
            Some("1") => format!("aaa://{}", address),
            Some("2") => format!("aaas://{}", address),
            Some("3") => format!("aaa://{};transport=tcp;protocol=diameter", address),
            Some("4") => format!("AAA://{}", address),
            Some("5") => format!("aaas://{};transport=tcp", address),
            _ => address,
        };
        let marker = format!("MARKER-c13-{}-{}", cell_id, raddr.port());
        // `burst=<n>`: first, several times over, n peers connect at the same moment (so that they wait in the listener's
        // backlog together) and each sends a clear-text request: a server with an identity answers none of them
        let burst: usize = kv.get("burst").and_then(|x| x.parse().ok()).unwrap_or(0);
        let mut burst_answers = 0usize;
        if burst > 0 {
            for round in 0..5 {
                let barrier = Arc::new(tokio::sync::Barrier::new(burst));
                let mut tasks = vec![];
                for i in 0..burst {
                    let (b, d, mk) = (barrier.clone(), dict.clone(), format!("{}-b{}-{}", marker, round, i));
                    tasks.push(tokio::spawn(async move {
                        b.wait().await;
                        let mut s = match TcpStream::connect(saddr).await {
                            Ok(s) => s,
                            Err(_) => return 0usize,
                        };
                        let f = frame(&request_cmd(&d, cmd, 4200 + i as u32, 4300, &mk));
                        if s.write_all(&f).await.is_err() {
                            return 0;
                        }
                        // whatever comes back within the deadline; it counts only if it is a Diameter answer to this
                        // request (a TLS alert in reply to clear text is no answer)
                        let mut got: Vec<u8> = vec![];
                        let _ = tokio::time::timeout(Duration::from_millis(700), async {
                            let mut buf = [0u8; 4096];
                            loop {
                                match s.read(&mut buf).await {
                                    Ok(0) | Err(_) => break,
                                    Ok(n) => got.extend_from_slice(&buf[..n]),
                                }
                                if got.len() >= 20 {
                                    let l = u32::from_be_bytes([0, got[1], got[2], got[3]]) as usize;
                                    if got[0] != 1 || l < 20 || got.len() >= l {
                                        break;
                                    }
                                }
                            }
                        })
                        .await;
                        let is_answer = got.len() >= 20 && got[0] == 1 && u32::from_be_bytes([got[12], got[13], got[14], got[15]]) == 4200 + i as u32;
                        is_answer as usize
                    }));
                }
                for t in tasks {
                    burst_answers += t.await.unwrap_or(0);
                }
            }
        }
        let mut client = DiameterClient::new(&address, DiameterClientConfig { use_tls: ctls, verify_cert: verify });
        let wait = Duration::from_millis(4000);
        let connected = tokio::time::timeout(wait, client.connect()).await;
        let mut answered = false;
        let mut proceeded = false;
        if let Ok(Ok(mut handler)) = connected {
            proceeded = true;
            let d2 = dict.clone();
            tokio::spawn(async move {
                DiameterClient::handle(&mut handler, d2).await;
            });
            if let Ok(Ok(fut)) = tokio::time::timeout(wait, client.send_message(request_cmd(&dict, cmd, 42, 43, &marker))).await {
                if let Ok(Ok(ans)) = tokio::time::timeout(wait, fut).await {
                    let m = ans.get_avp(263).and_then(|a| a.get_utf8string().map(|s| s.value().to_string())).unwrap_or_default();
                    answered = ans.get_hop_by_hop_id() == 42 && m == marker;
                }
            }
        }
        tokio::time::sleep(Duration::from_millis(50)).await;
        let captured = cap.lock().unwrap().clone();
        // (a client with TLS off speaks clear text by configuration; against a server that serves nobody whether its
        // request got as far as the recorder is a race, and says nothing)
        let clear = contains(&captured, marker.as_bytes()) && !(cert == "weak" && !ctls);
        let burst_served = seen.lock().unwrap().iter().filter(|m| m.starts_with(&format!("{}-b", marker))).count();
        let answered = answered || burst_answers > 0;
        let served = seen.lock().unwrap().iter().any(|m| *m == marker) || burst_served > 0;
        let class = if answered && !clear {
            "session"
        } else if answered {
            "plain"
        } else {
            "refused"
        };
        let _ = proceeded;
        format!("{} clear={} answered={} served={}", class, clear as u8, answered as u8, served as u8)
    }
}

fn ident_of<'a>(pki: &'a Pki, cert: &str) -> &'a (Vec<u8>, Vec<u8>) {
    match cert {
        "wrongname" => &pki.wrongname,
        "untrusted" => &pki.untrusted,
        "good_far" => &pki.good_far,
        "good_rsa" => &pki.good_rsa,
        _ => &pki.good,
    }
}

/// `tlsre verify=<0|1> c1=<cert> c2=<cert> id=<n>`: ONE client object (TLS on) connects twice to the same address; behind
/// the address the first connection meets a server presenting `c1`, the second one a server presenting `c2` (the server
/// was restarted with another certificate). Each connection is judged by the configuration and the certificate it meets,
/// not by what the object saw before. answer: `<class> <class>`
pub async fn tls_reconnect(pki: Arc<Pki>, dict: Arc<Dictionary>, spec: Vec<String>) -> String {
    let mut kv = std::collections::HashMap::new();
    for t in spec.iter() {
        if let Some((k, v)) = t.split_once('=') {
            kv.insert(k.to_string(), v.to_string());
        }
    }
    let verify = kv.get("verify").map(|x| x == "1").unwrap_or(false);
    let c1 = kv.get("c1").cloned().unwrap_or_else(|| "good".into());
    let c2 = kv.get("c2").cloned().unwrap_or_else(|| "good".into());
    let cell_id = kv.get("id").cloned().unwrap_or_default();
    let seen: Arc<Mutex<Vec<String>>> = Default::default();
    let s1 = start_server(Some(identity(ident_of(&pki, &c1))), dict.clone(), seen.clone()).await;
    let s2 = start_server(Some(identity(ident_of(&pki, &c2))), dict.clone(), seen.clone()).await;
    let l = match TcpListener::bind("127.0.0.1:0").await {
        Ok(l) => l,
        Err(_) => return "skipped no-listener".to_string(),
    };
    let (raddr, cap) = match relay_with(l, vec![s1, s2]).await {
        Some(x) => x,
        None => return "skipped no-relay".to_string(),
    };
    let mut client = DiameterClient::new(&format!("127.0.0.1:{}", raddr.port()), DiameterClientConfig { use_tls: true, verify_cert: verify });
    let wait = Duration::from_millis(4000);
    let mut out = vec![];
    for round in 0..2u32 {
        let marker = format!("MARKER-c13re-{}-{}-{}", cell_id, raddr.port(), round);
        let mut answered = false;
        if let Ok(Ok(mut handler)) = tokio::time::timeout(wait, client.connect()).await {
            let d2 = dict.clone();
            tokio::spawn(async move {
                DiameterClient::handle(&mut handler, d2).await;
            });
            if let Ok(Ok(fut)) = tokio::time::timeout(wait, client.send_message(request_cmd(&dict, 272, 50 + round, 60 + round, &marker))).await {
                if let Ok(Ok(ans)) = tokio::time::timeout(wait, fut).await {
                    let m = ans.get_avp(263).and_then(|a| a.get_utf8string().map(|s| s.value().to_string())).unwrap_or_default();
                    answered = ans.get_hop_by_hop_id() == 50 + round && m == marker;
                }
            }
        }
        tokio::time::sleep(Duration::from_millis(30)).await;
        let clear = contains(&cap.lock().unwrap(), marker.as_bytes());
        out.push(if clear { "plain" } else if answered { "session" } else { "refused" });
    }
    out.join(" ")
}

/// `lsnpipe tls=<0|1> n=<k> kib=<size>`: one client sends k requests back to back, each answered with `kib` KiB, and behind
/// them one request on which the handler fails; the client is slow to start reading. The server ends the connection
/// after the failure - every answer it had produced before must still arrive, complete and in order.
/// answer: `answers=<complete correct answers> end=<eof|reset|timeout|garbage>`
pub async fn listener_pipeline(pki: Arc<Pki>, dict: Arc<Dictionary>, spec: Vec<String>) -> String {
    let mut kv = std::collections::HashMap::new();
    for t in spec.iter() {
        if let Some((k, v)) = t.split_once('=') {
            kv.insert(k.to_string(), v.to_string());
        }
    }
    let tls = kv.get("tls").map(|x| x == "1").unwrap_or(false);
    let n: usize = kv.get("n").and_then(|x| x.parse().ok()).unwrap_or(4);
    let kib: u32 = kv.get("kib").and_then(|x| x.parse().ok()).unwrap_or(64).min(1000);
    let id = if tls { Some(identity(&pki.good)) } else { None };
    let seen: Arc<Mutex<Vec<String>>> = Default::default();
    let addr = start_server(id, dict.clone(), seen.clone()).await;
    let mut p = match open_peer(addr, tls).await {
        Some(p) => p,
        None => return "answers=0 end=no-connection".into(),
    };
    let mut out = vec![];
    let mut want: Vec<Vec<u8>> = vec![];
    for i in 0..n {
        let req = request(&dict, BIG_HBH | kib, 7000 + i as u32, "pipe");
        want.push(frame(&big_answer(&req, dict.clone())));
        out.extend(frame(&req));
    }
    out.extend(frame(&request(&dict, FAIL_HBH, 1, "pipe-fail")));
    // the requests go out in the background (the server stops reading while its answers find no room)
    let (mut rd, mut wr): (Box<dyn tokio::io::AsyncRead + Send + Unpin>, Box<dyn tokio::io::AsyncWrite + Send + Unpin>) = match p {
        Peer::Plain(s) => {
            let (a, b) = s.into_split();
            (Box::new(a), Box::new(b))
        }
        Peer::Tls(s) => {
            let (a, b) = tokio::io::split(s);
            (Box::new(a), Box::new(b))
        }
    };
    let writer = tokio::spawn(async move {
        let _ = wr.write_all(&out).await;
        // keep the sending side open until the reader is done
        tokio::time::sleep(Duration::from_secs(20)).await;
        drop(wr);
    });
    tokio::time::sleep(Duration::from_millis(600)).await;
    let mut got = 0usize;
    let mut end = "eof";
    let r = tokio::time::timeout(Duration::from_secs(15), async {
        for w in &want {
            let mut buf = vec![0u8; w.len()];
            let mut off = 0;
            while off < buf.len() {
                // read slowly, in small pieces
                let hi = (off + 16384).min(buf.len());
                match rd.read(&mut buf[off..hi]).await {
                    Ok(0) => return if off == 0 { "eof" } else { "eof-inside-answer" },
                    Ok(k) => off += k,
                    Err(_) => return "reset",
                }
            }
            if &buf != w {
                return "garbage";
            }
            got += 1;
        }
        let mut one = [0u8; 1];
        match rd.read(&mut one).await {
            Ok(0) => "eof",
            Ok(_) => "garbage",
            Err(_) => "reset-after-answers",
        }
    })
    .await;
    match r {
        Ok(e) => end = e,
        Err(_) => end = "timeout",
    }
    writer.abort();
    format!("answers={} end={}", got, end)
}

/* ---------------------------------------------------------------- C11 / C12 over real TCP (supporting) */

/// `ctcp n=<k> perm=<i.j.k> eager=<0|1> cut=<octets|-> reset=<0|1> id=<x>`: the library's client through `connect()` on a
/// multi-threaded runtime against a hand-written peer. The peer answers the requests in the order `perm` (each answer
/// is 32 octets, written in pieces); `eager`: an answer is sent as soon as the header of its request has arrived;
/// `cut`: the peer closes (or resets) after that many octets of the answer stream.
/// answer: `res=<got:hbh:e2e | err | pending per request>`
pub async fn client_tcp(dict: Arc<Dictionary>, spec: Vec<String>) -> String {
    let mut kv = std::collections::HashMap::new();
    for t in spec.iter() {
        if let Some((k, v)) = t.split_once('=') {
            kv.insert(k.to_string(), v.to_string());
        }
    }
    let n: usize = kv.get("n").and_then(|x| x.parse().ok()).unwrap_or(1);
    let perm: Vec<usize> = kv.get("perm").map(|p| p.split('.').filter_map(|x| x.parse().ok()).collect()).unwrap_or_default();
    let eager = kv.get("eager").map(|x| x == "1").unwrap_or(false);
    let cut: Option<usize> = kv.get("cut").and_then(|x| x.parse().ok());
    let reset = kv.get("reset").map(|x| x == "1").unwrap_or(false);
    let base: u32 = kv.get("id").and_then(|x| x.parse::<u32>().ok()).unwrap_or(0).wrapping_mul(1000).wrapping_add(17);
    let l = match TcpListener::bind("127.0.0.1:0").await {
        Ok(l) => l,
        Err(_) => return "skipped".into(),
    };
    let addr = l.local_addr().unwrap();
    let d2 = dict.clone();
    let perm2 = perm.clone();
    let peer = tokio::spawn(async move {
        let (mut s, _) = match l.accept().await {
            Ok(x) => x,
            Err(_) => return,
        };
        s.set_nodelay(true).ok();
        // read request headers / bodies; remember (hbh, e2e) per request index
        let mut seen: Vec<(u32, u32)> = vec![];
        let mut pending_body = 0usize;
        let mut sent_total = 0usize;
        let mut answered = vec![false; n];
        let mut next = 0usize; // position in perm
        let answer = |h: u32, e: u32| -> Vec<u8> {
            // what the peer reports rotates: success, protocol errors (E bit set), transient and permanent failures, a
            // redirect - an answer is an answer, and belongs to the future of its request
            let (rc, ebit) = [(2001u32, false), (3004, true), (2002, false), (3002, true), (5012, true), (4001, false), (3004, false), (3006, true)][(h.wrapping_add(base / 1000) % 8) as usize];
            let mut m = DiameterMessage::new(CommandCode::CreditControl, ApplicationId::CreditControl, if ebit { 0x20 } else { 0 }, h, e, d2.clone());
            m.add_avp(268, None, 0x40, Unsigned32::new(rc).into());
            frame(&m)
        };
        loop {
            // answer whatever the plan allows now
            while next < perm2.len() {
                let j = perm2[next];
                let ready = if eager { j < seen.len() } else { seen.len() == n && pending_body == 0 };
                if !ready || answered[j] {
                    break;
                }
                let f = answer(seen[j].0, seen[j].1);
                let mut off = 0;
                for piece in [3usize, 17, 64] {
                    let mut end = (off + piece).min(f.len());
                    if let Some(c) = cut {
                        if sent_total + (end - off) > c {
                            end = off + (c - sent_total);
                        }
                    }
                    if end > off {
                        if s.write_all(&f[off..end]).await.is_err() {
                            return;
                        }
                        sent_total += end - off;
                        off = end;
                        // (for every other scenario most of a second of real time passes inside the body of an answer)
                        tokio::time::sleep(Duration::from_millis(if piece == 17 && (base / 1000) % 2 == 1 { 700 } else { 1 })).await;
                    }
                    if let Some(c) = cut {
                        if sent_total >= c {
                            if reset {
                                // a reset discards what the client has not read yet: let it read first
                                tokio::time::sleep(Duration::from_millis(60)).await;
                                let _ = s.set_linger(Some(Duration::from_secs(0)));
                            } else {
                                let _ = s.shutdown().await;
                                tokio::time::sleep(Duration::from_millis(30)).await;
                            }
                            return;
                        }
                    }
                    if off >= f.len() {
                        break;
                    }
                }
                answered[j] = true;
                next += 1;
            }
            if let Some(0) = cut {
                if seen.len() == n && pending_body == 0 {
                    if reset {
                        let _ = s.set_linger(Some(Duration::from_secs(0)));
                    } else {
                        let _ = s.shutdown().await;
                        tokio::time::sleep(Duration::from_millis(30)).await;
                    }
                    return;
                }
            }
            if next >= perm2.len() && seen.len() == n && pending_body == 0 {
                // everything answered: stay open until the client goes away
                let mut b = [0u8; 64];
                loop {
                    match s.read(&mut b).await {
                        Ok(0) | Err(_) => return,
                        Ok(_) => {}
                    }
                }
            }
            // read more of the request stream
            if pending_body > 0 {
                let mut b = vec![0u8; pending_body.min(4096)];
                match s.read(&mut b).await {
                    Ok(0) | Err(_) => return,
                    Ok(k) => pending_body -= k,
                }
            } else {
                let mut h = [0u8; 20];
                if s.read_exact(&mut h).await.is_err() {
                    return;
                }
                let len = u32::from_be_bytes([0, h[1], h[2], h[3]]) as usize;
                seen.push((u32::from_be_bytes([h[12], h[13], h[14], h[15]]), u32::from_be_bytes([h[16], h[17], h[18], h[19]])));
                pending_body = len.saturating_sub(20);
            }
        }
    });
    let mut client = DiameterClient::new(&format!("127.0.0.1:{}", addr.port()), DiameterClientConfig { use_tls: false, verify_cert: false });
    let mut handler = match tokio::time::timeout(Duration::from_secs(5), client.connect()).await {
        Ok(Ok(h)) => h,
        _ => return "res=connect-failed".into(),
    };
    let d3 = dict.clone();
    tokio::spawn(async move {
        DiameterClient::handle(&mut handler, d3).await;
    });
    // `gap=<s>`: that many seconds of REAL time pass between the first request and the second (a request that stays
    // unanswered for a long while is still a request that is waiting)
    let gap: u64 = kv.get("gap").and_then(|x| x.parse().ok()).unwrap_or(0);
    let mut futs = vec![];
    for i in 0..n {
        if i == 1 && gap > 0 {
            tokio::time::sleep(Duration::from_secs(gap)).await;
        }
        let hbh = base.wrapping_add(i as u32);
        // requests of different sizes so that eager answers overtake a request still being written
        let marker = "x".repeat([0usize, 10, 3000, 70000][i % 4]);
        let r = tokio::time::timeout(Duration::from_secs(8), client.send_message(request(&dict, hbh, hbh ^ 0xabcd, &marker))).await;
        futs.push(match r {
            Ok(Ok(f)) => Some(f),
            _ => None,
        });
    }
    let mut res = vec![];
    for f in futs {
        res.push(match f {
            None => "sendfail".to_string(),
            Some(f) => match tokio::time::timeout(Duration::from_secs(8), f).await {
                Err(_) => "pending".to_string(),
                Ok(Ok(m)) => format!("got:{}:{}", m.get_hop_by_hop_id(), m.get_end_to_end_id()),
                Ok(Err(_)) => "err".to_string(),
            },
        });
    }
    peer.abort();
    format!("res={}", res.join(","))
}

/// runs a batch of real-socket scenarios concurrently on a multi-threaded runtime; results in input order
/// `tlsrude verify=<0|1> mode=<close|rst|garbage|silent_close> id=<n>`: the library's client with TLS ON against a peer that
/// makes the handshake fail (hangs up on the ClientHello, resets, answers with something that is no TLS). Whatever the
/// client does next - on this or on any further connection to the same address - is recorded.
/// answer: `<refused|proceeded> clear=<0|1> conns=<n>`
pub async fn tls_rude(dict: Arc<Dictionary>, spec: Vec<String>) -> String {
    let mut kv = std::collections::HashMap::new();
    for t in spec.iter() {
        if let Some((k, v)) = t.split_once('=') {
            kv.insert(k.to_string(), v.to_string());
        }
    }
    let verify = kv.get("verify").map(|x| x == "1").unwrap_or(false);
    let mode = kv.get("mode").cloned().unwrap_or_else(|| "close".into());
    let cell_id = kv.get("id").cloned().unwrap_or_default();
    let listener = match TcpListener::bind("127.0.0.1:0").await {
        Ok(l) => l,
        Err(_) => return "skipped no-listener".into(),
    };
    let addr = listener.local_addr().unwrap();
    let cap: Arc<Mutex<Vec<u8>>> = Default::default();
    let conns = Arc::new(AtomicUsize::new(0));
    {
        let (cap, conns, mode) = (cap.clone(), conns.clone(), mode.clone());
        tokio::spawn(async move {
            loop {
                let (mut s, _) = match listener.accept().await {
                    Ok(x) => x,
                    Err(_) => break,
                };
                let k = conns.fetch_add(1, Ordering::SeqCst);
                let (cap, mode) = (cap.clone(), mode.clone());
                tokio::spawn(async move {
                    let mut b = vec![0u8; 65536];
                    if k == 0 {
                        // the first connection: take the ClientHello (or whatever comes), then be rude
                        if let Ok(Ok(n)) = tokio::time::timeout(Duration::from_millis(1500), s.read(&mut b)).await {
                            cap.lock().unwrap().extend_from_slice(&b[..n]);
                        }
                        match mode.as_str() {
                            "rst" => {
                                let _ = s.set_linger(Some(Duration::from_secs(0)));
                            }
                            "garbage" => {
                                let _ = s.write_all(b"HTTP/1.1 400 Bad Request\r\nConnection: close\r\n\r\n").await;
                            }
                            _ => {}
                        }
                        drop(s);
                    } else {
                        // later connections: listen quietly to everything the client says
                        let until = tokio::time::Instant::now() + Duration::from_millis(2500);
                        loop {
                            match tokio::time::timeout_at(until, s.read(&mut b)).await {
                                Ok(Ok(n)) if n > 0 => cap.lock().unwrap().extend_from_slice(&b[..n]),
                                _ => break,
                            }
                        }
                    }
                });
            }
        });
    }
    let marker = format!("MARKER-c13-rude-{}-{}", cell_id, addr.port());
    let mut client = DiameterClient::new(&format!("127.0.0.1:{}", addr.port()), DiameterClientConfig { use_tls: true, verify_cert: verify });
    let connected = tokio::time::timeout(Duration::from_millis(4000), client.connect()).await;
    let mut proceeded = false;
    if let Ok(Ok(mut handler)) = connected {
        proceeded = true;
        let d2 = dict.clone();
        tokio::spawn(async move {
            DiameterClient::handle(&mut handler, d2).await;
        });
        let _ = tokio::time::timeout(Duration::from_millis(1000), client.send_message(request(&dict, 42, 43, &marker))).await;
        tokio::time::sleep(Duration::from_millis(300)).await;
    }
    tokio::time::sleep(Duration::from_millis(100)).await;
    let captured = cap.lock().unwrap().clone();
    format!("{} clear={} conns={}", if proceeded { "proceeded" } else { "refused" }, contains(&captured, marker.as_bytes()) as u8, conns.load(Ordering::SeqCst).min(2))
}

/// `tlsq <cell>;<cell>;...` (each cell `k=v,k=v,...`): the cells one after the other in a FRESH process, so that whatever
/// the library keeps per process (a cached connector, a global flag) is in the state the sequence itself produced.
/// answer: the cells' answers joined by ` ; `
async fn tls_sequence_in_child(cells: String) -> String {
    let exe = match std::env::current_exe() {
        Ok(e) => e,
        Err(_) => return "bad-op".into(),
    };
    let ca = std::env::var("VERIF_CA_FILE").unwrap_or_else(|_| "/verif/work/tlsq".into());
    static N: std::sync::atomic::AtomicUsize = std::sync::atomic::AtomicUsize::new(0);
    let k = N.fetch_add(1, Ordering::SeqCst);
    let ca_child = format!("{}.q{}.ca.pem", ca.trim_end_matches(".ca.pem"), k);
    let out = tokio::time::timeout(Duration::from_secs(120), tokio::process::Command::new(exe).arg("tlsq").arg(&cells).arg(&ca_child).stdin(std::process::Stdio::null()).stderr(std::process::Stdio::null()).kill_on_drop(true).output()).await;
    let _ = std::fs::remove_file(&ca_child);
    match out {
        Ok(Ok(o)) if o.status.success() => String::from_utf8_lossy(&o.stdout).trim().to_string(),
        Ok(Ok(_)) => "abort".into(),
        _ => "hang".into(),
    }
}

/// child side of `tlsq`
pub fn tls_sequence_child(cells: &str, ca_path: &str, builtin_xml: &str) {
    if !ca_path.ends_with(".ca.pem") {
        std::process::exit(2);
    }
    std::env::set_var("SSL_CERT_FILE", ca_path);
    let pki = Arc::new(make_pki());
    std::fs::write(ca_path, &pki.ca_pem).expect("ca file");
    let dict = Arc::new(Dictionary::new(&[builtin_xml]));
    let rt = tokio::runtime::Builder::new_multi_thread().worker_threads(4).enable_all().build().unwrap();
    let res: Vec<String> = rt.block_on(async move {
        let mut out = vec![];
        for c in cells.split(';') {
            let toks: Vec<String> = c.split(',').map(|x| x.to_string()).collect();
            out.push(tls_cell(pki.clone(), dict.clone(), toks).await);
        }
        out
    });
    println!("{}", res.join(" ; "));
}

pub fn run_batch(rt: &tokio::runtime::Runtime, pki: Arc<Pki>, dict: Arc<Dictionary>, lines: Vec<String>) -> Vec<String> {
    rt.block_on(async move {
        let mut hs = vec![];
        for l in lines {
            let toks: Vec<String> = l.trim().split(' ').map(|x| x.to_string()).collect();
            let (pki, dict) = (pki.clone(), dict.clone());
            hs.push(tokio::spawn(async move {
                match toks[0].as_str() {
                    "lsn" => listener_scenario(pki, dict, toks[1..].to_vec()).await,
                    "lsnpipe" => listener_pipeline(pki, dict, toks[1..].to_vec()).await,
                    "tls" => tls_cell(pki, dict, toks[1..].to_vec()).await,
                    "tlsre" => tls_reconnect(pki, dict, toks[1..].to_vec()).await,
                    "tlsq" => tls_sequence_in_child(toks[1..].join(" ")).await,
                    "tlsrude" => tls_rude(dict, toks[1..].to_vec()).await,
                    "ctcp" => client_tcp(dict, toks[1..].to_vec()).await,
                    _ => "bad-op".to_string(),
                }
            }));
        }
        let mut out = vec![];
        for h in hs {
            out.push(h.await.unwrap_or_else(|_| "panic".to_string()));
        }
        out
    })
}
