//! Real-socket scenarios: the listener with several concurrent peers (C10) and the TLS decision table (C13).
//! Runs on a multi-threaded tokio runtime over loopback; certificates are generated with the `openssl` crate that
//! `native-tls` already depends on; trust is injected through SSL_CERT_FILE (set at process start, see main.rs).

use diameter::avp::*;
use diameter::dictionary::Dictionary;
use diameter::transport::{DiameterClient, DiameterClientConfig, DiameterServer, DiameterServerConfig};
use diameter::{ApplicationId, CommandCode, DiameterMessage};
use std::sync::atomic::{AtomicUsize, Ordering};
use std::sync::{Arc, Mutex};
use std::time::Duration;
use tokio::io::{AsyncReadExt, AsyncWriteExt};
use tokio::net::{TcpListener, TcpStream};

pub struct Pki {
    pub ca_pem: Vec<u8>,
    pub good: (Vec<u8>, Vec<u8>),      // certificate (PEM), pkcs8 key (PEM): trusted, SANs localhost / 127.0.0.1 / ::1
    pub wrongname: (Vec<u8>, Vec<u8>), // trusted, SAN other.example only
    pub untrusted: (Vec<u8>, Vec<u8>), // self-signed, right names
}

fn make_cert(cn: &str, sans_dns: &[&str], sans_ip: &[&str], issuer: Option<(&openssl::x509::X509, &openssl::pkey::PKey<openssl::pkey::Private>)>, is_ca: bool) -> (openssl::x509::X509, openssl::pkey::PKey<openssl::pkey::Private>) {
    use openssl::asn1::Asn1Time;
    use openssl::bn::{BigNum, MsbOption};
    use openssl::ec::{EcGroup, EcKey};
    use openssl::hash::MessageDigest;
    use openssl::nid::Nid;
    use openssl::pkey::PKey;
    use openssl::x509::extension::{BasicConstraints, KeyUsage, SubjectAlternativeName};
    use openssl::x509::{X509NameBuilder, X509};
    let group = EcGroup::from_curve_name(Nid::X9_62_PRIME256V1).unwrap();
    let key = PKey::from_ec_key(EcKey::generate(&group).unwrap()).unwrap();
    let mut name = X509NameBuilder::new().unwrap();
    name.append_entry_by_text("CN", cn).unwrap();
    let name = name.build();
    let mut b = X509::builder().unwrap();
    b.set_version(2).unwrap();
    let mut serial = BigNum::new().unwrap();
    serial.rand(100, MsbOption::MAYBE_ZERO, false).unwrap();
    b.set_serial_number(&serial.to_asn1_integer().unwrap()).unwrap();
    b.set_subject_name(&name).unwrap();
    b.set_pubkey(&key).unwrap();
    b.set_not_before(&Asn1Time::days_from_now(0).unwrap()).unwrap();
    b.set_not_after(&Asn1Time::days_from_now(365).unwrap()).unwrap();
    match issuer {
        Some((c, _)) => b.set_issuer_name(c.subject_name()).unwrap(),
        None => b.set_issuer_name(&name).unwrap(),
    }
    if is_ca {
        b.append_extension(BasicConstraints::new().critical().ca().build().unwrap()).unwrap();
        b.append_extension(KeyUsage::new().critical().key_cert_sign().crl_sign().build().unwrap()).unwrap();
    } else {
        let mut san = SubjectAlternativeName::new();
        for d in sans_dns {
            san.dns(d);
        }
        for i in sans_ip {
            san.ip(i);
        }
        let ctx = b.x509v3_context(issuer.map(|x| &**x.0), None);
        let ext = san.build(&ctx).unwrap();
        b.append_extension(ext).unwrap();
    }
    match issuer {
        Some((_, k)) => b.sign(k, MessageDigest::sha256()).unwrap(),
        None => b.sign(&key, MessageDigest::sha256()).unwrap(),
    }
    (b.build(), key)
}

pub fn make_pki() -> Pki {
    let (ca, cak) = make_cert("verif throw-away CA", &[], &[], None, true);
    let (g, gk) = make_cert("localhost", &["localhost"], &["127.0.0.1", "::1"], Some((&ca, &cak)), false);
    let (w, wk) = make_cert("other.example", &["other.example"], &["192.0.2.7"], Some((&ca, &cak)), false);
    let (u, uk) = make_cert("localhost", &["localhost"], &["127.0.0.1", "::1"], None, false);
    let pem = |c: &openssl::x509::X509, k: &openssl::pkey::PKey<openssl::pkey::Private>| (c.to_pem().unwrap(), k.private_key_to_pem_pkcs8().unwrap());
    Pki { ca_pem: ca.to_pem().unwrap(), good: pem(&g, &gk), wrongname: pem(&w, &wk), untrusted: pem(&u, &uk) }
}

fn identity(p: &(Vec<u8>, Vec<u8>)) -> native_tls::Identity {
    native_tls::Identity::from_pkcs8(&p.0, &p.1).unwrap()
}

fn request(dict: &Arc<Dictionary>, hbh: u32, e2e: u32, marker: &str) -> DiameterMessage {
    let mut m = DiameterMessage::new(CommandCode::CreditControl, ApplicationId::CreditControl, 0x80, hbh, e2e, dict.clone());
    m.add_avp(263, None, 0x40, UTF8String::new(marker).into());
    m
}

fn frame(m: &DiameterMessage) -> Vec<u8> {
    let mut v = Vec::new();
    m.encode_to(&mut v).unwrap();
    v
}

pub const PANIC_HBH: u32 = 0xdead_0001;

/// the handler of every scenario: echoes identifiers and the marker; panics on a designated request
fn echo_handler(dict: Arc<Dictionary>, seen: Arc<Mutex<Vec<String>>>) -> impl Fn(DiameterMessage) -> std::pin::Pin<Box<dyn std::future::Future<Output = diameter::Result<DiameterMessage>> + Send>> + Clone + Send + 'static {
    move |req: DiameterMessage| {
        let dict = dict.clone();
        let seen = seen.clone();
        Box::pin(async move {
            if req.get_hop_by_hop_id() == PANIC_HBH {
                panic!("scripted handler panic");
            }
            let marker = req.get_avp(263).and_then(|a| a.get_utf8string().map(|s| s.value().to_string())).unwrap_or_default();
            seen.lock().unwrap().push(marker.clone());
            let mut res = DiameterMessage::new(req.get_command_code(), req.get_application_id(), 0, req.get_hop_by_hop_id(), req.get_end_to_end_id(), dict);
            res.add_avp(263, None, 0x40, UTF8String::new(&marker).into());
            res.add_avp(268, None, 0x40, Unsigned32::new(2001).into());
            Ok(res)
        })
    }
}

async fn start_server(tls: Option<native_tls::Identity>, dict: Arc<Dictionary>, seen: Arc<Mutex<Vec<String>>>) -> std::net::SocketAddr {
    let mut server = DiameterServer::new("127.0.0.1:0", DiameterServerConfig { native_tls: tls }).await.unwrap();
    let addr = server.verif_local_addr().unwrap();
    let h = echo_handler(dict.clone(), seen);
    tokio::spawn(async move {
        // the configuration, not the history of the server object, decides how connections are protected: `listen` is
        // entered, abandoned (the future is dropped) and entered again before the scenario starts
        {
            let first = server.listen(h.clone(), dict.clone());
            tokio::select! {
                _ = first => {}
                _ = tokio::time::sleep(Duration::from_millis(5)) => {}
            }
        }
        let _ = server.listen(h, dict).await;
    });
    tokio::time::sleep(Duration::from_millis(20)).await;
    addr
}

/* ---------------------------------------------------------------- C10 */

enum Peer {
    Plain(TcpStream),
    Tls(tokio_native_tls::TlsStream<TcpStream>),
}
impl Peer {
    async fn write_all(&mut self, b: &[u8]) -> std::io::Result<()> {
        match self {
            Peer::Plain(s) => s.write_all(b).await,
            Peer::Tls(s) => s.write_all(b).await,
        }
    }
    async fn read_exact(&mut self, b: &mut [u8]) -> std::io::Result<usize> {
        match self {
            Peer::Plain(s) => s.read_exact(b).await,
            Peer::Tls(s) => s.read_exact(b).await,
        }
    }
}

async fn open_peer(addr: std::net::SocketAddr, tls: bool) -> Option<Peer> {
    let s = tokio::time::timeout(Duration::from_secs(5), TcpStream::connect(addr)).await.ok()?.ok()?;
    s.set_nodelay(true).ok();
    if !tls {
        return Some(Peer::Plain(s));
    }
    let c = tokio_native_tls::TlsConnector::from(native_tls::TlsConnector::builder().danger_accept_invalid_certs(true).build().ok()?);
    let t = tokio::time::timeout(Duration::from_secs(5), c.connect("localhost", s)).await.ok()?.ok()?;
    Some(Peer::Tls(t))
}

/// one request, one answer; returns the (hop-by-hop, end-to-end, marker) of the answer
async fn exchange(p: &mut Peer, dict: &Arc<Dictionary>, hbh: u32, e2e: u32, marker: &str, deadline: Duration) -> Option<(u32, u32, String)> {
    let f = frame(&request(dict, hbh, e2e, marker));
    p.write_all(&f).await.ok()?;
    let r = tokio::time::timeout(deadline, async {
        let mut pre = [0u8; 4];
        p.read_exact(&mut pre).await.ok()?;
        let l = u32::from_be_bytes([0, pre[1], pre[2], pre[3]]) as usize;
        if !(20..=1 << 20).contains(&l) {
            return None;
        }
        let mut buf = vec![0u8; l];
        buf[..4].copy_from_slice(&pre);
        p.read_exact(&mut buf[4..]).await.ok()?;
        let m = DiameterMessage::decode_from(&mut std::io::Cursor::new(&buf), dict.clone()).ok()?;
        let marker = m.get_avp(263).and_then(|a| a.get_utf8string().map(|s| s.value().to_string())).unwrap_or_default();
        Some((m.get_hop_by_hop_id(), m.get_end_to_end_id(), marker))
    })
    .await;
    r.ok().flatten()
}

/// `lsn tls=<0|1> good=<k> reqs=<n> fault=<kind> when=<before|during|after> nfaulty=<j>`
/// answer: per well-behaved client the number of correct answers, how many answers went astray, whether a client
/// opened after the fault was served
pub async fn listener_scenario(pki: Arc<Pki>, dict: Arc<Dictionary>, spec: Vec<String>) -> String {
    let mut kv = std::collections::HashMap::new();
    for t in spec.iter() {
        if let Some((k, v)) = t.split_once('=') {
            kv.insert(k.to_string(), v.to_string());
        }
    }
    let tls = kv.get("tls").map(|x| x == "1").unwrap_or(false);
    let good: usize = kv.get("good").and_then(|x| x.parse().ok()).unwrap_or(1);
    let reqs: usize = kv.get("reqs").and_then(|x| x.parse().ok()).unwrap_or(3);
    let fault = kv.get("fault").cloned().unwrap_or_else(|| "none".into());
    let when = kv.get("when").cloned().unwrap_or_else(|| "during".into());
    let nfaulty: usize = kv.get("nfaulty").and_then(|x| x.parse().ok()).unwrap_or(1);
    let id = if tls { Some(identity(&pki.good)) } else { None };
    {
        let seen: Arc<Mutex<Vec<String>>> = Default::default();
        let addr = start_server(id, dict.clone(), seen.clone()).await;
        let astray = Arc::new(AtomicUsize::new(0));
        let deadline = Duration::from_secs(8);
        // the misbehaving peers; each returns the connection (kept open where the fault is a stall)
        let faulty = |k: usize| {
            let dict = dict.clone();
            let fault = fault.clone();
            async move {
                let mut keep: Vec<Peer> = vec![];
                match fault.as_str() {
                    "none" => {}
                    "stall_handshake" => {
                        // connects and never says anything (with TLS: never starts the handshake)
                        if let Ok(s) = TcpStream::connect(addr).await {
                            keep.push(Peer::Plain(s));
                        }
                    }
                    "half_hello" => {
                        // a few octets of a TLS record (or of a Diameter prefix), then silence
                        if let Ok(mut s) = TcpStream::connect(addr).await {
                            let _ = s.write_all(&[0x16, 0x03, 0x01]).await;
                            keep.push(Peer::Plain(s));
                        }
                    }
                    _ => {
                        if let Some(mut p) = open_peer(addr, tls).await {
                            match fault.as_str() {
                                "malformed" => {
                                    let _ = exchange(&mut p, &dict, 0xbad0_0000 + k as u32, 1, "faulty-ok", deadline).await;
                                    let mut f = frame(&request(&dict, 0xbad0_0001, 2, "faulty-bad"));
                                    f[5] = 0x7f; // unknown command code
                                    let _ = p.write_all(&f).await;
                                    keep.push(p);
                                }
                                "oversized" => {
                                    let _ = p.write_all(&[1, 0xff, 0xff, 0xff, 0x80, 0, 1, 16]).await;
                                    keep.push(p);
                                }
                                "short" => {
                                    let _ = p.write_all(&[1, 0, 0, 2, 0, 0, 0, 0]).await;
                                    keep.push(p);
                                }
                                "stall_midframe" => {
                                    let f = frame(&request(&dict, 0xbad0_0002, 3, "faulty-stall"));
                                    let _ = p.write_all(&f[..f.len() / 2]).await;
                                    keep.push(p);
                                }
                                "reset" => {
                                    // a valid request, then an abrupt reset (SO_LINGER 0) without reading the answer
                                    let f = frame(&request(&dict, 0xbad0_0003 + k as u32, 4, "faulty-reset"));
                                    let _ = p.write_all(&f).await;
                                    if let Peer::Plain(s) = p {
                                        let _ = s.set_linger(Some(Duration::from_secs(0)));
                                        drop(s);
                                    }
                                }
                                "panic" => {
                                    let f = frame(&request(&dict, PANIC_HBH, 5, "faulty-panic"));
                                    let _ = p.write_all(&f).await;
                                    keep.push(p);
                                }
                                _ => {}
                            }
                        }
                    }
                }
                keep
            }
        };
        let mut kept: Vec<Peer> = vec![];
        if when == "before" {
            for k in 0..nfaulty {
                kept.extend(faulty(k).await);
            }
        }
        // the well-behaved clients: `reqs` exchanges each, identifiers unique per client
        let mut tasks = vec![];
        let (go_tx, go_rx) = tokio::sync::watch::channel(false);
        for c in 0..good {
            let dict = dict.clone();
            let astray = astray.clone();
            let mut go = go_rx.clone();
            tasks.push(tokio::spawn(async move {
                let mut ok = 0usize;
                let mut p = match open_peer(addr, tls).await {
                    Some(p) => p,
                    None => return 0usize,
                };
                for i in 0..reqs {
                    if i == reqs / 2 {
                        // let the fault happen in the middle of the good traffic
                        let _ = tokio::time::timeout(Duration::from_secs(8), go.wait_for(|x| *x)).await;
                    }
                    let hbh = ((c as u32 + 1) << 16) | i as u32;
                    let marker = format!("good;{};{}", c, i);
                    match exchange(&mut p, &dict, hbh, hbh ^ 0x5a5a, &marker, deadline).await {
                        Some((h, e, m)) if h == hbh && e == (hbh ^ 0x5a5a) && m == marker => ok += 1,
                        Some(_) => {
                            astray.fetch_add(1, Ordering::SeqCst);
                        }
                        None => break,
                    }
                }
                ok
            }));
        }
        if when == "during" {
            for k in 0..nfaulty {
                kept.extend(faulty(k).await);
            }
        }
        let _ = go_tx.send(true);
        let mut per_client = vec![];
        for t in tasks {
            per_client.push(t.await.unwrap_or(0));
        }
        if when == "after" {
            for k in 0..nfaulty {
                kept.extend(faulty(k).await);
            }
        }
        // a connection opened afterwards must be served too: the listener keeps accepting
        let mut late_ok = 0usize;
        if let Some(mut p) = open_peer(addr, tls).await {
            for i in 0..2u32 {
                let hbh = 0x7700_0000 | i;
                if let Some((h, _, m)) = exchange(&mut p, &dict, hbh, 9, "late", deadline).await {
                    if h == hbh && m == "late" {
                        late_ok += 1;
                    } else {
                        astray.fetch_add(1, Ordering::SeqCst);
                    }
                }
            }
        }
        drop(kept);
        let pc: Vec<String> = per_client.iter().map(|x| x.to_string()).collect();
        format!("clients={} astray={} late={}", pc.join(","), astray.load(Ordering::SeqCst), late_ok)
    }
}

/* ---------------------------------------------------------------- C13 */

/// forwards both ways and records everything the client put on the socket
async fn relay(target: std::net::SocketAddr, kind: &str) -> Option<(std::net::SocketAddr, Arc<Mutex<Vec<u8>>>)> {
    // "localhost" resolves to ::1 and 127.0.0.1: the relay for a host-name address listens on both families (one
    // dual-stack wildcard socket), otherwise the ::1 attempt could reach another scenario's listener that happens to
    // own the same port number in the other family
    let l = TcpListener::bind(match kind {
        "ip6" => "[::1]:0",
        "host" => "[::]:0",
        _ => "127.0.0.1:0",
    })
    .await
    .ok()?;
    let addr = l.local_addr().ok()?;
    let cap: Arc<Mutex<Vec<u8>>> = Default::default();
    let cap2 = cap.clone();
    tokio::spawn(async move {
        while let Ok((mut c, _)) = l.accept().await {
            let cap = cap2.clone();
            tokio::spawn(async move {
                let mut s = match TcpStream::connect(target).await {
                    Ok(s) => s,
                    Err(_) => return,
                };
                let (mut cr, mut cw) = c.split();
                let (mut sr, mut sw) = s.split();
                let up = async {
                    let mut b = [0u8; 4096];
                    loop {
                        match cr.read(&mut b).await {
                            Ok(0) | Err(_) => break,
                            Ok(n) => {
                                cap.lock().unwrap().extend_from_slice(&b[..n]);
                                if sw.write_all(&b[..n]).await.is_err() {
                                    break;
                                }
                            }
                        }
                    }
                    let _ = sw.shutdown().await;
                };
                let down = async {
                    let mut b = [0u8; 4096];
                    loop {
                        match sr.read(&mut b).await {
                            Ok(0) | Err(_) => break,
                            Ok(n) => {
                                if cw.write_all(&b[..n]).await.is_err() {
                                    break;
                                }
                            }
                        }
                    }
                    let _ = cw.shutdown().await;
                };
                tokio::join!(up, down);
            });
        }
    });
    Some((addr, cap))
}

fn contains(h: &[u8], n: &[u8]) -> bool {
    !n.is_empty() && h.windows(n.len()).any(|w| w == n)
}

/// `tls ctls=<0|1> verify=<0|1> stls=<0|1> cert=<good|wrongname|untrusted> addr=<host|ip|ip6> id=<n>`
/// answer: `<session|plain|refused> clear=<0|1> answered=<0|1> served=<0|1>`
pub async fn tls_cell(pki: Arc<Pki>, dict: Arc<Dictionary>, spec: Vec<String>) -> String {
    let mut kv = std::collections::HashMap::new();
    for t in spec.iter() {
        if let Some((k, v)) = t.split_once('=') {
            kv.insert(k.to_string(), v.to_string());
        }
    }
    let ctls = kv.get("ctls").map(|x| x == "1").unwrap_or(false);
    let verify = kv.get("verify").map(|x| x == "1").unwrap_or(false);
    let stls = kv.get("stls").map(|x| x == "1").unwrap_or(false);
    let cert = kv.get("cert").cloned().unwrap_or_else(|| "good".into());
    let addr_kind = kv.get("addr").cloned().unwrap_or_else(|| "host".into());
    let cell_id = kv.get("id").cloned().unwrap_or_default();
    let id = if stls {
        Some(identity(match cert.as_str() {
            "wrongname" => &pki.wrongname,
            "untrusted" => &pki.untrusted,
            _ => &pki.good,
        }))
    } else {
        None
    };
    {
        let seen: Arc<Mutex<Vec<String>>> = Default::default();
        let saddr = start_server(id, dict.clone(), seen.clone()).await;
        let (raddr, cap) = match relay(saddr, &addr_kind).await {
            Some(x) => x,
            None => return "skipped no-ipv6-loopback".to_string(),
        };
        let address = match addr_kind.as_str() {
            "ip" => format!("127.0.0.1:{}", raddr.port()),
            "ip6" => format!("[::1]:{}", raddr.port()),
            _ => format!("localhost:{}", raddr.port()),
        };
        let marker = format!("MARKER-c13-{}-{}", cell_id, raddr.port());
        let mut client = DiameterClient::new(&address, DiameterClientConfig { use_tls: ctls, verify_cert: verify });
        let wait = Duration::from_millis(2500);
        let connected = tokio::time::timeout(wait, client.connect()).await;
        let mut answered = false;
        let mut proceeded = false;
        if let Ok(Ok(mut handler)) = connected {
            proceeded = true;
            let d2 = dict.clone();
            tokio::spawn(async move {
                DiameterClient::handle(&mut handler, d2).await;
            });
            if let Ok(Ok(fut)) = tokio::time::timeout(wait, client.send_message(request(&dict, 42, 43, &marker))).await {
                if let Ok(Ok(ans)) = tokio::time::timeout(wait, fut).await {
                    let m = ans.get_avp(263).and_then(|a| a.get_utf8string().map(|s| s.value().to_string())).unwrap_or_default();
                    answered = ans.get_hop_by_hop_id() == 42 && m == marker;
                }
            }
        }
        tokio::time::sleep(Duration::from_millis(50)).await;
        let captured = cap.lock().unwrap().clone();
        let clear = contains(&captured, marker.as_bytes());
        let served = seen.lock().unwrap().iter().any(|m| *m == marker);
        let class = if answered && !clear {
            "session"
        } else if answered {
            "plain"
        } else {
            "refused"
        };
        let _ = proceeded;
        format!("{} clear={} answered={} served={}", class, clear as u8, answered as u8, served as u8)
    }
}

/// runs a batch of real-socket scenarios concurrently on a multi-threaded runtime; results in input order
pub fn run_batch(rt: &tokio::runtime::Runtime, pki: Arc<Pki>, dict: Arc<Dictionary>, lines: Vec<String>) -> Vec<String> {
    rt.block_on(async move {
        let mut hs = vec![];
        for l in lines {
            let toks: Vec<String> = l.trim().split(' ').map(|x| x.to_string()).collect();
            let (pki, dict) = (pki.clone(), dict.clone());
            hs.push(tokio::spawn(async move {
                match toks[0].as_str() {
                    "lsn" => listener_scenario(pki, dict, toks[1..].to_vec()).await,
                    "tls" => tls_cell(pki, dict, toks[1..].to_vec()).await,
                    _ => "bad-op".to_string(),
                }
            }));
        }
        let mut out = vec![];
        for h in hs {
            out.push(h.await.unwrap_or_else(|_| "panic".to_string()));
        }
        out
    })
}
