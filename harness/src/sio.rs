//! Scripted in-memory streams: an `AsyncRead` that delivers a script of chunks / Pending / end / error and counts
//! what it hands out, an `AsyncWrite` that accepts partial amounts, stalls or fails on script; a duplex of both.

use std::collections::VecDeque;
use std::pin::Pin;
use std::sync::{Arc, Mutex};
use std::task::{Context, Poll, Waker};
use tokio::io::{AsyncRead, AsyncWrite, ReadBuf};

#[derive(Debug, Clone)]
pub enum REv {
    Data(Vec<u8>),
    Pending,
    Eof,
    Fail,
    /// readable only once this many octets have been written to the other direction (client schedules)
    WaitWritten(usize),
    /// never readable again: a silent, open peer
    Silent,
    /// nothing arrives for this many milliseconds of (virtual) time
    Delay(u64),
    /// this one call fails with `ErrorKind::Interrupted`; the stream itself stays usable
    Interrupted,
    Until(tokio::time::Instant),
}

#[derive(Debug, Clone)]
pub enum WEv {
    Accept(usize),
    Pending,
    Fail,
    /// this one call fails with `ErrorKind::Interrupted`; the stream itself stays usable
    Interrupted,
    /// no room until the reading side has consumed this many octets (back-pressure in both directions)
    WaitRead(usize),
    /// every call is served (as far as it goes) until this many octets have been written in total; the call after that
    /// fails. Where the failure falls does not depend on how the writer under test slices its calls.
    FailAt(usize),
}

#[derive(Default)]
pub struct Shared {
    pub rd: VecDeque<REv>,
    pub wr: VecDeque<WEv>, // when exhausted: accept everything
    pub written: Vec<u8>,
    pub consumed: usize,
    pub read_waker: Option<Waker>,
    pub write_waker: Option<Waker>,
    pub trace: Vec<String>,
    pub trace_on: bool,
    pub writes_after_fail: usize,
    pub failed: bool,
    /// unified chronological log (hook events are drained into it before every stream event)
    pub ulog: Option<Arc<Mutex<Vec<String>>>>,
    /// the number of the connection this stream is (several connections of one client object): its events read `rd@k:n`
    pub tag: Option<usize>,
    /// the stream advertises and implements vectored writes (`iomode` bit 0)
    pub vectored: bool,
    /// the reader fills the caller's buffer the way TLS streams do: it initialises the whole unfilled part, then advances
    /// by what it has (`iomode` bit 1)
    pub init_style: bool,
}

// `iomode <n>`: bit 0 = streams created from now on advertise vectored writes, bit 1 = their reader uses
// `initialize_unfilled` + `advance`
thread_local! { pub static IOMODE: std::cell::Cell<u32> = std::cell::Cell::new(0); }

// the connection whose reader task is being polled right now (set by `Tagged`): the reader's trace-point events are
// attributed to it
thread_local! { pub static CUR_CONN: std::cell::Cell<Option<usize>> = std::cell::Cell::new(None); }

/// a reader task's future, polled with `CUR_CONN` set to its connection
pub struct Tagged<F> {
    pub conn: usize,
    pub ulog: Arc<Mutex<Vec<String>>>,
    pub fut: Pin<Box<F>>,
}

impl<F: std::future::Future> std::future::Future for Tagged<F> {
    type Output = F::Output;
    fn poll(mut self: Pin<&mut Self>, cx: &mut Context<'_>) -> Poll<F::Output> {
        // what happened before this poll belongs to whoever ran before
        sync_hooks(&self.ulog);
        CUR_CONN.with(|c| c.set(Some(self.conn)));
        let r = self.fut.as_mut().poll(cx);
        sync_hooks(&self.ulog);
        CUR_CONN.with(|c| c.set(None));
        r
    }
}

/// move the library's trace-point events (feature verif-hooks) into the unified log
pub fn sync_hooks(ulog: &Arc<Mutex<Vec<String>>>) {
    use diameter::verif::Event;
    let evs = diameter::verif::take_events();
    if evs.is_empty() {
        return;
    }
    let mut u = ulog.lock().unwrap();
    let at = CUR_CONN.with(|c| c.get()).map(|c| format!("@{}", c)).unwrap_or_default();
    for e in evs {
        u.push(match e {
            Event::Registered(h) => format!("reg:{}", h),
            Event::SendRefused(h) => format!("refused:{}", h),
            Event::Removed(h, f) => format!("rm{}:{}:{}", at, h, f as u8),
            Event::Delivered(h, ok) => format!("dl{}:{}:{}", at, h, ok as u8),
            Event::ReaderStopped => format!("stop{}", at),
        });
    }
}

#[derive(Clone)]
pub struct Scripted(pub Arc<Mutex<Shared>>);

impl Scripted {
    pub fn new(rd: Vec<REv>, wr: Vec<WEv>) -> Scripted {
        let m = IOMODE.with(|m| m.get());
        Scripted(Arc::new(Mutex::new(Shared { rd: rd.into(), wr: wr.into(), vectored: m & 1 != 0, init_style: m & 2 != 0, ..Default::default() })))
    }
}

pub fn parse_revs(s: &str) -> Option<Vec<REv>> {
    if s == "-" {
        return Some(vec![]);
    }
    s.split(',')
        .map(|t| {
            Some(match t {
                "p" => REv::Pending,
                "e" => REv::Eof,
                "f" => REv::Fail,
                "s" => REv::Silent,
                _ if t.starts_with("d:") => REv::Data(crate::util::unhex(&t[2..])?),
                _ if t.starts_with("w:") => REv::WaitWritten(t[2..].parse().ok()?),
                _ if t.starts_with("t:") => REv::Delay(t[2..].parse().ok()?),
                "i" => REv::Interrupted,
                _ => return None,
            })
        })
        .collect()
}

pub fn parse_wevs(s: &str) -> Option<Vec<WEv>> {
    if s == "-" {
        return Some(vec![]);
    }
    s.split(',')
        .map(|t| {
            Some(match t {
                "p" => WEv::Pending,
                "f" => WEv::Fail,
                "i" => WEv::Interrupted,
                _ if t.starts_with('F') => WEv::FailAt(t[1..].parse().ok()?),
                _ if t.starts_with('r') => WEv::WaitRead(t[1..].parse().ok()?),
                _ if t.starts_with('a') => WEv::Accept(t[1..].parse().ok()?),
                _ => return None,
            })
        })
        .collect()
}

impl AsyncRead for Scripted {
    fn poll_read(self: Pin<&mut Self>, cx: &mut Context<'_>, buf: &mut ReadBuf<'_>) -> Poll<std::io::Result<()>> {
        let mut s = self.0.lock().unwrap();
        loop {
            match s.rd.pop_front() {
                // script exhausted: the peer has closed
                None => {
                    if s.trace_on {
                        s.trace.push("rd end".into());
                    }
                    return Poll::Ready(Ok(()));
                }
                Some(REv::Eof) => {
                    s.rd.push_front(REv::Eof);
                    if s.trace_on {
                        s.trace.push("rd eof".into());
                    }
                    return Poll::Ready(Ok(()));
                }
                Some(REv::Fail) => {
                    s.rd.push_front(REv::Fail);
                    let kind = fault_kind(s.consumed + 1);
                    return Poll::Ready(Err(std::io::Error::new(kind, "scripted reset")));
                }
                Some(REv::Interrupted) => {
                    return Poll::Ready(Err(std::io::Error::new(std::io::ErrorKind::Interrupted, "scripted EINTR")));
                }
                Some(REv::Silent) => {
                    s.rd.push_front(REv::Silent);
                    s.read_waker = Some(cx.waker().clone());
                    return Poll::Pending;
                }
                Some(REv::Pending) => {
                    cx.waker().wake_by_ref();
                    return Poll::Pending;
                }
                Some(REv::Delay(ms)) => {
                    s.rd.push_front(REv::Until(tokio::time::Instant::now() + std::time::Duration::from_millis(ms)));
                    continue;
                }
                Some(REv::Until(t)) => {
                    if tokio::time::Instant::now() >= t {
                        continue;
                    }
                    s.rd.push_front(REv::Until(t));
                    let w = cx.waker().clone();
                    tokio::spawn(async move {
                        tokio::time::sleep_until(t).await;
                        w.wake();
                    });
                    return Poll::Pending;
                }
                Some(REv::WaitWritten(n)) => {
                    if s.written.len() >= n {
                        continue;
                    }
                    s.rd.push_front(REv::WaitWritten(n));
                    s.read_waker = Some(cx.waker().clone());
                    return Poll::Pending;
                }
                Some(REv::Data(d)) => {
                    if d.is_empty() {
                        // a read of zero octets is end of stream
                        s.rd.push_front(REv::Eof);
                        return Poll::Ready(Ok(()));
                    }
                    let k = d.len().min(buf.remaining());
                    if s.init_style {
                        let dst = buf.initialize_unfilled();
                        dst[..k].copy_from_slice(&d[..k]);
                        buf.advance(k);
                    } else {
                        buf.put_slice(&d[..k]);
                    }
                    s.consumed += k;
                    if let Some(w) = s.write_waker.take() {
                        w.wake();
                    }
                    if let Some(u) = s.ulog.clone() {
                        sync_hooks(&u);
                        let at = s.tag.map(|c| format!("@{}", c)).unwrap_or_default();
                        u.lock().unwrap().push(format!("rd{}:{}", at, k));
                    }
                    if k < d.len() {
                        s.rd.push_front(REv::Data(d[k..].to_vec()));
                    }
                    if s.trace_on {
                        s.trace.push(format!("rd {}", k));
                    }
                    return Poll::Ready(Ok(()));
                }
            }
        }
    }
}

impl AsyncWrite for Scripted {
    fn poll_write(self: Pin<&mut Self>, cx: &mut Context<'_>, data: &[u8]) -> Poll<std::io::Result<usize>> {
        let mut s = self.0.lock().unwrap();
        if s.failed {
            s.writes_after_fail += 1;
            return Poll::Ready(Err(std::io::Error::new(std::io::ErrorKind::BrokenPipe, "scripted failure (again)")));
        }
        let ev = s.wr.pop_front().unwrap_or(WEv::Accept(usize::MAX));
        match ev {
            WEv::Pending => {
                cx.waker().wake_by_ref();
                Poll::Pending
            }
            WEv::Fail => {
                s.failed = true;
                let kind = fault_kind(s.written.len());
                Poll::Ready(Err(std::io::Error::new(kind, "scripted failure")))
            }
            WEv::Interrupted => Poll::Ready(Err(std::io::Error::new(std::io::ErrorKind::Interrupted, "scripted EINTR"))),
            WEv::FailAt(n) => {
                if s.written.len() >= n {
                    s.failed = true;
                    let kind = fault_kind(s.written.len());
                    return Poll::Ready(Err(std::io::Error::new(kind, "scripted failure")));
                }
                let k = data.len().min(n - s.written.len());
                s.wr.push_front(WEv::FailAt(n));
                s.written.extend_from_slice(&data[..k]);
                if let Some(u) = s.ulog.clone() {
                    sync_hooks(&u);
                    let at = s.tag.map(|c| format!("@{}", c)).unwrap_or_default();
                    u.lock().unwrap().push(format!("wr{}:{}", at, k));
                }
                if let Some(w) = s.read_waker.take() {
                    w.wake();
                }
                Poll::Ready(Ok(k))
            }
            WEv::WaitRead(n) => {
                if s.consumed >= n {
                    drop(s);
                    return self.poll_write(cx, data);
                }
                s.wr.push_front(WEv::WaitRead(n));
                s.write_waker = Some(cx.waker().clone());
                Poll::Pending
            }
            WEv::Accept(k) => {
                let k = k.min(data.len());
                if k == 0 && !data.is_empty() {
                    // Ok(0) for a non-empty buffer: write_all reports WriteZero
                    s.failed = true;
                    return Poll::Ready(Ok(0));
                }
                s.written.extend_from_slice(&data[..k]);
                if let Some(u) = s.ulog.clone() {
                    sync_hooks(&u);
                    let at = s.tag.map(|c| format!("@{}", c)).unwrap_or_default();
                    u.lock().unwrap().push(format!("wr{}:{}", at, k));
                }
                if s.trace_on {
                    s.trace.push(format!("wr {}", k));
                }
                if let Some(w) = s.read_waker.take() {
                    w.wake();
                }
                Poll::Ready(Ok(k))
            }
        }
    }
    fn poll_write_vectored(self: Pin<&mut Self>, cx: &mut Context<'_>, bufs: &[std::io::IoSlice<'_>]) -> Poll<std::io::Result<usize>> {
        // one scripted event serves the whole gathered call: the octets of all the slices, in order, as if they were one
        let vectored = self.0.lock().unwrap().vectored;
        if !vectored {
            let first = bufs.iter().find(|b| !b.is_empty()).map(|b| &**b).unwrap_or(&[]);
            return self.poll_write(cx, first);
        }
        let all: Vec<u8> = bufs.iter().flat_map(|b| b.iter().copied()).collect();
        self.poll_write(cx, &all)
    }
    fn is_write_vectored(&self) -> bool {
        self.0.lock().unwrap().vectored
    }
    fn poll_flush(self: Pin<&mut Self>, _: &mut Context<'_>) -> Poll<std::io::Result<()>> {
        Poll::Ready(Ok(()))
    }
    fn poll_shutdown(self: Pin<&mut Self>, _: &mut Context<'_>) -> Poll<std::io::Result<()>> {
        Poll::Ready(Ok(()))
    }
}

/// the kind of I/O error a scripted failure reports: it rotates with the number of octets that went through before, so
/// that no error kind is special (a peer can go away in many ways) and a replay of the same script fails the same way
pub fn fault_kind(n: usize) -> std::io::ErrorKind {
    use std::io::ErrorKind::*;
    [BrokenPipe, ConnectionReset, ConnectionAborted, TimedOut, Other, NotConnected, PermissionDenied, HostUnreachable][n % 8]
}

/// a stream that delivers the same frame `count` times (in pieces of at most 64 KiB) and then ends, and that swallows
/// whatever is written to it, keeping only the count and a running FNV-1a hash: gigabytes can go through one connection
pub struct Repeating {
    pub frame: Arc<Vec<u8>>,
    pub left: u64,
    pub pos: usize,
    pub consumed: u64,
    pub written: u64,
    pub wfnv: u64,
}

impl Repeating {
    pub fn new(frame: Vec<u8>, count: u64) -> Repeating {
        Repeating { frame: Arc::new(frame), left: count, pos: 0, consumed: 0, written: 0, wfnv: 14695981039346656037 }
    }
}

impl AsyncRead for Repeating {
    fn poll_read(mut self: Pin<&mut Self>, _cx: &mut Context<'_>, buf: &mut ReadBuf<'_>) -> Poll<std::io::Result<()>> {
        if self.left == 0 {
            return Poll::Ready(Ok(()));
        }
        let n = (self.frame.len() - self.pos).min(buf.remaining()).min(65536);
        let (a, b) = (self.pos, self.pos + n);
        let fr = self.frame.clone();
        buf.put_slice(&fr[a..b]);
        self.pos += n;
        self.consumed += n as u64;
        if self.pos == self.frame.len() {
            self.pos = 0;
            self.left -= 1;
        }
        Poll::Ready(Ok(()))
    }
}

impl AsyncWrite for Repeating {
    fn poll_write(mut self: Pin<&mut Self>, _cx: &mut Context<'_>, data: &[u8]) -> Poll<std::io::Result<usize>> {
        self.written += data.len() as u64;
        // (hashing every octet of gigabytes costs too much: the first and the last 64 octets of every write are hashed)
        let mut h = self.wfnv;
        for x in data.iter().take(64).chain(data.iter().rev().take(64)) {
            h = (h ^ (*x as u64)).wrapping_mul(1099511628211);
        }
        self.wfnv = h;
        Poll::Ready(Ok(data.len()))
    }
    fn poll_flush(self: Pin<&mut Self>, _cx: &mut Context<'_>) -> Poll<std::io::Result<()>> {
        Poll::Ready(Ok(()))
    }
    fn poll_shutdown(self: Pin<&mut Self>, _cx: &mut Context<'_>) -> Poll<std::io::Result<()>> {
        Poll::Ready(Ok(()))
    }
}
