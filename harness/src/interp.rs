//! Executor: interprets the line protocol (DESIGN.md Appendix A) against the real library, in-process.
//! Touches the public API only. One answer line per input line.

use crate::util::*;
use chrono::TimeZone;
use diameter::avp::*;
use diameter::dictionary::{AvpDefinition, Dictionary};
use diameter::{ApplicationId, CommandCode, DiameterMessage};
use std::io::Cursor;
use std::net::{Ipv4Addr, Ipv6Addr};
use std::sync::Arc;

pub enum Item {
    Val(AvpValue),
    Avp(Avp),
}

pub struct DocAvp {
    name: String,
    code: u32,
    vendor: Option<u32>,
    must: Option<String>,
    ty: String,
    items: Option<usize>,
}
pub struct DocApp {
    id: u32,
    name: String,
    cmds: Vec<(u32, String)>,
    avps: Vec<DocAvp>,
}

pub struct State {
    pub mt: Option<tokio::runtime::Runtime>,
    pub net_batches: usize,
    pub pki: Option<Arc<crate::net::Pki>>,
    pub net_cache: std::collections::HashMap<usize, String>,
    pub rt: tokio::runtime::Runtime,
    pub saved: Vec<Option<DiameterMessage>>,
    pub dict: Arc<Dictionary>,
    pub msg: DiameterMessage,
    pub stack: Vec<Item>,
    app: Option<DocApp>,
    doc: Vec<DocApp>,
    stash: Vec<String>,
    frozen: Option<Arc<Dictionary>>,
    pub builtin_xml: String,
}

pub fn type_name(t: &AvpType) -> &'static str {
    match t {
        AvpType::Unknown => "Unknown",
        AvpType::Address => "Address",
        AvpType::AddressIPv4 => "IPv4",
        AvpType::AddressIPv6 => "IPv6",
        AvpType::Identity => "DiameterIdentity",
        AvpType::DiameterURI => "DiameterURI",
        AvpType::Enumerated => "Enumerated",
        AvpType::Float32 => "Float32",
        AvpType::Float64 => "Float64",
        AvpType::Grouped => "Grouped",
        AvpType::Integer32 => "Integer32",
        AvpType::Integer64 => "Integer64",
        AvpType::OctetString => "OctetString",
        AvpType::Time => "Time",
        AvpType::Unsigned32 => "Unsigned32",
        AvpType::Unsigned64 => "Unsigned64",
        AvpType::UTF8String => "UTF8String",
    }
}

pub fn type_of_name(s: &str) -> Option<AvpType> {
    Some(match s {
        "Unknown" => AvpType::Unknown,
        "Address" => AvpType::Address,
        "IPv4" => AvpType::AddressIPv4,
        "IPv6" => AvpType::AddressIPv6,
        "DiameterIdentity" => AvpType::Identity,
        "DiameterURI" => AvpType::DiameterURI,
        "Enumerated" => AvpType::Enumerated,
        "Float32" => AvpType::Float32,
        "Float64" => AvpType::Float64,
        "Grouped" => AvpType::Grouped,
        "Integer32" => AvpType::Integer32,
        "Integer64" => AvpType::Integer64,
        "OctetString" => AvpType::OctetString,
        "Time" => AvpType::Time,
        "Unsigned32" => AvpType::Unsigned32,
        "Unsigned64" => AvpType::Unsigned64,
        "UTF8String" => AvpType::UTF8String,
        _ => return None,
    })
}

fn p_vendor(s: &str) -> Option<Option<u32>> {
    if s == "-" {
        Some(None)
    } else {
        s.parse::<u32>().ok().map(Some)
    }
}

pub fn parse_value(t: &[&str], dict: &Arc<Dictionary>) -> Option<AvpValue> {
    let _ = dict;
    Some(match t {
        ["u32", n] => Unsigned32::new(n.parse().ok()?).into(),
        ["i32", n] => Integer32::new(n.parse().ok()?).into(),
        ["enum", n] => Enumerated::new(n.parse().ok()?).into(),
        ["u64", n] => Unsigned64::new(n.parse().ok()?).into(),
        ["i64", n] => Integer64::new(n.parse().ok()?).into(),
        ["f32", h] => {
            let b = unhex(h)?;
            Float32::new(f32::from_bits(u32::from_be_bytes(b.try_into().ok()?))).into()
        }
        ["f64", h] => {
            let b = unhex(h)?;
            Float64::new(f64::from_bits(u64::from_be_bytes(b.try_into().ok()?))).into()
        }
        ["time", s, n] => {
            // (10^9 nanoseconds and more: chrono's notation for a leap second, set with `with_nanosecond`, which takes it at
            // any second; the second itself stays `s`)
            let n: u32 = n.parse().ok()?;
            let t = if n >= 1_000_000_000 {
                use chrono::Timelike;
                chrono::Utc.timestamp_opt(s.parse().ok()?, 0).single()?.with_nanosecond(n)?
            } else {
                chrono::Utc.timestamp_opt(s.parse().ok()?, n).single()?
            };
            Time::new(t).into()
        }
        ["ipv4", h] => {
            let b: [u8; 4] = unhex(h)?.try_into().ok()?;
            IPv4::new(Ipv4Addr::from(b)).into()
        }
        ["ipv6", h] => {
            let b: [u8; 16] = unhex(h)?.try_into().ok()?;
            IPv6::new(Ipv6Addr::from(b)).into()
        }
        // (every other value goes through the general constructor `Address::new(Value)` instead of the `from_*` helpers)
        ["addr4", h] => {
            let b: [u8; 4] = unhex(h)?.try_into().ok()?;
            if b[3] % 2 == 1 {
                Address::new(diameter::avp::address::Value::IPv4(Ipv4Addr::from(b))).into()
            } else {
                Address::from_ipv4(Ipv4Addr::from(b)).into()
            }
        }
        ["addr6", h] => {
            let b: [u8; 16] = unhex(h)?.try_into().ok()?;
            if b[15] % 2 == 1 {
                Address::new(diameter::avp::address::Value::IPv6(Ipv6Addr::from(b))).into()
            } else {
                Address::from_ipv6(Ipv6Addr::from(b)).into()
            }
        }
        ["e164", h] => {
            let t = unhex_str(h)?;
            if t.len() % 2 == 1 {
                Address::new(diameter::avp::address::Value::E164(t)).into()
            } else {
                Address::from_e164(t).into()
            }
        }
        ["utf8", h] => UTF8String::new(&unhex_str(h)?).into(),
        ["ident", h] => Identity::new(&unhex_str(h)?).into(),
        ["oct", h] => OctetString::new(unhex(h)?).into(),
        ["octn", n, b] => {
            let b = unhex(b)?;
            if b.len() != 1 {
                return None;
            }
            OctetString::new(vec![b[0]; n.parse().ok()?]).into()
        }
        ["uri", h] => DiameterURI::new(unhex(h)?).into(),
        _ => return None,
    })
}

/// payload of a value as the public accessors expose it
pub fn dump_value(v: &AvpValue, out: &mut String) {
    match v {
        AvpValue::Address(a) => {
            let mut e = Vec::new();
            let _ = a.encode_to(&mut e);
            out.push_str("addr:");
            out.push_str(&hex(&e));
            // Display must agree with the octets
            let shown = format!("{}", a);
            let ok = if e.len() >= 2 {
                match (e[0], e[1]) {
                    (0, 1) => shown.parse::<Ipv4Addr>().map(|x| x.octets().to_vec() == e[2..]).unwrap_or(false),
                    (0, 2) => shown.parse::<Ipv6Addr>().map(|x| x.octets().to_vec() == e[2..]).unwrap_or(false),
                    (0, 8) => shown.as_bytes() == &e[2..],
                    _ => false,
                }
            } else {
                false
            };
            if !ok {
                out.push_str("!disp=");
                out.push_str(&hex(shown.as_bytes()));
            }
        }
        AvpValue::AddressIPv4(a) => {
            let mut e = Vec::new();
            let _ = a.encode_to(&mut e);
            out.push_str("ipv4:");
            out.push_str(&hex(&e));
            let shown = format!("{}", a);
            if !shown.parse::<Ipv4Addr>().map(|x| x.octets().to_vec() == e).unwrap_or(false) {
                out.push_str("!disp=");
                out.push_str(&hex(shown.as_bytes()));
            }
        }
        AvpValue::AddressIPv6(a) => {
            let mut e = Vec::new();
            let _ = a.encode_to(&mut e);
            out.push_str("ipv6:");
            out.push_str(&hex(&e));
            let shown = format!("{}", a);
            if !shown.parse::<Ipv6Addr>().map(|x| x.octets().to_vec() == e).unwrap_or(false) {
                out.push_str("!disp=");
                out.push_str(&hex(shown.as_bytes()));
            }
        }
        AvpValue::Identity(a) => {
            out.push_str("ident:");
            out.push_str(&hex(a.value().as_bytes()));
        }
        AvpValue::DiameterURI(a) => {
            out.push_str("uri:");
            out.push_str(&hex(a.value()));
        }
        AvpValue::Enumerated(a) => {
            out.push_str(&format!("enum:{}", a.value()));
        }
        AvpValue::Float32(a) => {
            out.push_str(&format!("f32:{:08x}", a.value().to_bits()));
        }
        AvpValue::Float64(a) => {
            out.push_str(&format!("f64:{:016x}", a.value().to_bits()));
        }
        AvpValue::Grouped(g) => {
            out.push_str("grp:[");
            for a in g.avps() {
                dump_avp(a, out);
            }
            out.push(']');
        }
        AvpValue::Integer32(a) => out.push_str(&format!("i32:{}", a.value())),
        AvpValue::Integer64(a) => out.push_str(&format!("i64:{}", a.value())),
        AvpValue::OctetString(a) => {
            out.push_str("oct:");
            out.push_str(&hex(a.value()));
        }
        AvpValue::Time(a) => {
            out.push_str(&format!("time:{}.{}", a.value().timestamp(), a.value().timestamp_subsec_nanos()));
        }
        AvpValue::Unsigned32(a) => out.push_str(&format!("u32:{}", a.value())),
        AvpValue::Unsigned64(a) => out.push_str(&format!("u64:{}", a.value())),
        AvpValue::UTF8String(a) => {
            out.push_str("utf8:");
            out.push_str(&hex(a.value().as_bytes()));
        }
    }
}

pub fn dump_avp(a: &Avp, out: &mut String) {
    let f = a.get_flags();
    out.push_str(&format!(
        "A({},{},{}{}{},{},{},",
        a.get_code(),
        match a.get_vendor_id() {
            Some(v) => v.to_string(),
            None => "-".into(),
        },
        f.vendor as u8,
        f.mandatory as u8,
        f.private as u8,
        a.get_length(),
        a.get_padding()
    ));
    dump_value(a.get_value(), out);
    out.push(')');
}

pub fn dump_msg(m: &DiameterMessage) -> String {
    let mut out = String::new();
    // the version octet has no accessor; it is the first octet of the encoding of the header
    let ver = msg_version(m);
    out.push_str(&format!(
        "M({},{},{},{},{},{},{})[",
        ver,
        m.get_length(),
        m.get_flags(),
        m.get_command_code() as u32,
        m.get_application_id() as u32,
        m.get_hop_by_hop_id(),
        m.get_end_to_end_id()
    ));
    for a in m.get_avps() {
        dump_avp(a, &mut out);
    }
    out.push(']');
    out
}

/// A writer that keeps the first octet only (the version has no public accessor)
struct First(Option<u8>);
impl std::io::Write for First {
    fn write(&mut self, b: &[u8]) -> std::io::Result<usize> {
        if self.0.is_none() && !b.is_empty() {
            self.0 = Some(b[0]);
        }
        Ok(b.len())
    }
    fn flush(&mut self) -> std::io::Result<()> {
        Ok(())
    }
}
fn msg_version(m: &DiameterMessage) -> u8 {
    let mut w = First(None);
    let _ = m.encode_to(&mut w);
    // a message that cannot be encoded at all (length >= 2^24) reports no octet: the only constructor sets 1,
    // the decoder copies the wire octet; fall back to the Display form, which starts with the version
    match w.0 {
        Some(v) => v,
        None => format!("{}", m).trim_start().split(' ').next().and_then(|x| x.parse().ok()).unwrap_or(255),
    }
}

/// per AVP: which of the 16 typed getters answer, and the value seen through the one that did
fn acc_avp(a: &Avp, out: &mut String) {
    let bits = [
        a.get_address().is_some(),
        a.get_address_ipv4().is_some(),
        a.get_address_ipv6().is_some(),
        a.get_identity().is_some(),
        a.get_diameter_uri().is_some(),
        a.get_enumerated().is_some(),
        a.get_float32().is_some(),
        a.get_float64().is_some(),
        a.get_grouped().is_some(),
        a.get_integer32().is_some(),
        a.get_integer64().is_some(),
        a.get_octetstring().is_some(),
        a.get_time().is_some(),
        a.get_unsigned32().is_some(),
        a.get_unsigned64().is_some(),
        a.get_utf8string().is_some(),
    ];
    out.push('{');
    for b in bits {
        out.push(if b { '1' } else { '0' });
    }
    out.push('=');
    // value through the getter (not through get_value)
    let mut seen = 0;
    if let Some(x) = a.get_address() {
        dump_value(&AvpValue::Address(x.clone()), out);
        seen += 1;
    }
    if let Some(x) = a.get_address_ipv4() {
        dump_value(&AvpValue::AddressIPv4(x.clone()), out);
        seen += 1;
    }
    if let Some(x) = a.get_address_ipv6() {
        dump_value(&AvpValue::AddressIPv6(x.clone()), out);
        seen += 1;
    }
    if let Some(x) = a.get_identity() {
        dump_value(&AvpValue::Identity(x.clone()), out);
        seen += 1;
    }
    if let Some(x) = a.get_diameter_uri() {
        dump_value(&AvpValue::DiameterURI(x.clone()), out);
        seen += 1;
    }
    if let Some(x) = a.get_enumerated() {
        dump_value(&AvpValue::Enumerated(x.clone()), out);
        seen += 1;
    }
    if let Some(x) = a.get_float32() {
        out.push_str(&format!("f32:{:08x}", x.to_bits()));
        seen += 1;
    }
    if let Some(x) = a.get_float64() {
        out.push_str(&format!("f64:{:016x}", x.to_bits()));
        seen += 1;
    }
    if let Some(g) = a.get_grouped() {
        out.push_str("grp:[");
        for m in g.avps() {
            acc_avp(m, out);
        }
        out.push(']');
        seen += 1;
    }
    if let Some(x) = a.get_integer32() {
        out.push_str(&format!("i32:{}", x));
        seen += 1;
    }
    if let Some(x) = a.get_integer64() {
        out.push_str(&format!("i64:{}", x));
        seen += 1;
    }
    if let Some(x) = a.get_octetstring() {
        dump_value(&AvpValue::OctetString(x.clone()), out);
        seen += 1;
    }
    if let Some(x) = a.get_time() {
        dump_value(&AvpValue::Time(x.clone()), out);
        seen += 1;
    }
    if let Some(x) = a.get_unsigned32() {
        out.push_str(&format!("u32:{}", x));
        seen += 1;
    }
    if let Some(x) = a.get_unsigned64() {
        out.push_str(&format!("u64:{}", x));
        seen += 1;
    }
    if let Some(x) = a.get_utf8string() {
        dump_value(&AvpValue::UTF8String(x.clone()), out);
        seen += 1;
    }
    if seen != 1 {
        out.push_str(&format!("!seen={}", seen));
    }
    out.push('}');
}

/// How a document is spelled is no part of what it says: the same structure is rendered in one of several legal XML
/// spellings (chosen from the document's content, so a case renders the same way wherever it runs): explicit end tags
/// instead of `/>`, single-quoted attributes, an XML declaration, comments (with look-alike text inside), elements and
/// attributes the library does not read (`<vendor>`, `<typedefn>`, `may=`, `description=`), `<rule>` children of a
/// group's `<data>`, other attribute orders, CRLF line ends and tabs. The model takes the structure only.
fn xml_style(doc: &[DocApp]) -> u32 {
    let mut h: u32 = doc.len() as u32;
    for app in doc {
        h = h.wrapping_mul(31).wrapping_add(app.id).wrapping_add(app.name.len() as u32);
        for a in &app.avps {
            h = h.wrapping_mul(31).wrapping_add(a.code).wrapping_add(a.name.len() as u32);
        }
        for (c, n) in &app.cmds {
            h = h.wrapping_mul(31).wrapping_add(*c).wrapping_add(n.len() as u32);
        }
    }
    h % 8
}

fn render_xml(doc: &[DocApp]) -> String {
    render_xml_style(doc, xml_style(doc))
}

fn render_xml_style(doc: &[DocApp], style: u32) -> String {
    let q = if style == 2 { '\'' } else { '"' };
    let esc = |t: &str| -> String {
        let e = t.replace('&', "&amp;").replace('<', "&lt;").replace('>', "&gt;");
        if q == '"' { e.replace('"', "&quot;") } else { e.replace('\'', "&apos;") }
    };
    let at = |k: &str, v: &str| -> String { format!(" {}={}{}{}", k, q, esc(v), q) };
    // an element without children: `<x .../>` or `<x ...></x>`
    let leaf = |name: &str, attrs: &str| -> String {
        // style 5: every childless element has an end tag; style 1: the rules only, in the midst of `/>` elements
        if style == 5 || (style == 1 && name == "rule") { format!("<{}{}></{}>", name, attrs, name) } else { format!("<{}{}/>", name, attrs) }
    };
    let comment = |x: &mut String| {
        if style == 2 || style == 6 {
            x.push_str("    <!-- <avp name=\"Commented-Out\" code=\"1\" vendor-id=\"77\"><data type=\"Unsigned32\"/></avp> <rule avp='x'/> -->\n");
        }
    };
    let mut x = String::new();
    if style == 2 || style == 4 {
        x.push_str("<?xml version=\"1.0\" encoding=\"UTF-8\"?>\n");
    }
    // style 7: an internal DTD subset declaring entities, used for the first vendor id of the document and for a type name
    let ent_vendor: Option<u32> = if style == 7 { doc.iter().flat_map(|a| a.avps.iter()).find_map(|a| a.vendor) } else { None };
    if style == 7 {
        x.push_str(&format!(
            "<?xml version=\"1.0\"?>\n<!DOCTYPE diameter [\n  <!ENTITY ven \"{}\">\n  <!ENTITY tyu \"Unsigned32\">\n]>\n",
            ent_vendor.unwrap_or(0)
        ));
    }
    x.push_str("<diameter>\n");
    for (ai, app) in doc.iter().enumerate() {
        x.push_str(&format!("  <application{}{}{}>\n", at("id", &app.id.to_string()), at("type", "auth"), at("name", &app.name)));
        if style == 3 || style == 5 {
            // as in the shipped 3GPP document: a vendor declaration, which the library does not read
            x.push_str(&format!("    {}\n", leaf("vendor", &format!("{}{}", at("id", &(10415 + ai as u32).to_string()), at("name", "TGPP")))));
        }
        if style == 6 {
            x.push_str(&format!("    {}\n", leaf("typedefn", &format!("{}{}", at("type-name", "Unsigned32"), at("type-parent", "OctetString")))));
        }
        for (k, (c, n)) in app.cmds.iter().enumerate() {
            // the abbreviation is documentation: the name of the neighbouring command, as often as not
            let short = if app.cmds.len() > 1 && (c + k as u32) % 2 == 0 { app.cmds[(k + 1) % app.cmds.len()].1.clone() } else { "XX".to_string() };
            let rule = leaf("rule", &format!("{}{}{}", at("avp", "Session-Id"), at("required", "true"), at("max", "1")));
            let attrs = if style == 4 {
                format!("{}{}{}", at("name", n), at("short", &short), at("code", &c.to_string()))
            } else {
                format!("{}{}{}", at("code", &c.to_string()), at("short", &short), at("name", n))
            };
            x.push_str(&format!(
                "    <command{}>\n      <request>\n        {}\n      </request>\n      <answer>\n        {}\n      </answer>\n    </command>\n",
                attrs, rule, rule
            ));
            comment(&mut x);
        }
        for a in &app.avps {
            let mut attrs = String::new();
            let vend = match a.vendor {
                Some(v) if style == 7 && Some(v) == ent_vendor => " vendor-id=\"&ven;\"".to_string(),
                Some(v) => at("vendor-id", &v.to_string()),
                None => String::new(),
            };
            let must = a.must.as_ref().map(|m| at("must", m)).unwrap_or_default();
            if style == 4 {
                attrs.push_str(&vend);
                attrs.push_str(&at("code", &a.code.to_string()));
                attrs.push_str(&must);
                attrs.push_str(&at("may", "P"));
                attrs.push_str(&at("name", &a.name));
                attrs.push_str(&at("description", "x > y & z"));
            } else {
                attrs.push_str(&at("name", &a.name));
                attrs.push_str(&at("code", &a.code.to_string()));
                attrs.push_str(&must);
                attrs.push_str(&vend);
            }
            x.push_str(&format!("    <avp{}>\n", attrs));
            // enumeration items and member rules are documentation as far as the library is concerned: whatever the type
            // name, some definitions carry them
            let items = a.items.unwrap_or((a.name.len() + a.code as usize) % 3);
            let rules = if (style >= 3 || style == 1) && a.ty == "Grouped" { 2 } else { 0 };
            let ty_attr = if style == 7 && a.ty == "Unsigned32" { " type=\"&tyu;\"".to_string() } else { at("type", &a.ty) };
            if items == 0 && rules == 0 {
                x.push_str(&format!("      {}\n    </avp>\n", leaf("data", &ty_attr)));
            } else {
                x.push_str(&format!("      <data{}>\n", ty_attr));
                for k in 0..rules {
                    x.push_str(&format!("        {}\n", leaf("rule", &format!("{}{}{}", at("avp", &format!("Member-{}", k)), at("required", "false"), at("max", "1")))));
                }
                for k in 0..items {
                    x.push_str(&format!("        {}\n", leaf("item", &format!("{}{}", at("code", &k.to_string()), at("name", &format!("ITEM_{}", k))))));
                }
                x.push_str("      </data>\n    </avp>\n");
            }
            comment(&mut x);
        }
        x.push_str("  </application>\n");
    }
    x.push_str("</diameter>\n");
    // raw `<` and `>` never occur inside a value (they are escaped), so these touch the layout only
    match style {
        4 => x.replace(">\n", ">\r\n"),
        5 => {
            let mut y = String::new();
            for seg in x.split_inclusive('\n') {
                let t = seg.trim_start_matches(' ');
                if t.starts_with('<') {
                    for _ in 0..(seg.len() - t.len()) / 2 {
                        y.push('\t');
                    }
                    y.push_str(t);
                } else {
                    y.push_str(seg);
                }
            }
            y
        }
        _ => x,
    }
}

pub fn cmd_of(c: u32) -> Option<CommandCode> {
    CommandCode::from_u32(c)
}
pub fn app_of(a: u32) -> Option<ApplicationId> {
    ApplicationId::from_u32(a)
}

impl State {
    pub fn new() -> State {
        let dict = Arc::new(Dictionary::new(&[]));
        let builtin_xml: String = diameter::dictionary::DEFAULT_DICT_XML.to_string();
        State {
            mt: None,
            net_batches: 0,
            pki: None,
            net_cache: Default::default(),
            rt: tokio::runtime::Builder::new_current_thread().enable_all().start_paused(true).build().unwrap(),
            saved: vec![],
            msg: DiameterMessage::new(CommandCode::CreditControl, ApplicationId::CreditControl, 0, 0, 0, dict.clone()),
            dict,
            stack: vec![],
            app: None,
            doc: vec![],
            stash: vec![],
            frozen: None,
            builtin_xml,
        }
    }

    /// a state whose dictionary is the given one (child processes of `envchild`)
    pub fn with_dict(d: Arc<Dictionary>) -> State {
        let mut s = State::new();
        s.dict = d;
        s
    }

    fn dict_mut(&mut self) -> &mut Dictionary {
        Arc::make_mut(&mut self.dict)
    }

    fn def_dump(d: &AvpDefinition) -> String {
        format!(
            "{},{},{},{},{}",
            d.code,
            match d.vendor_id {
                Some(v) => v.to_string(),
                None => "-".into(),
            },
            hexd(d.name.as_bytes()),
            type_name(&d.avp_type),
            d.m_flag as u8
        )
    }

    pub fn decode_line(&self, bytes: &[u8]) -> String {
        self.decode_line_at(0, bytes)
    }

    /// the frame `bytes` behind `lead` other octets in one buffer, the reader positioned at the frame's first octet
    pub fn decode_line_at(&self, lead: usize, bytes: &[u8]) -> String {
        let mut buf: Vec<u8> = (0..lead).map(|i| 0xa5u8.wrapping_add(i as u8)).collect();
        buf.extend_from_slice(bytes);
        let mut cur = rd(&buf[..]);
        cur.set_position(lead as u64);
        match DiameterMessage::decode_from(&mut cur, self.dict.clone()) {
            Ok(m) => {
                // C04: whatever was returned can be displayed, inspected, cloned and re-encoded
                let shown = format!("{}", m);
                std::hint::black_box(&shown);
                // ... also into sinks that run out of room part way (a bounded log line): the formatter reports an error, it
                // does not panic
                for cap in [0usize, 1, shown.len() / 3, shown.len() / 2, shown.len().saturating_sub(1)] {
                    let mut sink = Bounded { room: cap };
                    let _ = std::fmt::write(&mut sink, format_args!("{}", m));
                }
                let mut acc = String::new();
                for a in m.get_avps() {
                    acc_avp(a, &mut acc);
                    let c = a.clone();
                    std::hint::black_box(&c);
                    // an AVP, a group and a value can each be displayed on their own, and debug-formatted
                    let one = format!("{} {:?}", a, a.get_value().get_type_name());
                    std::hint::black_box(&one);
                    if let Some(g) = a.get_grouped() {
                        let gs = format!("{}", g);
                        std::hint::black_box(&gs);
                    }
                    // formatting parameters (the fixed-column idiom of log lines, `{:16.16}`; fill, alignment, precision
                    // alone) ask for another layout at most, never for a panic
                    // (on frames of ordinary size: thirteen further renderings of a frame of megabytes tell nothing new and
                    // would count against the time budget of the decoding under test)
                    if bytes.len() <= 16384 {
                        fmt_params(a);
                        fmt_params(a.get_value());
                        fmt_typed(a);
                    }
                }
                if bytes.len() <= 16384 {
                    fmt_params(&m);
                }
                std::hint::black_box(&acc);
                let mut v = Vec::new();
                let re = match m.encode_to(&mut v) {
                    Ok(()) => hexd(&v),
                    Err(_) => "encerr".to_string(),
                };
                format!("ok {} {} {}", dump_msg(&m), re, m.get_length())
            }
            Err(e) => {
                // an error can be displayed and debug-formatted
                let shown = format!("{} {:?}", e, e);
                std::hint::black_box(&shown);
                "err".to_string()
            }
        }
    }

    /// real-socket scenarios are executed in concurrent batches (they spend their time waiting for deadlines)
    pub fn run_net_batch(&mut self, batch: Vec<(usize, String)>) {
        // every batch runs on a multi-threaded runtime of its own, and the number of worker threads rotates (an application
        // chooses it, or the number of cores does: 8, 3, 6, 5, 7 - powers of two and others)
        let workers = [8usize, 3, 6, 5, 7][self.net_batches % 5];
        self.net_batches += 1;
        if let Some(old) = self.mt.take() {
            old.shutdown_background();
        }
        self.mt = Some(tokio::runtime::Builder::new_multi_thread().worker_threads(workers).enable_all().build().unwrap());
        if self.pki.is_none() {
            let pki = crate::net::make_pki();
            // trust is injected through SSL_CERT_FILE, set at process start (main.rs); the file is written here
            if let Ok(p) = std::env::var("VERIF_CA_FILE") {
                if p.ends_with(".ca.pem") {
                    let _ = std::fs::write(p, &pki.ca_pem);
                }
            }
            self.pki = Some(Arc::new(pki));
        }
        let lines: Vec<String> = batch.iter().map(|x| x.1.clone()).collect();
        // the scenarios use the built-in dictionary
        let dict = Arc::new(Dictionary::new(&[&self.builtin_xml]));
        let res = crate::net::run_batch(self.mt.as_ref().unwrap(), self.pki.clone().unwrap(), dict, lines);
        for ((i, _), r) in batch.iter().zip(res) {
            self.net_cache.insert(*i, r);
        }
    }

    pub fn step(&mut self, line: &str) -> String {
        let toks: Vec<&str> = line.trim().split(' ').collect();
        match toks.as_slice() {
            ["cfg", ..] => "ok".into(),
            ["dreset"] => {
                self.dict = Arc::new(Dictionary::new(&[]));
                "ok".into()
            }
            ["dadd", c, v, n, t, m] => {
                let (c, v, n, t) = match (c.parse::<u32>().ok(), p_vendor(v), unhex_str(n), type_of_name(t)) {
                    (Some(c), Some(v), Some(n), Some(t)) => (c, v, n, t),
                    _ => return "bad-op".into(),
                };
                self.dict_mut().add_avp(AvpDefinition { code: c, vendor_id: v, name: n, avp_type: t, m_flag: *m == "1" });
                "ok".into()
            }
            ["parname", n, name] => {
                // n threads make their by-name lookup on the current dictionary object at the same moment (after a `dadd` it
                // is a fresh object nobody has looked anything up in yet): they all get the answer one thread alone gets
                let (n, name) = match (n.parse::<usize>().ok(), unhex_str(name)) {
                    (Some(a), Some(b)) => (a.clamp(1, 64), b),
                    _ => return "bad-op".into(),
                };
                let barrier = Arc::new(std::sync::Barrier::new(n));
                let hs: Vec<_> = (0..n)
                    .map(|_| {
                        let (b, d, nm) = (barrier.clone(), self.dict.clone(), name.clone());
                        std::thread::spawn(move || {
                            b.wait();
                            match Avp::from_name(&nm, Unsigned32::new(7).into(), d) {
                                Ok(a) => format!("ok:{}:{}:{}", a.get_code(), a.get_vendor_id().map(|v| v.to_string()).unwrap_or_else(|| "-".into()), a.get_flags().mandatory as u8),
                                Err(_) => "err".to_string(),
                            }
                        })
                    })
                    .collect();
                let rs: Vec<String> = hs.into_iter().map(|h| h.join().unwrap_or_else(|_| "panic".into())).collect();
                let alone = match Avp::from_name(&name, Unsigned32::new(7).into(), self.dict.clone()) {
                    Ok(a) => format!("ok:{}:{}:{}", a.get_code(), a.get_vendor_id().map(|v| v.to_string()).unwrap_or_else(|| "-".into()), a.get_flags().mandatory as u8),
                    Err(_) => "err".to_string(),
                };
                if rs.iter().all(|r| *r == alone) {
                    alone.split(':').next().unwrap().to_string()
                } else {
                    format!("{} !threads-differ:{}", alone.split(':').next().unwrap(), rs.join(","))
                }
            }
            ["gdstorm", ms] => {
                // for the next `ms` milliseconds another thread keeps taking the write lock of the library's public,
                // process-wide default dictionary (adding a definition under a reserved key): whatever this thread does
                // meanwhile must neither wait for it for ever nor see it
                let ms: u64 = match ms.parse() {
                    Ok(x) => x,
                    Err(_) => return "bad-op".into(),
                };
                std::thread::spawn(move || {
                    let t0 = std::time::Instant::now();
                    let mut k = 0u32;
                    while t0.elapsed() < std::time::Duration::from_millis(ms) {
                        if let Ok(mut g) = diameter::dictionary::DEFAULT_DICT.write() {
                            g.add_avp(AvpDefinition { code: 900100 + (k % 8), vendor_id: Some(424242), name: format!("Storm-{}", k % 8), avp_type: diameter::avp::AvpType::Unsigned32, m_flag: false });
                        }
                        k = k.wrapping_add(1);
                        std::thread::sleep(std::time::Duration::from_micros(30));
                    }
                });
                "ok".into()
            }
            ["gdadd", c, v, n, t, m] => {
                // a definition added to the library's process-wide default dictionary (a public, mutable global)
                let (c, v, n, t) = match (c.parse::<u32>().ok(), p_vendor(v), unhex_str(n), type_of_name(t)) {
                    (Some(c), Some(v), Some(n), Some(t)) => (c, v, n, t),
                    _ => return "bad-op".into(),
                };
                match diameter::dictionary::DEFAULT_DICT.write() {
                    Ok(mut g) => {
                        g.add_avp(AvpDefinition { code: c, vendor_id: v, name: n, avp_type: t, m_flag: *m == "1" });
                        "ok".into()
                    }
                    Err(_) => "err".into(),
                }
            }
            ["dbuiltin"] => {
                // a new dictionary object from the built-in document - the static itself, as users pass it
                self.dict = Arc::new(Dictionary::new(&[&diameter::dictionary::DEFAULT_DICT_XML]));
                "ok".into()
            }
            ["doc_begin"] => {
                self.app = None;
                self.doc.clear();
                "ok".into()
            }
            ["app", id, n] => {
                let (id, n) = match (id.parse::<u32>().ok(), unhex_str(n)) {
                    (Some(id), Some(n)) => (id, n),
                    _ => return "bad-op".into(),
                };
                if let Some(a) = self.app.take() {
                    self.doc.push(a);
                }
                self.app = Some(DocApp { id, name: n, cmds: vec![], avps: vec![] });
                "ok".into()
            }
            ["cmd", c, n] => {
                let (c, n) = match (c.parse::<u32>().ok(), unhex_str(n)) {
                    (Some(c), Some(n)) => (c, n),
                    _ => return "bad-op".into(),
                };
                match self.app.as_mut() {
                    Some(a) => {
                        a.cmds.push((c, n));
                        "ok".into()
                    }
                    None => "bad-op".into(),
                }
            }
            ["avp", n, c, v, must, t, items] => {
                // explicit number of <item> children
                let k: usize = match items.parse() {
                    Ok(k) => k,
                    Err(_) => return "bad-op".into(),
                };
                let r = self.step(&format!("avp {} {} {} {} {}", n, c, v, must, t));
                if r == "ok" {
                    if let Some(a) = self.app.as_mut() {
                        a.avps.last_mut().unwrap().items = Some(k);
                    }
                }
                r
            }
            ["avp", n, c, v, must, t] => {
                let must = if *must == "~" { Some(None) } else { unhex_str(must).map(Some) };
                let (n, c, v, must, t) = match (unhex_str(n), c.parse::<u32>().ok(), p_vendor(v), must, unhex_str(t)) {
                    (Some(n), Some(c), Some(v), Some(must), Some(t)) => (n, c, v, must, t),
                    _ => return "bad-op".into(),
                };
                match self.app.as_mut() {
                    Some(a) => {
                        a.avps.push(DocAvp { name: n, code: c, vendor: v, must, ty: t, items: None });
                        "ok".into()
                    }
                    None => "bad-op".into(),
                }
            }
            ["doc_end", mode, rest @ ..] => {
                if let Some(a) = self.app.take() {
                    self.doc.push(a);
                }
                let doc = std::mem::take(&mut self.doc);
                // the library unwraps unknown application ids / command codes: never generated
                for a in &doc {
                    if app_of(a.id).is_none() || a.cmds.iter().any(|c| cmd_of(c.0).is_none()) {
                        return "bad-op".into();
                    }
                }
                // the text handed to the library: rendered from the structure, or the shipped file itself
                let xml = match rest {
                    [] => render_xml(&doc),
                    // the text as a file saved "UTF-8 with BOM" reads: the byte-order mark in front
                    ["bom"] => format!("{}{}", '\u{feff}', render_xml(&doc)),
                    ["builtin"] => self.builtin_xml.clone(),
                    ["file", path] => match std::fs::read_to_string(path) {
                        Ok(x) => x,
                        Err(_) => return "bad-op".into(),
                    },
                    _ => return "bad-op".into(),
                };
                if *mode == "stash" {
                    self.stash.push(xml);
                } else {
                    self.dict_mut().load_xml(&xml);
                }
                "ok".into()
            }
            ["dconstruct"] => {
                let xs = std::mem::take(&mut self.stash);
                let refs: Vec<&str> = xs.iter().map(|s| s.as_str()).collect();
                self.dict = Arc::new(Dictionary::new(&refs));
                "ok".into()
            }
            ["dget", c, v] => {
                let (c, v) = match (c.parse::<u32>().ok(), p_vendor(v)) {
                    (Some(c), Some(v)) => (c, v),
                    _ => return "bad-op".into(),
                };
                let d = self.dict.get_avp(c, v);
                let t = self.dict.get_avp_type(c, v);
                let n = self.dict.get_avp_name(c, v);
                match d {
                    Some(d) => {
                        let mut s = State::def_dump(d);
                        // the definition is the one stored under exactly this pair
                        if d.code != c || d.vendor_id != v {
                            s.push_str("!key");
                        }
                        if t != Some(&d.avp_type) {
                            s.push_str("!type");
                        }
                        if n != Some(d.name.as_str()) {
                            s.push_str("!name");
                        }
                        s
                    }
                    None => {
                        let mut s = String::from("none");
                        if t.is_some() {
                            s.push_str("!type");
                        }
                        if n.is_some() {
                            s.push_str("!name");
                        }
                        s
                    }
                }
            }
            ["dbyname", n] => match unhex_str(n) {
                Some(n) => match self.dict.get_avp_by_name(&n) {
                    Some(d) => State::def_dump(d),
                    None => "none".into(),
                },
                None => "bad-op".into(),
            },
            ["dapp", n] => match unhex_str(n) {
                Some(n) => match self.dict.get_application_id_by_name(&n) {
                    Some(a) => (a as u32).to_string(),
                    None => "none".into(),
                },
                None => "bad-op".into(),
            },
            ["dcmd", n] => match unhex_str(n) {
                Some(n) => match self.dict.get_command_code_by_name(&n) {
                    Some(a) => (a as u32).to_string(),
                    None => "none".into(),
                },
                None => "bad-op".into(),
            },
            ["tables"] => {
                // the finite tables of the library, enumerated once more (the whole 24-bit command space, the whole
                // 32-bit application-id space) - against what `hx probe` handed to the model
                let cmds: Vec<String> = crate::gen::sweep(0, 1 << 24, |c| cmd_of(c).is_some()).iter().map(|c| c.to_string()).collect();
                let apps: Vec<String> = crate::gen::sweep(0, 1 << 32, |a| app_of(a).is_some()).iter().map(|a| a.to_string()).collect();
                format!("cmds={} apps={}", cmds.join(","), apps.join(","))
            }
            ["clear"] => {
                self.stack.clear();
                "ok".into()
            }
            ["new", c, a, f, h, e] => {
                let r = (|| {
                    Some(DiameterMessage::new(
                        cmd_of(c.parse().ok()?)?,
                        app_of(a.parse().ok()?)?,
                        f.parse::<u8>().ok()?,
                        h.parse().ok()?,
                        e.parse().ok()?,
                        self.dict.clone(),
                    ))
                })();
                match r {
                    Some(m) => {
                        self.msg = m;
                        "ok".into()
                    }
                    None => "bad".into(),
                }
            }
            ["val", rest @ ..] => match parse_value(rest, &self.dict) {
                Some(v) => {
                    self.stack.push(Item::Val(v));
                    "ok".into()
                }
                None => "bad-op".into(),
            },
            ["vlen"] => match self.stack.last() {
                Some(Item::Val(v)) => format!("val {}", v.length()),
                Some(Item::Avp(a)) => format!("avp {} {}", a.get_length(), a.get_padding()),
                None => "-".into(),
            },
            ["grp_new"] => {
                self.stack.push(Item::Val(Grouped::new(vec![], self.dict.clone()).into()));
                "ok".into()
            }
            ["grp_add_avp", c, v, f] => {
                let (c, v, f) = match (c.parse::<u32>().ok(), p_vendor(v), f.parse::<u8>().ok()) {
                    (Some(c), Some(v), Some(f)) => (c, v, f),
                    _ => return "bad-op".into(),
                };
                let n = self.stack.len();
                if n >= 2 && matches!(self.stack[n - 1], Item::Val(_)) && matches!(self.stack[n - 2], Item::Val(AvpValue::Grouped(_))) {
                    let val = match self.stack.pop() {
                        Some(Item::Val(v)) => v,
                        _ => unreachable!(),
                    };
                    if let Some(Item::Val(AvpValue::Grouped(g))) = self.stack.last_mut() {
                        g.add_avp(c, v, f, val);
                    }
                    "ok".into()
                } else {
                    "bad".into()
                }
            }
            ["grp_add"] => {
                let n = self.stack.len();
                if n >= 2 && matches!(self.stack[n - 1], Item::Avp(_)) && matches!(self.stack[n - 2], Item::Val(AvpValue::Grouped(_))) {
                    let a = match self.stack.pop() {
                        Some(Item::Avp(a)) => a,
                        _ => unreachable!(),
                    };
                    if let Some(Item::Val(AvpValue::Grouped(g))) = self.stack.last_mut() {
                        g.add(a);
                    }
                    "ok".into()
                } else {
                    "bad".into()
                }
            }
            ["avp_new", c, v, f] => {
                let (c, v, f) = match (c.parse::<u32>().ok(), p_vendor(v), f.parse::<u8>().ok()) {
                    (Some(c), Some(v), Some(f)) => (c, v, f),
                    _ => return "bad-op".into(),
                };
                match self.stack.pop() {
                    Some(Item::Val(val)) => {
                        self.stack.push(Item::Avp(Avp::new(c, v, f, val, self.dict.clone())));
                        "ok".into()
                    }
                    Some(x) => {
                        self.stack.push(x);
                        "bad".into()
                    }
                    None => "bad".into(),
                }
            }
            ["avp_name", n] => {
                let n = match unhex_str(n) {
                    Some(n) => n,
                    None => return "bad-op".into(),
                };
                match self.stack.pop() {
                    Some(Item::Val(val)) => match Avp::from_name(&n, val, self.dict.clone()) {
                        Ok(a) => {
                            self.stack.push(Item::Avp(a));
                            "ok".into()
                        }
                        Err(_) => "err".into(),
                    },
                    Some(x) => {
                        self.stack.push(x);
                        "bad".into()
                    }
                    None => "bad".into(),
                }
            }
            ["add"] => match self.stack.pop() {
                Some(Item::Avp(a)) => {
                    self.msg.add(a);
                    "ok".into()
                }
                Some(x) => {
                    self.stack.push(x);
                    "bad".into()
                }
                None => "bad".into(),
            },
            ["add_avp", c, v, f] => {
                let (c, v, f) = match (c.parse::<u32>().ok(), p_vendor(v), f.parse::<u8>().ok()) {
                    (Some(c), Some(v), Some(f)) => (c, v, f),
                    _ => return "bad-op".into(),
                };
                match self.stack.pop() {
                    Some(Item::Val(val)) => {
                        self.msg.add_avp(c, v, f, val);
                        "ok".into()
                    }
                    Some(x) => {
                        self.stack.push(x);
                        "bad".into()
                    }
                    None => "bad".into(),
                }
            }
            ["add_by_name", n] => {
                let n = match unhex_str(n) {
                    Some(n) => n,
                    None => return "bad-op".into(),
                };
                match self.stack.pop() {
                    Some(Item::Val(val)) => match self.msg.add_avp_by_name(&n, val) {
                        Ok(()) => "ok".into(),
                        Err(_) => "err".into(),
                    },
                    Some(x) => {
                        self.stack.push(x);
                        "bad".into()
                    }
                    None => "bad".into(),
                }
            }
            ["decode", h] => match unhex(h) {
                Some(b) => match DiameterMessage::decode_from(&mut rd(&b), self.dict.clone()) {
                    Ok(m) => {
                        self.msg = m;
                        "ok".into()
                    }
                    Err(_) => "err".into(),
                },
                None => "bad-op".into(),
            },
            ["grp_from_avp", i] => match i.parse::<usize>().ok().and_then(|i| self.msg.get_avps().get(i)) {
                Some(a) => match a.get_grouped() {
                    Some(g) => {
                        let g = g.clone();
                        self.stack.push(Item::Val(AvpValue::Grouped(g)));
                        "ok".into()
                    }
                    None => "err".into(),
                },
                None => "err".into(),
            },
            ["avp_from_msg", i] => match i.parse::<usize>().ok().and_then(|i| self.msg.get_avps().get(i)) {
                Some(a) => {
                    let a = a.clone();
                    self.stack.push(Item::Avp(a));
                    "ok".into()
                }
                None => "err".into(),
            },
            ["reencode"] => {
                let mut v = Vec::new();
                if self.msg.encode_to(&mut v).is_err() {
                    return "err".into();
                }
                match DiameterMessage::decode_from(&mut rd(&v), self.dict.clone()) {
                    Ok(m) => {
                        self.msg = m;
                        "ok".into()
                    }
                    Err(_) => "err".into(),
                }
            }
            ["enc"] => {
                let mut v = Trickle::new();
                match self.msg.encode_to(&mut v) {
                    Ok(()) => format!("ok {}", hexd(&v.acc)),
                    Err(_) => "err".into(),
                }
            }
            ["ench"] => {
                let mut v = Vec::new();
                match self.msg.encode_to(&mut v) {
                    Ok(()) => format!("ok {} {}", v.len(), fnv(&v)),
                    Err(_) => "err".into(),
                }
            }
            ["encha"] => {
                // every top-level AVP encoded on its own through the public `Avp::encode_to` (an application may write
                // AVPs into a buffer of its own): success means the complete AVP, header length field included
                let mut out = vec![];
                for a in self.msg.get_avps() {
                    let mut v = Vec::new();
                    out.push(match a.encode_to(&mut v) {
                        Ok(()) => format!("ok:{}:{}", v.len(), fnv(&v)),
                        Err(_) => "err".to_string(),
                    });
                }
                if out.is_empty() { "-".into() } else { out.join(";") }
            }
            ["encw", k, short, intr, mode] => {
                let (k, short, intr) = match (k.parse::<usize>().ok(), short.parse::<usize>().ok(), intr.parse::<usize>().ok()) {
                    (Some(a), Some(b), Some(c)) => (a, b, c),
                    _ => return "bad-op".into(),
                };
                let mut w = FaultWriter { acc: Vec::new(), budget: k, short, intr, calls: 0, zero: *mode == "zero", failed: false };
                match self.msg.encode_to(&mut w) {
                    Ok(()) => format!("ok {} {}", w.acc.len(), fnv(&w.acc)),
                    Err(_) => "err".into(),
                }
            }
            ["len"] => self.msg.get_length().to_string(),
            ["dump"] => dump_msg(&self.msg),
            ["rt"] => {
                let mut v = Vec::new();
                if self.msg.encode_to(&mut v).is_err() {
                    return "encerr".into();
                }
                match DiameterMessage::decode_from(&mut rd(&v), self.dict.clone()) {
                    Ok(m) => dump_msg(&m),
                    Err(_) => "err".into(),
                }
            }
            ["get", c] => match c.parse::<u32>() {
                Ok(c) => match self.msg.get_avp(c) {
                    Some(a) => {
                        // position of the returned reference inside get_avps()
                        let base = self.msg.get_avps().as_ptr() as usize;
                        let idx = (a as *const Avp as usize - base) / std::mem::size_of::<Avp>();
                        idx.to_string()
                    }
                    None => "-".into(),
                },
                Err(_) => "bad-op".into(),
            },
            ["acc"] => {
                let mut s = String::from("[");
                for a in self.msg.get_avps() {
                    acc_avp(a, &mut s);
                }
                s.push(']');
                s
            }
            ["dec", h] => match unhex(h) {
                Some(b) => self.decode_line(&b),
                None => "bad-op".into(),
            },
            ["msave"] => {
                let fresh = DiameterMessage::new(CommandCode::CreditControl, ApplicationId::CreditControl, 0, 0, 0, self.dict.clone());
                let m = std::mem::replace(&mut self.msg, fresh);
                self.saved.push(Some(m));
                "ok".into()
            }
            ["mclear"] => {
                self.saved.clear();
                "ok".into()
            }
            ["sdec", n, evs] => {
                let (n, evs) = match (n.parse::<usize>().ok(), crate::sio::parse_revs(evs)) {
                    (Some(n), Some(e)) => (n, e),
                    _ => return "bad-op".into(),
                };
                let dict = self.dict.clone();
                // the octets the script delivers (up to its first end or failure)
                let mut flat: Vec<u8> = vec![];
                for e in &evs {
                    match e {
                        crate::sio::REv::Data(b) => flat.extend_from_slice(b),
                        crate::sio::REv::Eof | crate::sio::REv::Fail | crate::sio::REv::Silent => break,
                        _ => {}
                    }
                }
                fresh_rt().block_on(async move {
                    let mut stream = crate::sio::Scripted::new(evs, vec![]);
                    let mut out: Vec<String> = vec![];
                    for _ in 0..n {
                        let before = stream.0.lock().unwrap().consumed;
                        let r = tokio::time::timeout(std::time::Duration::from_secs(3600), diameter::transport::Codec::decode(&mut stream, dict.clone())).await;
                        let used = stream.0.lock().unwrap().consumed - before;
                        match r {
                            Err(_) => {
                                out.push(format!("hang@{}", used));
                                break;
                            }
                            Ok(Ok(m)) => out.push(format!("ok:{}@{}", dump_msg(&m), used)),
                            Ok(Err(_)) => {
                                out.push(format!("err@{}", used));
                                // a refusal that took exactly one announced frame (of admissible size) leaves the stream
                                // at the next frame: reading goes on. Any other failure ends the sequence.
                                let announced = if before + 4 <= flat.len() { ((flat[before + 1] as usize) << 16) | ((flat[before + 2] as usize) << 8) | flat[before + 3] as usize } else { 0 };
                                if !(used == announced && (20..=1048576).contains(&announced)) {
                                    break;
                                }
                            }
                        }
                    }
                    out.join(";")
                })
            }
            ["sdecmany", count, h] => {
                // the same well-formed frame `count` times over one stream (gigabytes in total), then hostile announcements:
                // whatever the process has counted by then, they are refused as cheaply and safely as at the start
                let (count, f) = match (count.parse::<u64>().ok(), unhex(h)) {
                    (Some(c), Some(f)) => (c, f),
                    _ => return "bad-op".into(),
                };
                let dict = self.dict.clone();
                fresh_rt().block_on(async move {
                    let mut stream = crate::sio::Repeating::new(f, count);
                    let mut ok = 0u64;
                    loop {
                        match diameter::transport::Codec::decode(&mut stream, dict.clone()).await {
                            Ok(_) => ok += 1,
                            Err(_) => break,
                        }
                    }
                    let mut hostile = vec![];
                    for pre in [[1u8, 0, 0, 0], [1, 0, 0, 19], [1, 0x10, 0, 1], [1, 0xff, 0xff, 0xff]] {
                        let mut s2 = crate::sio::Scripted::new(vec![crate::sio::REv::Data(pre.to_vec()), crate::sio::REv::Data(vec![0u8; 64])], vec![]);
                        let r = diameter::transport::Codec::decode(&mut s2, dict.clone()).await;
                        let used = s2.0.lock().unwrap().consumed;
                        hostile.push(format!("{}@{}", if r.is_ok() { "ok" } else { "err" }, used));
                    }
                    format!("ok={} consumed={} hostile={}", ok, stream.consumed, hostile.join(","))
                })
            }
            ["servemany", count, h] => {
                // one connection of the server carrying `count` copies of a request, each answered with saved message 0
                let (count, f) = match (count.parse::<u64>().ok(), unhex(h)) {
                    (Some(c), Some(f)) => (c, f),
                    _ => return "bad-op".into(),
                };
                // (a message cannot be cloned: the answer is rebuilt from its encoding at every call)
                let ans: Arc<Vec<u8>> = match self.saved.first().and_then(|x| x.as_ref()) {
                    Some(a) => {
                        let mut v = Vec::new();
                        if a.encode_to(&mut v).is_err() {
                            return "bad-op".into();
                        }
                        Arc::new(v)
                    }
                    None => return "bad-op".into(),
                };
                let adict = self.dict.clone();
                let dict = self.dict.clone();
                fresh_rt().block_on(async move {
                    use std::cell::Cell;
                    use std::rc::Rc;
                    let calls = Rc::new(Cell::new(0u64));
                    let c2 = calls.clone();
                    let handler = move |_req: DiameterMessage| {
                        c2.set(c2.get() + 1);
                        let a = DiameterMessage::decode_from(&mut Cursor::new(&ans[..]), adict.clone());
                        async move { a }
                    };
                    let mut stream = crate::sio::Repeating::new(f, count);
                    let r = std::panic::AssertUnwindSafe(diameter::transport::DiameterServer::verif_serve_stream(&mut stream, handler, dict));
                    let end = match futures_catch(r).await {
                        Ok(_) => "done",
                        Err(_) => "panic",
                    };
                    format!("calls={} consumed={} written={} end={}", calls.get(), stream.consumed, stream.written, end)
                })
            }
            ["senc", w] => {
                let w = match crate::sio::parse_wevs(w) {
                    Some(w) => w,
                    None => return "bad-op".into(),
                };
                let msg = &self.msg;
                fresh_rt().block_on(async move {
                    let mut stream = crate::sio::Scripted::new(vec![], w);
                    let r = tokio::time::timeout(std::time::Duration::from_secs(3600), diameter::transport::Codec::encode(&mut stream, msg)).await;
                    let written = stream.0.lock().unwrap().written.clone();
                    match r {
                        Err(_) => format!("hang {}", hexd(&written)),
                        Ok(Ok(())) => format!("ok {}", hexd(&written)),
                        Ok(Err(_)) => format!("err {}", hexd(&written)),
                    }
                })
            }
            ["serve", hs, rd, wr] => {
                let (rd, wr) = match (crate::sio::parse_revs(rd), crate::sio::parse_wevs(wr)) {
                    (Some(a), Some(b)) => (a, b),
                    _ => return "bad-op".into(),
                };
                // scripted handler results: `a<i>` hands out saved message i (once), `err` fails
                // `~<ms>` behind either: the handler's future first sleeps that long (virtual time); `~y<k>`: it yields k times
                // - a handler that really awaits something (a database, another peer) before it answers
                let mut script: std::collections::VecDeque<(Option<DiameterMessage>, u64, u32)> = Default::default();
                if *hs != "-" {
                    for t in hs.split(',') {
                        let (t, wait) = match t.split_once('~') {
                            Some((a, b)) => (a, b),
                            None => (t, ""),
                        };
                        let (ms, yields) = if let Some(k) = wait.strip_prefix('y') { (0, k.parse::<u32>().unwrap_or(0)) } else { (wait.parse::<u64>().unwrap_or(0), 0) };
                        if t == "err" {
                            script.push_back((None, ms, yields));
                        } else if let Some(i) = t.strip_prefix('a').and_then(|x| x.parse::<usize>().ok()) {
                            match self.saved.get_mut(i) {
                                Some(slot) => script.push_back((slot.take(), ms, yields)),
                                None => return "bad-op".into(),
                            }
                        } else {
                            return "bad-op".into();
                        }
                    }
                }
                let dict = self.dict.clone();
                fresh_rt().block_on(async move {
                    use std::cell::RefCell;
                    use std::rc::Rc;
                    let stream = crate::sio::Scripted::new(rd, wr);
                    let calls: Rc<RefCell<Vec<String>>> = Default::default();
                    let script = Rc::new(RefCell::new(script));
                    let (c2, s2) = (calls.clone(), script.clone());
                    let handler = move |req: DiameterMessage| {
                        c2.borrow_mut().push(dump_msg(&req));
                        let r = s2.borrow_mut().pop_front();
                        async move {
                            if let Some((_, ms, yields)) = &r {
                                if *ms > 0 {
                                    tokio::time::sleep(std::time::Duration::from_millis(*ms)).await;
                                }
                                for _ in 0..*yields {
                                    tokio::task::yield_now().await;
                                }
                            }
                            match r {
                                Some((Some(m), _, _)) => Ok(m),
                                _ => Err(diameter::Error::ServerError("scripted handler failure".into())),
                            }
                        }
                    };
                    let fut = diameter::transport::DiameterServer::verif_serve_stream(stream.clone(), handler, dict);
                    let r = tokio::time::timeout(std::time::Duration::from_secs(3600), fut).await;
                    let sh = stream.0.lock().unwrap();
                    let mut end = match r {
                        Err(_) => "hang".to_string(),
                        Ok(_) => "done".to_string(),
                    };
                    if sh.writes_after_fail > 0 {
                        end.push_str(&format!("!writes-after-failure={}", sh.writes_after_fail));
                    }
                    format!("calls=[{}] written={} end={}", calls.borrow().join(";"), hexd(&sh.written), end)
                })
            }
            ["repeat", n, rest @ ..] => {
                // a probe run n times on this thread: every run must give the same answer
                let n: usize = match n.parse() {
                    Ok(n) => n,
                    Err(_) => return "bad-op".into(),
                };
                let l = rest.join(" ");
                let first = self.step(&l);
                for k in 1..n {
                    let again = self.step(&l);
                    // (the time-budget suffix of `decq` may come and go with the load of the machine)
                    if again.trim_end_matches(" slow") != first.trim_end_matches(" slow") {
                        return format!("{} !run-{}-differs:{}", first, k, again.chars().take(200).collect::<String>());
                    }
                }
                first
            }
            ["envchild", name, value, h] => {
                // the frame decoded and displayed by a FRESH process in whose environment `name=value` was set (and the other
                // locale variables removed) before anything of the library ran - what a library reads from the environment
                // once, at first use, is read there
                let exe = match std::env::current_exe() {
                    Ok(e) => e,
                    Err(_) => return "bad-op".into(),
                };
                let mut c = std::process::Command::new(exe);
                c.arg("envdec").arg(h);
                for other in ["LC_ALL", "LC_CTYPE", "LANG", "LC_MESSAGES", "LANGUAGE", "COLUMNS", "LINES", "NO_COLOR", "TERM"] {
                    c.env_remove(other);
                }
                if *value != "-" {
                    c.env(name, value);
                }
                match c.output() {
                    Ok(o) if o.status.success() => String::from_utf8_lossy(&o.stdout).trim().to_string(),
                    Ok(_) => "abort".into(),
                    Err(_) => "bad-op".into(),
                }
            }
            ["env", name, value] => {
                // an environment variable of this process is set (`-`: removed): terminal width, locale - nothing the
                // library does may depend on them in a way that breaks it
                if *value == "-" {
                    std::env::remove_var(name);
                } else {
                    std::env::set_var(name, value);
                }
                ".".into()
            }
            ["freeze"] => {
                // the dictionary object as it is now is kept (a clone of the object, as an application would keep one for
                // the messages it has in flight) while the current one goes on changing
                self.frozen = Some(Arc::new((*self.dict).clone()));
                ".".into()
            }
            ["fbyname", n] => {
                let n = match unhex_str(n) {
                    Some(n) => n,
                    None => return "bad-op".into(),
                };
                match &self.frozen {
                    Some(d) => match Avp::from_name(&n, Unsigned32::new(7).into(), d.clone()) {
                        Ok(a) => format!("ok:{}:{}:{}", a.get_code(), a.get_vendor_id().map(|v| v.to_string()).unwrap_or_else(|| "-".into()), a.get_flags().mandatory as u8),
                        Err(_) => "err".into(),
                    },
                    None => "bad-op".into(),
                }
            }
            ["cliflood", n] => {
                // very many requests outstanding at once, none answered; the peer closes; every future fails, and a send
                // attempted afterwards fails (or gives a future that fails) - it does not hang. No model run behind it: the
                // theorems of C12 hold for any number of waiters, this is the code at that number.
                let n: usize = match n.parse() {
                    Ok(n) => n,
                    Err(_) => return "bad-op".into(),
                };
                let dict = self.dict.clone();
                fresh_rt().block_on(async move {
                    use diameter::transport::{DiameterClient, DiameterClientConfig};
                    use tokio::io::AsyncReadExt;
                    let hour = std::time::Duration::from_secs(3600);
                    let _ = diameter::verif::take_events();
                    let (cs, mut ps) = tokio::io::duplex(1 << 16);
                    let mut client = DiameterClient::new("127.0.0.1:1", DiameterClientConfig { use_tls: false, verify_cert: false });
                    let mut handler = client.verif_attach_stream(cs);
                    let d2 = dict.clone();
                    let reader = tokio::spawn(async move {
                        DiameterClient::handle(&mut handler, d2).await;
                    });
                    let total = n * 20;
                    let peer = tokio::spawn(async move {
                        let mut b = vec![0u8; 1 << 16];
                        let mut got = 0usize;
                        while got < total {
                            match ps.read(&mut b).await {
                                Ok(0) | Err(_) => break,
                                Ok(k) => got += k,
                            }
                        }
                        drop(ps);
                    });
                    let mut futs = Vec::with_capacity(n);
                    for i in 0..n {
                        let m = DiameterMessage::new(CommandCode::CreditControl, ApplicationId::CreditControl, 0x80, 7 + i as u32, i as u32, dict.clone());
                        match tokio::time::timeout(hour, client.send_message(m)).await {
                            Ok(Ok(f)) => futs.push(f),
                            Ok(Err(_)) => return format!("send {} refused while the connection is fine", i),
                            Err(_) => return format!("send {} hangs while the connection is fine", i),
                        }
                        if i % 4096 == 0 {
                            let _ = diameter::verif::take_events();
                        }
                    }
                    let _ = peer.await;
                    if tokio::time::timeout(hour, reader).await.is_err() {
                        return "reader does not stop after the peer closed".to_string();
                    }
                    let (mut pending, mut got) = (0usize, 0usize);
                    for f in futs {
                        match tokio::time::timeout(hour, f).await {
                            Err(_) => pending += 1,
                            Ok(Ok(_)) => got += 1,
                            Ok(Err(_)) => {}
                        }
                    }
                    let mut late = vec![];
                    for k in 0..3u32 {
                        let m = DiameterMessage::new(CommandCode::CreditControl, ApplicationId::CreditControl, 0x80, k, k, dict.clone());
                        late.push(match tokio::time::timeout(hour, client.send_message(m)).await {
                            Err(_) => "hang",
                            Ok(Err(_)) => "fails",
                            Ok(Ok(f)) => match tokio::time::timeout(hour, f).await {
                                Err(_) => "hang",
                                Ok(Err(_)) => "fails",
                                Ok(Ok(_)) => "answered",
                            },
                        });
                    }
                    let _ = diameter::verif::take_events();
                    format!("pending={} got={} late={}", pending, got, late.join(","))
                })
            }
            ["sdecnt", n, evs] => {
                // `sdec` on a runtime that has no time driver (an embedding application need not enable one): the stream
                // reader needs no timers
                let (n, evs) = match (n.parse::<usize>().ok(), crate::sio::parse_revs(evs)) {
                    (Some(n), Some(e)) => (n, e),
                    _ => return "bad-op".into(),
                };
                let dict = self.dict.clone();
                let mut flat: Vec<u8> = vec![];
                for e in &evs {
                    match e {
                        crate::sio::REv::Data(b) => flat.extend_from_slice(b),
                        crate::sio::REv::Eof | crate::sio::REv::Fail | crate::sio::REv::Silent => break,
                        _ => {}
                    }
                }
                let rt = tokio::runtime::Builder::new_current_thread().enable_io().build().unwrap();
                rt.block_on(async move {
                    let mut stream = crate::sio::Scripted::new(evs, vec![]);
                    let mut out: Vec<String> = vec![];
                    for _ in 0..n {
                        let before = stream.0.lock().unwrap().consumed;
                        let r = diameter::transport::Codec::decode(&mut stream, dict.clone()).await;
                        let used = stream.0.lock().unwrap().consumed - before;
                        match r {
                            Ok(m) => out.push(format!("ok:{}@{}", dump_msg(&m), used)),
                            Err(_) => {
                                out.push(format!("err@{}", used));
                                // (as `sdec`: a refusal that took exactly one announced frame leaves the stream at the next)
                                let announced = if before + 4 <= flat.len() { ((flat[before + 1] as usize) << 16) | ((flat[before + 2] as usize) << 8) | flat[before + 3] as usize } else { 0 };
                                if !(used == announced && (20..=1048576).contains(&announced)) {
                                    break;
                                }
                            }
                        }
                    }
                    out.join(";")
                })
            }
            ["iomode", n] => match n.parse::<u32>() {
                Ok(n) => {
                    crate::sio::IOMODE.with(|m| m.set(n));
                    ".".into()
                }
                Err(_) => "bad-op".into(),
            },
            ["amode", n] => match n.parse::<u32>() {
                Ok(n) => {
                    AMODE.with(|m| m.set(n));
                    ".".into()
                }
                Err(_) => "bad-op".into(),
            },
            ["rmode", n] => match n.parse::<u32>() {
                Ok(n) => {
                    RMODE.with(|m| m.set(n));
                    ".".into()
                }
                Err(_) => "bad-op".into(),
            },
            ["cliswitch", end] => {
                // one client object, two connections one after the other: a request is outstanding on the first when the
                // application attaches the second; then the first connection ends (`e` close, `f` reset, `g` garbage) while
                // the second stays open and silent. The first connection's reader has stopped: its future must complete.
                let end = end.to_string();
                let dict = self.dict.clone();
                fresh_rt().block_on(async move {
                    use diameter::transport::{DiameterClient, DiameterClientConfig};
                    let _ = diameter::verif::take_events();
                    let tail = match end.as_str() {
                        "e" => "e",
                        "f" => "f",
                        _ => "d:01000003ffffffff,e",
                    };
                    let (rd1, rd2) = (crate::sio::parse_revs(&format!("w:20,t:5000,{}", tail)).unwrap(), crate::sio::parse_revs("s").unwrap());
                    let s1 = crate::sio::Scripted::new(rd1, vec![]);
                    let s2 = crate::sio::Scripted::new(rd2, vec![]);
                    let mut client = DiameterClient::new("127.0.0.1:1", DiameterClientConfig { use_tls: false, verify_cert: false });
                    let request = |h: u32| DiameterMessage::new(CommandCode::CreditControl, ApplicationId::CreditControl, 0x80, h, h.wrapping_add(1000), dict.clone());
                    let mut h1 = client.verif_attach_stream(s1.clone());
                    let d1 = dict.clone();
                    let r1 = tokio::spawn(async move {
                        DiameterClient::handle(&mut h1, d1).await;
                    });
                    let fa = client.send_message(request(501)).await;
                    let mut h2 = client.verif_attach_stream(s2.clone());
                    let d2 = dict.clone();
                    tokio::spawn(async move {
                        DiameterClient::handle(&mut h2, d2).await;
                    });
                    let a = match fa {
                        Err(_) => "senderr".to_string(),
                        Ok(f) => match tokio::time::timeout(std::time::Duration::from_secs(3600), f).await {
                            Err(_) => "pending".to_string(),
                            Ok(Ok(_)) => "got".to_string(),
                            Ok(Err(_)) => "err".to_string(),
                        },
                    };
                    let stopped = tokio::time::timeout(std::time::Duration::from_secs(3600), r1).await.is_ok();
                    let _ = diameter::verif::take_events();
                    format!("first={} reader1_stopped={}", a, stopped as u8)
                })
            }
            ["clim", plan, _ans, streams @ ..] => {
                // one client object, several connections (`connect()` / `verif_attach_stream` called again): plan tokens
                // `a` attach the next stream and run its reader, `A` attach it without a reader, `s<h>:<len>` send,
                // `t<ms>` let virtual time pass; streams are `<read script>/<write script>`
                let mut specs = vec![];
                for st in streams.iter() {
                    let (rd, wr) = match st.split_once('/') {
                        Some(x) => x,
                        None => return "bad-op".into(),
                    };
                    match (crate::sio::parse_revs(rd), crate::sio::parse_wevs(wr)) {
                        (Some(a), Some(b)) => specs.push((a, b)),
                        _ => return "bad-op".into(),
                    }
                }
                let plan: Vec<String> = plan.split(',').map(|x| x.to_string()).collect();
                let dict = self.dict.clone();
                fresh_rt().block_on(async move {
                    use crate::sio::sync_hooks;
                    use diameter::transport::{DiameterClient, DiameterClientConfig};
                    let _ = diameter::verif::take_events();
                    let ulog: Arc<std::sync::Mutex<Vec<String>>> = Default::default();
                    let mut client = DiameterClient::new("127.0.0.1:1", DiameterClientConfig { use_tls: false, verify_cert: false });
                    let request = |h: u32, len: usize| {
                        let mut m = DiameterMessage::new(CommandCode::CreditControl, ApplicationId::CreditControl, 0x80, h, h.wrapping_add(1000), dict.clone());
                        m.add_avp(12, None, 0, OctetString::new(vec![0x55; len]).into());
                        m
                    };
                    let count_reg = |u: &Arc<std::sync::Mutex<Vec<String>>>| u.lock().unwrap().iter().filter(|e| e.starts_with("reg:")).count();
                    let mut specs = specs.into_iter();
                    let mut readers: Vec<Option<tokio::task::JoinHandle<()>>> = vec![];
                    let mut futs = vec![];
                    let mut nsend = 0usize;
                    for tok in plan.iter() {
                        sync_hooks(&ulog);
                        if tok == "a" || tok == "A" {
                            let (rd, wr) = match specs.next() {
                                Some(x) => x,
                                None => return "bad-op no-stream".to_string(),
                            };
                            let c = readers.len();
                            let stream = crate::sio::Scripted::new(rd, wr);
                            {
                                let mut sh = stream.0.lock().unwrap();
                                sh.ulog = Some(ulog.clone());
                                sh.tag = Some(c);
                            }
                            ulog.lock().unwrap().push("conn".into());
                            let mut handler = client.verif_attach_stream(stream.clone());
                            if tok == "a" {
                                let d2 = dict.clone();
                                let fut = async move {
                                    DiameterClient::handle(&mut handler, d2).await;
                                };
                                readers.push(Some(tokio::spawn(crate::sio::Tagged { conn: c, ulog: ulog.clone(), fut: Box::pin(fut) })));
                            } else {
                                readers.push(None);
                            }
                        } else if let Some(ms) = tok.strip_prefix('t').and_then(|x| x.parse::<u64>().ok()) {
                            tokio::time::sleep(std::time::Duration::from_millis(ms)).await;
                        } else if let Some((h, len)) = tok.strip_prefix('s').and_then(|x| x.split_once(':')).and_then(|(a, b)| Some((a.parse::<u32>().ok()?, b.parse::<usize>().ok()?))) {
                            ulog.lock().unwrap().push(format!("sb:{}", nsend));
                            let before = count_reg(&ulog);
                            let r = client.send_message(request(h, len)).await;
                            sync_hooks(&ulog);
                            let registered = count_reg(&ulog) > before;
                            ulog.lock().unwrap().push(format!("ret:{}:{}", nsend, if r.is_ok() { "ok" } else { "err" }));
                            nsend += 1;
                            if registered {
                                futs.push(r.ok());
                            }
                        } else {
                            return "bad-op plan".to_string();
                        }
                    }
                    let mut res: Vec<String> = vec![];
                    for f in futs {
                        res.push(match f {
                            None => "none".to_string(),
                            Some(f) => match tokio::time::timeout(std::time::Duration::from_secs(3600), f).await {
                                Err(_) => "pending".to_string(),
                                Ok(Ok(m)) => format!("got:{}:{}", m.get_hop_by_hop_id(), m.get_end_to_end_id()),
                                Ok(Err(_)) => "err".to_string(),
                            },
                        });
                    }
                    let mut stopped = String::new();
                    for r in readers {
                        stopped.push(match r {
                            None => '-',
                            Some(h) => if tokio::time::timeout(std::time::Duration::from_secs(3600), h).await.is_ok() { '1' } else { '0' },
                        });
                    }
                    sync_hooks(&ulog);
                    let u = ulog.lock().unwrap();
                    format!(
                        "trace={} res={} stopped={}",
                        if u.is_empty() { "-".to_string() } else { u.join(",") },
                        if res.is_empty() { "-".to_string() } else { res.join(",") },
                        if stopped.is_empty() { "-".to_string() } else { stopped }
                    )
                })
            }
            ["cli", sends, rd, wr, _ans, late] => {
                let (rd, wr) = match (crate::sio::parse_revs(rd), crate::sio::parse_wevs(wr)) {
                    (Some(a), Some(b)) => (a, b),
                    _ => return "bad-op".into(),
                };
                // `hbh:len[:ms]` - the optional third field lets (virtual) time pass before that send, so that whatever
                // the reader can do with what has arrived happens first
                // a fourth field `b`: a request the wire cannot carry (a Time before 1900) - `send_message` fails for it
                let mut plan: Vec<(u32, usize, u64, bool)> = vec![];
                if *sends != "-" {
                    for t in sends.split(',') {
                        let mut it = t.split(':');
                        match (it.next().and_then(|x| x.parse().ok()), it.next().and_then(|x| x.parse().ok())) {
                            (Some(h), Some(l)) => plan.push((h, l, it.next().and_then(|x| x.parse().ok()).unwrap_or(0), it.next() == Some("b"))),
                            _ => return "bad-op".into(),
                        }
                    }
                }
                // `c<id>`: before the late send the application tries to connect again - to a port nobody listens on
                // `D`: no late send; the client object itself is dropped right after the sends (a helper that returns only
                // the futures), the reader task and the futures live on
                let drop_client = *late == "D";
                let reconnect = late.starts_with('c');
                let late: Option<u32> = if *late == "-" || drop_client { None } else { late.trim_start_matches('c').parse().ok() };
                let dict = self.dict.clone();
                let amode = AMODE.with(|m| m.get());
                fresh_rt().block_on(async move {
                    use crate::sio::sync_hooks;
                    use diameter::transport::{DiameterClient, DiameterClientConfig};
                    let _ = diameter::verif::take_events();
                    let ulog: Arc<std::sync::Mutex<Vec<String>>> = Default::default();
                    let stream = crate::sio::Scripted::new(rd, wr);
                    stream.0.lock().unwrap().ulog = Some(ulog.clone());
                    let mut client = DiameterClient::new("127.0.0.1:1", DiameterClientConfig { use_tls: false, verify_cert: false });
                    let mut handler = client.verif_attach_stream(stream.clone());
                    let d2 = dict.clone();
                    let reader = tokio::spawn(async move {
                        DiameterClient::handle(&mut handler, d2).await;
                    });
                    let request = |h: u32, len: usize| {
                        let mut m = DiameterMessage::new(CommandCode::CreditControl, ApplicationId::CreditControl, 0x80, h, h.wrapping_add(1000), dict.clone());
                        m.add_avp(12, None, 0, OctetString::new(vec![0x55; len]).into());
                        m
                    };
                    let count_reg = |u: &Arc<std::sync::Mutex<Vec<String>>>| u.lock().unwrap().iter().filter(|e| e.starts_with("reg:")).count();
                    let mut futs = vec![];
                    for (i, (h, len, wait, bad)) in plan.iter().enumerate() {
                        if *wait > 0 {
                            tokio::time::sleep(std::time::Duration::from_millis(*wait)).await;
                        }
                        sync_hooks(&ulog);
                        ulog.lock().unwrap().push(format!("sb:{}", i));
                        let before = count_reg(&ulog);
                        let mut req = request(*h, *len);
                        if *bad {
                            use chrono::TimeZone;
                            req.add_avp(55, None, 0, diameter::avp::Time::new(chrono::Utc.with_ymd_and_hms(1850, 1, 1, 0, 0, 0).unwrap()).into());
                        }
                        // (a send that cannot finish - the stream never has room again - is abandoned after an hour of virtual
                        // time, like an application would; it counts as a failed send)
                        let r = match tokio::time::timeout(std::time::Duration::from_secs(7200), client.send_message(req)).await {
                            Ok(r) => r,
                            Err(_) => Err(diameter::Error::ClientError("send abandoned by the harness".into())),
                        };
                        sync_hooks(&ulog);
                        let registered = count_reg(&ulog) > before;
                        ulog.lock().unwrap().push(format!("ret:{}:{}", i, if r.is_ok() { "ok" } else { "err" }));
                        if registered {
                            let mut fo = r.ok();
                            let mut early: Option<String> = None;
                            if amode == 1 {
                                // the application looks at the future once right away (a `select!`, a short timeout) ...
                                if let Some(f) = fo.as_mut() {
                                    match tokio::time::timeout(std::time::Duration::ZERO, &mut *f).await {
                                        Ok(Ok(m)) => early = Some(format!("got:{}:{}", m.get_hop_by_hop_id(), m.get_end_to_end_id())),
                                        Ok(Err(_)) => early = Some("err".to_string()),
                                        Err(_) => {}
                                    }
                                }
                            }
                            // whoever waits for the future waits in a task of its own, from now on, for an hour of virtual
                            // time (so that a later send that never finishes cannot hide a future that should long be done).
                            // A future that only completes because the deadline's own timer polled it again was never woken
                            // by its answer: that counts as pending.
                            let show = |r: std::result::Result<diameter::Result<DiameterMessage>, tokio::time::error::Elapsed>| match r {
                                Err(_) => "pending".to_string(),
                                Ok(Ok(m)) => format!("got:{}:{}", m.get_hop_by_hop_id(), m.get_end_to_end_id()),
                                Ok(Err(_)) => "err".to_string(),
                            };
                            futs.push(match (fo, early) {
                                (_, Some(e)) => tokio::spawn(async move { e }),
                                (None, _) => tokio::spawn(async move { "none".to_string() }),
                                (Some(f), _) => tokio::spawn(async move {
                                    let t0 = tokio::time::Instant::now();
                                    let r = tokio::time::timeout(std::time::Duration::from_secs(3600), f).await;
                                    if t0.elapsed() >= std::time::Duration::from_secs(3599) {
                                        return "pending".to_string();
                                    }
                                    show(r)
                                }),
                            });
                        }
                    }
                    // (`late` is `None` when the client is dropped, so it is not used again below)
                    let mut client = client;
                    if drop_client {
                        let gone = std::mem::replace(&mut client, DiameterClient::new("127.0.0.1:1", DiameterClientConfig { use_tls: false, verify_cert: false }));
                        drop(gone);
                    }
                    let mut res: Vec<String> = vec![];
                    for h in futs {
                        res.push(h.await.unwrap_or_else(|_| "panic".to_string()));
                    }
                    let stopped = tokio::time::timeout(std::time::Duration::from_secs(3600), reader).await.is_ok();
                    sync_hooks(&ulog);
                    let mut late_res = "none".to_string();
                    if let Some(h) = late {
                        if reconnect {
                            let r = tokio::time::timeout(std::time::Duration::from_secs(600), client.connect()).await;
                            if matches!(r, Ok(Ok(_))) {
                                return "bad-op reconnect-succeeded".to_string();
                            }
                            sync_hooks(&ulog);
                        }
                        ulog.lock().unwrap().push(format!("sb:{}", plan.len()));
                        let before = count_reg(&ulog);
                        let r = client.send_message(request(h, 0)).await;
                        sync_hooks(&ulog);
                        let registered = count_reg(&ulog) > before;
                        ulog.lock().unwrap().push(format!("ret:{}:{}", plan.len(), if r.is_ok() { "ok" } else { "err" }));
                        late_res = match r {
                            Err(_) => "err".to_string(),
                            Ok(f) => match tokio::time::timeout(std::time::Duration::from_secs(3600), f).await {
                                Err(_) => "fut:pending".to_string(),
                                Ok(Ok(m)) => format!("fut:got:{}:{}", m.get_hop_by_hop_id(), m.get_end_to_end_id()),
                                Ok(Err(_)) => "fut:err".to_string(),
                            },
                        };
                        if registered {
                            res.push(late_res.trim_start_matches("fut:").to_string());
                        }
                    }
                    sync_hooks(&ulog);
                    let u = ulog.lock().unwrap();
                    let wrote = stream.0.lock().unwrap().written.clone();
                    format!(
                        "trace={} res={} stopped={} late={} wrote={}:{}",
                        if u.is_empty() { "-".to_string() } else { u.join(",") },
                        if res.is_empty() { "-".to_string() } else { res.join(",") },
                        stopped as u8,
                        late_res,
                        wrote.len(),
                        fnv(&wrote)
                    )
                })
            }
            ["fx", t, h] => match unhex(h) {
                Some(b) => fx_line(t, &b).unwrap_or_else(|| "bad-op".into()),
                None => "bad-op".into(),
            },
            ["sweep", t, lo, n, blk] => {
                let (lo, n, blk) = match (lo.parse::<u64>().ok(), n.parse::<u64>().ok(), blk.parse::<u64>().ok()) {
                    (Some(a), Some(b), Some(c)) if c > 0 => (a, b, c),
                    _ => return "bad-op".into(),
                };
                let mut sums = vec![];
                for k in 0..n / blk {
                    match sweep_fold(t, lo + k * blk, blk) {
                        Some(h) => sums.push(h.to_string()),
                        None => return "bad-op".into(),
                    }
                }
                sums.join(",")
            }
            ["psweep", t, lo, n, blk, threads] => {
                // the blocks of a range swept by several threads at the same time (each block by one thread, all threads
                // released together): every block's checksum is what one thread alone computes
                let (lo, n, blk, th) = match (lo.parse::<u64>().ok(), n.parse::<u64>().ok(), blk.parse::<u64>().ok(), threads.parse::<usize>().ok()) {
                    (Some(a), Some(b), Some(c), Some(d)) if c > 0 && d > 0 => (a, b, c, d.min(64)),
                    _ => return "bad-op".into(),
                };
                let nb = (n / blk) as usize;
                let barrier = Arc::new(std::sync::Barrier::new(th));
                let t = t.to_string();
                let hs: Vec<_> = (0..th)
                    .map(|w| {
                        let (b, t) = (barrier.clone(), t.clone());
                        std::thread::spawn(move || {
                            b.wait();
                            let mut out = vec![];
                            let mut k = w;
                            while k < nb {
                                out.push((k, sweep_fold(&t, lo + k as u64 * blk, blk)));
                                k += th;
                            }
                            out
                        })
                    })
                    .collect();
                let mut sums: Vec<Option<u64>> = vec![None; nb];
                for h in hs {
                    match h.join() {
                        Ok(v) => {
                            for (k, s) in v {
                                sums[k] = s;
                            }
                        }
                        Err(_) => return "panic".into(),
                    }
                }
                if sums.iter().any(|s| s.is_none()) {
                    return "bad-op".into();
                }
                sums.iter().map(|s| s.unwrap().to_string()).collect::<Vec<_>>().join(",")
            }
            ["deca", h] => match unhex(h) {
                Some(b) => {
                    let mut c = rd(&b);
                    match Avp::decode_from(&mut c, self.dict.clone()) {
                        Ok(a) => {
                            let mut s = String::from("ok ");
                            dump_avp(&a, &mut s);
                            s.push_str(&format!(" pos={}", c.position()));
                            s
                        }
                        Err(_) => "err".into(),
                    }
                }
                None => "bad-op".into(),
            },
            ["decg", len, h] => match (len.parse::<usize>().ok(), unhex(h)) {
                (Some(len), Some(b)) => {
                    let mut c = rd(&b);
                    match Grouped::decode_from(&mut c, len, self.dict.clone()) {
                        Ok(g) => {
                            let mut s = String::from("ok [");
                            for a in g.avps() {
                                dump_avp(a, &mut s);
                            }
                            s.push_str(&format!("] pos={}", c.position()));
                            s
                        }
                        Err(_) => "err".into(),
                    }
                }
                _ => "bad-op".into(),
            },
            ["decat", k, h] => match (k.parse::<usize>().ok(), unhex(h)) {
                (Some(k), Some(b)) => self.decode_line_at(k, &b),
                _ => "bad-op".into(),
            },
            ["decq", h] => match unhex(h) {
                Some(b) => {
                    // "in bounded time": decoding, displaying, inspecting and re-encoding a frame is linear work; the
                    // budget is generous (2 s plus 3 s per MiB, against about 0.1 s per MiB on the unchanged tree) so that
                    // only a change of complexity class can exceed it
                    // (CPU time of this thread, so that a loaded machine does not look like a slow decoder)
                    let t0 = crate::util::thread_cpu_ms();
                    let a = self.decode_line(&b).split(' ').next().unwrap().to_string();
                    let ms = crate::util::thread_cpu_ms().saturating_sub(t0);
                    if ms > 2_000 + 3 * (b.len() as u64 >> 10) {
                        format!("{} slow", a)
                    } else {
                        a
                    }
                }
                None => "bad-op".into(),
            },
            _ => "bad-op".into(),
        }
    }
}


/* ---------- readers that hand out the octets in pieces (`rmode <n>`) ----------
The codec is generic over `Read + Seek`; a `Cursor` returns everything asked for in one call, a file, a `BufReader`, a
`Chain` or a socket need not. Mode 0 is the plain cursor; the other modes cap what one `read` call returns. Whatever the
mode, the octets and the positions are the same, so every answer must be the same. */
thread_local! { pub static RMODE: std::cell::Cell<u32> = std::cell::Cell::new(0); }
// how the application waits for a response future (`amode <n>`): 0 = awaits it where it got it; 1 = polls it once, then
// moves it into another task and awaits it there
thread_local! { pub static AMODE: std::cell::Cell<u32> = std::cell::Cell::new(0); }

pub struct Frag<'a> {
    c: Cursor<&'a [u8]>,
    calls: usize,
    mode: u32,
}

pub fn rd(b: &[u8]) -> Frag<'_> {
    Frag { c: Cursor::new(b), calls: 0, mode: RMODE.with(|m| m.get()) }
}

impl<'a> Frag<'a> {
    pub fn position(&self) -> u64 {
        self.c.position()
    }
    pub fn set_position(&mut self, p: u64) {
        self.c.set_position(p)
    }
}

impl<'a> std::io::Read for Frag<'a> {
    fn read(&mut self, buf: &mut [u8]) -> std::io::Result<usize> {
        let pos = self.c.position() as usize;
        let cap = match self.mode {
            0 => buf.len(),
            1 => 1,
            2 => 2,
            3 => 3,
            4 => [1usize, 2, 3, 5, 7][self.calls % 5],
            5 => [7usize, 1][self.calls % 2],
            // like a buffered reader: a call never crosses an absolute multiple of 5 / of 7
            6 => 5 - pos % 5,
            7 => 7 - pos % 7,
            _ => buf.len(),
        };
        self.calls += 1;
        let n = cap.min(buf.len());
        self.c.read(&mut buf[..n])
    }
}

impl<'a> std::io::Seek for Frag<'a> {
    fn seek(&mut self, p: std::io::SeekFrom) -> std::io::Result<u64> {
        self.c.seek(p)
    }
}

/// every stream scenario runs on a runtime of its own (current thread, paused virtual time): whatever it leaves behind -
/// reader tasks parked on silent peers, watchers with an hour to go - goes away with it and cannot stir during a later
/// scenario (a leftover task polled later would drain the library's process-wide event log into its own, stale trace)
fn fmt_params<T: std::fmt::Display>(x: &T) {
    let v = [
        format!("{:16.16}", x),
        format!("{:>8}", x),
        format!("{:.3}", x),
        format!("{:<40.5}", x),
        format!("{:^1.1}", x),
        format!("{:*^9.4}", x),
        format!("{:0>4}", x),
        format!("{:.0}", x),
        format!("{:2.2}", x),
        format!("{:#}", x),
        format!("{:+}", x),
        format!("{:300}", x),
        format!("{:1$.2$}", x, 7, 7),
    ];
    std::hint::black_box(&v);
}

/// the typed values on their own (an application formats `avp.get_utf8string()` more often than the AVP)
fn fmt_typed(a: &Avp) {
    if let Some(v) = a.get_utf8string() {
        fmt_params(v);
    }
    if let Some(v) = a.get_identity() {
        fmt_params(v);
    }
    if let Some(v) = a.get_address() {
        fmt_params(v);
    }
    if let Some(v) = a.get_octetstring() {
        fmt_params(v);
    }
    if let Some(v) = a.get_time() {
        fmt_params(v);
    }
    if let Some(v) = a.get_diameter_uri() {
        fmt_params(v);
    }
    if let Some(v) = a.get_unsigned32() {
        fmt_params(&v);
    }
}

fn fresh_rt() -> tokio::runtime::Runtime {
    tokio::runtime::Builder::new_current_thread().enable_all().start_paused(true).build().unwrap()
}

/// a `fmt::Write` sink with room for so many octets, then errors
struct Bounded {
    room: usize,
}

impl std::fmt::Write for Bounded {
    fn write_str(&mut self, t: &str) -> std::fmt::Result {
        if t.len() > self.room {
            self.room = 0;
            return Err(std::fmt::Error);
        }
        self.room -= t.len();
        Ok(())
    }
}

/// the writing side of `rmode`: a writer that takes at most so many octets per call (mode 0: everything). Whatever it
/// takes per call, a successful encode has handed it every octet.
pub struct Trickle {
    pub acc: Vec<u8>,
    calls: usize,
    mode: u32,
}

impl Trickle {
    pub fn new() -> Trickle {
        Trickle { acc: Vec::new(), calls: 0, mode: RMODE.with(|m| m.get()) }
    }
}

impl std::io::Write for Trickle {
    fn write(&mut self, b: &[u8]) -> std::io::Result<usize> {
        let cap = match self.mode {
            0 => b.len(),
            1 => 1,
            2 => 2,
            3 => 3,
            4 => [1usize, 2, 3, 5, 7][self.calls % 5],
            5 => [7usize, 1][self.calls % 2],
            6 => 5 - self.acc.len() % 5,
            7 => 7 - self.acc.len() % 7,
            _ => b.len(),
        };
        self.calls += 1;
        let n = cap.min(b.len());
        self.acc.extend_from_slice(&b[..n]);
        Ok(n)
    }
    fn flush(&mut self) -> std::io::Result<()> {
        Ok(())
    }
}

/* ---------- C17: fixed-size types, one value at a time and folded over ranges ---------- */

/// decode the octets with the type's own `decode_from`, observe through the public accessor, encode back
/// returns (observable text, observable as a number, re-encoded octets or None on error)
fn fx_one(t: &str, b: &[u8]) -> Option<(String, u64, Option<Vec<u8>>)> {
    let mut c = rd(b);
    let mut e = Trickle::new();
    Some(match t {
        "u32" => {
            let v = Unsigned32::decode_from(&mut c).ok()?;
            let r = v.encode_to(&mut e).ok().map(|_| e.acc);
            (format!("u32:{}", v.value()), v.value() as u64, r)
        }
        "i32" => {
            let v = Integer32::decode_from(&mut c).ok()?;
            let r = v.encode_to(&mut e).ok().map(|_| e.acc);
            (format!("i32:{}", v.value()), v.value() as i64 as u64, r)
        }
        "enum" => {
            let v = Enumerated::decode_from(&mut c).ok()?;
            let r = v.encode_to(&mut e).ok().map(|_| e.acc);
            (format!("enum:{}", v.value()), v.value() as i64 as u64, r)
        }
        "f32" => {
            let v = Float32::decode_from(&mut c).ok()?;
            let r = v.encode_to(&mut e).ok().map(|_| e.acc);
            (format!("f32:{:08x}", v.value().to_bits()), v.value().to_bits() as u64, r)
        }
        "time" => {
            let v = Time::decode_from(&mut c).ok()?;
            let r = v.encode_to(&mut e).ok().map(|_| e.acc);
            let ts = v.value().timestamp();
            (format!("time:{}.{}", ts, v.value().timestamp_subsec_nanos()), ts as u64, r)
        }
        "ipv4" => {
            let v = IPv4::decode_from(&mut c).ok()?;
            let r = v.encode_to(&mut e).ok().map(|_| e.acc);
            let shown = format!("{}", v);
            let num = shown.parse::<Ipv4Addr>().map(|x| u32::from(x) as u64).unwrap_or(u64::MAX);
            (format!("ipv4:{}", shown), num, r)
        }
        "u64" => {
            let v = Unsigned64::decode_from(&mut c).ok()?;
            let r = v.encode_to(&mut e).ok().map(|_| e.acc);
            (format!("u64:{}", v.value()), v.value(), r)
        }
        "i64" => {
            let v = Integer64::decode_from(&mut c).ok()?;
            let r = v.encode_to(&mut e).ok().map(|_| e.acc);
            (format!("i64:{}", v.value()), v.value() as u64, r)
        }
        "f64" => {
            let v = Float64::decode_from(&mut c).ok()?;
            let r = v.encode_to(&mut e).ok().map(|_| e.acc);
            (format!("f64:{:016x}", v.value().to_bits()), v.value().to_bits(), r)
        }
        "ipv6" => {
            let v = IPv6::decode_from(&mut c).ok()?;
            let r = v.encode_to(&mut e).ok().map(|_| e.acc);
            let shown = format!("{}", v);
            let oct = shown.parse::<Ipv6Addr>().map(|x| hex(&x.octets())).unwrap_or_else(|_| "?".into());
            (format!("ipv6:{}", oct), 0, r)
        }
        _ => return None,
    })
}

fn fx_line(t: &str, b: &[u8]) -> Option<String> {
    let want = match t {
        "u64" | "i64" | "f64" => 8,
        "ipv6" => 16,
        _ => 4,
    };
    if b.len() != want {
        return None;
    }
    let (shown, _, re) = fx_one(t, b)?;
    Some(format!(
        "{} {}",
        shown,
        match re {
            Some(e) => hexd(&e),
            None => "encerr".into(),
        }
    ))
}

fn sweep_fold(t: &str, lo: u64, n: u64) -> Option<u64> {
    const K: u64 = 6364136223846793005;
    let mut h: u64 = 0;
    for v in lo..lo + n {
        let b = (v as u32).to_be_bytes();
        let (_, num, re) = fx_one(t, &b)?;
        let enum_ = match re {
            Some(e) => e.iter().fold(0u64, |a, x| a.wrapping_mul(256).wrapping_add(*x as u64)),
            None => 0xdeadbeef,
        };
        h = h.wrapping_mul(K).wrapping_add(num).wrapping_mul(K).wrapping_add(enum_);
    }
    Some(h)
}

/* ---------- C05: a writer that accepts exactly `budget` octets in total and then fails ---------- */

pub fn fnv(b: &[u8]) -> u64 {
    let mut h: u64 = 14695981039346656037;
    for x in b {
        h = (h ^ (*x as u64)).wrapping_mul(1099511628211);
    }
    h
}

struct FaultWriter {
    acc: Vec<u8>,
    budget: usize,
    short: usize, // at most this many octets per call (0 = no limit): short writes
    intr: usize,  // every intr-th call reports Interrupted without taking anything (0 = never): must be transparent
    calls: usize,
    zero: bool,   // fail as Ok(0) (WriteZero) instead of an error
    failed: bool,
}

impl std::io::Write for FaultWriter {
    /// a gathered write is served like one `write` of all the slices in order (short counts may end inside any slice)
    fn write_vectored(&mut self, bufs: &[std::io::IoSlice<'_>]) -> std::io::Result<usize> {
        let all: Vec<u8> = bufs.iter().flat_map(|b| b.iter().copied()).collect();
        self.write(&all)
    }
    fn write(&mut self, b: &[u8]) -> std::io::Result<usize> {
        self.calls += 1;
        if b.is_empty() {
            return Ok(0);
        }
        if self.intr > 0 && self.calls % self.intr == 0 && !self.failed {
            return Err(std::io::Error::new(std::io::ErrorKind::Interrupted, "interrupted"));
        }
        let room = self.budget - self.acc.len();
        if room == 0 {
            self.failed = true;
            return if self.zero { Ok(0) } else { Err(std::io::Error::new(crate::sio::fault_kind(self.budget), "writer failed")) };
        }
        let mut n = b.len().min(room);
        if self.short > 0 {
            n = n.min(self.short);
        }
        self.acc.extend_from_slice(&b[..n]);
        Ok(n)
    }
    fn flush(&mut self) -> std::io::Result<()> {
        Ok(())
    }
}

/// run a future to completion, turning a panic inside it into an error (what `tokio::spawn` does for a task)
async fn futures_catch<F: std::future::Future + std::panic::UnwindSafe>(f: F) -> std::result::Result<F::Output, ()> {
    let mut f = Box::pin(f);
    std::future::poll_fn(move |cx| match std::panic::catch_unwind(std::panic::AssertUnwindSafe(|| f.as_mut().poll(cx))) {
        Ok(std::task::Poll::Ready(v)) => std::task::Poll::Ready(Ok(v)),
        Ok(std::task::Poll::Pending) => std::task::Poll::Pending,
        Err(_) => std::task::Poll::Ready(Err(())),
    })
    .await
}
