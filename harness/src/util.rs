//! Small helpers shared by generators and executors: hex, PRNG.

pub fn hex(b: &[u8]) -> String {
    const D: &[u8; 16] = b"0123456789abcdef";
    let mut s = String::with_capacity(b.len() * 2);
    for x in b {
        s.push(D[(x >> 4) as usize] as char);
        s.push(D[(x & 15) as usize] as char);
    }
    s
}

/// hex, with `-` standing for the empty string
pub fn hexd(b: &[u8]) -> String {
    if b.is_empty() {
        "-".to_string()
    } else {
        hex(b)
    }
}

pub fn unhex(h: &str) -> Option<Vec<u8>> {
    if h == "-" {
        return Some(vec![]);
    }
    let b = h.as_bytes();
    if b.len() % 2 != 0 {
        return None;
    }
    let v = |c: u8| -> Option<u8> {
        match c {
            b'0'..=b'9' => Some(c - b'0'),
            b'a'..=b'f' => Some(c - b'a' + 10),
            _ => None,
        }
    };
    let mut out = Vec::with_capacity(b.len() / 2);
    for i in 0..b.len() / 2 {
        out.push(v(b[2 * i])? * 16 + v(b[2 * i + 1])?);
    }
    Some(out)
}

pub fn unhex_str(h: &str) -> Option<String> {
    String::from_utf8(unhex(h)?).ok()
}

/// xoshiro256** seeded through splitmix64; every random choice of a run derives from one state
#[derive(Clone)]
pub struct Rng {
    s: [u64; 4],
}

impl Rng {
    pub fn new(seed: u64) -> Rng {
        let mut z = seed.wrapping_add(0x9E3779B97F4A7C15);
        let mut s = [0u64; 4];
        for x in s.iter_mut() {
            z = z.wrapping_add(0x9E3779B97F4A7C15);
            let mut y = z;
            y = (y ^ (y >> 30)).wrapping_mul(0xBF58476D1CE4E5B9);
            y = (y ^ (y >> 27)).wrapping_mul(0x94D049BB133111EB);
            *x = y ^ (y >> 31);
        }
        Rng { s }
    }
    pub fn next(&mut self) -> u64 {
        let r = self.s[1].wrapping_mul(5).rotate_left(7).wrapping_mul(9);
        let t = self.s[1] << 17;
        self.s[2] ^= self.s[0];
        self.s[3] ^= self.s[1];
        self.s[1] ^= self.s[2];
        self.s[0] ^= self.s[3];
        self.s[2] ^= t;
        self.s[3] = self.s[3].rotate_left(45);
        r
    }
    pub fn below(&mut self, n: u64) -> u64 {
        if n == 0 {
            0
        } else {
            self.next() % n
        }
    }
    pub fn range(&mut self, lo: u64, hi: u64) -> u64 {
        lo + self.below(hi - lo + 1)
    }
    pub fn chance(&mut self, num: u64, den: u64) -> bool {
        self.below(den) < num
    }
    pub fn pick<'a, T>(&mut self, xs: &'a [T]) -> &'a T {
        &xs[self.below(xs.len() as u64) as usize]
    }
    pub fn bytes(&mut self, n: usize) -> Vec<u8> {
        (0..n).map(|_| self.next() as u8).collect()
    }
}

/// CPU time consumed by the calling thread, in milliseconds
pub fn thread_cpu_ms() -> u64 {
    let mut ts = libc::timespec { tv_sec: 0, tv_nsec: 0 };
    // SAFETY: plain syscall wrapper writing into a local timespec
    let rc = unsafe { libc::clock_gettime(libc::CLOCK_THREAD_CPUTIME_ID, &mut ts) };
    if rc != 0 {
        return 0;
    }
    ts.tv_sec as u64 * 1000 + ts.tv_nsec as u64 / 1_000_000
}

/// a logger that lets every record through and formats it (then throws it away): the arguments of the library's log
/// statements are evaluated, as they are in a deployment that runs with trace logging
pub struct EagerLogger;
impl log::Log for EagerLogger {
    fn enabled(&self, _: &log::Metadata) -> bool {
        true
    }
    fn log(&self, record: &log::Record) {
        use std::fmt::Write;
        let mut s = String::new();
        let _ = write!(s, "{}", record.args());
        std::hint::black_box(&s);
    }
    fn flush(&self) {}
}
pub static EAGER_LOGGER: EagerLogger = EagerLogger;
pub fn install_logger() {
    if log::set_logger(&EAGER_LOGGER).is_ok() {
        log::set_max_level(log::LevelFilter::Trace);
    }
}
