//! Case generators. Every random choice derives from one PRNG state seeded from VERIF_SEED.
//! The generator has its own small encoder (used only to *produce* input frames; what a frame means is
//! decided by the Lean model's `Spec` column, never by this encoder).

use crate::util::*;
use std::io::Write;

pub const TY_NAMES: [&str; 16] = [
    "Address",
    "IPv4",
    "IPv6",
    "DiameterIdentity",
    "DiameterURI",
    "Enumerated",
    "Float32",
    "Float64",
    "Grouped",
    "Integer32",
    "Integer64",
    "OctetString",
    "Time",
    "Unsigned32",
    "Unsigned64",
    "UTF8String",
];
pub const T_ADDRESS: usize = 0;
pub const T_IPV4: usize = 1;
pub const T_IPV6: usize = 2;
pub const T_IDENT: usize = 3;
pub const T_URI: usize = 4;
pub const T_ENUM: usize = 5;
pub const T_F32: usize = 6;
pub const T_F64: usize = 7;
pub const T_GROUPED: usize = 8;
pub const T_I32: usize = 9;
pub const T_I64: usize = 10;
pub const T_OCT: usize = 11;
pub const T_TIME: usize = 12;
pub const T_U32: usize = 13;
pub const T_U64: usize = 14;
pub const T_UTF8: usize = 15;
pub const T_UNKNOWN: usize = 16;

pub const CMDS: [u32; 12] = [0, 257, 280, 282, 258, 275, 274, 272, 8388635, 8388636, 271, 265];
pub const APPS: [u32; 6] = [0, 3, 4, 16777238, 16777236, 16777302];
pub const RFC868: i64 = 2208988800;

#[derive(Clone, Debug)]
pub struct GDef {
    pub code: u32,
    pub vendor: Option<u32>,
    pub name: String,
    pub ty: usize, // index into TY_NAMES, 16 = unknown
    pub m: bool,
}

#[derive(Clone, Debug, Default)]
pub struct GDict {
    pub defs: Vec<GDef>,
}

impl GDict {
    pub fn by_type(&self, ty: usize) -> Vec<&GDef> {
        self.defs.iter().filter(|d| d.ty == ty).collect()
    }
    pub fn unique_name(&self, d: &GDef) -> bool {
        self.defs.iter().filter(|x| x.name == d.name).count() == 1
    }
    /// latest definition wins per key
    pub fn add(&mut self, d: GDef) {
        self.defs.retain(|x| !(x.code == d.code && x.vendor == d.vendor));
        self.defs.push(d);
    }
}

fn vend(v: Option<u32>) -> String {
    match v {
        Some(x) => x.to_string(),
        None => "-".into(),
    }
}

pub fn ty_name(ty: usize) -> &'static str {
    if ty < 16 {
        TY_NAMES[ty]
    } else {
        "Unknown"
    }
}

pub fn emit_dadd(w: &mut dyn Write, d: &GDef) {
    writeln!(w, "dadd {} {} {} {} {}", d.code, vend(d.vendor), hexd(d.name.as_bytes()), ty_name(d.ty), d.m as u8).unwrap();
}

/// the standard 16-type dictionary used by most codec cases: every type with and without vendor, twins that share
/// a code under different vendors with different types, an entry of unknown type
pub fn dict0() -> GDict {
    let mut d = GDict::default();
    for t in 0..16 {
        d.add(GDef { code: 1 + t as u32, vendor: None, name: format!("T{}", t), ty: t, m: t % 2 == 0 });
        d.add(GDef { code: 101 + t as u32, vendor: Some(99), name: format!("V{}", t), ty: t, m: t % 3 == 0 });
    }
    // twins: same code, different vendor, different type
    d.add(GDef { code: 1, vendor: Some(7), name: "Twin1".into(), ty: T_UTF8, m: true });
    d.add(GDef { code: 9, vendor: Some(7), name: "Twin9".into(), ty: T_U32, m: false });
    d.add(GDef { code: 14, vendor: Some(4294967295), name: "TwinMax".into(), ty: T_GROUPED, m: false });
    // twin sets whose types have the same size on the wire (a value read under the neighbour's type goes unnoticed
    // unless someone looks at the variant)
    for (code, tys) in [(300u32, [T_U32, T_I32, T_F32, T_ENUM]), (301, [T_UTF8, T_OCT, T_IDENT, T_URI]), (302, [T_U64, T_I64, T_F64, T_U64])] {
        for (k, ty) in tys.iter().enumerate() {
            let vendor = [None, Some(111u32), Some(222), Some(333)][k];
            d.add(GDef { code, vendor, name: format!("Set{}v{}", code, k), ty: *ty, m: k % 2 == 0 });
        }
    }
    // names are text: long ones, with characters of several octets around the 40th octet (where a table column might end)
    d.add(GDef { code: 320, vendor: None, name: "Teilnehmer-Verbindungs-Abrechnungs-Gebühr-Kennung".into(), ty: T_UTF8, m: false });
    d.add(GDef { code: 321, vendor: Some(99), name: "加入者接続課金識別子-加入者接続課金識別子-加入者接続課金".into(), ty: T_GROUPED, m: false });
    // two definitions that share a name (different pair, different type): a name identifies nothing, the pair does
    d.add(GDef { code: 310, vendor: Some(111), name: "Shared-Name".into(), ty: T_U64, m: true });
    d.add(GDef { code: 311, vendor: None, name: "Shared-Name".into(), ty: T_UTF8, m: false });
    // different texts with the same 32-bit value under the string hashes people reach for (FNV-1a, FNV-1, djb2, sdbm, x31,
    // CRC-32, Murmur3, a byte sum): a name is compared as text, whatever index is kept on the side
    for (k, (x, y)) in colliding_names().into_iter().enumerate() {
        d.add(GDef { code: 400 + 2 * k as u32, vendor: None, name: x, ty: T_U32, m: true });
        d.add(GDef { code: 401 + 2 * k as u32, vendor: if k % 2 == 0 { Some(99) } else { None }, name: y, ty: T_UTF8, m: false });
    }
    // a name that reads like a qualified one ("<vendor>:<name>", "<name>@<vendor>") next to the definition it seems to point at
    d.add(GDef { code: 420, vendor: None, name: "99:V3".into(), ty: T_U32, m: true });
    d.add(GDef { code: 421, vendor: None, name: "V4@99".into(), ty: T_UTF8, m: false });
    d.add(GDef { code: 4294967295, vendor: None, name: "MaxCode".into(), ty: T_OCT, m: false });
    d.add(GDef { code: 0, vendor: Some(0), name: "Zero".into(), ty: T_U64, m: true });
    d.add(GDef { code: 200, vendor: None, name: "Odd".into(), ty: T_UNKNOWN, m: false });
    // well-known base codes (Session-Id, Origin-Host, Result-Code, ...), typed here otherwise than RFC 6733 types them:
    // the dictionary alone decides, and nothing about these codes is special to the codec
    for (code, ty) in [(263u32, T_U64), (264, T_U32), (268, T_UTF8), (283, T_OCT), (293, T_I32), (296, T_ADDRESS), (258, T_F32), (260, T_IDENT), (257, T_UTF8), (1, T_ADDRESS)] {
        if d.defs.iter().all(|x| !(x.code == code && x.vendor.is_none())) {
            d.add(GDef { code, vendor: None, name: format!("WK{}", code), ty, m: code % 2 == 0 });
        }
    }
    // codes that alias code 1 / code 9 when narrowed to 8, 16 or 24 bits
    d.add(GDef { code: 257, vendor: None, name: "Alias8".into(), ty: T_UTF8, m: false });
    d.add(GDef { code: 65537, vendor: None, name: "Alias16".into(), ty: T_U64, m: true });
    d.add(GDef { code: 16777225, vendor: None, name: "Alias24".into(), ty: T_OCT, m: false });
    d
}

fn colliding_names() -> Vec<(String, String)> {
    fn fnv1a(b: &[u8]) -> u32 {
        b.iter().fold(0x811c9dc5u32, |h, c| (h ^ *c as u32).wrapping_mul(0x01000193))
    }
    fn fnv1(b: &[u8]) -> u32 {
        b.iter().fold(0x811c9dc5u32, |h, c| h.wrapping_mul(0x01000193) ^ *c as u32)
    }
    fn djb2(b: &[u8]) -> u32 {
        b.iter().fold(5381u32, |h, c| h.wrapping_mul(33).wrapping_add(*c as u32))
    }
    fn sdbm(b: &[u8]) -> u32 {
        b.iter().fold(0u32, |h, c| (*c as u32).wrapping_add(h << 6).wrapping_add(h << 16).wrapping_sub(h))
    }
    fn x31(b: &[u8]) -> u32 {
        b.iter().fold(0u32, |h, c| h.wrapping_mul(31).wrapping_add(*c as u32))
    }
    fn crc32(b: &[u8]) -> u32 {
        let mut c = 0xffff_ffffu32;
        for x in b {
            c ^= *x as u32;
            for _ in 0..8 {
                c = if c & 1 != 0 { (c >> 1) ^ 0xedb8_8320 } else { c >> 1 };
            }
        }
        !c
    }
    fn murmur3(b: &[u8]) -> u32 {
        let mut h = 0u32;
        let mut chunks = b.chunks_exact(4);
        for c in &mut chunks {
            let mut k = u32::from_le_bytes([c[0], c[1], c[2], c[3]]);
            k = k.wrapping_mul(0xcc9e2d51).rotate_left(15).wrapping_mul(0x1b873593);
            h = (h ^ k).rotate_left(13).wrapping_mul(5).wrapping_add(0xe6546b64);
        }
        let rem = chunks.remainder();
        let mut k = 0u32;
        for (i, x) in rem.iter().enumerate() {
            k |= (*x as u32) << (8 * i);
        }
        if !rem.is_empty() {
            k = k.wrapping_mul(0xcc9e2d51).rotate_left(15).wrapping_mul(0x1b873593);
            h ^= k;
        }
        h ^= b.len() as u32;
        h ^= h >> 16;
        h = h.wrapping_mul(0x85ebca6b);
        h ^= h >> 13;
        h = h.wrapping_mul(0xc2b2ae35);
        h ^ (h >> 16)
    }
    fn bytesum(b: &[u8]) -> u32 {
        b.iter().map(|c| *c as u32).sum()
    }
    let hs: [(&str, fn(&[u8]) -> u32); 8] = [("Fa", fnv1a), ("Fb", fnv1), ("Dj", djb2), ("Sd", sdbm), ("Jx", x31), ("Cr", crc32), ("Mu", murmur3), ("Su", bytesum)];
    let mut out = vec![];
    for (tag, h) in hs {
        let mut seen: std::collections::HashMap<u32, u32> = std::collections::HashMap::new();
        // (letters, not digits: polynomial hashes and CRCs do not collide on texts that differ in a few low bits only)
        let word = |i: u32| -> String {
            let mut x = (i as u64 + 1).wrapping_mul(0x9E37_79B9_7F4A_7C15);
            let mut w = String::new();
            for _ in 0..10 {
                w.push((b"abcdefghijklmnopqrstuvwxyzABCDEFGHIJKLMNOPQRSTUVWXYZ"[(x % 52) as usize]) as char);
                x /= 52;
            }
            w
        };
        for i in 0..1_000_000u32 {
            let n = format!("Acme-{}-{}", tag, word(i));
            if let Some(j) = seen.insert(h(n.as_bytes()), i) {
                out.push((format!("Acme-{}-{}", tag, word(j)), n));
                break;
            }
        }
    }
    out
}

pub fn emit_dict(w: &mut dyn Write, d: &GDict) {
    writeln!(w, "dreset").unwrap();
    for x in &d.defs {
        emit_dadd(w, x);
    }
}

#[derive(Clone, Debug)]
pub enum GV {
    Addr4([u8; 4]),
    Addr6([u8; 16]),
    E164(String),
    Ipv4([u8; 4]),
    Ipv6([u8; 16]),
    Ident(String),
    Uri(Vec<u8>),
    Enum(i32),
    F32(u32),
    F64(u64),
    Grp(Vec<GA>),
    I32(i32),
    I64(i64),
    Oct(Vec<u8>),
    Time(i64, u32),
    U32(u32),
    U64(u64),
    Utf8(String),
}

#[derive(Clone, Debug)]
pub struct GA {
    pub code: u32,
    pub vendor: Option<u32>,
    pub flags: u8,
    pub v: GV,
}

pub fn pad(n: usize) -> usize {
    (4 - n % 4) % 4
}

impl GV {
    pub fn depth(&self) -> usize {
        match self {
            GV::Grp(ms) => 1 + ms.iter().map(|a| a.v.depth()).max().unwrap_or(0),
            _ => 0,
        }
    }
    /// data octets as RFC 6733 lays them out; `noise` supplies padding octets and reserved flag bits
    pub fn data(&self, noise: &mut Option<&mut Rng>) -> Vec<u8> {
        match self {
            GV::Addr4(b) => [&[0u8, 1][..], b].concat(),
            GV::Addr6(b) => [&[0u8, 2][..], b].concat(),
            GV::E164(s) => [&[0u8, 8][..], s.as_bytes()].concat(),
            GV::Ipv4(b) => b.to_vec(),
            GV::Ipv6(b) => b.to_vec(),
            GV::Ident(s) | GV::Utf8(s) => s.as_bytes().to_vec(),
            GV::Uri(b) | GV::Oct(b) => b.clone(),
            GV::Enum(x) | GV::I32(x) => x.to_be_bytes().to_vec(),
            GV::F32(x) | GV::U32(x) => x.to_be_bytes().to_vec(),
            GV::F64(x) | GV::U64(x) => x.to_be_bytes().to_vec(),
            GV::I64(x) => x.to_be_bytes().to_vec(),
            GV::Time(s, _) => ((s + RFC868) as u32).to_be_bytes().to_vec(),
            GV::Grp(ms) => {
                let mut out = vec![];
                for m in ms {
                    out.extend(m.encode(noise));
                }
                out
            }
        }
    }
    /// the `val ...` line (leaf) or the op sequence that leaves the value on the stack
    pub fn ops(&self, r: &mut Rng, out: &mut Vec<String>) {
        match self {
            GV::Addr4(b) => out.push(format!("val addr4 {}", hex(b))),
            GV::Addr6(b) => out.push(format!("val addr6 {}", hex(b))),
            GV::E164(s) => out.push(format!("val e164 {}", hexd(s.as_bytes()))),
            GV::Ipv4(b) => out.push(format!("val ipv4 {}", hex(b))),
            GV::Ipv6(b) => out.push(format!("val ipv6 {}", hex(b))),
            GV::Ident(s) => out.push(format!("val ident {}", hexd(s.as_bytes()))),
            GV::Uri(b) => out.push(format!("val uri {}", hexd(b))),
            GV::Enum(x) => out.push(format!("val enum {}", x)),
            GV::F32(x) => out.push(format!("val f32 {:08x}", x)),
            GV::F64(x) => out.push(format!("val f64 {:016x}", x)),
            GV::I32(x) => out.push(format!("val i32 {}", x)),
            GV::I64(x) => out.push(format!("val i64 {}", x)),
            GV::Oct(b) => out.push(format!("val oct {}", hexd(b))),
            GV::Time(s, n) => out.push(format!("val time {} {}", s, n)),
            GV::U32(x) => out.push(format!("val u32 {}", x)),
            GV::U64(x) => out.push(format!("val u64 {}", x)),
            GV::Utf8(s) => out.push(format!("val utf8 {}", hexd(s.as_bytes()))),
            GV::Grp(ms) => {
                out.push("grp_new".into());
                for m in ms {
                    m.v.ops(r, out);
                    if r.chance(1, 2) {
                        out.push(format!("grp_add_avp {} {} {}", m.code, vend(m.vendor), m.flags));
                    } else {
                        out.push(format!("avp_new {} {} {}", m.code, vend(m.vendor), m.flags));
                        if r.chance(1, 4) {
                            out.push("vlen".into());
                        }
                        out.push("grp_add".into());
                    }
                    // now and then someone asks the group how long it is while it is still being filled (a size budget):
                    // asking must not change what is added or encoded later
                    if r.chance(1, 3) {
                        out.push("vlen".into());
                    }
                }
            }
        }
    }
}

impl GA {
    pub fn encode(&self, noise: &mut Option<&mut Rng>) -> Vec<u8> {
        let data = self.v.data(noise);
        let hl = if self.vendor.is_some() { 12 } else { 8 };
        let len = hl + data.len();
        let mut out = Vec::with_capacity(len + 3);
        out.extend(self.code.to_be_bytes());
        let mut fl = (self.flags & 0x60) | if self.vendor.is_some() { 0x80 } else { 0 };
        if let Some(r) = noise {
            fl |= (r.next() as u8) & 0x1f;
        }
        out.push(fl);
        out.extend(&(len as u32).to_be_bytes()[1..]);
        if let Some(v) = self.vendor {
            out.extend(v.to_be_bytes());
        }
        out.extend(data);
        for _ in 0..pad(len) {
            out.push(match noise {
                Some(r) => r.next() as u8,
                None => 0,
            });
        }
        out
    }
    /// ops that add this AVP to the message
    pub fn ops_add(&self, r: &mut Rng, out: &mut Vec<String>) {
        self.v.ops(r, out);
        if r.chance(2, 3) {
            out.push(format!("add_avp {} {} {}", self.code, vend(self.vendor), self.flags));
        } else {
            out.push(format!("avp_new {} {} {}", self.code, vend(self.vendor), self.flags));
            out.push("add".into());
        }
    }
}

#[derive(Clone, Debug)]
pub struct GM {
    pub version: u8,
    pub flags: u8,
    pub cmd: u32,
    pub app: u32,
    pub hbh: u32,
    pub e2e: u32,
    pub avps: Vec<GA>,
}

impl GM {
    pub fn encode(&self, noise: &mut Option<&mut Rng>) -> Vec<u8> {
        let mut body = vec![];
        for a in &self.avps {
            body.extend(a.encode(noise));
        }
        let mut out = vec![self.version];
        out.extend(&((20 + body.len()) as u32).to_be_bytes()[1..]);
        out.push(self.flags);
        out.extend(&self.cmd.to_be_bytes()[1..]);
        out.extend(self.app.to_be_bytes());
        out.extend(self.hbh.to_be_bytes());
        out.extend(self.e2e.to_be_bytes());
        out.extend(body);
        out
    }
    pub fn ops(&self, r: &mut Rng, out: &mut Vec<String>) {
        out.push(format!("new {} {} {} {} {}", self.cmd, self.app, self.flags, self.hbh, self.e2e));
        for a in &self.avps {
            a.ops_add(r, out);
        }
    }
    pub fn depth(&self) -> usize {
        self.avps.iter().map(|a| a.v.depth()).max().unwrap_or(0)
    }
}

/* ---------- value generation ---------- */

// (byte-order mark, NUL, DEL, a noncharacter, a combining mark, a right-to-left mark, line ends: all well-formed UTF-8)
const TEXT_ATOMS: [&str; 26] = ["a", "Z", "0", ".", "-", ";", "é", "ß", "€", "世", "𝄞", " ", "\u{feff}", "\0", "\u{7f}", "\u{ffff}", "\u{301}", "\u{200f}", "\r\n", "\t", "\u{fffd}", "\u{10ffff}", "xn--999999999999.", "xn--bcher-kva.", "xn--", "XN--zzzzzzzzzzzz9"];

pub fn text(r: &mut Rng, nbytes: usize) -> String {
    // exactly nbytes octets of well-formed UTF-8
    let mut s = String::new();
    // now and then the text starts with a byte-order mark (it is text like any other)
    if nbytes >= 3 && r.chance(1, 12) {
        s.push('\u{feff}');
    }
    while s.len() < nbytes {
        let a = *r.pick(&TEXT_ATOMS);
        if s.len() + a.len() <= nbytes {
            s.push_str(a);
        } else {
            s.push('x');
        }
    }
    s
}

pub fn len_choice(r: &mut Rng) -> usize {
    match r.below(20) {
        0..=9 => r.below(9) as usize,
        10..=15 => r.below(68) as usize,
        16..=18 => r.below(300) as usize,
        _ => r.below(4097) as usize,
    }
}

pub fn edge_u32(r: &mut Rng) -> u32 {
    const E: [u32; 12] = [0, 1, 2, 0x7f, 0x80, 0xff, 0x100, 0x7fffffff, 0x80000000, 0x80000001, 0xfffffffe, 0xffffffff];
    if r.chance(1, 2) {
        *r.pick(&E)
    } else {
        r.next() as u32
    }
}
pub fn edge_u64(r: &mut Rng) -> u64 {
    const E: [u64; 10] = [0, 1, 0xff, 0xffffffff, 0x100000000, 0x7fffffffffffffff, 0x8000000000000000, 0x8000000000000001, 0xfffffffffffffffe, 0xffffffffffffffff];
    if r.chance(1, 2) {
        *r.pick(&E)
    } else {
        r.next()
    }
}
pub fn edge_f32(r: &mut Rng) -> u32 {
    const E: [u32; 10] = [0, 0x80000000, 0x7f800000, 0xff800000, 0x7fc00000, 0x7fc00001, 0x7f800001, 0xffc12345, 1, 0x007fffff];
    if r.chance(1, 2) {
        *r.pick(&E)
    } else {
        r.next() as u32
    }
}
pub fn edge_f64(r: &mut Rng) -> u64 {
    const E: [u64; 8] = [0, 0x8000000000000000, 0x7ff0000000000000, 0xfff0000000000000, 0x7ff8000000000000, 0x7ff0000000000001, 0xfff8000000000123, 1];
    match r.below(4) {
        0 | 1 => *r.pick(&E),
        // decimal round numbers: one significant digit, very large and very small exponents (what a pretty-printer in
        // scientific notation meets), whole numbers, halves
        2 => {
            let x: f64 = *r.pick(&[1e300, -1e300, 1e22, 1e16, 1e15, 1e-5, 1e-7, 1e-300, 5e-324, 1e308, 123456789.0, 0.5, 2.0, 1e21, 9.999999999999999e22]);
            x.to_bits()
        }
        _ => r.next(),
    }
}
/// unix seconds of a Time the wire can carry
/// IPv6 addresses with structure: unspecified, loopback, IPv4-mapped (`::ffff:a.b.c.d`) and its near misses, IPv4-compatible,
/// the NAT64 prefix, multicast, all ones, and random ones
pub fn edge_v6(r: &mut Rng) -> [u8; 16] {
    let v4 = if r.chance(1, 2) { edge_u32(r) } else { r.next() as u32 }.to_be_bytes();
    let mut b = [0u8; 16];
    match r.below(15) {
        0 => {}
        1 => b[15] = 1,
        12 => {
            // a link-local address with something in the groups that are zero by the book (the KAME way of carrying a zone
            // index: fe80:4::1) - sixteen octets like any others
            b[0] = 0xfe;
            b[1] = 0x80;
            b[2 + r.below(6) as usize] = 1 + r.below(255) as u8;
            b[15] = 1 + r.below(3) as u8;
        }
        13 | 14 => {
            // prefixes with a meaning of their own: 6to4, Teredo, documentation, unique-local, site-local, ORCHID, solicited-node
            let pre: &[u8] = *r.pick(&[&[0x20u8, 0x02][..], &[0x20, 0x01, 0x00, 0x00], &[0x20, 0x01, 0x0d, 0xb8], &[0xfc, 0x00], &[0xfd, 0x12], &[0xfe, 0xc0], &[0x20, 0x01, 0x00, 0x10], &[0xff, 0x02, 0, 0, 0, 0, 0, 0, 0, 0, 0, 1, 0xff]]);
            b[..pre.len()].copy_from_slice(pre);
            if pre.len() <= 4 && r.chance(1, 2) {
                b[pre.len()..pre.len() + 4].copy_from_slice(&v4);
            }
            b[15] = r.below(3) as u8;
        }
        2 | 3 => {
            b[10] = 0xff;
            b[11] = 0xff;
            b[12..].copy_from_slice(&v4);
        }
        4 => b[12..].copy_from_slice(&v4),
        5 => {
            // near misses of the mapped block
            b[10] = *r.pick(&[0xffu8, 0xfe, 0x00]);
            b[11] = *r.pick(&[0xfeu8, 0xff, 0x00]);
            b[9] = *r.pick(&[0u8, 1]);
            b[12..].copy_from_slice(&v4);
        }
        6 => {
            b[..4].copy_from_slice(&[0x00, 0x64, 0xff, 0x9b]);
            b[12..].copy_from_slice(&v4);
        }
        7 => b = [0xff; 16],
        8 => {
            b[0] = 0xff;
            b[1] = 0x02;
            b[15] = 1;
        }
        9 => {
            b[0] = 0xfe;
            b[1] = 0x80;
            b[8..].copy_from_slice(&r.next().to_be_bytes());
        }
        _ => b = ((r.next() as u128) << 64 | r.next() as u128).to_be_bytes(),
    }
    b
}

/// DiameterURI values that look like URIs (RFC 6733 4.3.1), well formed and not: schemes, hosts, ports at and beyond the
/// 16-bit range, parameters - to the codec they are octets like any other
pub fn uri_text(r: &mut Rng) -> String {
    let scheme = *r.pick(&["aaa://", "aaas://", "AAA://", "aaa:/", "http://", ""]);
    let host = *r.pick(&["host.example.com", "h", "", "[2001:db8::1]", "192.0.2.1", "a..b", "xn--bcher-kva.example", "host.example.com."]);
    let port = *r.pick(&["", ":3868", ":0", ":65535", ":65536", ":70000", ":99999", ":4294967295", ":4294967296", ":99999999999999999999", ":", ":-1", ":38 68", ":+3868", ":0x10"]);
    let tail = *r.pick(&["", ";transport=tcp", ";transport=sctp;protocol=diameter", ";transport=", ";protocol=radius", ";;", ";transport=udp;transport=tcp", "/path?x=1"]);
    format!("{}{}{}{}", scheme, host, port, tail)
}

pub fn time_in_range(r: &mut Rng) -> i64 {
    const E: [i64; 7] = [0, 1, 2208988799, 2208988800, 2208988801, 4294967294, 4294967295];
    let ntp = if r.chance(1, 2) { *r.pick(&E) } else { r.below(1 << 32) as i64 };
    ntp - RFC868
}

pub fn leaf(r: &mut Rng, ty: usize, len: Option<usize>) -> GV {
    let n = len.unwrap_or_else(|| len_choice(r));
    match ty {
        T_ADDRESS => match r.below(3) {
            0 => GV::Addr4((r.next() as u32).to_be_bytes()),
            1 => GV::Addr6(edge_v6(r)),
            _ => {
                let k = match len {
                    Some(k) => k.clamp(1, 15),
                    None => *r.pick(&[1usize, 2, 3, 5, 8, 12, 14, 15]),
                };
                GV::E164(match r.below(8) {
                    0 | 1 | 2 | 3 => "359898000135777"[..k].to_string(),
                    // numbers as other systems write them: a TBCD filler left at the end, a plus sign, the keypad's other
                    // keys, hexadecimal digits - text like any other to the codec
                    4 if k >= 2 => format!("{}{}", &"491711234567890"[..k - 1], r.pick(&["F", "f"])),
                    5 if k >= 2 => format!("+{}", &"359898000135777"[..k - 1]),
                    6 if k >= 2 => format!("{}{}", &"*#0012ABCabc999"[..k - 1], r.pick(&["#", "*", "0", "e"])),
                    _ => text(r, k),
                })
            }
        },
        T_IPV4 => GV::Ipv4(edge_u32(r).to_be_bytes()),
        T_IPV6 => GV::Ipv6(if r.chance(1, 2) { edge_v6(r) } else { ((edge_u64(r) as u128) << 64 | edge_u64(r) as u128).to_be_bytes() }),
        // (now and then with what a C peer leaves behind: a terminating NUL, a trailing blank or line end, counted into the length)
        T_IDENT => GV::Ident(if len.is_none() && n >= 2 && r.chance(1, 6) { let mut t = text(r, n - 1); t.push(*r.pick(&['\0', ' ', '\n', '.'])); t } else { text(r, n) }),
        T_URI => GV::Uri(if len.is_none() && r.chance(1, 2) { uri_text(r).into_bytes() } else { r.bytes(n) }),
        T_ENUM => GV::Enum(edge_u32(r) as i32),
        T_F32 => GV::F32(edge_f32(r)),
        T_F64 => GV::F64(edge_f64(r)),
        T_I32 => GV::I32(edge_u32(r) as i32),
        T_I64 => GV::I64(edge_u64(r) as i64),
        // (now and then an opaque token that starts like text: a readable head of 32 or more octets, binary behind it)
        T_OCT => GV::Oct(if len.is_none() && r.chance(1, 8) { let mut b = b"session-token/user=alice;realm=example.org;".to_vec(); b.extend(r.bytes(1 + (n % 9))); b.extend([0x9c, 0xff, 0x00, 0x81, 0xfe, 0xc0]); b } else { r.bytes(n) }),
        T_TIME => GV::Time(time_in_range(r), 0),
        T_U32 => GV::U32(edge_u32(r)),
        T_U64 => GV::U64(edge_u64(r)),
        _ => GV::Utf8(text(r, n)),
    }
}

pub fn flags_choice(r: &mut Rng) -> u8 {
    *r.pick(&[0u8, 0x40, 0x20, 0x60, 0xff, 0x80, 0x1f, 0xc0])
}

/// a typed AVP tree under `d` (every (code, vendor) maps to the type of the value it carries)
pub fn avp(r: &mut Rng, d: &GDict, depth_left: usize, width: usize) -> GA {
    let usable: Vec<&GDef> = d.defs.iter().filter(|x| x.ty < 16 && (depth_left > 0 || x.ty != T_GROUPED)).collect();
    let def = *r.pick(&usable);
    avp_of(r, d, def, depth_left, width)
}

pub fn avp_of(r: &mut Rng, d: &GDict, def: &GDef, depth_left: usize, width: usize) -> GA {
    let v = if def.ty == T_GROUPED {
        let n = r.below(width as u64 + 1) as usize;
        GV::Grp((0..n).map(|_| avp(r, d, depth_left.saturating_sub(1), width)).collect())
    } else {
        leaf(r, def.ty, None)
    };
    GA { code: def.code, vendor: def.vendor, flags: flags_choice(r), v }
}

pub fn header(r: &mut Rng) -> GM {
    GM {
        version: 1,
        flags: *r.pick(&[0u8, 0x80, 0x40, 0xc0, 0x20, 0x10, 0xff, 0x0f]),
        cmd: *r.pick(&CMDS),
        app: *r.pick(&APPS),
        hbh: edge_u32(r),
        e2e: edge_u32(r),
        avps: vec![],
    }
}

pub fn message(r: &mut Rng, d: &GDict, max_avps: usize, max_depth: usize) -> GM {
    let mut m = header(r);
    let n = r.below(max_avps as u64 + 1) as usize;
    for _ in 0..n {
        let dl = r.below(max_depth as u64 + 1) as usize;
        m.avps.push(avp(r, d, dl, 3));
    }
    m
}

/// a chain of `depth` grouped AVPs inside each other, the innermost holding `inner`
pub fn nest(d: &GDict, r: &mut Rng, depth: usize, inner: Option<GA>) -> GA {
    let groups = d.by_type(T_GROUPED);
    let mut cur: Option<GA> = inner;
    for _ in 0..depth {
        let g = *r.pick(&groups);
        cur = Some(GA { code: g.code, vendor: g.vendor, flags: 0x40, v: GV::Grp(cur.into_iter().collect()) });
    }
    cur.unwrap()
}

/* ---------- emit helpers ---------- */

pub struct Out<'a> {
    pub w: &'a mut dyn Write,
    pub cases: usize,
    pub clis: usize,
    pub ios: usize,
}
impl<'a> Out<'a> {
    pub fn case(&mut self, label: &str) {
        writeln!(self.w, "#case {} {}", self.cases, label).unwrap();
        self.cases += 1;
    }
    pub fn line(&mut self, l: &str) {
        // every third client scenario is run by an application that looks at each response future once, then hands it to
        // another task which waits for it there (`amode 1`)
        // ... and every stream scenario takes its turn with streams that advertise vectored writes (bit 0) and / or fill the
        // reader's buffer the way TLS streams do, `initialize_unfilled` + `advance` (bit 1): `iomode`
        let streamy = l.starts_with("cli ") || l.starts_with("clim ") || l.starts_with("sdec ") || l.starts_with("senc ") || l.starts_with("serve ");
        let mut pre = String::new();
        let mut post = String::new();
        if streamy {
            self.ios += 1;
            let m = [0u32, 1, 0, 2, 0, 3][self.ios % 6];
            if m != 0 {
                pre.push_str(&format!("iomode {}\n", m));
                post.push_str("\niomode 0");
            }
        }
        if l.starts_with("cli ") {
            self.clis += 1;
            if self.clis % 3 == 2 {
                pre.push_str("amode 1\n");
                post.insert_str(0, "\namode 0");
            }
        }
        writeln!(self.w, "{}{}{}", pre, l, post).unwrap();
    }
    pub fn lines(&mut self, ls: &[String]) {
        for l in ls {
            writeln!(self.w, "{}", l).unwrap();
        }
    }
}

fn probes_c01(o: &mut Out) {
    o.line("enc");
    o.line("len");
    o.line("dump");
}

/// exhaustive single-AVP messages: all types x vendor x flags x value lengths 0..67
fn single_avp_sweep(o: &mut Out, r: &mut Rng, d: &GDict, probes: &dyn Fn(&mut Out)) {
    for ty in 0..16 {
        if ty == T_GROUPED {
            continue;
        }
        let var = matches!(ty, T_IDENT | T_URI | T_OCT | T_UTF8);
        let lens: Vec<Option<usize>> = if var { (0..68).map(Some).collect() } else if ty == T_ADDRESS { (0..24).map(|i| Some(1 + i % 15)).collect() } else { vec![None; 6] };
        for def in d.by_type(ty) {
            for (i, l) in lens.iter().enumerate() {
                let fl = [0u8, 0x40, 0x20, 0x60, 0xff][i % 5];
                let a = GA { code: def.code, vendor: def.vendor, flags: fl, v: leaf(r, ty, *l) };
                o.case(&format!("single ty={} len={:?}", ty_name(ty), l));
                let mut ls = vec![];
                let mut m = header(r);
                m.avps.push(a);
                m.ops(r, &mut ls);
                o.lines(&ls);
                probes(o);
            }
        }
    }
}

fn rand_history(o: &mut Out, r: &mut Rng, d: &GDict, probes: &dyn Fn(&mut Out), by_name: bool) {
    // new + a mixture of additions (explicit, by name, decode-then-extend, group re-wrapping), probes interleaved
    let mut ls = vec![];
    // now and then an encoding that fails comes first on the same thread (a value the wire cannot carry stops the encoder
    // half way): nothing of it may show in what is encoded afterwards
    if r.chance(1, 8) {
        if let Some(tdef) = d.by_type(T_TIME).first() {
            let mut bad = header(r);
            bad.avps.push(avp(r, d, 0, 1));
            bad.avps.push(GA { code: tdef.code, vendor: tdef.vendor, flags: 0x40, v: GV::Time(*r.pick(&[-2208988801i64, 2085978496, -5000000000]), 0) });
            bad.ops(r, &mut ls);
            ls.push("enc".into());
        }
    }
    let mut m = header(r);
    ls.push(format!("new {} {} {} {} {}", m.cmd, m.app, m.flags, m.hbh, m.e2e));
    ls.push("clear".into());
    o.lines(&ls);
    let steps = 1 + r.below(8);
    for _ in 0..steps {
        let mut ls = vec![];
        match r.below(12) {
            0..=5 if r.chance(1, 40) && !d.by_type(T_OCT).is_empty() => {
                // now and then a value far larger than any scratch buffer an encoder might collect small writes in
                let oc = d.by_type(T_OCT)[0].clone();
                let n = *r.pick(&[8184usize, 8192, 9000, 20000, 70001]);
                ls.push(format!("val octn {} {:02x}", n, r.below(256)));
                ls.push(format!("add_avp {} {} 0", oc.code, vend(oc.vendor)));
                m.avps.push(GA { code: oc.code, vendor: oc.vendor, flags: 0, v: GV::Oct(vec![]) });
            }
            0..=5 if r.chance(1, 30) => {
                // a Result-Code (268) given as an Unsigned32 - success, protocol errors, transient and permanent failures:
                // what an AVP says is no business of the message header
                let rc = *r.pick(&[2001u32, 3001, 3004, 3999, 3000, 4001, 5012, 1001]);
                ls.push(format!("val u32 {}", rc));
                ls.push("add_avp 268 - 64".into());
                m.avps.push(GA { code: 268, vendor: None, flags: 0x40, v: GV::U32(rc) });
            }
            0..=5 => {
                let dl = r.below(4) as usize;
                let mut a = avp(r, d, dl, 3);
                // a Time built through the API may carry a sub-second part: the wire has whole seconds, truncated
                if let GV::Time(s, _) = a.v {
                    if r.chance(1, 2) {
                        a.v = GV::Time(s, *r.pick(&[1u32, 499_999_999, 500_000_000, 999_999_999]));
                    }
                }
                a.ops_add(r, &mut ls);
                m.avps.push(a);
            }
            6 | 7 if by_name => {
                // by name: code, vendor and M flag come from the dictionary
                let cands: Vec<&GDef> = d.defs.iter().filter(|x| x.ty < 16 && d.unique_name(x)).collect();
                let def = *r.pick(&cands);
                let a = avp_of(r, d, def, 2, 3);
                a.v.ops(r, &mut ls);
                if r.chance(1, 2) {
                    ls.push(format!("add_by_name {}", hexd(def.name.as_bytes())));
                } else {
                    ls.push(format!("avp_name {}", hexd(def.name.as_bytes())));
                    ls.push("add".into());
                }
                m.avps.push(GA { flags: if def.m { 0x40 } else { 0 }, ..a });
            }
            8 => {
                // decode-then-extend: the message becomes a decoded frame (noisy padding / reserved bits)
                let mut mm = message(r, d, 4, 3);
                if r.chance(1, 6) {
                    // a frame that is NOT acceptable: it carries an AVP the dictionary does not know (M clear - "optional" is
                    // no licence to skip it and keep the lengths). The decode fails and the message stays what it was.
                    let unk = GA { code: 7654321, vendor: if r.chance(1, 2) { None } else { Some(99) }, flags: 0, v: GV::Oct({ let n = 1 + r.below(9) as usize; r.bytes(n) }) };
                    let at = r.below(mm.avps.len() as u64 + 1) as usize;
                    let gi = mm.avps.iter().position(|a| matches!(a.v, GV::Grp(_)));
                    match (gi, r.chance(1, 2)) {
                        (Some(i), true) => {
                            if let GV::Grp(ms) = &mut mm.avps[i].v {
                                ms.push(unk);
                            }
                        }
                        _ => mm.avps.insert(at, unk),
                    }
                    ls.push(format!("decode {}", hex(&mm.encode(&mut None))));
                } else {
                let f = if r.chance(1, 2) { mm.encode(&mut Some(r)) } else { mm.encode(&mut None) };
                ls.push(format!("decode {}", hex(&f)));
                m = mm;
                }
            }
            9 => {
                // clone a group out of the message and wrap it again
                let idx: Vec<usize> = m.avps.iter().enumerate().filter(|(_, a)| matches!(a.v, GV::Grp(_))).map(|(i, _)| i).collect();
                if let Some(&i) = idx.first() {
                    let src = m.avps[i].clone();
                    ls.push(format!("grp_from_avp {}", i));
                    // extend the clone, then wrap it under a grouped definition
                    let extra = avp(r, d, 0, 2);
                    extra.v.ops(r, &mut ls);
                    ls.push(format!("grp_add_avp {} {} {}", extra.code, vend(extra.vendor), extra.flags));
                    let g = *r.pick(&d.by_type(T_GROUPED));
                    ls.push(format!("add_avp {} {} {}", g.code, vend(g.vendor), 0x40));
                    let mut members = match src.v {
                        GV::Grp(ms) => ms,
                        _ => vec![],
                    };
                    members.push(extra);
                    m.avps.push(GA { code: g.code, vendor: g.vendor, flags: 0x40, v: GV::Grp(members) });
                } else {
                    ls.push("grp_from_avp 0".into());
                }
            }
            10 => {
                if !m.avps.is_empty() {
                    let i = r.below(m.avps.len() as u64) as usize;
                    ls.push(format!("avp_from_msg {}", i));
                    ls.push("add".into());
                    let c = m.avps[i].clone();
                    m.avps.push(c);
                }
            }
            _ => {
                ls.push("reencode".into());
            }
        }
        o.lines(&ls);
        if r.chance(1, 3) {
            probes(o);
        }
    }
    // ... or a writer that fails after a few octets (a peer that went away), just before the probes
    if r.chance(1, 6) {
        o.line(&format!("encw {} {} 0 {}", r.below(64), r.below(3), if r.chance(1, 4) { "zero" } else { "err" }));
    }
    probes(o);
}

/// built-in / shipped dictionaries as `avp ...` doc lines written by tools/xmlscan.py
pub fn load_defs_file(path: &str) -> (Vec<String>, GDict) {
    let text = std::fs::read_to_string(path).expect("defs file");
    let mut d = GDict::default();
    let mut lines = vec![];
    for l in text.lines() {
        lines.push(l.to_string());
        let t: Vec<&str> = l.split(' ').collect();
        if t.len() == 6 && t[0] == "avp" {
            let name = unhex_str(t[1]).unwrap();
            let code: u32 = t[2].parse().unwrap();
            let vendor = if t[3] == "-" { None } else { Some(t[3].parse().unwrap()) };
            let must = if t[4] == "~" { None } else { Some(unhex_str(t[4]).unwrap()) };
            let tyn = unhex_str(t[5]).unwrap();
            let ty = TY_NAMES.iter().position(|x| *x == tyn).unwrap_or(16);
            let m = must.map(|s| s.split(',').any(|x| x == "M")).unwrap_or(false);
            d.add(GDef { code, vendor, name, ty, m });
        }
    }
    (lines, d)
}

/// the (group name, member name) pairs of the side file `<name>.rules` next to a defs file (empty if there is none)
pub fn load_rules(defs_path: &str) -> Vec<(String, String)> {
    let p = defs_path.trim_end_matches(".defs").to_string() + ".rules";
    let text = std::fs::read_to_string(p).unwrap_or_default();
    text.lines()
        .filter_map(|l| {
            let t: Vec<&str> = l.split(' ').collect();
            if t.len() == 3 && t[0] == "grule" {
                Some((unhex_str(t[1])?, unhex_str(t[2])?))
            } else {
                None
            }
        })
        .collect()
}

/// every `<avp>` element of a defs file, in document order (including those a later element of the same key replaces)
pub fn load_defs_elements(path: &str) -> Vec<GDef> {
    let text = std::fs::read_to_string(path).expect("defs file");
    let mut out = vec![];
    for l in text.lines() {
        let t: Vec<&str> = l.split(' ').collect();
        if t.len() == 6 && t[0] == "avp" {
            let tyn = unhex_str(t[5]).unwrap();
            out.push(GDef {
                name: unhex_str(t[1]).unwrap(),
                code: t[2].parse().unwrap(),
                vendor: if t[3] == "-" { None } else { Some(t[3].parse().unwrap()) },
                ty: TY_NAMES.iter().position(|x| *x == tyn).unwrap_or(16),
                m: if t[4] == "~" { false } else { unhex_str(t[4]).unwrap().split(',').any(|x| x == "M") },
            });
        }
    }
    out
}

/// a random dictionary: random codes, vendors, type assignment, colliding codes across vendors
pub fn rand_dict(r: &mut Rng, n: usize) -> GDict {
    let mut d = GDict::default();
    let codes: Vec<u32> = (0..n / 2 + 2).map(|_| if r.chance(1, 4) { edge_u32(r) } else { r.below(3000) as u32 }).collect();
    let vendors = [None, Some(0u32), Some(10415), Some(r.next() as u32), Some(4294967295)];
    for i in 0..n {
        let ty = if i < 16 { i } else { r.below(16) as usize };
        d.add(GDef { code: *r.pick(&codes), vendor: *r.pick(&vendors), name: format!("N{}-{}", i, r.below(1000)), ty, m: r.chance(1, 2) });
    }
    // make sure there is a grouped and a leaf definition
    d.add(GDef { code: 70001, vendor: None, name: "Grp".into(), ty: T_GROUPED, m: true });
    d.add(GDef { code: 70002, vendor: Some(5), name: "Leaf".into(), ty: T_U32, m: false });
    d
}

/// dictionary as a generated XML document (`doc_*` lines; the harness renders the text, the model takes the structure)
pub fn emit_doc(o: &mut Out, d: &GDict, mode: &str) {
    o.line("doc_begin");
    o.line(&format!("app 4 {}", hexd(b"Gen App")));
    o.line(&format!("cmd 272 {}", hexd(b"Gen-Cmd")));
    for x in &d.defs {
        let must = if x.m { hexd(b"M,V") } else { "~".to_string() };
        o.line(&format!("avp {} {} {} {} {}", hexd(x.name.as_bytes()), x.code, vend(x.vendor), must, hexd(ty_name(x.ty).as_bytes())));
    }
    o.line(&format!("doc_end {}", mode));
}

/* ---------- frame mutation for C03 / C04 ---------- */

/// offsets of every AVP header in a well-formed frame (all nesting levels), with its header length
pub fn avp_offsets(m: &GM) -> Vec<(usize, usize, bool)> {
    fn walk(a: &GA, base: usize, out: &mut Vec<(usize, usize, bool)>) -> usize {
        let hl = if a.vendor.is_some() { 12 } else { 8 };
        let is_grp = matches!(a.v, GV::Grp(_));
        out.push((base, hl, is_grp));
        let mut dl = 0;
        if let GV::Grp(ms) = &a.v {
            let mut off = base + hl;
            for x in ms {
                let l = walk(x, off, out);
                off += l;
                dl += l;
            }
        } else {
            dl = a.v.data(&mut None).len();
        }
        let len = hl + dl;
        len + pad(len)
    }
    let mut out = vec![];
    let mut off = 20;
    for a in &m.avps {
        off += walk(a, off, &mut out);
    }
    out
}

fn set24(f: &mut [u8], at: usize, v: usize) {
    f[at] = (v >> 16) as u8;
    f[at + 1] = (v >> 8) as u8;
    f[at + 2] = v as u8;
}
fn get24(f: &[u8], at: usize) -> usize {
    ((f[at] as usize) << 16) | ((f[at + 1] as usize) << 8) | f[at + 2] as usize
}

/// keep the frame's own length field equal to its size (C03 quantifies over such strings)
fn fix_msg_len(f: &mut Vec<u8>) {
    if f.len() >= 4 && f.len() < (1 << 24) {
        let n = f.len();
        set24(f, 1, n);
    }
}

pub fn corpus_messages(r: &mut Rng, d: &GDict) -> Vec<GM> {
    let mut out = vec![];
    // hand-shaped: one of everything, nested groups, vendor twins
    let mut m = header(r);
    for ty in 0..16 {
        if ty == T_GROUPED {
            continue;
        }
        let def = d.by_type(ty)[0];
        m.avps.push(GA { code: def.code, vendor: def.vendor, flags: 0x40, v: leaf(r, ty, Some(5)) });
    }
    out.push(m);
    let mut m = header(r);
    let inner = avp_of(r, d, d.by_type(T_UTF8)[1], 0, 0);
    m.avps.push(nest(d, r, 3, Some(inner)));
    m.avps.push(avp_of(r, d, d.by_type(T_ADDRESS)[0], 0, 0));
    out.push(m);
    for _ in 0..4 {
        out.push(message(r, d, 5, 3));
    }
    out
}

fn gen_c03(o: &mut Out, r: &mut Rng, d: &GDict, tier: &str) {
    let thorough = tier == "thorough";
    let corpus = corpus_messages(r, d);
    // (1) well-formed frames with arbitrary padding octets and reserved flag bits: must be accepted
    let n_good = if thorough { 300000 } else { 3000 };
    for i in 0..n_good {
        let m = message(r, d, 6, 4);
        let f = if i % 4 == 0 { m.encode(&mut None) } else { m.encode(&mut Some(r)) };
        o.case("wellformed");
        o.line(&format!("dec {}", hex(&f)));
        // the same frame somewhere in the middle of a larger buffer, the reader positioned at its first octet (a
        // capture record, a tag in front): where the frame starts in the reader is none of the decoder's business
        if i % 3 == 1 {
            o.line(&format!("decat {} {}", 1 + r.below(9), hex(&f)));
        }
    }
    big_cases(o, r, d, thorough, &|o: &mut Out, f: &[u8]| {
        if !f.is_empty() {
            o.line(&format!("dec {}", hex(f)));
        }
    });
    // text that is almost UTF-8: UTF-16 surrogates written as three octets each (CESU-8 pairs, lone halves), overlong forms,
    // code points beyond U+10FFFF - in UTF8String and DiameterIdentity values, alone and inside otherwise good text
    {
        let bad: [&[u8]; 9] = [&[0xed, 0xa0, 0xbd, 0xed, 0xb8, 0x80], &[0xed, 0xa0, 0x80], &[0xed, 0xbf, 0xbf], &[0xc0, 0xaf], &[0xe0, 0x80, 0xaf], &[0xf0, 0x80, 0x80, 0xaf], &[0xf4, 0x90, 0x80, 0x80], &[0xf8, 0x88, 0x80, 0x80, 0x80], &[0xed, 0xaf, 0xbf, 0xed, 0xbf, 0xbf]];
        for (bi, b) in bad.iter().enumerate() {
            for ty in [T_UTF8, T_IDENT] {
                for (pre, post) in [("", ""), ("ses;", ";2"), ("é", "世")] {
                    let def = d.by_type(ty)[0].clone();
                    let mut data = pre.as_bytes().to_vec();
                    data.extend_from_slice(b);
                    data.extend_from_slice(post.as_bytes());
                    let mut m = header(r);
                    m.avps.push(avp_of(r, d, d.by_type(T_U32)[0], 0, 0));
                    // (the octets go out as they are: an OctetString value under the text definition's code)
                    m.avps.push(GA { code: def.code, vendor: def.vendor, flags: 0x40, v: GV::Oct(data) });
                    o.case(&format!("almost utf-8 kind={} ty={}", bi, ty_name(ty)));
                    o.line(&format!("dec {}", hex(&m.encode(&mut None))));
                }
            }
        }
    }
    // the dictionary is replaced again and again by one that types the same AVP differently (the earlier dictionary
    // object is gone by then): a frame means what the dictionary in force says, not what an earlier one said
    {
        o.case("retyped dictionaries");
        let tys = ["UTF8String", "Unsigned64", "OctetString", "Integer64", "DiameterIdentity", "Float64", "Grouped", "DiameterURI", "Time", "Unsigned32"];
        let frame = |code: u32, vendor: Option<u32>| -> Vec<u8> {
            let mut m = GM { version: 1, flags: 0x80, cmd: 272, app: 4, hbh: 9, e2e: 8, avps: vec![] };
            m.avps.push(GA { code, vendor, flags: 0x40, v: GV::Oct(b"hello wo".to_vec()) });
            m.encode(&mut None)
        };
        for round in 0..(if thorough { 400 } else { 40 }) {
            o.line("dreset");
            // (the message the harness holds refers to the dictionary it was made with: replace it, so that the old
            // dictionary object really goes away)
            let t = tys[(round * 7 + round / 3) % tys.len()];
            o.line(&format!("dadd 7001 - {} {} 1", hexd(b"Re-Typed"), t));
            o.line(&format!("dadd 7001 77 {} {} 0", hexd(b"Re-Typed-V"), tys[(round * 3 + 1) % tys.len()]));
            if round % 5 == 4 {
                o.line(&format!("dadd 7002 - {} {} 0", hexd(b"Extra"), tys[round % tys.len()]));
            }
            o.line("new 272 4 0 1 2");
            o.line(&format!("dec {}", hex(&frame(7001, None))));
            o.line(&format!("dec {}", hex(&frame(7001, Some(77)))));
            o.line(&format!("dec {}", hex(&frame(7002, None))));
        }
        emit_dict(o.w, d);
        o.line("new 272 4 0 1 2");
    }
    // nesting up to the limit and just beyond
    for depth in 1..40 {
        let inner = avp_of(r, d, d.by_type(T_U32)[0], 0, 0);
        let mut m = header(r);
        m.avps.push(nest(d, r, depth, Some(inner)));
        o.case(&format!("nest depth={}", depth));
        o.line(&format!("dec {}", hex(&m.encode(&mut Some(r)))));
        // the same chain through the public single-AVP and group entry points (they start at depth 0 resp. 1)
        let a = m.avps[0].encode(&mut None);
        o.line(&format!("deca {}", hex(&a)));
        o.line(&format!("decg {} {}", a.len(), hex(&a)));
    }
    // the public entry points `Avp::decode_from` / `Grouped::decode_from` on a cursor: single AVPs (well formed,
    // truncated, with a lying length, padding cut off so that the seek runs past the end) and group payloads
    for _ in 0..(if thorough { 200000 } else { 2500 }) {
        let a = avp(r, d, 2, 3);
        let mut f = if r.chance(1, 2) { a.encode(&mut Some(r)) } else { a.encode(&mut None) };
        match r.below(8) {
            0 => {
                let k = r.below(f.len() as u64 + 1) as usize;
                f.truncate(k);
            }
            1 => {
                // cut inside / right before the padding
                let hl = if a.vendor.is_some() { 12 } else { 8 };
                let dl = a.v.data(&mut None).len();
                f.truncate(hl + dl + r.below(pad(hl + dl) as u64 + 1) as usize);
            }
            2 => {
                if f.len() >= 8 {
                    let l = get24(&f, 5);
                    let nl = (l as i64 + r.below(9) as i64 - 4).max(0) as usize;
                    set24(&mut f, 5, nl);
                }
            }
            3 => f.extend(r.bytes(7)),
            _ => {}
        }
        o.case("entry");
        o.line(&format!("deca {}", hexd(&f)));
        if let GV::Grp(ms) = &a.v {
            let payload: Vec<u8> = ms.iter().flat_map(|m| m.encode(&mut None)).collect();
            let len = match r.below(4) {
                0 => payload.len() + 1 + r.below(8) as usize,
                1 => payload.len().saturating_sub(1 + r.below(8) as usize),
                _ => payload.len(),
            };
            o.line(&format!("decg {} {}", len, hexd(&payload)));
        }
    }
    // (2) every single-octet substitution of corpus frames
    let n_sub = if thorough { corpus.len() } else { 2 };
    for m in corpus.iter().take(n_sub) {
        let f = m.encode(&mut None);
        for p in 0..f.len() {
            let vals: Vec<u8> = if thorough || f.len() < 150 { (0..=255u8).collect() } else { vec![0, 1, 0x7f, 0x80, 0xff, f[p] ^ 1, f[p] ^ 0x80, f[p].wrapping_add(1), f[p].wrapping_sub(1), f[p].wrapping_add(4), r.next() as u8] };
            for v in vals {
                if v == f[p] {
                    continue;
                }
                let mut g = f.clone();
                g[p] = v;
                if !(1..4).contains(&p) {
                    // the declared message length stays equal to the size unless it is the octet substituted
                }
                o.case("subst");
                o.line(&format!("dec {}", hex(&g)));
            }
        }
    }
    // (3) every rewrite of every length field
    for m in corpus.iter() {
        let f = m.encode(&mut None);
        let offs = avp_offsets(m);
        for (at, _hl, _g) in offs.iter() {
            let truth = get24(&f, at + 5);
            let mut cands: Vec<usize> = (0..=64).collect();
            for dlt in 1..=12 {
                cands.push(truth + dlt);
                cands.push(truth.saturating_sub(dlt));
            }
            cands.push(0xffffff);
            cands.push(0xfffffc);
            for c in cands {
                if c == truth {
                    continue;
                }
                let mut g = f.clone();
                set24(&mut g, at + 5, c);
                o.case("lenrewrite");
                o.line(&format!("dec {}", hex(&g)));
                // the same with the enclosing sizes adjusted so that only this one field lies
                if c < truth + 64 {
                    let mut g2 = f.clone();
                    set24(&mut g2, at + 5, c);
                    if c > truth {
                        // supply the extra octets the field now claims
                        let extra = (c + pad(c)) - (truth + pad(truth));
                        let ins = at + truth + pad(truth);
                        let noise = r.bytes(extra);
                        g2.splice(ins..ins, noise);
                    }
                    fix_msg_len(&mut g2);
                    o.case("lenrewrite-fixed");
                    o.line(&format!("dec {}", hex(&g2)));
                }
            }
        }
        // the message length itself
        let truth = f.len();
        for c in (0..=64).chain((1..=12).map(|x| truth + x)).chain((1..=12).map(|x| truth.saturating_sub(x))) {
            let mut g = f.clone();
            set24(&mut g, 1, c);
            o.case("msglen");
            o.line(&format!("dec {}", hex(&g)));
        }
    }
    // (4) structure-aware hostile frames
    let n_host = if thorough { 400000 } else { 3000 };
    for _ in 0..n_host {
        let m = message(r, d, 4, 3);
        let mut f = m.encode(&mut None);
        let offs = avp_offsets(&m);
        if offs.is_empty() {
            continue;
        }
        let (at, hl, is_grp) = *r.pick(&offs);
        let truth = get24(&f, at + 5);
        match r.below(7) {
            0 => {
                // group shorter / longer than its members
                let dlt = 1 + r.below(12) as usize;
                let nl = if r.chance(1, 2) { truth + dlt } else { truth.saturating_sub(dlt) };
                set24(&mut f, at + 5, nl);
                let _ = is_grp;
            }
            1 => {
                // vendor bit flipped, length left alone
                f[at + 4] ^= 0x80;
            }
            2 => {
                // vendor bit with length 8..11
                f[at + 4] |= 0x80;
                set24(&mut f, at + 5, 8 + r.below(4) as usize);
            }
            3 => {
                // address family
                if at + hl + 2 <= f.len() {
                    let fam = *r.pick(&[0u16, 1, 2, 3, 4, 5, 6, 7, 8, 9, 65535, 256, 512, 2048]);
                    f[at + hl] = (fam >> 8) as u8;
                    f[at + hl + 1] = fam as u8;
                }
            }
            4 => {
                // corrupt text: make some octet of the value a lone continuation / overlong lead
                if truth > hl {
                    let p = at + hl + r.below((truth - hl) as u64) as usize;
                    if p < f.len() {
                        f[p] = *r.pick(&[0x80u8, 0xbf, 0xc0, 0xc1, 0xe0, 0xed, 0xf4, 0xf5, 0xff]);
                    }
                }
            }
            5 => {
                // value crossing the message end: truncate and re-declare
                let cut = at + hl + r.below((f.len() - at - hl + 1) as u64) as usize;
                f.truncate(cut.max(20));
                fix_msg_len(&mut f);
            }
            _ => {
                // code changed to one of another type
                let other = r.pick(&d.defs).code;
                f[at..at + 4].copy_from_slice(&other.to_be_bytes());
            }
        }
        if r.chance(3, 4) {
            fix_msg_len(&mut f);
        }
        o.case("hostile");
        o.line(&format!("dec {}", hex(&f)));
    }
    // address families x value lengths
    let adef = d.by_type(T_ADDRESS)[0];
    for fam in [0u16, 1, 2, 3, 4, 5, 6, 7, 8, 9, 65535] {
        for vl in 0..=20usize {
            let mut data = vec![(fam >> 8) as u8, fam as u8];
            data.extend((0..vl).map(|i| b'0' + (i % 10) as u8));
            data.truncate(vl);
            let mut m = header(r);
            m.avps.push(GA { code: adef.code, vendor: adef.vendor, flags: 0, v: GV::Oct(data) });
            o.case("addrfam");
            o.line(&format!("dec {}", hex(&m.encode(&mut None))));
        }
    }
    // fixed-size types with every declared length 0..24 (F1 territory: classified, not hidden)
    for ty in [T_IPV4, T_IPV6, T_ENUM, T_F32, T_F64, T_I32, T_I64, T_TIME, T_U32, T_U64] {
        let def = d.by_type(ty)[0];
        for vl in 0..=24usize {
            let mut m = header(r);
            m.avps.push(GA { code: def.code, vendor: def.vendor, flags: 0, v: GV::Oct(r.bytes(vl)) });
            m.avps.push(GA { code: d.by_type(T_U32)[0].code, vendor: None, flags: 0, v: GV::U32(7) });
            o.case("fixedlen");
            o.line(&format!("dec {}", hex(&m.encode(&mut None))));
        }
    }
    for f in lying_fixed_frames(r, d, if thorough { 100000 } else { 2000 }) {
        o.case("lying-fixed");
        o.line(&format!("dec {}", hex(&f)));
    }
    // (5) random octets behind a valid header
    let n_rand = if thorough { 300000 } else { 2000 };
    for _ in 0..n_rand {
        let mut m = header(r);
        m.avps.clear();
        let mut f = m.encode(&mut None);
        let n = r.below(80) as usize;
        f.extend(r.bytes(n));
        if r.chance(1, 2) {
            // plausible AVP header in front
            let def = r.pick(&d.defs);
            if f.len() >= 28 {
                f[20..24].copy_from_slice(&def.code.to_be_bytes());
                f[24] &= 0x7f;
                let l = f.len() - 20;
                set24(&mut f, 25, l - (l % 4) * (r.below(2) as usize));
            }
        }
        fix_msg_len(&mut f);
        o.case("random");
        o.line(&format!("dec {}", hex(&f)));
    }
}

/// messages beyond the everyday sizes: long text whose multi-octet characters straddle every power-of-two boundary,
/// single AVPs above the transport's 1 MiB (the in-memory codec has no such limit), groups and messages with thousands of
/// members. `probe` is called after the message has been built (the frame is passed for the decoding families).
fn big_cases(o: &mut Out, r: &mut Rng, d: &GDict, thorough: bool, probe: &dyn Fn(&mut Out, &[u8])) {
    let first = |ty: usize| d.defs.iter().find(|x| x.ty == ty && x.vendor.is_none()).or(d.by_type(ty).first().copied()).unwrap().clone();
    let (utf8, ident, oct, grp, u32d) = (first(T_UTF8), first(T_IDENT), first(T_OCT), first(T_GROUPED), first(T_U32));
    let emit = |o: &mut Out, r: &mut Rng, label: &str, m: &GM| {
        o.case(label);
        let f = m.encode(&mut None);
        let count = m.avps.len() + m.avps.iter().map(|a| if let GV::Grp(ms) = &a.v { ms.len() } else { 0 }).sum::<usize>();
        if count > 2000 {
            // thousands of members: the message is obtained by decoding its frame (appending one by one is quadratic in
            // the model's list representation)
            o.line(&format!("decode {}", hex(&f)));
        } else {
            let mut ls = vec![];
            m.ops(r, &mut ls);
            o.lines(&ls);
        }
        probe(o, &f);
    };
    // text: a run of 2-, 3- or 4-octet characters behind 0..3 ASCII octets, cut to lengths around 4 KiB .. 64 KiB
    for (ch, w) in [("é", 2usize), ("€", 3), ("𝄞", 4)] {
        for lead in 0..w {
            for around in [4096usize, 8192, 16384, 65536] {
                let n = (around + 8 - lead) / w;
                let s = format!("{}{}", "a".repeat(lead), ch.repeat(n));
                for def in [&utf8, &ident] {
                    let mut m = header(r);
                    m.avps.push(GA { code: def.code, vendor: def.vendor, flags: 0x40, v: if def.ty == T_IDENT { GV::Ident(s.clone()) } else { GV::Utf8(s.clone()) } });
                    emit(o, r, &format!("bigtext w={} lead={} around={}", w, lead, around), &m);
                }
            }
        }
    }
    // one large AVP: around 64 KiB, just above 1 MiB, several MiB (thorough: close to the 24-bit limit)
    let mut sizes = vec![65533usize, 65536, (1 << 20) - 8, (1 << 20) + 1, 3 << 20];
    if thorough {
        sizes.push((1 << 24) - 64);
    }
    for s in sizes {
        o.case(&format!("bigavp {}", s));
        o.line("new 272 4 0 1 2");
        o.line("clear");
        o.line(&format!("val octn {} 5a", s));
        o.line(&format!("add_avp {} {} 0", oct.code, vend(oct.vendor)));
        probe(o, &[]);
    }
    // many members: in one group, and at top level
    for k in [1023usize, 1024, 1025, 5000, 65535, 65536, 70000] {
        let _ = thorough;
        let member = GA { code: u32d.code, vendor: u32d.vendor, flags: 0x40, v: GV::U32(7) };
        let mut m = header(r);
        m.avps.push(GA { code: grp.code, vendor: grp.vendor, flags: 0x40, v: GV::Grp(vec![member.clone(); k]) });
        emit(o, r, &format!("manymembers group k={}", k), &m);
        let mut m = header(r);
        m.avps = vec![member.clone(); k];
        emit(o, r, &format!("manymembers top k={}", k), &m);
    }
    // many groups side by side (each a few levels deep): at top level and as members of one group - what the decoder keeps
    // per nesting level must be given back when a group is finished, however many groups came before
    for k in [31usize, 32, 33, 40, 100, 300] {
        for levels in [1usize, 2, 5] {
            let leaf = GA { code: u32d.code, vendor: u32d.vendor, flags: 0x40, v: GV::U32(k as u32) };
            let mut one = leaf.clone();
            for _ in 0..levels {
                one = GA { code: grp.code, vendor: grp.vendor, flags: 0x40, v: GV::Grp(vec![one]) };
            }
            let mut m = header(r);
            m.avps = vec![one.clone(); k];
            emit(o, r, &format!("manygroups top k={} levels={}", k, levels), &m);
            let mut m = header(r);
            m.avps.push(GA { code: grp.code, vendor: grp.vendor, flags: 0x40, v: GV::Grp(vec![one.clone(); k]) });
            emit(o, r, &format!("manygroups group k={} levels={}", k, levels), &m);
        }
    }
    // a group whose small members add up past 1 MiB
    {
        o.case("biggroup");
        o.line("new 272 4 0 1 2");
        o.line("clear");
        o.line("grp_new");
        for _ in 0..300 {
            o.line("val octn 4096 41");
            o.line(&format!("grp_add_avp {} {} 0", oct.code, vend(oct.vendor)));
        }
        o.line(&format!("add_avp {} {} 64", grp.code, vend(grp.vendor)));
        probe(o, &[]);
    }
}

/// frames in which fixed-size AVPs declare a length other than their natural one while the octets of the natural size are
/// present, alone or with the surplus/deficit compensated by a neighbour so that every enclosing length still adds up
/// (finding F1 territory: what the decoder accepts here must still be usable without panicking)
fn lying_fixed_frames(r: &mut Rng, d: &GDict, n: usize) -> Vec<Vec<u8>> {
    let tys = [T_IPV4, T_IPV6, T_ENUM, T_F32, T_F64, T_I32, T_I64, T_TIME, T_U32, T_U64];
    let nat = |ty: usize| match ty {
        T_IPV6 => 16usize,
        T_F64 | T_I64 | T_U64 => 8,
        _ => 4,
    };
    let group = d.by_type(T_GROUPED).into_iter().find(|g| g.vendor.is_none()).unwrap().code;
    let mut out = vec![];
    for i in 0..n {
        let k = 1 + r.below(4) as usize;
        let mut items = vec![];
        for _ in 0..k {
            let ty = *r.pick(&tys);
            let defs = d.by_type(ty);
            let def = *r.pick(&defs);
            items.push((def.code, def.vendor, nat(ty)));
        }
        let mut dvs: Vec<usize> = items.iter().map(|it| it.2).collect();
        match i % 4 {
            0 => {
                for x in dvs.iter_mut() {
                    *x = r.below(*x as u64 + 9) as usize;
                }
            }
            1 | 2 => {
                // move 4-octet units between members: the total is preserved
                for _ in 0..(1 + r.below(3)) {
                    let a = r.below(k as u64) as usize;
                    let b = r.below(k as u64) as usize;
                    if dvs[a] >= 4 {
                        dvs[a] -= 4;
                        dvs[b] += 4;
                    }
                }
            }
            _ => dvs.rotate_left(1),
        }
        let mut body = vec![];
        let mut declared = 0usize;
        for ((code, vendor, nat), dv) in items.iter().zip(dvs.iter()) {
            let hl = if vendor.is_some() { 12 } else { 8 };
            body.extend(code.to_be_bytes());
            body.push(if vendor.is_some() { 0xc0 } else { 0x40 });
            body.extend(&((hl + dv) as u32).to_be_bytes()[1..]);
            if let Some(v) = vendor {
                body.extend(v.to_be_bytes());
            }
            body.extend(r.bytes(*nat));
            body.extend(vec![0u8; pad(hl + dv)]);
            declared += hl + dv + pad(hl + dv);
        }
        if r.chance(1, 3) {
            let mut g = vec![];
            g.extend(group.to_be_bytes());
            g.push(0x40);
            g.extend(&((8 + declared) as u32).to_be_bytes()[1..]);
            g.extend(body);
            body = g;
            declared += 8;
        }
        let mut f = header(r).encode(&mut None);
        f.extend(body);
        set24(&mut f, 1, 20 + declared);
        out.push(f);
    }
    out
}

fn gen_c04(o: &mut Out, r: &mut Rng, d: &GDict, tier: &str) {
    let thorough = tier == "thorough";
    // the environment of the process (terminal width, locale) must not make decoding or displaying fail
    for (name, value) in [("COLUMNS", "63"), ("COLUMNS", "64"), ("COLUMNS", "67"), ("COLUMNS", "71"), ("COLUMNS", "40"), ("COLUMNS", "3"), ("COLUMNS", "0"), ("COLUMNS", "wide"), ("LANG", "C"), ("LANG", "en_US"), ("LC_ALL", "POSIX"), ("LC_CTYPE", "de_DE@euro"), ("NO_COLOR", "1"), ("TERM", "dumb"), ("TZ", "America/New_York"), ("RUST_LOG", "trace")] {
        // ... and in a fresh process, where the variable is there before the library does anything at all (what is read from
        // the environment once, at first use, is read then): a Credit-Control request under the built-in dictionary
        {
            let m = GM { version: 1, flags: 0x80, cmd: 272, app: 4, hbh: 1, e2e: 2, avps: vec![
                GA { code: 263, vendor: None, flags: 0x40, v: GV::Utf8("sess;é;世;𝄞".into()) },
                GA { code: 264, vendor: None, flags: 0x40, v: GV::Ident("host.example.org".into()) },
                GA { code: 268, vendor: None, flags: 0x40, v: GV::U32(2001) },
            ] };
            o.case(&format!("environment (fresh process) {}={}", name, value));
            o.line(&format!("envchild {} {} {}", name, value, hex(&m.encode(&mut None))));
        }
        o.case(&format!("environment {}={}", name, value));
        // (of the locale variables the first that is set counts: the others are taken away for good)
        if name == "LANG" || name == "LC_ALL" || name == "LC_CTYPE" {
            for other in ["LC_ALL", "LC_CTYPE", "LANG", "LC_MESSAGES", "LANGUAGE"] {
                o.line(&format!("env {} -", other));
            }
        }
        o.line(&format!("env {} {}", name, value));
        for _ in 0..(if thorough { 200 } else { 12 }) {
            let m = message(r, d, 5, 3);
            o.line(&format!("decq {}", hex(&m.encode(&mut None))));
        }
        // long names and text with characters of several octets
        for code in [320u32, 15, 16] {
            if let Some(def) = d.defs.iter().find(|x| x.code == code && x.vendor.is_none()) {
                let mut m = header(r);
                m.avps.push(GA { code: def.code, vendor: None, flags: 0x40, v: GV::Utf8("Gebühr-加入者-𝄞-€uro ".repeat(1 + (code as usize % 4))) });
                m.avps.push(nest(d, r, 3, Some(GA { code: def.code, vendor: None, flags: 0, v: GV::Utf8("ß加é".repeat(9)) })));
                o.line(&format!("decq {}", hex(&m.encode(&mut None))));
            }
        }
        o.line(&format!("env {} -", name));
    }
    // another thread is busy with the library's public process-wide default dictionary while frames with groups in groups
    // are decoded, displayed and re-encoded here: none of that may wait for it
    {
        o.case("decode while the default dictionary is being written");
        o.line(&format!("gdstorm {}", if thorough { 15000 } else { 1500 }));
        for _ in 0..(if thorough { 20000 } else { 1500 }) {
            let m = message(r, d, 4, 4);
            o.line(&format!("decq {}", hex(&m.encode(&mut None))));
        }
    }
    let corpus = corpus_messages(r, d);
    // well-formed frames (what is returned must display, inspect, clone and re-encode without panicking)
    let n_good = if thorough { 40000 } else { 4000 };
    for _ in 0..n_good {
        let m = message(r, d, 6, 4);
        o.case("wellformed");
        o.line(&format!("decq {}", hex(&m.encode(&mut Some(r)))));
    }
    // every truncation of corpus frames
    for m in corpus.iter() {
        let f = m.encode(&mut Some(r));
        for k in 0..=f.len() {
            o.case("trunc");
            o.line(&format!("decq {}", hexd(&f[..k])));
            // ... and with the declared length adjusted to the truncated size
            if k >= 4 {
                let mut g = f[..k].to_vec();
                fix_msg_len(&mut g);
                o.case("trunc-fixed");
                o.line(&format!("decq {}", hex(&g)));
            }
        }
    }
    // every length field swept
    for m in corpus.iter() {
        let f = m.encode(&mut None);
        for (at, _, _) in avp_offsets(m) {
            let truth = get24(&f, at + 5);
            let mut cands: Vec<usize> = (0..=64).collect();
            for dlt in 1..=16 {
                cands.push(truth + dlt);
                cands.push(truth.saturating_sub(dlt));
            }
            cands.extend([0xffffff, 0xfffffe, 0xfffffc, 0x800000, 0x7fffff, 0x100000]);
            for c in cands {
                let mut g = f.clone();
                set24(&mut g, at + 5, c);
                o.case("lensweep");
                o.line(&format!("decq {}", hex(&g)));
                // with the V bit forced on (length 8..11 with a vendor header is the subtraction site)
                if c < 16 {
                    let mut g = g.clone();
                    g[at + 4] |= 0x80;
                    o.case("lensweep-v");
                    o.line(&format!("decq {}", hex(&g)));
                }
            }
        }
        for c in (0..=64).chain([f.len() - 1, f.len() + 1, 0xffffff, 0x100000, 0x100001]) {
            let mut g = f.clone();
            set24(&mut g, 1, c);
            o.case("msglensweep");
            o.line(&format!("decq {}", hex(&g)));
        }
    }
    for f in lying_fixed_frames(r, d, if thorough { 200000 } else { 3000 }) {
        o.case("lying-fixed");
        o.line(&format!("decq {}", hex(&f)));
    }
    // E.164 length edge (the 15-octet buffer slice) and address lengths
    let adef = d.by_type(T_ADDRESS)[0];
    for vl in 0..=40usize {
        for fam in [1u8, 2, 8] {
            let mut data = vec![0u8, fam];
            data.extend((0..vl).map(|i| b'0' + (i % 10) as u8));
            data.truncate(vl);
            let mut m = header(r);
            m.avps.push(GA { code: adef.code, vendor: adef.vendor, flags: 0, v: GV::Oct(data) });
            o.case("addrlen");
            o.line(&format!("decq {}", hex(&m.encode(&mut None))));
        }
    }
    // nesting: every depth 1..limit+8, then deep
    let mut depths: Vec<usize> = (1..=48).collect();
    depths.extend([64, 100, 128, 200, 256, 500, 1000, 2000, 5000, 10000, 20000, 50000, 100000, 131000]);
    if thorough {
        depths.extend([200000, 500000, 1000000, 2097150]);
    }
    for depth in depths {
        // header-only groups: 8 octets per level, so a 1 MiB frame nests 131 069 deep and a 16 MiB one 2 097 150
        let g = d.by_type(T_GROUPED).into_iter().find(|g| g.vendor.is_none()).unwrap();
        let total = 20 + 8 * depth;
        if total >= (1 << 24) {
            continue;
        }
        let mut f = Vec::with_capacity(total);
        f.push(1);
        f.extend(&(total as u32).to_be_bytes()[1..]);
        f.extend([0x80, 0, 1, 16, 0, 0, 0, 4, 0, 0, 0, 1, 0, 0, 0, 2]);
        for i in 0..depth {
            f.extend(g.code.to_be_bytes());
            f.push(0x40);
            f.extend(&((8 * (depth - i)) as u32).to_be_bytes()[1..]);
        }
        o.case(&format!("deepnest depth={}", depth));
        o.line(&format!("decq {}", hex(&f)));
    }
    // history on one thread: thousands of frames that are refused (nested too deeply, cut short, unknown AVP), then the
    // deep ones again - whatever a refusal leaves behind inside the library must not add up
    {
        let g = d.by_type(T_GROUPED).into_iter().find(|g| g.vendor.is_none()).unwrap();
        let deep = |depth: usize| -> Vec<u8> {
            let total = 20 + 8 * depth;
            let mut f = Vec::with_capacity(total);
            f.push(1);
            f.extend(&(total as u32).to_be_bytes()[1..]);
            f.extend([0x80, 0, 1, 16, 0, 0, 0, 4, 0, 0, 0, 1, 0, 0, 0, 2]);
            for i in 0..depth {
                f.extend(g.code.to_be_bytes());
                f.push(0x40);
                f.extend(&((8 * (depth - i)) as u32).to_be_bytes()[1..]);
            }
            f
        };
        o.case("drift after many refusals");
        let n = if thorough { 100000 } else { 6000 };
        o.line(&format!("repeat {} decq {}", n, hex(&deep(200))));
        let mut cut = deep(40);
        cut.truncate(20 + 8 * 36 + 3);
        o.line(&format!("repeat {} decq {}", n, hex(&cut)));
        let mut unk = deep(12);
        let k = unk.len();
        unk[k - 8..k - 4].copy_from_slice(&[0x00, 0xff, 0xff, 0xf1]);
        o.line(&format!("repeat {} decq {}", n, hex(&unk)));
        for depth in [5000usize, 20000, 131000] {
            o.line(&format!("decq {}", hex(&deep(depth))));
        }
        o.line(&format!("repeat 50 decq {}", hex(&deep(16))));
    }
    // width: very many small AVPs side by side - at top level, inside one group, inside a group inside a group (the
    // work per frame must stay linear in its size; what the transport admits is 1 MiB, what the protocol allows 16 MiB)
    {
        let g = d.by_type(T_GROUPED).into_iter().find(|g| g.vendor.is_none()).unwrap().code;
        let u = d.by_type(T_U32).into_iter().find(|g| g.vendor.is_none()).unwrap().code;
        let mut sizes: Vec<usize> = vec![1 << 12, 1 << 16, 1 << 18, (1 << 20) - 64];
        if thorough {
            sizes.extend([1 << 22, (1 << 24) - 64]);
        }
        for total in sizes {
            for shape in 0..4 {
                // member: an empty group (8 octets) or an Unsigned32 (12 octets)
                let member: Vec<u8> = if shape % 2 == 0 { [&g.to_be_bytes()[..], &[0x40, 0, 0, 8]].concat() } else { [&u.to_be_bytes()[..], &[0x40, 0, 0, 12, 0, 0, 0, 7]].concat() };
                let wrap = shape / 2; // 0: top level, 1: inside one group
                let room = total - 20 - 8 * wrap;
                let k = room / member.len();
                let body_len = k * member.len();
                let mut f = Vec::with_capacity(total);
                f.push(1);
                f.extend(&((20 + 8 * wrap + body_len) as u32).to_be_bytes()[1..]);
                f.extend([0x80, 0, 1, 16, 0, 0, 0, 4, 0, 0, 0, 1, 0, 0, 0, 2]);
                if wrap == 1 {
                    f.extend(g.to_be_bytes());
                    f.push(0x40);
                    f.extend(&((8 + body_len) as u32).to_be_bytes()[1..]);
                }
                for _ in 0..k {
                    f.extend(&member);
                }
                o.case(&format!("wide members={} shape={}", k, shape));
                o.line(&format!("decq {}", hex(&f)));
            }
        }
    }
    // havoc
    let n_havoc = if thorough { 2000000 } else { 12000 };
    for _ in 0..n_havoc {
        let m = message(r, d, 5, 4);
        let mut f = m.encode(&mut Some(r));
        let k = 1 + r.below(6);
        for _ in 0..k {
            if f.is_empty() {
                break;
            }
            match r.below(6) {
                0 => {
                    let p = r.below(f.len() as u64) as usize;
                    f[p] = r.next() as u8;
                }
                1 => {
                    let p = r.below(f.len() as u64) as usize;
                    f[p] ^= 1 << r.below(8);
                }
                2 => {
                    let p = r.below(f.len() as u64) as usize;
                    f.truncate(p);
                }
                3 => {
                    let p = r.below(f.len() as u64 + 1) as usize;
                    let n = r.below(9) as usize;
                    let ins = r.bytes(n);
                    f.splice(p..p, ins);
                }
                4 => {
                    let p = r.below(f.len() as u64) as usize;
                    let e = (p + r.below(9) as usize).min(f.len());
                    f.drain(p..e);
                }
                _ => {
                    // overwrite an aligned word with an interesting constant
                    if f.len() >= 8 {
                        let p = (r.below((f.len() / 4) as u64) as usize) * 4;
                        let c = *r.pick(&[0u32, 0xffffffff, 0x00ffffff, 0x80000008, 0x40000008, 0x0000000c, 0x80000000]);
                        if p + 4 <= f.len() {
                            f[p..p + 4].copy_from_slice(&c.to_be_bytes());
                        }
                    }
                }
            }
        }
        if r.chance(1, 2) {
            fix_msg_len(&mut f);
        }
        o.case("havoc");
        o.line(&format!("decq {}", hexd(&f)));
    }
    // random octets
    let n_rand = if thorough { 600000 } else { 4000 };
    for _ in 0..n_rand {
        let n = r.below(200) as usize;
        let mut f = r.bytes(n);
        if r.chance(2, 3) && f.len() >= 20 {
            f[0] = 1;
            f[5..8].copy_from_slice(&r.pick(&CMDS).to_be_bytes()[1..]);
            f[8..12].copy_from_slice(&r.pick(&APPS).to_be_bytes());
            fix_msg_len(&mut f);
        }
        o.case("random");
        o.line(&format!("decq {}", hexd(&f)));
    }
}

fn gen_c05(o: &mut Out, r: &mut Rng, d: &GDict, tier: &str) {
    let thorough = tier == "thorough";
    // (1) fault enumeration: for every corpus message and EVERY k in [0, frame length): a writer that accepts
    // exactly k octets and then fails; delivery modes rotate (whole-buffer, 1-octet and 3-octet short writes,
    // Interrupted on every 2nd / 3rd call, failure as an error or as Ok(0))
    let mut corpus = corpus_messages(r, d);
    for _ in 0..(if thorough { 60 } else { 10 }) {
        corpus.push(message(r, d, 5, 3));
    }
    // every kind of address (an IPv4-mapped IPv6 address is 16 octets like any other)
    {
        let adef = d.by_type(T_ADDRESS)[0].clone();
        let mut m = header(r);
        for v in [GV::Addr4([10, 0, 0, 1]), GV::Addr6({ let mut b = [0u8; 16]; b[10] = 0xff; b[11] = 0xff; b[12..].copy_from_slice(&[10, 0, 0, 1]); b }), GV::Addr6([0; 16]), GV::Addr6({ let mut b = [0u8; 16]; b[15] = 1; b }), GV::E164("359898000135777".into()), GV::E164("1".into())] {
            m.avps.push(GA { code: adef.code, vendor: adef.vendor, flags: 0x40, v });
        }
        corpus.push(m);
    }
    // padding 1, 2, 3 at the very end of the frame
    for l in [1usize, 2, 3, 5, 6, 7] {
        let mut m = header(r);
        m.avps.push(GA { code: d.by_type(T_OCT)[0].code, vendor: None, flags: 0, v: GV::Oct(r.bytes(l)) });
        corpus.push(m.clone());
        let inner = m.avps[0].clone();
        let mut m2 = header(r);
        m2.avps.push(nest(d, r, 2, Some(inner)));
        corpus.push(m2);
    }
    let modes: [(usize, usize, &str); 7] = [(0, 0, "err"), (1, 0, "err"), (3, 0, "zero"), (0, 2, "err"), (2, 3, "zero"), (0, 0, "zero"), (1, 2, "err")];
    for m in corpus.iter() {
        let n = m.encode(&mut None).len();
        o.case(&format!("faults len={}", n));
        let mut ls = vec![];
        m.ops(r, &mut ls);
        o.lines(&ls);
        o.line("ench");
        o.line("encha");
        for k in 0..n + 2 {
            let reps = if thorough || n < 200 { modes.len() } else { 2 };
            for j in 0..reps {
                let (short, intr, mode) = modes[(k + j) % modes.len()];
                o.line(&format!("encw {} {} {} {}", k, short, intr, mode));
            }
        }
    }
    // (1b) the same through the stream codec: a stream that accepts k octets (in one piece, dribbled, or around a pause)
    // and then fails with an error or by accepting nothing (`Ok(0)`); every k for small frames, sampled otherwise
    for m in corpus.iter() {
        let n = m.encode(&mut None).len();
        o.case(&format!("stream faults len={}", n));
        let mut ls = vec![];
        m.ops(r, &mut ls);
        o.lines(&ls);
        let ks: Vec<usize> = if thorough || n <= 120 { (0..n).collect() } else { (0..40).map(|_| r.below(n as u64) as usize).collect() };
        for k in ks {
            // an error, `Ok(0)`, or an `Interrupted` error (the call fails all the same: what was accepted stays accepted)
            // (`F<k>`: fails once k octets are on the stream in total, however the writer under test slices its calls)
            let fk = format!("F{}", k);
            let end = [fk.as_str(), "a0", "i"][k % 3];
            let pre = match (k, k % 3) {
                (0, _) => String::new(),
                (_, 0) => format!("a{},", k),
                (_, 1) => format!("{},", vec!["a1"; k.min(64)].join(",")) + &(if k > 64 { format!("a{},", k - 64) } else { String::new() }),
                _ => format!("p,a{},p,a{},p,", k / 2 + 1, k - k / 2 - 1).replace("a0,p,", ""),
            };
            o.line(&format!("senc {}{}", pre, end));
        }
    }
    // (1b') messages larger than any slice or record size an encoder might work in, through the stream codec over streams
    // that take 1000 / 16383 / 16384+1 octets at a time, and over one that fails somewhere inside
    for big in [20_000usize, 40_000, 70_000] {
        o.case(&format!("stream big len={}", big));
        o.line("new 272 4 0 1 2");
        o.line("clear");
        o.line(&format!("val octn {} 6b", big));
        o.line(&format!("add_avp {} - 0", d.by_type(T_OCT)[0].code));
        let total = 28 + big + pad(big);
        o.line("senc -");
        o.line(&format!("senc {}", vec!["a1000"; total / 1000 + 1].join(",")));
        o.line(&format!("senc {}", vec!["a16383"; total / 16383 + 1].join(",")));
        o.line(&format!("senc a16384,a1,a{}", total));
        o.line(&format!("senc a16384,F{}", total - 5));
        o.line(&format!("senc F{}", 16384 + 7));
        o.line("senc -");
        o.line("ench");
        o.line("encha");
        for k in [0usize, 16383, 16384, 16385, total - 1, total] {
            o.line(&format!("encw {} {} 0 err", k, [0usize, 16, 1000][k % 3]));
        }
    }
    // (1c) a group that is asked for its length while it is being filled (a size budget), members of every length residue
    for variant in 0..(if thorough { 200 } else { 12 }) {
        o.case(&format!("group budget {}", variant));
        o.line("new 272 4 0 1 2");
        o.line("clear");
        o.line("grp_new");
        let oc = d.by_type(T_OCT)[0].clone();
        let ut = d.by_type(T_UTF8)[0].clone();
        for k in 0..2 + variant % 4 {
            if (variant + k) % 2 == 0 {
                o.line("vlen");
            }
            let n = [3usize, 5, 1, 6, 2, 7, 9][(variant + k) % 7];
            if k % 2 == 0 {
                o.line(&format!("val oct {}", hexd(&r.bytes(n))));
                o.line(&format!("grp_add_avp {} {} 0", oc.code, vend(oc.vendor)));
            } else {
                o.line(&format!("val utf8 {}", hexd("a".repeat(n).as_bytes())));
                o.line(&format!("avp_new {} {} 64", ut.code, vend(ut.vendor)));
                o.line("grp_add");
            }
            o.line("vlen");
        }
        let g = d.by_type(T_GROUPED)[0].clone();
        o.line(&format!("add_avp {} {} 64", g.code, vend(g.vendor)));
        o.line("ench");
        o.line("encha");
        o.line("len");
        for k in [0usize, 19, 20, 27, 28, 29, 35, 40, 100000] {
            o.line(&format!("encw {} {} 0 err", k, k % 3));
        }
    }
    // (2) values the wire cannot carry: Times around both ends of the 32-bit 1900-based range, at top level and in groups
    let times: [i64; 14] = [-2208988801, -2208988800, -2208988799, 0, 2085978495, 2085978496, 2085978497, 2208988800, 4294967296, -62135596800, 253402300799, -5000000000, 2524608000, -2208988800 - 86400];
    let tdef = d.by_type(T_TIME)[0].clone();
    for &t in times.iter() {
        for nest_depth in [0usize, 1, 3] {
            // (nanoseconds of 10^9 and more: chrono's notation for a leap second - the second itself is still `t`)
            for nanos in [0u32, 999_999_999, 500_000_000, 1_000_000_000, 1_999_999_999] {
                o.case(&format!("time {} depth={}", t, nest_depth));
                let a = GA { code: tdef.code, vendor: tdef.vendor, flags: 0x40, v: GV::Time(t, nanos) };
                let mut m = header(r);
                m.avps.push(avp_of(r, d, d.by_type(T_U32)[0], 0, 0));
                m.avps.push(if nest_depth == 0 { a } else { nest(d, r, nest_depth, Some(a)) });
                m.avps.push(avp_of(r, d, d.by_type(T_UTF8)[0], 0, 0));
                let mut ls = vec![];
                m.ops(r, &mut ls);
                o.lines(&ls);
                o.line("ench");
        o.line("encha");
                o.line("encw 100000 0 0 err");
                o.line("encw 100000 1 2 zero");
                // through the stream codec: nothing of an unencodable message may reach the stream
                o.line("senc -");
                o.line("senc a1,p,a3");
                // ... and a failed send must leave nothing behind: an ordinary message sent next arrives exactly
                let g = message(r, d, 3, 2);
                let mut ls = vec![];
                g.ops(r, &mut ls);
                o.lines(&ls);
                o.line("senc -");
                o.line("senc a5,p,a2,p");
            }
        }
    }
    // (3) lengths at and past 2^24: one AVP of 2^24-9 .. 2^24-7 value octets (AVP length 2^24-1, 2^24, 2^24+1);
    // a message reaching exactly 2^24-4, 2^24, 2^24+4 with AVPs that are each small; the same inside a group
    let oc = d.by_type(T_OCT)[0].code;
    let big = |o: &mut Out, label: &str, parts: &[usize], grouped: bool| {
        o.case(label);
        o.line("new 272 4 0 1 2");
        o.line("clear");
        if grouped {
            o.line("grp_new");
        }
        for p in parts {
            o.line(&format!("val octn {} 5a", p));
            if grouped {
                o.line(&format!("grp_add_avp {} - 0", oc));
            } else {
                o.line(&format!("add_avp {} - 0", oc));
            }
        }
        if grouped {
            o.line(&format!("add_avp {} - 64", 9));
        }
        o.line("ench");
        o.line("encha");
        o.line("len");
    };
    let m24: usize = 1 << 24;
    for dv in [9usize, 8, 7, 5, 4] {
        big(o, &format!("avp value 2^24-{}", dv), &[m24 - dv], false);
    }
    // total = 20 + sum(8 + v_i) with v_i multiples of 4
    for total in [m24 - 4, m24, m24 + 4] {
        let body = total - 20;
        let a = 8 * 1024 * 1024 - 8;
        let rest = body - (8 + a) - 8;
        big(o, &format!("message total {}", total), &[a, rest], false);
    }
    for dv in [16usize, 12, 8, 4] {
        // a group whose own length crosses 2^24 while its members stay below
        let half = (m24 - dv) / 2 - 8;
        big(o, &format!("group near 2^24-{}", dv), &[half - half % 4, half - half % 4], true);
    }
}

/* ---------- stream and server families ---------- */

fn small_messages(r: &mut Rng, d: &GDict) -> Vec<GM> {
    let mut v = vec![];
    let m = header(r);
    v.push(m); // header only: 20 octets
    let mut m = header(r);
    m.avps.push(GA { code: d.by_type(T_U32)[0].code, vendor: None, flags: 0x40, v: GV::U32(7) });
    v.push(m); // 32
    let mut m = header(r);
    m.avps.push(GA { code: d.by_type(T_UTF8)[0].code, vendor: None, flags: 0, v: GV::Utf8("ab€".into()) }); // 5 octets, padding 3
    m.avps.push(GA { code: d.by_type(T_OCT)[1].code, vendor: Some(99), flags: 0x40, v: GV::Oct(vec![1, 2]) });
    v.push(m);
    let mut m = header(r);
    let inner = GA { code: d.by_type(T_IDENT)[0].code, vendor: None, flags: 0, v: GV::Ident("h.example".into()) };
    m.avps.push(nest(d, r, 2, Some(inner)));
    v.push(m);
    v
}

fn chunks_to_events(stream: &[u8], cuts: &[usize]) -> String {
    let mut ev = vec![];
    let mut prev = 0;
    for &c in cuts.iter().chain(std::iter::once(&stream.len())) {
        if c > prev {
            ev.push(format!("d:{}", hex(&stream[prev..c])));
            prev = c;
        }
    }
    if ev.is_empty() {
        "-".into()
    } else {
        ev.join(",")
    }
}

fn random_events(r: &mut Rng, stream: &[u8]) -> String {
    let mut ev = vec![];
    let mut pos = 0;
    while pos < stream.len() {
        if r.chance(1, 4) {
            ev.push("p".to_string());
        }
        let n = match r.below(4) {
            0 => 1,
            1 => 1 + r.below(4) as usize,
            2 => 1 + r.below(24) as usize,
            _ => 1 + r.below(stream.len() as u64) as usize,
        }
        .min(stream.len() - pos);
        ev.push(format!("d:{}", hex(&stream[pos..pos + n])));
        pos += n;
    }
    if r.chance(1, 3) {
        ev.push("p".into());
    }
    ev.join(",")
}

fn random_wscript(r: &mut Rng, total: usize) -> String {
    let mut ev = vec![];
    let mut left = total;
    while left > 0 && ev.len() < 400 {
        match r.below(5) {
            0 => ev.push("p".to_string()),
            _ => {
                let k = match r.below(3) {
                    0 => 1,
                    1 => 1 + r.below(7) as usize,
                    _ => 1 + r.below(left as u64 + 8) as usize,
                };
                ev.push(format!("a{}", k));
                left = left.saturating_sub(k);
            }
        }
    }
    if ev.is_empty() {
        "-".into()
    } else {
        ev.join(",")
    }
}

fn gen_c06(o: &mut Out, r: &mut Rng, d: &GDict, tier: &str) {
    let thorough = tier == "thorough";
    let small = small_messages(r, d);
    // streams of 1..4 frames
    let mut streams: Vec<Vec<GM>> = vec![];
    for m in &small {
        streams.push(vec![m.clone()]);
    }
    streams.push(vec![small[0].clone(), small[1].clone()]);
    streams.push(vec![small[1].clone(), small[0].clone(), small[2].clone()]);
    streams.push(vec![small[0].clone(), small[0].clone(), small[1].clone(), small[0].clone()]);
    for _ in 0..(if thorough { 250 } else { 8 }) {
        let n = 1 + r.below(4) as usize;
        streams.push((0..n).map(|_| message(r, d, 3, 2)).collect());
    }
    let mut frame_lists: Vec<Vec<Vec<u8>>> = streams.iter().map(|ms| ms.iter().map(|m| m.encode(&mut Some(r))).collect()).collect();
    // frames that are well framed but refused by the message decoder (a command code or an application the library does
    // not know, an AVP the dictionary does not know, text that is not UTF-8), between frames that are fine: the refusal
    // costs exactly the refused frame, the frames behind it are read as if nothing had happened
    {
        let good: Vec<Vec<u8>> = small.iter().take(3).map(|m| m.encode(&mut None)).collect();
        let with_avp = small.iter().find(|m| !m.avps.is_empty()).unwrap_or(&small[0]).encode(&mut None);
        let mut refused: Vec<Vec<u8>> = vec![];
        let mut f = with_avp.clone();
        f[5..8].copy_from_slice(&[0, 1, 0x2c]);
        f[8..12].copy_from_slice(&[1, 0, 0, 0]);
        refused.push(f);
        let mut f = with_avp.clone();
        f[8..12].copy_from_slice(&[0xff, 0xff, 0xff, 0xf0]);
        refused.push(f);
        if with_avp.len() > 28 {
            let mut f = with_avp.clone();
            f[20..24].copy_from_slice(&[0x00, 0xff, 0xff, 0xf0]);
            refused.push(f);
        }
        // a short frame that ends where the data of its last AVP should begin, behind a longer frame (whatever a buffer still
        // holds of the longer one is not part of the short one)
        {
            let mut longest = message(r, d, 4, 1);
            while longest.avps.len() < 2 {
                longest = message(r, d, 4, 1);
            }
            let longest = longest.encode(&mut None);
            for (ty, claim) in [(T_U32, 8u32), (T_U32, 12), (T_U64, 8), (T_U64, 16)] {
                let code = d.by_type(ty).into_iter().find(|x| x.vendor.is_none()).map(|x| x.code).unwrap_or(14);
                let mut f = good[0][..20].to_vec();
                f.extend(code.to_be_bytes());
                f.push(0);
                f.extend(&claim.to_be_bytes()[1..]);
                f[1] = 0;
                f[2] = 0;
                f[3] = 28;
                frame_lists.push(vec![longest.clone(), f.clone(), good[1].clone()]);
                frame_lists.push(vec![longest.clone(), longest.clone(), f, longest.clone()]);
            }
        }
        for (k, x) in refused.iter().enumerate() {
            frame_lists.push(vec![good[k % good.len()].clone(), x.clone(), good[(k + 1) % good.len()].clone()]);
            frame_lists.push(vec![x.clone(), good[k % good.len()].clone()]);
            frame_lists.push(vec![x.clone(), x.clone(), good[(k + 2) % good.len()].clone(), x.clone()]);
        }
    }
    for frames in &frame_lists {
        let stream: Vec<u8> = frames.concat();
        let n = frames.len();
        let lens: Vec<String> = frames.iter().map(|f| f.len().to_string()).collect();
        o.case(&format!("stream frames={}", lens.join(",")));
        // baseline: everything in one delivery; one call more than there are frames (it meets the end of the stream)
        o.line(&format!("sdec {} d:{}", n + 1, hex(&stream)));
        // ... and on a runtime without a time driver (the stream reader needs no timers)
        o.line(&format!("sdecnt {} d:{}", n + 1, hex(&stream)));
        // one-octet dribble, with and without a pause before every octet
        let cuts: Vec<usize> = (1..stream.len()).collect();
        o.line(&format!("sdec {} {}", n + 1, chunks_to_events(&stream, &cuts)));
        let dribble_p: Vec<String> = stream.iter().map(|b| format!("p,d:{:02x}", b)).collect();
        o.line(&format!("sdec {} {}", n + 1, dribble_p.join(",")));
        // every pair of cut positions for short streams (exhaustive), random pairs otherwise
        if stream.len() <= (if thorough { 160 } else { 100 }) {
            for i in 0..=stream.len() {
                for j in i..=stream.len() {
                    o.line(&format!("sdec {} {}", n + 1, chunks_to_events(&stream, &[i, j])));
                }
            }
        } else {
            for _ in 0..400 {
                let i = r.below(stream.len() as u64 + 1) as usize;
                let j = i + r.below((stream.len() - i) as u64 + 1) as usize;
                o.line(&format!("sdec {} {}", n + 1, chunks_to_events(&stream, &[i, j])));
            }
        }
        // "not ready yet" for a long time (virtual seconds to minutes) at every cut position of short streams: a reader
        // that gives up on, or restarts, a partly read frame after some idle period shows here
        if stream.len() <= 120 {
            for i in 1..stream.len() {
                let ms = [700u64, 6000, 61000, 1_800_000][i % 4];
                o.line(&format!("sdec {} d:{},t:{},d:{}", n + 1, hex(&stream[..i]), ms, hex(&stream[i..])));
            }
        } else {
            for i in [1usize, 2, 3, 4, 5, 19, 20, 21] {
                o.line(&format!("sdec {} d:{},t:{},d:{}", n + 1, hex(&stream[..i]), [6000u64, 61000][i % 2], hex(&stream[i..])));
            }
        }
        // Pending placements: base script = one chunk per cut at the frame-internal boundaries 4 and 20; every
        // placement of up to two pauses between the events (exhaustive), then random scripts
        let mut cuts = vec![];
        let mut off = 0;
        for f in frames.iter() {
            cuts.extend([off + 1, off + 4, off + 20.min(f.len())]);
            off += f.len();
            cuts.push(off);
        }
        cuts.sort();
        cuts.dedup();
        let mut base: Vec<String> = vec![];
        let mut prev = 0;
        for c in cuts {
            if c > prev && c <= stream.len() {
                base.push(format!("d:{}", hex(&stream[prev..c])));
                prev = c;
            }
        }
        let slots = base.len() + 1;
        if slots <= 18 {
            for a in 0..slots {
                for b in a..slots {
                    let mut ev = vec![];
                    for (i, e) in base.iter().enumerate() {
                        if i == a {
                            ev.push("p".to_string());
                        }
                        if i == b {
                            ev.push("p".to_string());
                        }
                        ev.push(e.clone());
                    }
                    if a == slots - 1 {
                        ev.push("p".into());
                    }
                    if b == slots - 1 {
                        ev.push("p".into());
                    }
                    o.line(&format!("sdec {} {}", n + 1, ev.join(",")));
                }
            }
        }
        for _ in 0..(if thorough { 1000 } else { 60 }) {
            o.line(&format!("sdec {} {}", n + 1, random_events(r, &stream)));
        }
        // fewer calls than frames: what is not asked for stays on the stream (consumed counts say so)
        if n > 1 {
            o.line(&format!("sdec {} d:{}", n - 1, hex(&stream)));
        }
    }
    // large frames (6 KB, 40 KB, 300 KB) between small ones, delivered one octet at a time (with and without a pause before
    // every octet), in pieces of 1000, whole: how finely a stream is delivered is not a property of the frame
    {
        let oc = d.by_type(T_OCT)[0].clone();
        for big in if thorough { vec![6001usize, 40003, 300002] } else { vec![6001, 40003] } {
            let mut m = header(r);
            m.avps.push(GA { code: oc.code, vendor: oc.vendor, flags: 0, v: GV::Oct(r.bytes(big)) });
            let frames = [small[1].encode(&mut None), m.encode(&mut None), small[2].encode(&mut None)];
            let stream: Vec<u8> = frames.concat();
            let lens: Vec<String> = frames.iter().map(|f| f.len().to_string()).collect();
            o.case(&format!("stream frames={}", lens.join(",")));
            o.line(&format!("sdec 4 d:{}", hex(&stream)));
            o.line(&format!("sdec 4 {}", stream.chunks(1000).map(|c| format!("d:{}", hex(c))).collect::<Vec<_>>().join(",")));
            if big < 100000 {
                o.line(&format!("sdec 4 {}", stream.iter().map(|b| format!("d:{:02x}", b)).collect::<Vec<_>>().join(",")));
                o.line(&format!("sdec 4 {}", stream.iter().map(|b| format!("p,d:{:02x}", b)).collect::<Vec<_>>().join(",")));
            }
        }
    }
    // a read call that fails with `Interrupted` in the middle of a prefix or of a body: the call fails, and has taken
    // exactly what was delivered before (nothing is read twice, nothing of what follows is touched)
    for ms in streams.iter().take(6) {
        let frames: Vec<Vec<u8>> = ms.iter().map(|m| m.encode(&mut None)).collect();
        let stream: Vec<u8> = frames.concat();
        let lens: Vec<String> = frames.iter().map(|f| f.len().to_string()).collect();
        o.case(&format!("interrupted frames={}", lens.join(",")));
        for k in 0..stream.len().min(60) {
            o.line(&format!("sdec {} {}i,d:{}", frames.len() + 1, if k == 0 { String::new() } else { format!("d:{},", hex(&stream[..k])) }, hex(&stream[k..])));
        }
    }
    // write side: partial-write patterns
    let mut msgs = small.clone();
    for _ in 0..(if thorough { 60 } else { 12 }) {
        msgs.push(message(r, d, 4, 3));
    }
    for m in &msgs {
        let total = m.encode(&mut None).len();
        o.case(&format!("write len={}", total));
        let mut ls = vec![];
        m.ops(r, &mut ls);
        o.lines(&ls);
        o.line("senc -");
        o.line(&format!("senc {}", vec!["a1"; total].join(",")));
        o.line(&format!("senc {}", vec!["p,a1"; total].join(",")));
        for k in [2usize, 3, 4, 5, 7, 19, 20, 21] {
            o.line(&format!("senc {}", vec![format!("a{}", k); total / k + 1].join(",")));
        }
        for _ in 0..(if thorough { 200 } else { 40 }) {
            o.line(&format!("senc {}", random_wscript(r, total)));
        }
        // a stream that fails part way (the peer went away), then the same message to a stream that is fine: exactly the
        // message's encoding, nothing left over from the attempt before
        for _ in 0..3 {
            let k = r.below(total as u64) as usize;
            o.line(&format!("senc {}", if k % 2 == 0 { format!("F{}", k) } else if k == 0 { "a0".to_string() } else { format!("a{},a0", k) }));
            o.line("senc -");
            o.line(&format!("senc {}", random_wscript(r, total)));
        }
    }
    // large messages (beyond any slice or record size an encoder might work in): accepted 1000 octets at a time, in
    // random amounts, around pauses
    for big in [20_000usize, 40_000, 70_000] {
        o.case(&format!("write big len={}", big));
        o.line("new 272 4 0 1 2");
        o.line("clear");
        o.line(&format!("val octn {} 6b", big));
        o.line(&format!("add_avp {} - 0", d.by_type(T_OCT)[0].code));
        let total = 28 + big + pad(big);
        o.line("senc -");
        o.line(&format!("senc {}", vec!["a1000"; total / 1000 + 1].join(",")));
        o.line(&format!("senc {}", vec!["p,a1000"; total / 1000 + 1].join(",")));
        o.line(&format!("senc {}", vec!["a16383"; total / 16383 + 1].join(",")));
        o.line(&format!("senc a16384,a1,a{}", total));
        for _ in 0..6 {
            o.line(&format!("senc {}", random_wscript(r, total)));
        }
    }
}

fn gen_c07(o: &mut Out, r: &mut Rng, d: &GDict, tier: &str) {
    let thorough = tier == "thorough";
    let mut lens: Vec<usize> = (0..=64).collect();
    for dlt in 0..=16 {
        lens.push((1 << 20) - dlt);
        lens.push((1 << 20) + dlt);
        lens.push((1 << 24) - 1 - dlt);
    }
    for k in 0..24 {
        lens.push(1 << k);
        lens.push((1 << k) + 1);
    }
    for _ in 0..(if thorough { 6000 } else { 60 }) {
        lens.push(r.below(1 << 24) as usize);
    }
    // multiples of the sizes a reader might work in (4, 16, 64 KiB), plus the 4-octet prefix or the 20-octet header
    for step in [4096usize, 16384, 65536] {
        for k in (if thorough { vec![1usize, 2, 3, 7, 8, 15] } else { vec![1usize, 2, 15] }) {
            for plus in [0usize, 4, 20] {
                if k * step + plus <= (1 << 20) {
                    lens.push(k * step + plus);
                }
            }
        }
    }
    let _ = d;
    let mut pairs: Vec<(u8, usize)> = vec![];
    for l in lens {
        for b0 in [1u8, 0, 0xff] {
            pairs.push((b0, l));
        }
    }
    // what a peer speaking another protocol sends first (a text request line, an SSH banner, a TLS record header, blank
    // lines): to this reader these are four octets like any other - a version octet and an announced length
    for p in [b"GET ", b"POST", b"SSH-", b"HTTP", b"HEAD", b"PRI ", b"CONN", b"\r\n\r\n", b"\x16\x03\x01\x02", b"\x16\x03\x03\x00", b"    ", b"~~~~", b"0000", b"\x01AAA", b"\x01 ~ "] {
        pairs.push((p[0], ((p[1] as usize) << 16) | ((p[2] as usize) << 8) | p[3] as usize));
    }
    for (b0, l) in pairs {
        {
            let mut pre = vec![b0];
            pre.extend(&(l as u32).to_be_bytes()[1..]);
            // a header that would be acceptable if the length were honest
            let mut hdr = pre.clone();
            hdr.extend([0x80, 0, 1, 16, 0, 0, 0, 4, 0, 0, 0, 1, 0, 0, 0, 2]);
            o.case(&format!("announce L={} b0={}", l, b0));
            // nothing after the prefix
            o.line(&format!("sdec 1 d:{}", hex(&pre)));
            // (the same on a runtime that has no time driver: refusing a length needs no timer)
            if l <= 64 || l % 4096 <= 20 {
                o.line(&format!("sdecnt 1 d:{},e", hex(&pre)));
                if l >= 20 && l <= 4096 {
                    let mut f = hdr.clone();
                    f.resize(l, 0);
                    o.line(&format!("sdecnt 2 d:{}", hex(&f)));
                }
            }
            o.line(&format!("sdec 1 d:{},e", hex(&pre)));
            // prefix split across deliveries
            o.line(&format!("sdec 1 d:{},p,d:{},d:{}", hex(&pre[..1]), hex(&pre[1..3]), hex(&pre[3..])));
            // fewer than announced
            o.line(&format!("sdec 1 d:{}", hex(&hdr)));
            if l > 24 && l <= 4096 {
                let mut f = hdr.clone();
                f.resize(l - 3, 0);
                o.line(&format!("sdec 1 d:{}", hex(&f)));
            }
            // exactly as announced, and more than announced (only where the amounts are moderate, plus the 1 MiB boundary)
            let stepped = l > 4096 && (l % 4096 == 0 || l % 4096 == 4 || l % 4096 == 20);
            if l >= 20 && (l <= 4096 || (b0 == 1 && (l == (1 << 20) || l == (1 << 20) - 1 || l == (1 << 20) - 4 || (stepped && l <= (1 << 20))))) {
                let mut f = hdr.clone();
                f.resize(l, 0);
                o.line(&format!("sdec 1 d:{}", hex(&f)));
                f.extend(r.bytes(37));
                o.line(&format!("sdec 1 d:{}", hex(&f)));
            }
            // a lot more than announced behind a short / oversized announcement
            let mut f = hdr.clone();
            f.extend(r.bytes(200));
            o.line(&format!("sdec 1 d:{}", hex(&f)));
            o.line(&format!("sdec 2 d:{}", hex(&f)));
            // ... with the prefix itself arriving in pieces (every split), pauses in between, the data right behind
            for cuts in [vec![1usize], vec![2], vec![3], vec![1, 2, 3], vec![1, 3]] {
                let mut ev = vec![];
                let mut at = 0;
                for c in cuts.iter().chain([4usize].iter()) {
                    ev.push(format!("d:{}", hex(&f[at..*c])));
                    ev.push("p".to_string());
                    at = *c;
                }
                ev.push(format!("d:{}", hex(&f[4..])));
                o.line(&format!("sdec 1 {}", ev.join(",")));
            }
            // a read call failing with `Interrupted` after part of the prefix, and after part of the body: the call fails
            // having taken exactly what was delivered
            if l <= 4096 || l >= (1 << 20) - 16 {
                o.line(&format!("sdec 1 d:{},i,d:{}", hex(&f[..2]), hex(&f[2..])));
                o.line(&format!("sdec 1 d:{},i,d:{}", hex(&f[..9]), hex(&f[9..])));
            }
            // the same announcement as the second frame of the stream, behind a well-formed header-only frame: later frames
            // are guarded like the first (the judge looks at the second result: `second=1`)
            {
                let mut g = vec![1u8, 0, 0, 20, 0x80, 0, 1, 16, 0, 0, 0, 4, 0, 0, 0, 9, 0, 0, 0, 9];
                g.extend(&f);
                o.case(&format!("announce L={} b0={} second=1", l, b0));
                o.line(&format!("sdec 2 d:{}", hex(&g)));
                o.line(&format!("sdec 2 d:{},p,d:{},d:{}", hex(&g[..21]), hex(&g[21..23]), hex(&g[23..])));
            }
        }
    }
}

/// very many accepted frames through one process before the hostile announcements come (thorough: more than 4 GiB, so
/// that anything the process counts in 32 bits has wrapped): they are refused as at the start
fn gen_c07_many(o: &mut Out, d: &GDict, tier: &str) {
    let oc = d.by_type(T_OCT)[0].clone();
    let frame_of = |total: usize| -> Vec<u8> {
        // a frame of exactly `total` octets: header + one OctetString AVP
        let hl = if oc.vendor.is_some() { 12 } else { 8 };
        let data = total - 20 - hl;
        let m = GM { version: 1, flags: 0x80, cmd: 272, app: 4, hbh: 5, e2e: 6, avps: vec![GA { code: oc.code, vendor: oc.vendor, flags: 0, v: GV::Oct(vec![0x5a; data]) }] };
        m.encode(&mut None)
    };
    let plans: Vec<(u64, usize)> = if tier == "thorough" { vec![(4200, 1 << 20), (70000, 65536)] } else { vec![(64, 1 << 20), (3000, 4096)] };
    for (count, total) in plans {
        o.case(&format!("many frames count={} size={}", count, total));
        o.line(&format!("sdecmany {} {}", count, hex(&frame_of(total))));
    }
}

/// C08 (cuts = false) and C09 (cuts = true): the per-connection loop of the server on scripted streams
fn gen_c08(o: &mut Out, r: &mut Rng, d: &GDict, tier: &str, cuts: bool) {
    let thorough = tier == "thorough";
    if !cuts {
        // through the real listeners too (plain TCP and TLS): every request of a connection is answered, also after the
        // connection has been idle for a while (real seconds)
        for tls in [0, 1] {
            o.case(&format!("listener tls={}", tls));
            o.line(&format!("lsn tls={} good=2 reqs=6 fault=none when=during nfaulty=0 hold={}", tls, if thorough { 35 } else { 11 }));
        }
        // pipelined requests with large answers, the last request failing in the handler, a peer that is slow to read: what
        // was answered before the failure still arrives when the server ends the connection
        for (tls, n, kib) in [(0, 6, 700), (1, 4, 300), (0, 3, 64)] {
            o.case(&format!("listener pipeline tls={} n={} kib={}", tls, n, kib));
            o.line(&format!("lsnpipe tls={} n={} kib={}", tls, n, kib));
        }
        // one connection that carries very many requests (thorough: more than 4 GiB of answers, so that anything the
        // connection counts in 32 bits has wrapped): every one of them is handled and answered
        {
            let oc0 = d.by_type(T_OCT)[0].code;
            let plans: Vec<(u64, usize)> = if thorough { vec![(4200, (1 << 20) - 28), (300000, 64)] } else { vec![(200, 65536), (5000, 16)] };
            for (count, big) in plans {
                let req = small_messages(r, d)[1].clone();
                o.case(&format!("many requests count={} answer={}", count, big));
                o.line("mclear");
                o.line("new 272 4 0 7 8");
                o.line("clear");
                o.line(&format!("val octn {} 5a", big));
                o.line(&format!("add_avp {} - 0", oc0));
                o.line("msave");
                o.line(&format!("servemany {} {}", count, hex(&req.encode(&mut None))));
            }
        }
        // an answer that cannot be encoded only at its very end (tens of KiB of fine AVPs, then a Time the wire cannot carry):
        // nothing of it goes out - not the part that "was ready" either
        for big in [100usize, 33000, 70000] {
            let reqs = [small_messages(r, d)[1].clone(), small_messages(r, d)[0].clone()];
            let rf: Vec<Vec<u8>> = reqs.iter().map(|m| m.encode(&mut None)).collect();
            let first = small_messages(r, d)[2].clone();
            o.case(&format!("serve unencodable=1 reqlens={},{} anslens={},0 bigbad={}", rf[0].len(), rf[1].len(), first.encode(&mut None).len(), big));
            o.line("mclear");
            let mut ls = vec![];
            first.ops(r, &mut ls);
            o.lines(&ls);
            o.line("msave");
            o.line("new 272 4 0 7 8");
            o.line("clear");
            o.line(&format!("val octn {} 5a", big));
            o.line(&format!("add_avp {} - 0", d.by_type(T_OCT)[0].code));
            o.line("val time 7258118400 0");
            o.line(&format!("add_avp {} - 64", d.by_type(T_TIME)[0].code));
            o.line("msave");
            o.line(&format!("serve a0,a1 d:{} -", hex(&rf.concat())));
        }
        // answers far beyond the size of anything read: 1 MiB + 4 and 3 MiB (the read limit is no write limit)
        let oc = d.by_type(T_OCT)[0].code;
        for big in [(1usize << 20) - 28, (1 << 20) - 24, 3 << 20] {
            let reqs = [small_messages(r, d)[1].clone(), small_messages(r, d)[0].clone()];
            let rf: Vec<Vec<u8>> = reqs.iter().map(|m| m.encode(&mut None)).collect();
            let small = small_messages(r, d)[2].clone();
            o.case(&format!("serve good corpus=big{} reqlens={},{} anslens={},{}", big, rf[0].len(), rf[1].len(), 20 + 8 + big + pad(big), small.encode(&mut None).len()));
            o.line("mclear");
            o.line("new 272 4 0 7 8");
            o.line("clear");
            o.line(&format!("val octn {} 5a", big));
            o.line(&format!("add_avp {} - 0", oc));
            o.line("msave");
            let mut ls = vec![];
            small.ops(r, &mut ls);
            o.lines(&ls);
            o.line("msave");
            o.line(&format!("serve a0,a1 d:{} -", hex(&rf.concat())));
        }
    }
    let n_corpus = if cuts { if thorough { 250 } else { 10 } } else if thorough { 1500 } else { 50 };
    for ci in 0..n_corpus {
        let nreq = 1 + r.below(if cuts { 4 } else { 8 }) as usize;
        let mut reqs: Vec<GM> = (0..nreq).map(|_| if ci % 3 == 0 { small_messages(r, d)[r.below(4) as usize].clone() } else { message(r, d, 3, 2) }).collect();
        let mut answers: Vec<GM> = (0..nreq).map(|_| message(r, d, 4, 2)).collect();
        if ci % 5 == 1 && nreq >= 2 {
            // a base-protocol request that "means" something to a peer state machine (Disconnect-Peer, Device-Watchdog,
            // Capabilities-Exchange), answered without the E flag, with ordinary requests behind it: to this server a
            // request is a request
            let k = r.below(nreq as u64 - 1) as usize;
            let cmd = [282u32, 280, 257][(ci / 5) % 3];
            reqs[k] = GM { version: 1, flags: 0x80, cmd, app: 0, hbh: 7000 + ci as u32, e2e: 7000 + ci as u32, avps: vec![] };
            answers[k] = GM { version: 1, flags: 0x00, cmd, app: 0, hbh: 7000 + ci as u32, e2e: 7000 + ci as u32, avps: vec![] };
        }
        let rf: Vec<Vec<u8>> = reqs.iter().map(|m| m.encode(&mut Some(r))).collect();
        let af: Vec<Vec<u8>> = answers.iter().map(|m| m.encode(&mut None)).collect();
        let stream: Vec<u8> = rf.concat();
        let total_ans: usize = af.iter().map(|f| f.len()).sum();
        let setup = |o: &mut Out, r: &mut Rng| {
            // the answers the scripted handler will return, set aside as saved messages 0..n-1
            o.line("mclear");
            for a in &answers {
                let mut ls = vec![];
                a.ops(r, &mut ls);
                o.lines(&ls);
                o.line("msave");
            }
        };
        let all_ok: Vec<String> = (0..nreq).map(|i| format!("a{}", i)).collect();
        let rl: Vec<String> = rf.iter().map(|f| f.len().to_string()).collect();
        let al: Vec<String> = af.iter().map(|f| f.len().to_string()).collect();
        if !cuts {
            // all good: whole delivery (baseline), dribble, random segmentation x random partial writes
            let variants = if thorough { 30 } else { 10 };
            for v in 0..variants {
                o.case(&format!("serve good corpus={} reqlens={} anslens={}", ci, rl.join(","), al.join(",")));
                setup(o, r);
                let rd = match v {
                    0 => format!("d:{}", hex(&stream)),
                    1 => chunks_to_events(&stream, &(1..stream.len()).collect::<Vec<_>>()),
                    2 => format!("d:{},e", hex(&stream)),
                    _ => random_events(r, &stream),
                };
                let wr = match v {
                    0 | 2 => "-".to_string(),
                    1 => vec!["a1"; total_ans].join(","),
                    _ => random_wscript(r, total_ans),
                };
                o.line(&format!("serve {} {} {}", all_ok.join(","), rd, wr));
                // the same with a handler that takes its time (it awaits something before it answers) while the rest of
                // the stream - further requests, the end of the stream - is already there
                if v != 1 {
                    let slow: Vec<String> = all_ok.iter().enumerate().map(|(i, t)| format!("{}{}", t, ["~y1", "~40", "", "~y3", "~300000", "~11000"][(i + v) % 6])).collect();
                    setup(o, r);
                    o.line(&format!("serve {} {} {}", slow.join(","), rd, wr));
                }
            }
            // long silences (virtual minutes) inside the first octets of a frame, inside a body and between frames: an
            // idle peer is not a faulty one
            let mut offs: Vec<usize> = vec![];
            let mut acc = 0;
            for f in &rf {
                offs.extend([acc + 1, acc + 2, acc + 3, acc + 4, acc + 19, acc + f.len() - 1, acc + f.len()]);
                acc += f.len();
            }
            for (i, c) in offs.iter().enumerate() {
                if *c == 0 || *c >= stream.len() {
                    continue;
                }
                o.case(&format!("serve good corpus={} reqlens={} anslens={}", ci, rl.join(","), al.join(",")));
                setup(o, r);
                o.line(&format!("serve {} d:{},t:{},d:{} -", all_ok.join(","), hex(&stream[..*c]), [6000u64, 61000, 700_000][i % 3], hex(&stream[*c..])));
            }
            // one failing handler call at every position
            for k in 0..nreq {
                o.case(&format!("serve herr={} reqlens={} anslens={}", k, rl.join(","), al.join(",")));
                setup(o, r);
                let mut hs = all_ok.clone();
                hs[k] = "err".into();
                o.line(&format!("serve {} {} {}", hs.join(","), random_events(r, &stream), random_wscript(r, total_ans)));
            }
            // an answer that cannot be encoded (a Time in 2040) at every position: nothing of it is written, the loop ends
            for k in 0..nreq {
                o.case(&format!("serve unencodable={} reqlens={} anslens={}", k, rl.join(","), al.join(",")));
                o.line("mclear");
                for (i, a) in answers.iter().enumerate() {
                    let mut ls = vec![];
                    a.ops(r, &mut ls);
                    o.lines(&ls);
                    if i == k {
                        o.line("val time 2524608000 0");
                        o.line(&format!("add_avp {} - 64", d.by_type(T_TIME)[0].code));
                    }
                    o.line("msave");
                }
                o.line(&format!("serve {} {} {}", all_ok.join(","), random_events(r, &stream), random_wscript(r, total_ans)));
            }
            // one malformed frame at every position (several kinds of malformation)
            // a preamble of some other protocol in front of well-formed requests (a load balancer's PROXY line, an HTTP request, a
            // TLS hello, SSH): read as RFC 6733 it is a malformed first frame, and nothing behind it is served
            for (pi, pre) in [&b"PROXY TCP4 192.0.2.1 192.0.2.2 40000 3868\r\n"[..], b"PROXY UNKNOWN\r\n", b"GET / HTTP/1.1\r\nHost: x\r\n\r\n", b"\x16\x03\x01\x00\x05hello", b"SSH-2.0-x\r\n", b"\r\n\r\n\x00\r\nQUIT\n\x21\x11\x00\x0c\x7f\x00\x00\x01\x7f\x00\x00\x01\x9c\x40\x0f\x1c"].iter().enumerate() {
                let mut s2: Vec<u8> = pre.to_vec();
                s2.extend(rf.concat());
                o.case(&format!("serve bad=0 kind=pre{} reqlens={} anslens={}", pi, rl.join(","), al.join(",")));
                setup(o, r);
                o.line(&format!("serve {} {} -", all_ok.join(","), if pi % 2 == 0 { format!("d:{}", hex(&s2)) } else { random_events(r, &s2) }));
            }
            for k in 0..nreq {
                for kind in 0..8 {
                    let mut bad = rf.clone();
                    match kind {
                        6 | 7 => {
                            // a SHORT frame (shorter than most of what came before it on the connection) that ends where the
                            // data of its last AVP should begin: an Unsigned32 / Unsigned64 AVP that is all header (6), or that
                            // announces data the frame does not have (7). Whatever a buffer still holds of earlier, longer
                            // frames is not part of this one
                            let ty = if k % 2 == 0 { T_U32 } else { T_U64 };
                            let code = d.by_type(ty).into_iter().find(|x| x.vendor.is_none()).map(|x| x.code).unwrap_or(14);
                            let mut f = bad[k][..20].to_vec();
                            f.extend(code.to_be_bytes());
                            f.push(0);
                            f.extend(&(if kind == 6 { 8u32 } else if ty == T_U32 { 12 } else { 16 }).to_be_bytes()[1..]);
                            f[1] = 0;
                            f[2] = 0;
                            f[3] = 28;
                            bad[k] = f;
                        }
                        4 | 5 => {
                            // the last AVP's padding is missing and the message length is short by it (4: an OctetString of
                            // 3 octets appended without its padding octet; 5: of 5 octets without its three): a frame whose
                            // length is no multiple of four is malformed, however well the rest reads
                            let n = if kind == 4 { 3usize } else { 5 };
                            let oc = d.by_type(T_OCT).into_iter().find(|x| x.vendor.is_none()).map(|x| x.code).unwrap_or(12);
                            let mut f = bad[k].clone();
                            f.extend(oc.to_be_bytes());
                            f.push(0);
                            f.extend(&((8 + n) as u32).to_be_bytes()[1..]);
                            f.extend(vec![0x61u8; n]);
                            let l = f.len();
                            f[1] = (l >> 16) as u8;
                            f[2] = (l >> 8) as u8;
                            f[3] = l as u8;
                            bad[k] = f;
                        }
                        0 => {
                            // unknown command code
                            bad[k][5] = 0x7f;
                        }
                        1 => {
                            // announced length below the header size
                            bad[k][1] = 0;
                            bad[k][2] = 0;
                            bad[k][3] = 8;
                        }
                        2 => {
                            // oversized announcement
                            bad[k][1] = 0x20;
                        }
                        _ => {
                            // an AVP the dictionary does not know (or a header-only frame made inconsistent)
                            let mut f = bad[k].clone();
                            let l = f.len() + 8;
                            f.extend([0, 0, 0x30, 0x39, 0, 0, 0, 8]);
                            f[1] = (l >> 16) as u8;
                            f[2] = (l >> 8) as u8;
                            f[3] = l as u8;
                            bad[k] = f;
                        }
                    }
                    let s2: Vec<u8> = bad.concat();
                    o.case(&format!("serve bad={} kind={} reqlens={} anslens={}", k, kind, rl.join(","), al.join(",")));
                    setup(o, r);
                    o.line(&format!("serve {} {} {}", all_ok.join(","), if kind % 2 == 0 { format!("d:{}", hex(&s2)) } else { random_events(r, &s2) }, "-"));
                }
            }
        } else {
            // C09: every read-side cut offset p, with whole-buffer and one-octet delivery; end by close and by reset
            for p in 0..=stream.len() {
                for mode in 0..3 {
                    o.case(&format!("serve readcut={} reqlens={} anslens={}", p, rl.join(","), al.join(",")));
                    setup(o, r);
                    let head = &stream[..p];
                    let rd = match mode {
                        0 => format!("{},e", if p == 0 { "p".to_string() } else { format!("d:{}", hex(head)) }),
                        1 => {
                            let mut ev: Vec<String> = head.iter().map(|b| format!("d:{:02x}", b)).collect();
                            ev.push("e".into());
                            ev.join(",")
                        }
                        _ => format!("{},f", if p == 0 { "p".to_string() } else { format!("d:{}", hex(head)) }),
                    };
                    o.line(&format!("serve {} {} {}", all_ok.join(","), rd, "-"));
                    // ... with a handler that is still busy when the end of the stream arrives
                    if mode != 1 {
                        let slow: Vec<String> = all_ok.iter().enumerate().map(|(i, t)| format!("{}{}", t, ["~y1", "~300", "~y2", "~11000"][(i + p) % 4])).collect();
                        setup(o, r);
                        o.line(&format!("serve {} {} {}", slow.join(","), rd, "-"));
                    }
                    // ... and with a long silence somewhere before the cut (an idle peer is not a faulty one)
                    if mode == 0 && p >= 2 {
                        let c = 1 + (p * 7 + 3) % (p - 1);
                        setup(o, r);
                        o.line(&format!("serve {} d:{},t:{},d:{},e -", all_ok.join(","), hex(&head[..c]), [12500u64, 61000, 6000][p % 3], hex(&head[c..])));
                    }
                }
            }
            // large requests (beyond any buffer size a reader might special-case), the last AVP with 1..3 octets of padding:
            // cuts around their end, delivered whole and in 8 KiB pieces
            if ci == 0 {
                for (bi, big) in [5001usize, 70002, 300003].iter().enumerate() {
                    let mut m0 = header(r);
                    m0.avps.push(GA { code: d.by_type(T_U32)[0].code, vendor: None, flags: 0x40, v: GV::U32(1) });
                    m0.avps.push(GA { code: d.by_type(T_OCT)[0].code, vendor: None, flags: 0, v: GV::Oct(r.bytes(*big)) });
                    let m1 = small_messages(r, d)[1].clone();
                    let fr = [m0.encode(&mut None), m1.encode(&mut None)];
                    let st: Vec<u8> = fr.concat();
                    let ans: Vec<GM> = vec![small_messages(r, d)[1].clone(), small_messages(r, d)[2].clone()];
                    let afl: Vec<String> = ans.iter().map(|a| a.encode(&mut None).len().to_string()).collect();
                    let e0 = fr[0].len();
                    for p in [e0 - 5, e0 - 4, e0 - 3, e0 - 2, e0 - 1, e0, e0 + 1, e0 / 2, 20, st.len() - 1, st.len()] {
                        for pieces in [false, true] {
                            o.case(&format!("serve readcut={} reqlens={},{} anslens={} big={}", p, fr[0].len(), fr[1].len(), afl.join(","), bi));
                            o.line("mclear");
                            for a in &ans {
                                let mut ls = vec![];
                                a.ops(r, &mut ls);
                                o.lines(&ls);
                                o.line("msave");
                            }
                            let head = &st[..p];
                            let rd = if pieces { head.chunks(8192).map(|c| format!("d:{}", hex(c))).collect::<Vec<_>>().join(",") } else { format!("d:{}", hex(head)) };
                            o.line(&format!("serve a0,a1 {},e -", rd));
                        }
                    }
                }
            }
            // every write-side failure offset q
            for q in 0..=total_ans {
                for mode in 0..2 {
                    o.case(&format!("serve writecut={} reqlens={} anslens={}", q, rl.join(","), al.join(",")));
                    setup(o, r);
                    // the offset q falls into answer j at offset off
                    let mut wr: Vec<String> = vec![];
                    let mut left = q;
                    for f in &af {
                        if left >= f.len() {
                            if mode == 0 {
                                wr.push(format!("a{}", f.len()));
                            } else {
                                wr.extend(vec!["a1".to_string(); f.len()]);
                            }
                            left -= f.len();
                        } else {
                            if left > 0 {
                                if mode == 0 {
                                    wr.push(format!("a{}", left));
                                } else {
                                    wr.extend(vec!["a1".to_string(); left]);
                                }
                            }
                            left = usize::MAX;
                            break;
                        }
                    }
                    let _ = left;
                    wr.push(["f", "a0", "i"][q % 3].into());
                    o.line(&format!("serve {} d:{} {}", all_ok.join(","), hex(&stream), wr.join(",")));
                }
            }
            // both at once (`C09_cut_both`): the request stream ends at p - by close or by reset - while the write side fails
            // after q octets; whichever comes first ends the connection, and nothing happens after it
            for _ in 0..(if thorough { 600 } else { 60 }) {
                let p = r.below(stream.len() as u64 + 1) as usize;
                let q = r.below(total_ans as u64 + 1) as usize;
                o.case(&format!("serve readcut={} writecut={} reqlens={} anslens={}", p, q, rl.join(","), al.join(",")));
                setup(o, r);
                let head = &stream[..p];
                let rd = match r.below(3) {
                    0 => format!("{},e", if p == 0 { "p".to_string() } else { format!("d:{}", hex(head)) }),
                    1 => {
                        let mut ev: Vec<String> = head.iter().map(|b| format!("d:{:02x}", b)).collect();
                        ev.push("f".into());
                        ev.join(",")
                    }
                    _ => format!("{},f", if p == 0 { "p".to_string() } else { random_events(r, head) }),
                };
                // (an accept event belongs to one write call: the pieces are cut answer by answer)
                let mut wr: Vec<String> = vec![];
                let mut left = q;
                for f in &af {
                    let mut room = f.len().min(left);
                    left -= room;
                    while room > 0 {
                        let k = 1 + r.below(room.min(40) as u64) as usize;
                        wr.push(format!("a{}", k));
                        if r.chance(1, 4) {
                            wr.push("p".into());
                        }
                        room -= k;
                    }
                    if left == 0 {
                        break;
                    }
                }
                wr.push(["f", "a0", "i"][q % 3].into());
                o.line(&format!("serve {} {} {}", all_ok.join(","), rd, wr.join(",")));
            }
        }
    }
}

/* ---------- real-socket families ---------- */

fn gen_c10(o: &mut Out, r: &mut Rng, tier: &str) {
    let thorough = tier == "thorough";
    let faults = ["malformed", "unknown_avp", "deepnest", "oversized", "short", "stall_midframe", "stall_handshake", "half_hello", "reset", "panic", "garbage_close", "hello_close", "plain_req_close", "stall_announce_max", "panic_sync"];
    let whens = ["before", "during", "after"];
    // the scenario table: fault kind x moment x listener kind; number of well-behaved clients and of faulty peers vary
    for tls in [0, 1] {
        o.case(&format!("listener baseline tls={}", tls));
        o.line(&format!("lsn tls={} good=2 reqs=4 fault=none when=during nfaulty=0", tls));
        // connections that live long and are idle in between (real seconds): still served
        for hold in if thorough { vec![11, 35, 65] } else { vec![11] } {
            o.case(&format!("listener long-lived tls={} hold={}", tls, hold));
            o.line(&format!("lsn tls={} good=2 reqs=4 fault=none when=during nfaulty=0 hold={}", tls, hold));
        }
        for f in faults {
            for w in whens {
                let reps = if thorough { 12 } else { 1 };
                for _ in 0..reps {
                    let good = 1 + r.below(4);
                    let nf = 1 + r.below(3);
                    let reqs = 2 + r.below(5);
                    o.case(&format!("listener fault={} when={} tls={}", f, w, tls));
                    o.line(&format!("lsn tls={} good={} reqs={} fault={} when={} nfaulty={}", tls, good, reqs, f, w, nf));
                }
            }
            // many faulty peers of one kind, one after the other: whatever a connection holds (a task, a permit, a
            // slot in some table) must be given back on every exit path, or the listener runs dry
            let many = if thorough { 1100 } else { 130 };
            o.case(&format!("listener many fault={} tls={}", f, tls));
            o.line(&format!("lsn tls={} good=2 reqs=3 fault={} when=before nfaulty={}", tls, f, many));
            // more handler panics than any table of slots or permits holds (4096)
            if tls == 0 && f == "panic" {
                o.case(&format!("listener many fault={} tls={}", f, tls));
                o.line(&format!("lsn tls={} good=2 reqs=3 fault={} when=before nfaulty={}", tls, f, if thorough { 9000 } else { 4200 }));
            }
            // more stalled connections than any default pool of threads or permits holds (512, 1024)
            if tls == 0 && f == "stall_midframe" {
                o.case(&format!("listener many fault={} tls={}", f, tls));
                o.line(&format!("lsn tls={} good=2 reqs=3 fault={} when=before nfaulty={}", tls, f, if thorough { 2100 } else { 700 }));
            }
        }
    }
}

fn gen_c13(o: &mut Out, _r: &mut Rng, tier: &str) {
    // the full finite table (exhaustive), the address given as host name, IPv4 literal and IPv6 literal
    let mut id = 0;
    let reps = if tier == "thorough" { 5 } else { 1 };
    for _ in 0..reps {
        for ctls in [0, 1] {
            for verify in [0, 1] {
                for stls in [0, 1] {
                    for cert in ["good", "wrongname", "untrusted"] {
                        for addr in ["host", "ip", "ip6"] {
                            id += 1;
                            // the request's command rotates (what is protected must not depend on what is said)
                            let cmd = [272u32, 257, 280, 282][id % 4];
                            o.case(&format!("cell ctls={} verify={} stls={} cert={} addr={}", ctls, verify, stls, cert, addr));
                            o.line(&format!("tls ctls={} verify={} stls={} cert={} addr={} id={} cmd={}", ctls, verify, stls, cert, addr, id, cmd));
                            if cert == "good" && addr == "ip" && verify == 1 && !(ctls == 1 && stls == 0) {
                                // the same cell reached through well-known port numbers (Diameter over TLS, HTTPS, Diameter over SCTP/DTLS; not 3868:
                                // the crate's own test suite binds it):
                                // the configuration decides how the connection is protected, the port number does not
                                for port in [5658u16, 443, 5868] {
                                    id += 1;
                                    o.case(&format!("cell ctls={} verify={} stls={} cert={} addr={} port={}", ctls, verify, stls, cert, addr, port));
                                    o.line(&format!("tls ctls={} verify={} stls={} cert={} addr={} id={} cmd={} port={}", ctls, verify, stls, cert, addr, id, cmd, port));
                                }
                            }
                            if stls == 1 && ctls == 0 && cert == "good" {
                                // several clear-text peers arriving at the same moment
                                id += 1;
                                o.case(&format!("cell ctls={} verify={} stls={} cert={} addr={} burst=6", ctls, verify, stls, cert, addr));
                                o.line(&format!("tls ctls={} verify={} stls={} cert={} addr={} id={} cmd={} burst=6", ctls, verify, stls, cert, addr, id, cmd));
                            }
                            if cert == "wrongname" && stls == 1 && ctls == 1 {
                                // the other kind of wrong name: a certificate for the right ADDRESS where a host name was
                                // asked for, for the right NAME where an address was
                                id += 1;
                                o.case(&format!("cell ctls={} verify={} stls={} cert={} addr={} wn=1", ctls, verify, stls, cert, addr));
                                o.line(&format!("tls ctls={} verify={} stls={} cert={} addr={} id={} cmd={} wn=1", ctls, verify, stls, cert, addr, id, cmd));
                                // ... and a certificate for another name whose ISSUER happens to be called like the host
                                id += 1;
                                o.case(&format!("cell ctls={} verify={} stls={} cert={} addr={} wn=2", ctls, verify, stls, cert, addr));
                                o.line(&format!("tls ctls={} verify={} stls={} cert={} addr={} id={} cmd={} wn=2", ctls, verify, stls, cert, addr, id, cmd));
                            }
                        }
                    }
                }
            }
        }
    }
    // the same peer written as an RFC 6733 DiameterURI (`aaa://`, `aaas://`, with parameters): the library takes `host:port`;
    // whatever it makes of another spelling, the configuration decides how the connection is protected - the spelling does not
    for spell in 1..=5 {
        for (ctls, stls) in [(1, 0), (0, 1), (1, 1), (0, 0)] {
            for verify in [0, 1] {
                if verify == 1 && ctls == 0 {
                    continue;
                }
                id += 1;
                let addr = ["ip", "host"][(spell + ctls) % 2];
                o.case(&format!("cell ctls={} verify={} stls={} cert=good addr={} spell={}", ctls, verify, stls, addr, spell));
                o.line(&format!("tls ctls={} verify={} stls={} cert=good addr={} id={} cmd=257 spell={}", ctls, verify, stls, addr, id, spell));
            }
        }
    }
    // the good certificate in other clothes (valid for thirty years: its end date is spelled as GeneralizedTime; an RSA key)
    for cv in [1, 2] {
        for verify in [0, 1] {
            for addr in ["host", "ip"] {
                id += 1;
                o.case(&format!("cell ctls=1 verify={} stls=1 cert=good addr={} cv={}", verify, addr, cv));
                o.line(&format!("tls ctls=1 verify={} stls=1 cert=good addr={} id={} cmd=272 cv={}", verify, addr, id, cv));
            }
        }
    }
    // one client object connecting twice; behind the address the server was restarted with another certificate
    for verify in [0, 1] {
        for (c1, c2) in [("good", "untrusted"), ("good", "wrongname"), ("untrusted", "good"), ("good", "good_rsa"), ("wrongname", "good"), ("good_far", "good")] {
            id += 1;
            o.case(&format!("reconnect verify={} c1={} c2={}", verify, c1, c2));
            o.line(&format!("tlsre verify={} c1={} c2={} id={}", verify, c1, c2, id));
        }
    }
    // TLS on, and a peer that makes the handshake fail
    for verify in [0, 1] {
        for mode in ["close", "rst", "garbage"] {
            id += 1;
            o.case(&format!("rude peer verify={} mode={}", verify, mode));
            o.line(&format!("tlsrude verify={} mode={} id={}", verify, mode, id));
        }
    }
    // a server whose TLS identity the TLS library refuses to serve (a 1024-bit RSA key): nobody is served, least of all in
    // plain text
    for ctls in [0, 1] {
        for verify in [0, 1] {
            id += 1;
            o.case(&format!("weak identity ctls={} verify={}", ctls, verify));
            o.line(&format!("tls ctls={} verify={} stls=1 cert=weak addr=ip id={} cmd={}", ctls, verify, id, [272u32, 257][id % 2]));
        }
    }
    // a plain-text client against a TLS server, every base command (Capabilities-Exchange first of all)
    for cmd in [257u32, 280, 282, 271, 272] {
        for addr in ["host", "ip"] {
            id += 1;
            o.case(&format!("plain-to-tls cmd={} addr={}", cmd, addr));
            o.line(&format!("tls ctls=0 verify=0 stls=1 cert=good addr={} id={} cmd={}", addr, id, cmd));
        }
    }
    // sequences of connections in one fresh process: the settings of an earlier client (or listener) must not leak into
    // a later one. Every ordered pair of the client configurations below, against the server that separates them.
    let confs = [(1, 1), (1, 0), (0, 0)];
    for a in confs {
        for b in confs {
            if a == b {
                continue;
            }
            for (stls, cert) in [(1, "untrusted"), (1, "good"), (0, "good")] {
                for addr in ["host", "ip"] {
                    id += 2;
                    let cell = |c: (i32, i32), n: usize| format!("ctls={},verify={},stls={},cert={},addr={},id={},cmd=272", c.0, c.1, stls, cert, addr, n);
                    o.case(&format!("sequence first={}{} then={}{} stls={} cert={} addr={}", a.0, a.1, b.0, b.1, stls, cert, addr));
                    o.line(&format!("tlsq {};{};{}", cell(a, id), cell(b, id + 1), cell(a, id + 1000)));
                }
            }
        }
    }
}

/* ---------- client families ---------- */

fn permutations(n: usize) -> Vec<Vec<usize>> {
    fn go(cur: &mut Vec<usize>, used: &mut Vec<bool>, n: usize, out: &mut Vec<Vec<usize>>) {
        if cur.len() == n {
            out.push(cur.clone());
            return;
        }
        for i in 0..n {
            if !used[i] {
                used[i] = true;
                cur.push(i);
                go(cur, used, n, out);
                cur.pop();
                used[i] = false;
            }
        }
    }
    let mut out = vec![];
    go(&mut vec![], &mut vec![false; n], n, &mut out);
    out
}

/// an answer frame for hop-by-hop id h, identified by its end-to-end id
fn answer_frame(r: &mut Rng, d: &GDict, h: u32, uid: u32) -> Vec<u8> {
    let mut m = message(r, d, 3, 1);
    m.flags = 0;
    m.hbh = h;
    m.e2e = uid;
    m.encode(&mut None)
}

/// size of the request the harness builds for (h, len): header 20 + OctetString AVP of len octets
fn request_size(len: usize) -> usize {
    20 + 8 + len + pad(len)
}

fn seg(r: &mut Rng, f: &[u8], mode: u64) -> Vec<String> {
    match mode {
        0 => vec![format!("d:{}", hex(f))],
        1 => {
            let c = 1 + r.below(f.len() as u64 - 1) as usize;
            vec![format!("d:{}", hex(&f[..c])), "p".into(), format!("d:{}", hex(&f[c..]))]
        }
        2 => {
            // dribble through the length prefix and header, then the rest
            let k = 24.min(f.len());
            let mut v: Vec<String> = f[..k].iter().map(|b| format!("d:{:02x}", b)).collect();
            if k < f.len() {
                v.push(format!("d:{}", hex(&f[k..])));
            }
            v
        }
        3 => {
            // a long silence in the middle of the message (seconds of virtual time)
            let c = [1usize, 3, 4, 5, 19, 20, 21, 27][r.below(8) as usize].min(f.len() - 1);
            vec![format!("d:{}", hex(&f[..c])), format!("t:{}", [700u64, 1500, 31000][r.below(3) as usize]), format!("d:{}", hex(&f[c..]))]
        }
        _ => {
            let c = [1usize, 3, 4, 5, 19, 20, 21][r.below(7) as usize].min(f.len() - 1);
            vec![format!("d:{}", hex(&f[..c])), format!("d:{}", hex(&f[c..]))]
        }
    }
}

fn gen_c11(o: &mut Out, r: &mut Rng, d: &GDict, tier: &str) {
    let thorough = tier == "thorough";
    let mut uid = 5000u32;
    for n in 1..=5usize {
        let perms = permutations(n);
        let perms: Vec<Vec<usize>> = if n <= 3 || (thorough && n == 4) { perms } else { (0..(if thorough { 120 } else { 12 })).map(|_| r.pick(&perms).clone()).collect() };
        for perm in perms {
            for variant in 0..(if thorough { 48 } else { 8 }) {
                // distinct hop-by-hop ids (edge values included), request sizes
                let mut ids: Vec<u32> = vec![];
                while ids.len() < n {
                    let h = match r.below(6) {
                        0 => 0,
                        1 => 4294967295,
                        2 => 1 + ids.len() as u32,
                        // ids that collide with the first one when the key is narrowed, masked or reduced modulo a table size
                        3 if !ids.is_empty() => ids[0].wrapping_add(((1 + r.below(3)) as u32) << *r.pick(&[4u32, 6, 8, 10, 16, 24, 31])),
                        _ => r.next() as u32,
                    };
                    if !ids.contains(&h) {
                        ids.push(h);
                    }
                }
                let lens: Vec<usize> = (0..n).map(|_| *r.pick(&[0usize, 0, 5, 40, 300])).collect();
                let sizes: Vec<usize> = lens.iter().map(|l| request_size(*l)).collect();
                let total: usize = sizes.iter().sum();
                // the octet count at which request j's first octet is out
                let start = |j: usize| -> usize { sizes[..j].iter().sum::<usize>() + 1 };
                let eager = variant % 2 == 0;
                let mut rd: Vec<String> = vec![];
                let mut ans: Vec<String> = vec![];
                let mut gate = 0usize;
                for &j in &perm {
                    uid += 1;
                    let g = if eager { start(j) + [0usize, 3, 19][r.below(3) as usize].min(sizes[j] - 1) } else { total };
                    gate = gate.max(g);
                    rd.push(format!("w:{}", gate));
                    let f = answer_frame(r, d, ids[j], uid);
                    let sm = r.below(5); rd.extend(seg(r, &f, sm));
                    ans.push(format!("{}:{}", ids[j], uid));
                }
                rd.push(if variant % 3 == 0 { "e".into() } else { "s".to_string() });
                // client write script: deviation-bounded Pending / partial-write placements
                let wr = match variant % 8 {
                    0 => "a4,p,p,p".to_string(),
                    1 => "-".to_string(),
                    2 => "a1,p,a3,p,a16,p,p".to_string(),
                    3 => "p,p".to_string(),
                    4 => {
                        // a pause after the first octets of every request
                        let mut v = vec![];
                        for s in &sizes {
                            v.push("a1".to_string());
                            v.push("p".to_string());
                            v.push("p".to_string());
                            v.push(format!("a{}", s));
                        }
                        v.join(",")
                    }
                    5 => vec!["a7,p"; 12].join(","),
                    _ => random_wscript(r, total),
                };
                let sends: Vec<String> = (0..n).map(|i| format!("{}:{}", ids[i], lens[i])).collect();
                o.case(&format!("client n={} eager={} expect=all silent={}", n, eager as u8, (variant % 3 != 0) as u8));
                // (every fourth time the client object itself is dropped right after the sends - a helper that returns only
                // the futures: the connection, its reader and the futures live on, every answer still arrives)
                o.line(&format!("cli {} {} {} {} {}", sends.join(","), rd.join(","), wr, ans.join(","), if variant % 4 == 1 { "D" } else { "-" }));
            }
        }
    }
}

/// randomised multi-threaded runs over real TCP through `connect()` (supporting part of C11 / C12)
/// an identifier used again after its request was answered (never two in flight at once): each request gets its own
/// answer; the earlier futures have long completed - and are dropped - when the later answers arrive
fn gen_reuse(o: &mut Out, r: &mut Rng, d: &GDict, tier: &str, uid: &mut u32) {
    for k in 0..(if tier == "thorough" { 200 } else { 12 }) {
        let n = 2 + (k % 3) as usize;
        let x = if k % 4 == 0 { 7 } else { r.next() as u32 };
        let lens: Vec<usize> = (0..n).map(|_| *r.pick(&[0usize, 5, 40])).collect();
        let sizes: Vec<usize> = lens.iter().map(|l| request_size(*l)).collect();
        let sends: Vec<String> = (0..n).map(|i| if i == 0 { format!("{}:{}", x, lens[i]) } else { format!("{}:{}:60000", x, lens[i]) }).collect();
        let mut rd = vec![];
        let mut ans = vec![];
        let mut acc = 0;
        for i in 0..n {
            acc += sizes[i];
            *uid += 1;
            rd.push(format!("w:{}", acc));
            if i > 0 && k % 2 == 0 {
                // the later answers take their time: the earlier futures have been awaited and dropped by then
                rd.push("t:1000".into());
            }
            let f = answer_frame(r, d, x, *uid);
            let sm = r.below(5);
            rd.extend(seg(r, &f, sm));
            ans.push(format!("{}:{}", x, *uid));
        }
        rd.push(if k % 3 == 0 { "e".into() } else { "s".to_string() });
        o.case(&format!("client reuse n={} expect=all silent={}", n, (k % 3 != 0) as u8));
        o.line(&format!("cli {} {} - {} {}", sends.join(","), rd.join(","), ans.join(","), if k % 4 == 2 { "D" } else { "-" }));
    }
}

/// a request that cannot be encoded (the wire cannot carry one of its values) among ordinary ones: its `send_message`
/// fails, nothing of it reaches the stream, and the requests before and after it are answered as if it had never been tried
fn gen_badsend(o: &mut Out, r: &mut Rng, d: &GDict, tier: &str, uid: &mut u32) {
    for k in 0..(if tier == "thorough" { 200 } else { 16 }) {
        let n = 2 + (k % 3) as usize;
        let bad = k % n;
        let mut ids: Vec<u32> = vec![];
        while ids.len() < n {
            let h = r.next() as u32;
            if !ids.contains(&h) {
                ids.push(h);
            }
        }
        let lens: Vec<usize> = (0..n).map(|_| *r.pick(&[0usize, 5, 40])).collect();
        let sends: Vec<String> = (0..n).map(|i| if i == bad { format!("{}:{}:0:b", ids[i], lens[i]) } else { format!("{}:{}", ids[i], lens[i]) }).collect();
        let mut rd = vec![];
        let mut ans = vec![];
        let mut acc = 0;
        for i in 0..n {
            if i == bad {
                continue;
            }
            acc += request_size(lens[i]);
            *uid += 1;
            // answers come late (all requests are out) or eagerly (as soon as the request is)
            rd.push(format!("w:{}", if k % 2 == 0 { acc } else { (0..n).filter(|j| *j != bad).map(|j| request_size(lens[j])).sum() }));
            let f = answer_frame(r, d, ids[i], *uid);
            let sm = r.below(5);
            rd.extend(seg(r, &f, sm));
            ans.push(format!("{}:{}", ids[i], *uid));
        }
        rd.push(if k % 3 == 0 { "e".into() } else { "s".to_string() });
        o.case(&format!("client badsend n={} bad={} expect=good silent={}", n, bad, (k % 3 != 0) as u8));
        o.line(&format!("cli {} {} {} {} -", sends.join(","), rd.join(","), if k % 4 == 1 { "a3,p,a9,p" } else { "-" }, ans.join(",")));
    }
}

/// one client object attached to several connections one after the other (switch-over, reconnect): all of them share the
/// client's table of waiting requests. `clim <plan> <answers per connection> <stream>..`
fn gen_clim(o: &mut Out, r: &mut Rng, d: &GDict, tier: &str, uid: &mut u32) {
    let rounds = if tier == "thorough" { 150 } else { 6 };
    let ends = ["e", "f", "d:01000003ffffffff,e", "s"];
    for k in 0..rounds {
        let mut ids: Vec<u32> = vec![];
        while ids.len() < 6 {
            let h = if k % 3 == 0 { 100 + ids.len() as u32 } else { r.next() as u32 };
            if !ids.contains(&h) {
                ids.push(h);
            }
        }
        let len = |r: &mut Rng| *r.pick(&[0usize, 5, 40]);
        let mut ans = |r: &mut Rng, h: u32| -> (String, String) {
            *uid += 1;
            let f = answer_frame(r, d, h, *uid);
            let sm = r.below(5);
            (seg(r, &f, sm).join(","), format!("{}:{}", h, *uid))
        };
        // (1) switch-over: a request outstanding on connection 0 when connection 1 is attached and used
        for end0 in 0..3 {
            for answered0 in [false, true] {
                for late1 in [0u64, 5000] {
                    let (l1, l2) = (len(r), len(r));
                    let (a1, t1) = ans(r, ids[0]);
                    let (a2, t2) = ans(r, ids[1]);
                    let s0 = format!("w:{}{},{}", request_size(l1), if answered0 { format!(",{}", a1) } else { String::new() }, ends[end0]);
                    let s1 = format!("w:{},t:{},{},{}", request_size(l2), late1, a2, ends[(k + end0) % 4]);
                    o.case(&format!("multi switch end0={} answered0={} late1={}", end0, answered0 as u8, late1));
                    o.line(&format!("clim a,s{}:{},a,s{}:{} {};{} {}/- {}/-", ids[0], l1, ids[1], l2, if answered0 { t1 } else { "-".to_string() }, t2, s0, s1));
                }
            }
        }
        // (2) the answer to a request written to connection 0 arrives on connection 1 (the table is shared)
        {
            let l1 = len(r);
            let (a1, t1) = ans(r, ids[2]);
            o.case("multi cross");
            o.line(&format!("clim a,s{}:{},a,t100 -;{} s/- t:50,{},{}/-", ids[2], l1, t1, a1, ends[k % 4]));
        }
        // (3) the first connection ends before the second is attached: the table stays closed, later sends are refused
        {
            let (l1, l2) = (len(r), len(r));
            o.case("multi closed-stays");
            o.line(&format!("clim a,s{}:{},t1000,a,s{}:{},t1000,s{}:0 -;- w:{},{}/- s/-", ids[3], l1, ids[4], l2, ids[5], request_size(l1), ends[k % 3]));
        }
        // (4) a connection nobody reads from (no reader task for it), and a send before any connection exists
        {
            let (l1, l2) = (len(r), len(r));
            let (a1, t1) = ans(r, ids[0]);
            o.case("multi no-reader");
            o.line(&format!("clim s{}:0,a,s{}:{},A,s{}:{},t100 {};- w:{},{},s/- -/-", ids[5], ids[0], l1, ids[1], l2, t1, request_size(l1), a1));
        }
        // (5) random: two or three connections, one or two requests each, answered on their own connection
        for _ in 0..(if tier == "thorough" { 6 } else { 2 }) {
            let nconn = 2 + r.below(2) as usize;
            let mut plan: Vec<String> = vec![];
            let mut streams: Vec<String> = vec![];
            let mut answers: Vec<String> = vec![];
            let mut idn = 0;
            for c in 0..nconn {
                plan.push("a".into());
                let mut rd: Vec<String> = vec![];
                let mut al: Vec<String> = vec![];
                let mut acc = 0;
                for _ in 0..1 + r.below(2) {
                    let l = len(r);
                    acc += request_size(l);
                    plan.push(format!("s{}:{}", ids[idn % 6].wrapping_add(1000 * (idn as u32 / 6)), l));
                    if r.chance(3, 4) {
                        let (a, t) = ans(r, ids[idn % 6].wrapping_add(1000 * (idn as u32 / 6)));
                        rd.push(format!("w:{}", acc));
                        if r.chance(1, 3) {
                            rd.push(format!("t:{}", r.pick(&[10u64, 700, 4000])));
                        }
                        rd.push(a);
                        al.push(t);
                    }
                    idn += 1;
                }
                if r.chance(1, 3) {
                    plan.push(format!("t{}", r.pick(&[5u64, 900, 6000])));
                }
                rd.push(ends[(r.below(4)) as usize].to_string());
                streams.push(format!("{}/{}", rd.join(","), if c % 2 == 1 { "a5,p,a20" } else { "-" }));
                answers.push(if al.is_empty() { "-".to_string() } else { al.join(",") });
            }
            o.case(&format!("multi random conns={}", nconn));
            o.line(&format!("clim {} {} {}", plan.join(","), answers.join(";"), streams.join(" ")));
        }
    }
}

/// back-pressure in both directions: the stream takes the next request only after the client has read the answers the peer
/// has already sent (a peer that finishes its batch of answers before it reads on). Sender and reader must not wait for
/// each other.
fn gen_backpressure(o: &mut Out, r: &mut Rng, d: &GDict, tier: &str, uid: &mut u32) {
    for k in 0..(if tier == "thorough" { 120 } else { 10 }) {
        let n = 3 + (k % 3) as usize;
        let mut ids: Vec<u32> = vec![];
        while ids.len() < n {
            let h = r.next() as u32;
            if !ids.contains(&h) {
                ids.push(h);
            }
        }
        let lens: Vec<usize> = (0..n).map(|_| *r.pick(&[0usize, 5, 40, 300])).collect();
        let sizes: Vec<usize> = lens.iter().map(|l| request_size(*l)).collect();
        let total: usize = sizes.iter().sum();
        let sends: Vec<String> = (0..n).map(|i| format!("{}:{}", ids[i], lens[i])).collect();
        // the first n-1 requests go out freely and are answered in one burst; the last request finds no room until the
        // client has read the whole burst
        let first: usize = sizes[..n - 1].iter().sum();
        let mut rd = vec![format!("w:{}", first)];
        let mut ans = vec![];
        let mut burst = 0;
        for j in 0..n - 1 {
            *uid += 1;
            let f = answer_frame(r, d, ids[j], *uid);
            burst += f.len();
            rd.push(format!("d:{}", hex(&f)));
            ans.push(format!("{}:{}", ids[j], *uid));
        }
        *uid += 1;
        let f = answer_frame(r, d, ids[n - 1], *uid);
        rd.push(format!("w:{}", total));
        rd.push(format!("d:{}", hex(&f)));
        ans.push(format!("{}:{}", ids[n - 1], *uid));
        rd.push(if k % 2 == 0 { "e".into() } else { "s".to_string() });
        let mut wr: Vec<String> = sizes[..n - 1].iter().map(|s| format!("a{}", s)).collect();
        if k % 3 == 1 {
            wr.push("a3".into());
        }
        wr.push(format!("r{}", burst));
        o.case(&format!("client backpressure n={} expect=all silent={}", n, (k % 2 != 0) as u8));
        o.line(&format!("cli {} {} {} {} -", sends.join(","), rd.join(","), wr.join(","), ans.join(",")));
    }
}

fn gen_ctcp(o: &mut Out, r: &mut Rng, tier: &str, cuts: bool) {
    let thorough = tier == "thorough";
    let mut id = if cuts { 500 } else { 0 };
    if cuts {
        // a request that stays unanswered for half a minute of real time while the application goes on sending
        o.case("tcp n=2 gap=31");
        o.line("ctcp n=2 perm=0.1 eager=0 cut=- reset=0 id=499 gap=31");
        if thorough {
            o.case("tcp n=3 gap=65");
            o.line("ctcp n=3 perm=2.0.1 eager=0 cut=- reset=0 id=498 gap=65");
        }
    }
    for n in 1..=5usize {
        let perms = permutations(n);
        for _ in 0..(if thorough { 24 } else { 5 }) {
            let perm = r.pick(&perms).clone();
            let ps: Vec<String> = perm.iter().map(|x| x.to_string()).collect();
            id += 1;
            if !cuts {
                o.case(&format!("tcp n={} eager={}", n, id % 2));
                o.line(&format!("ctcp n={} perm={} eager={} cut=- reset=0 id={}", n, ps.join("."), id % 2, id));
            } else {
                let c = r.below((32 * n) as u64 + 1);
                o.case(&format!("tcp n={} cut={}", n, c));
                o.line(&format!("ctcp n={} perm={} eager=0 cut={} reset={} id={}", n, ps.join("."), c, id % 2, id));
            }
        }
    }
}

fn gen_c12(o: &mut Out, r: &mut Rng, d: &GDict, tier: &str, max_corpora: usize) {
    let thorough = tier == "thorough";
    if max_corpora > 2 {
        // very many requests outstanding when the reader stops (window sizes, table capacities: 2^16, 2^17 and a little more)
        for n in if thorough { vec![1000usize, 65536 + 3, 131072 + 5, 300000] } else { vec![300usize, 131072 + 5] } {
            o.case(&format!("flood n={}", n));
            o.line(&format!("cliflood {}", n));
        }
    }
    let mut uid = 9000u32;
    let n_corpus = (if thorough { 160 } else { 8 }).min(max_corpora);
    for ci in 0..n_corpus {
        let n = 1 + (ci % 4);
        let ids: Vec<u32> = (0..n).map(|i| 100 + 7 * i as u32 + (ci as u32) * 1000).collect();
        let lens: Vec<usize> = (0..n).map(|_| *r.pick(&[0usize, 5, 40])).collect();
        let total: usize = lens.iter().map(|l| request_size(*l)).sum();
        let sends: Vec<String> = (0..n).map(|i| format!("{}:{}", ids[i], lens[i])).collect();
        let mut frames: Vec<Vec<u8>> = vec![];
        let mut ans: Vec<String> = vec![];
        for &h in &ids {
            uid += 1;
            frames.push(answer_frame(r, d, h, uid));
            ans.push(format!("{}:{}", h, uid));
        }
        let stream: Vec<u8> = frames.concat();
        // (1) the answer stream cut at EVERY byte offset, ended by close / reset / garbage
        let mut boundaries = vec![0usize];
        for f in &frames {
            boundaries.push(boundaries.last().unwrap() + f.len());
        }
        for p in 0..=stream.len() {
            for end in 0..3 {
                // an undecodable continuation is spliced in at frame boundaries only (inside a frame the spliced octets
                // could complete a well-formed message, which the peer then did send)
                if end == 2 && !boundaries.contains(&p) {
                    continue;
                }
                let mut rd = vec![format!("w:{}", total)];
                if p > 0 {
                    if (p + end) % 2 == 0 {
                        rd.push(format!("d:{}", hex(&stream[..p])));
                    } else {
                        let c = p / 2;
                        if c > 0 {
                            rd.push(format!("d:{}", hex(&stream[..c])));
                        }
                        rd.push("p".into());
                        rd.push(format!("d:{}", hex(&stream[c..p])));
                    }
                }
                match end {
                    0 => rd.push("e".into()),
                    1 => rd.push("f".into()),
                    _ => {
                        // undecodable continuation: a length prefix announcing 3 octets
                        rd.push("d:01000003ffffffff".into());
                        rd.push("e".into());
                    }
                }
                // (`D`: the client object is dropped right after the sends; the reader task and the futures live on)
                let late = if p % 3 == 0 { (9000000 + p).to_string() } else if p % 3 == 1 { "D".to_string() } else { "-".to_string() };
                // `complete`: how many answers had arrived completely when the stream ended - no more futures than that may
                // hold an answer (what arrived in part was not sent)
                let complete = boundaries.iter().filter(|b| **b > 0 && **b <= p).count();
                o.case(&format!("client cut={} end={} n={} complete={} expect=any silent=0", p, end, n, complete));
                o.line(&format!("cli {} {} {} {} {}", sends.join(","), rd.join(","), if p % 2 == 0 { "-" } else { "a5,p,p" }, ans.join(","), late));
            }
        }
        // (1c) messages nobody asked for - requests of the peer's own (watchdog, re-auth), K of them in a row - in front of,
        // between or behind the answers, then the end of the stream: whatever the client makes of them, every future
        // completes
        if ci < 6 || thorough {
            for (fi, k) in [1usize, 2, 31, 32, 33, 40, 100, 300].iter().enumerate() {
                for place in 0..3 {
                    let mut rd = vec![format!("w:{}", total)];
                    let mut all: Vec<String> = vec![];
                    let flood: Vec<(Vec<u8>, String)> = (0..*k).map(|j| {
                        // (ids of their own, or ids one "tolerant" transformation away from an outstanding one: its octets in the
                        // other order, halves swapped, one bit off, the complement - an unmatched message matches nobody)
                        let o_id = ids[j % ids.len()];
                        // (the reader stops at the first message that matches nobody: which transformation comes first rotates)
                        let cand = match (j + 1 + place + fi) % 6 {
                            1 => o_id.swap_bytes(),
                            2 => o_id.rotate_left(16),
                            3 => o_id ^ 0x8000_0000,
                            4 => !o_id,
                            5 => o_id ^ 1,
                            _ => 880000 + (ci * 1000 + j) as u32,
                        };
                        let h = if ids.contains(&cand) { 880000 + (ci * 1000 + j) as u32 } else { cand };
                        uid += 1;
                        let m = GM { version: 1, flags: 0x80, cmd: [280u32, 258, 274][j % 3], app: 0, hbh: h, e2e: uid, avps: vec![] };
                        (m.encode(&mut None), format!("{}:{}", h, uid))
                    }).collect();
                    let cut = match place { 0 => 0, 1 => frames.len() / 2, _ => frames.len() };
                    for (i, f) in frames.iter().enumerate() {
                        if i == cut {
                            for (ff, a) in &flood {
                                rd.push(format!("d:{}", hex(ff)));
                                all.push(a.clone());
                            }
                        }
                        rd.push(format!("d:{}", hex(f)));
                        all.push(ans[i].clone());
                    }
                    if cut == frames.len() {
                        for (ff, a) in &flood {
                            rd.push(format!("d:{}", hex(ff)));
                            all.push(a.clone());
                        }
                    }
                    rd.push(if (fi + place) % 2 == 0 { "e".into() } else { "f".to_string() });
                    o.case(&format!("client unsolicited k={} place={} n={} expect=any silent=0", k, place, n));
                    o.line(&format!("cli {} {} - {} -", sends.join(","), rd.join(","), all.join(",")));
                    if *k <= 2 {
                        // ... and everything in ONE delivery (a reader that takes several messages out of one read must
                        // still treat them one by one, in order)
                        let joined: String = rd[1..rd.len() - 1].iter().map(|e| e.trim_start_matches("d:").to_string()).collect::<Vec<_>>().join("");
                        o.line(&format!("cli {} {},d:{},{} - {} -", sends.join(","), rd[0], joined, rd[rd.len() - 1], all.join(",")));
                    }
                }
            }
        }
        // (1d) the last request cannot be written out (the peer has stopped reading: no room, for ever) when the connection
        // ends or goes wrong on the reading side: the futures of the earlier requests - and of the stalled one - complete
        if n >= 2 && (ci < 6 || thorough) {
            for end in ["e", "f", "d:01000003ffffffff,e"] {
                for answered in [0usize, 1] {
                    let first: usize = lens[..n - 1].iter().map(|l| request_size(*l)).sum();
                    let mut wv: Vec<String> = lens[..n - 1].iter().map(|l| format!("a{}", request_size(*l))).collect();
                    wv.push(format!("a{}", [1usize, 7, 19][ci % 3]));
                    wv.push("r99999999".into());
                    let mut rd = vec![format!("w:{}", first + 1)];
                    for f in frames.iter().take(answered) {
                        rd.push(format!("d:{}", hex(f)));
                    }
                    rd.push("t:1000".into());
                    rd.push(end.to_string());
                    o.case(&format!("client stalled-send n={} answered={} expect=any silent=0", n, answered));
                    o.line(&format!("cli {} {} {} {} -", sends.join(","), rd.join(","), wv.join(","), if answered > 0 { ans[..answered].join(",") } else { "-".to_string() }));
                }
            }
        }
        // (2) one corrupted answer at every position (unknown command code; unknown AVP; oversized announcement)
        for k in 0..n {
            for kind in 0..3 {
                let mut fr = frames.clone();
                match kind {
                    0 => fr[k][5] = 0x7f,
                    1 => fr[k][1] = 0x40,
                    _ => {
                        let l = fr[k].len();
                        if l >= 28 {
                            fr[k][20..24].copy_from_slice(&[0, 0, 0x30, 0x39]);
                        } else {
                            fr[k][8] = 0x55;
                        }
                    }
                }
                let s2: Vec<u8> = fr.concat();
                o.case(&format!("client corrupt={} kind={} n={} expect=any silent=0", k, kind, n));
                o.line(&format!("cli {} w:{},d:{},s {} {} {}", sends.join(","), total, hex(&s2), "-", ans[..k].join(",").to_string() + if k == 0 { "-" } else { "" }, 777));
            }
        }
        // (3) an unmatched answer (id nobody asked for) / a duplicate answer, at every position
        for k in 0..=n {
            for dup in [false, true] {
                if dup && k == 0 {
                    continue;
                }
                uid += 1;
                let hid = if dup { ids[k - 1] } else { 4000000 + k as u32 };
                let extra = answer_frame(r, d, hid, uid);
                let mut fr: Vec<Vec<u8>> = frames[..k].to_vec();
                fr.push(extra);
                fr.extend(frames[k..].iter().cloned());
                let mut a2: Vec<String> = ans[..k].to_vec();
                a2.push(format!("{}:{}", hid, uid));
                o.case(&format!("client unmatched={} dup={} n={} expect=any silent=0", k, dup as u8, n));
                o.line(&format!("cli {} w:{},d:{},s {} {} {}", sends.join(","), total, hex(&fr.concat()), "p,a9", a2.join(","), 888));
            }
        }
        // (4) a newer request with the same identifier supersedes the older waiter
        if n >= 2 {
            let mut s2 = sends.clone();
            s2[n - 1] = format!("{}:{}", ids[0], lens[n - 1]);
            uid += 1;
            let f = answer_frame(r, d, ids[0], uid);
            o.case(&format!("client superseded n={} expect=any silent=1", n));
            o.line(&format!("cli {} w:{},d:{},s - {}:{} -", s2.join(","), total, hex(&f), ids[0], uid));
            o.case(&format!("client superseded-then-close n={} expect=any silent=0", n));
            o.line(&format!("cli {} w:{},d:{},e - {}:{} 55", s2.join(","), total, hex(&f), ids[0], uid));
        }
        if n >= 2 {
            // ... and the connection ends (or stays silent) before any further message is decoded: the superseded
            // future must fail all the same
            let mut s2 = sends.clone();
            s2[n - 1] = format!("{}:{}", ids[0], lens[n - 1]);
            for (end, silent) in [("e", 0), ("f", 0), ("s", 1)] {
                o.case(&format!("client superseded-nomsg end={} n={} expect=any silent={}", end, n, silent));
                o.line(&format!("cli {} w:{},{} - - {}", s2.join(","), total, end, if silent == 1 { "-".to_string() } else { "57".to_string() }));
            }
        }
        // (5) a silent, open peer: pending is the right answer, and only then
        o.case(&format!("client silent n={} expect=any silent=1", n));
        o.line(&format!("cli {} w:{},d:{},s - {} -", sends.join(","), total, hex(&frames[0]), ans[0]));
        // (6) the peer closes before anything was sent / while the first request is half written
        o.case(&format!("client early-close n={} expect=any silent=0", n));
        o.line(&format!("cli {} e - - 66", sends.join(",")));
        // ... the application then tries to connect again, in vain, and sends: still no future that hangs
        o.case(&format!("client reconnect-fails n={} expect=any silent=0", n));
        o.line(&format!("cli {} w:{},e - - c69", sends.join(","), total));
        o.case(&format!("client reconnect-fails-answered n={} expect=any silent=0", n));
        o.line(&format!("cli {} w:{},d:{},e - {} c70", sends.join(","), total, hex(&frames[0]), ans[0]));
        o.case(&format!("client close-mid-write n={} expect=any silent=0", n));
        o.line(&format!("cli {} w:3,e a3,p,p,p,a2,p - 67", sends.join(",")));
        // (7) the write side fails in the k-th send (at its first octet, after one octet, or half way) while the
        // earlier requests are outstanding; the reader learns of the dead connection afterwards (close / reset), with
        // or without some answers delivered first. Every future handed out must still complete.
        for k in 0..n {
            let before: usize = lens[..k].iter().map(|l| request_size(*l)).sum();
            for j in [0usize, 1, request_size(lens[k]) / 2] {
                for (ei, end) in ["e", "f"].iter().enumerate() {
                    let acc = before + j;
                    // one accept event per write call: the earlier requests whole, then j octets of the k-th
                    let mut wv: Vec<String> = lens[..k].iter().map(|l| format!("a{}", request_size(*l))).collect();
                    if j > 0 {
                        wv.push(format!("a{}", j));
                    }
                    wv.push("f".into());
                    let wr = wv.join(",");
                    let deliver = if k > 0 && (j + ei) % 2 == 0 { 1 } else { 0 };
                    let mut rd = vec![format!("w:{}", acc)];
                    if deliver > 0 {
                        rd.push(format!("d:{}", hex(&frames[0])));
                    }
                    rd.push(end.to_string());
                    o.case(&format!("client write-fail k={} j={} n={} expect=any silent=0", k, j, n));
                    o.line(&format!("cli {} {} {} {} {}", sends.join(","), rd.join(","), wr, if deliver > 0 { ans[0].clone() } else { "-".to_string() }, 68));
                }
            }
        }
    }
}

/* ---------- dictionary families ---------- */

const TYPE_SPELLINGS: [&str; 36] = [
    // (near misses of the documented names: same head, length and last octet; the API's own spellings; a blank too many)
    "AddressIPv6", "Unsigned24", "DiameterAPI", "OctetStrong", "Integer23", "UTF8Strong", "DiameterIdentify", "Enumeratad", "Unsigned32 ", " Grouped", "Float16", "Group",
    "Address", "IPv4", "IPv6", "DiameterIdentity", "DiameterURI", "Enumerated", "Float32", "Float64", "Grouped", "Integer32", "Integer64",
    "OctetString", "Time", "Unsigned32", "Unsigned64", "UTF8String", "Foo", "utf8string", "UTF8String2", "", "IPFilterRule", "Unsigned16",
    "Identity", "AddressIPv4",
];
const MUSTS: [Option<&str>; 13] = [None, Some("M"), Some("V,M"), Some("M,V"), Some("-"), Some("P,M,V"), Some(""), Some("m"), Some("MV"), Some("V"), Some("V,P"), Some("M,M"), Some(",M,")];

fn doc_avp_line(name: &str, code: u32, vendor: Option<u32>, must: Option<&str>, ty: &str) -> String {
    format!(
        "avp {} {} {} {} {}",
        hexd(name.as_bytes()),
        code,
        vend(vendor),
        match must {
            Some(m) => hexd(m.as_bytes()),
            None => "~".into(),
        },
        hexd(ty.as_bytes())
    )
}

fn gen_c14(o: &mut Out, r: &mut Rng, tier: &str) {
    let thorough = tier == "thorough";
    // the key universe contains pairs that collide under common key packings (xor / sum of code and vendor, code or
    // vendor narrowed to 16 bits, "no vendor" encoded as 0 or as 2^32-1); every history works on a small random part
    // of it so that redefinitions of the same key stay frequent
    let all_codes = [0u32, 1, 2, 3, 65537, 65539, 4294967295];
    let all_vendors = [None, Some(0u32), Some(1), Some(2), Some(3), Some(5), Some(65541), Some(10415), Some(4294967295)];
    // (names that differ only in case or in a trailing blank are different names)
    let names = ["A", "a", "B", "C", "Twin", "twin", "Sess-Id", "Sess-Id ", "名前 x"];
    // (an application and a command may carry the same name: "Accounting" is both in RFC 6733 - two tables, two namespaces)
    let app_names = ["App A", "app a", "App B", "Base", "CC", "Cmd-A", "App A Application", "App-A", "Base "];
    // (names that differ by what a "helpful" normalisation would remove: the RFC's -Request / -Answer endings, case, blanks)
    let cmd_names = ["Cmd-A", "cmd-a", "Cmd-B", "CC", "CC ", "Base", "App A", "Cmd-A-Request", "Cmd-A-Answer", "Cmd-B-Answer", "CC-Request"];
    // a document (its lines without the closing `doc_end`); kept by the history so that the very same document can be
    // supplied again later - the latest supply wins, also when its text was seen before
    let rand_doc = |r: &mut Rng, codes: &[u32], vendors: &[Option<u32>]| -> Vec<String> {
        let mut ls = vec!["doc_begin".to_string()];
        for _ in 0..1 + r.below(2) {
            ls.push(format!("app {} {}", r.pick(&APPS), hexd(r.pick(&app_names).as_bytes())));
            for _ in 0..r.below(3) {
                ls.push(format!("cmd {} {}", r.pick(&CMDS), hexd(r.pick(&cmd_names).as_bytes())));
            }
            for _ in 0..r.below(5) {
                { let n: &str = *r.pick(&names); let t: &str = *r.pick(&TYPE_SPELLINGS); ls.push(doc_avp_line(n, *r.pick(codes), *r.pick(vendors), *r.pick(&MUSTS), t)); }
            }
        }
        ls
    };
    // codes at the edges of every table size someone might choose (2^k - 1, 2^k, 2^k + 1), without and with a vendor, added
    // one by one and through a document, into an empty dictionary and on top of the built-in one: each is found under
    // exactly its pair, and its neighbours are not
    for (mode, base) in [(0, 0), (1, 0), (0, 1), (1, 1)] {
        o.case(&format!("boundary codes mode={} base={}", mode, base));
        o.line("dreset");
        if base == 1 {
            o.line("dbuiltin");
        }
        let mut keys: Vec<(u32, Option<u32>)> = vec![];
        for k in 3..=32u32 {
            let p: u64 = 1 << k;
            for c in [p - 1, p, p + 1] {
                if c <= 4294967295 && !keys.iter().any(|x: &(u32, Option<u32>)| x.0 == c as u32) {
                    keys.push((c as u32, None));
                    keys.push((c as u32, Some(*r.pick(&[0u32, 1, 10415, 4294967295]))));
                }
            }
        }
        if mode == 1 {
            o.line("doc_begin");
            o.line(&format!("app 4 {}", hexd(b"Edges")));
        }
        for (i, (c, v)) in keys.iter().enumerate() {
            let name = format!("Edge-{}-{}", c, i);
            if mode == 0 {
                o.line(&format!("dadd {} {} {} {} {}", c, vend(*v), hexd(name.as_bytes()), ty_name(i % 16), i % 2));
            } else {
                o.line(&doc_avp_line(&name, *c, *v, if i % 2 == 1 { Some("M") } else { Some("-") }, ty_name(i % 16)));
            }
        }
        if mode == 1 {
            o.line("doc_end load");
        }
        for (c, v) in &keys {
            o.line(&format!("dget {} {}", c, vend(*v)));
            o.line(&format!("dget {} {}", c, vend(if v.is_none() { Some(77) } else { Some(v.unwrap() ^ 1) })));
            o.line(&format!("dtype {} {}", c, vend(*v)));
            o.line(&format!("dname {} {}", c, vend(*v)));
        }
        for c in [5u32, 6, 10, 1022, 1026, 5000, 70000, 4294967290] {
            o.line(&format!("dget {} -", c));
        }
    }
    let n_hist = if thorough { 20000 } else { 500 };
    for _ in 0..n_hist {
        o.case("dict-history");
        o.line("dreset");
        let mut codes: Vec<u32> = vec![];
        while codes.len() < 3 {
            let c = *r.pick(&all_codes);
            if !codes.contains(&c) {
                codes.push(c);
            }
        }
        let mut vendors: Vec<Option<u32>> = vec![None];
        while vendors.len() < 4 {
            let v = *r.pick(&all_vendors);
            if !vendors.contains(&v) {
                vendors.push(v);
            }
        }
        let (codes, vendors) = (&codes[..], &vendors[..]);
        let steps = 1 + r.below(if thorough { 30 } else { 12 });
        let mut docs: Vec<Vec<String>> = vec![];
        for _ in 0..steps {
            match r.below(12) {
                0..=4 => {
                    let ty = r.below(17) as usize;
                    o.line(&format!("dadd {} {} {} {} {}", r.pick(codes), vend(*r.pick(vendors)), hexd(r.pick(&names).as_bytes()), ty_name(ty), r.below(2)));
                }
                5..=7 => {
                    let dl = rand_doc(r, codes, vendors);
                    o.lines(&dl);
                    // (now and then the text starts with a byte-order mark, as a file saved "UTF-8 with BOM" reads)
                    o.line(if r.chance(1, 4) { "doc_end load bom" } else { "doc_end load" });
                    docs.push(dl);
                }
                8 | 9 if !docs.is_empty() => {
                    // an earlier document of this history once more, verbatim
                    let dl = r.pick(&docs).clone();
                    o.lines(&dl);
                    o.line("doc_end load");
                }
                _ => {
                    for _ in 0..r.below(4) {
                        let dl = if !docs.is_empty() && r.chance(1, 4) { r.pick(&docs).clone() } else { rand_doc(r, codes, vendors) };
                        o.lines(&dl);
                        o.line("doc_end stash");
                        docs.push(dl);
                    }
                    o.line("dconstruct");
                }
            }
            // this history's keys after every step, and the keys that would collide with them under a packed key
            for c in codes {
                for v in vendors {
                    o.line(&format!("dget {} {}", c, vend(*v)));
                }
            }
            for c in all_codes {
                for v in all_vendors {
                    if !(codes.contains(&c) && vendors.contains(&v)) && (codes.contains(&c) || vendors.contains(&v) || r.chance(1, 4)) {
                        o.line(&format!("dget {} {}", c, vend(v)));
                    }
                }
            }
            for n in names {
                o.line(&format!("dbyname {}", hexd(n.as_bytes())));
            }
            o.line(&format!("dbyname {}", hexd(b"absent")));
            for n in app_names {
                o.line(&format!("dapp {}", hexd(n.as_bytes())));
            }
            for n in cmd_names {
                o.line(&format!("dcmd {}", hexd(n.as_bytes())));
            }
            // names nobody declared, one "normalisation" away from declared ones
            for n in ["Cmd-B-Request", "Cmd-A-", "CC-Answer", "cmd-a-request", "Base-Request"] {
                o.line(&format!("dcmd {}", hexd(n.as_bytes())));
            }
            for n in ["App B Application", "app b", "Base-Application"] {
                o.line(&format!("dapp {}", hexd(n.as_bytes())));
            }
        }
    }
}

/// documents of hundreds (thorough: thousands) of definitions, loaded into dictionaries that are smaller, larger, empty:
/// latest wins whatever the sizes involved
fn gen_big_documents(o: &mut Out, r: &mut Rng, tier: &str) {
    let thorough = tier == "thorough";
    let plans: Vec<Vec<usize>> = if thorough {
        vec![vec![40, 20, 300, 260, 301], vec![255, 256, 257], vec![1000, 3000, 999], vec![10, 5000, 10, 4000]]
    } else {
        vec![vec![40, 20, 300, 260, 301], vec![255, 256, 257]]
    };
    for plan in plans {
        o.case(&format!("big documents {:?}", plan));
        o.line("dreset");
        let query = |o: &mut Out, r: &mut Rng, upto: u32| {
            for c in (7000..7045).chain([8000 + upto / 2, 8000 + upto - 1, 8000 + upto]) {
                o.line(&format!("dget {} -", c));
                if c % 7 == 0 {
                    o.line(&format!("dget {} 5", c));
                }
            }
            for gen in 0..6 {
                let c = 7000 + r.below(45);
                o.line(&format!("dbyname {}", hexd(format!("D{}-{}", gen, c).as_bytes())));
            }
        };
        for (gen, n) in plan.iter().enumerate() {
            // every document re-declares a stretch of the codes 7000.. (under a new name and type) and brings new codes
            o.line("doc_begin");
            o.line(&format!("app 4 {}", hexd(b"Big")));
            let redeclared = (*n as u32).min(30 + 3 * gen as u32);
            for k in 0..*n as u32 {
                let code = if k < redeclared { 7000 + k } else { 8000 + k };
                let ty = ["Unsigned32", "UTF8String", "OctetString", "Integer32", "Unsigned64", "Enumerated"][(gen + k as usize) % 6];
                o.line(&doc_avp_line(&format!("D{}-{}", gen, code), code, if k % 11 == 10 { Some(5) } else { None }, if k % 2 == 0 { Some("M") } else { None }, ty));
            }
            o.line("doc_end load");
            query(o, r, *n as u32);
            // a single definition put in by hand between the documents
            o.line(&format!("dadd {} - {} Unsigned32 1", 7040 + gen, hexd(format!("Hand-{}", gen).as_bytes())));
            query(o, r, *n as u32);
        }
    }
}

/// dictionary objects are independent of each other: what is put into the library's process-wide default dictionary
/// (or into any other object) is not in a dictionary built afterwards from the built-in document, and vice versa.
/// Queries stay inside a reserved key / name universe that the built-in document does not touch, so the model needs no
/// copy of that document (its `dbuiltin` is an empty dictionary).
fn gen_dict_objects(o: &mut Out) {
    o.case("objects");
    o.line("dreset");
    o.line(&format!("dadd 900001 424242 {} UTF8String 1", hexd(b"Leak-Local")));
    o.line(&format!("gdadd 900002 424242 {} Unsigned32 1", hexd(b"Leak-Global")));
    o.line(&format!("gdadd 900003 - {} OctetString 0", hexd(b"Leak-Global-2")));
    for round in 0..2 {
        o.line("dbuiltin");
        for (c, v) in [(900001u32, "424242"), (900002, "424242"), (900003, "-"), (900004, "424242")] {
            o.line(&format!("dget {} {}", c, v));
        }
        for n in ["Leak-Local", "Leak-Global", "Leak-Global-2", "Leak-Later"] {
            o.line(&format!("dbyname {}", hexd(n.as_bytes())));
        }
        // a frame carrying one of them must not decode under the new object
        let mut m = GM { version: 1, flags: 0x80, cmd: 272, app: 4, hbh: 1, e2e: 2, avps: vec![] };
        m.avps.push(GA { code: 900002, vendor: Some(424242), flags: 0x40, v: GV::U32(10) });
        o.line(&format!("dec {}", hex(&m.encode(&mut None))));
        if round == 0 {
            // ... and a definition added to this object does not show in the next one either
            o.line(&format!("dadd 900004 424242 {} UTF8String 0", hexd(b"Leak-Later")));
            o.line(&format!("gdadd 900004 424242 {} UTF8String 0", hexd(b"Leak-Later")));
        }
    }
}

/// a plausible value of a type name as the library understands it (used to fill the AVP on the wire)
fn value_for(r: &mut Rng, ty: usize) -> GV {
    if ty == T_GROUPED {
        GV::Grp(vec![])
    } else if ty < 16 {
        leaf(r, ty, Some(4))
    } else {
        GV::Oct(vec![0, 0, 0, 7])
    }
}

fn gen_c15(o: &mut Out, r: &mut Rng, _tier: &str, extra: &[String]) {
    // (A) exhaustive table: type-name spelling x entry scope x wire vendor x presence of other-vendor twins
    // (vendor id 0 is a vendor id; code 264 is Origin-Host in RFC 6733 - here it is whatever the dictionary says)
    let scopes = [None, Some(0u32), Some(5u32), Some(6u32)];
    for (ti, tn) in TYPE_SPELLINGS.iter().enumerate() {
        let tn = *tn;
        let ty = TY_NAMES.iter().position(|x| *x == tn).unwrap_or(16);
        for scope in scopes {
            for twins in [false, true] {
                let tcode: u32 = [500u32, 264, 263, 296, 283, 293][(ti + twins as usize) % 6];
                o.case(&format!("table type={:?} entry={} twins={} code={}", tn, vend(scope), twins, tcode));
                o.line("dreset");
                o.line("doc_begin");
                o.line(&format!("app 4 {}", hexd(b"T")));
                // (enumeration items under the data element are documentation: they never change the type)
                if twins {
                    // the pair is declared twice in the same document, first with another (recognised) type: the later
                    // declaration is the one in force - also when its type name is not one the library knows
                    o.line(&doc_avp_line("X-Earlier", tcode, scope, None, if tn == "UTF8String" { "Unsigned32" } else { "UTF8String" }));
                }
                o.line(&format!("{} {}", doc_avp_line("X", tcode, scope, Some("M"), tn), if twins { 2 } else { 0 }));
                if twins {
                    // the same code under other vendors, typed differently, and a neighbouring code
                    for other in [Some(7u32), Some(4294967295)] {
                        o.line(&doc_avp_line("Other", tcode, other, None, "UTF8String"));
                    }
                    o.line(&doc_avp_line("Next", tcode + 1, scope, None, "Unsigned32"));
                }
                // groups to put the AVP in: vendor-less, and under each of the scoping vendors
                o.line(&doc_avp_line("G0", 600, None, None, "Grouped"));
                o.line(&doc_avp_line("G5", 601, Some(5), None, "Grouped"));
                o.line(&doc_avp_line("G6", 602, Some(6), None, "Grouped"));
                o.line("doc_end load");
                for (wire, fl) in [(None, 0x40u8), (Some(0u32), 0x40), (Some(5u32), 0x40), (Some(6u32), 0x40), (Some(7u32), 0x40), (None, 0), (Some(0), 0), (Some(5), 0), (Some(6), 0x20), (Some(7), 0), (None, 0x20), (None, 0x60), (Some(0), 0x60), (Some(5), 0x20), (Some(6), 0x60)] {
                    // (with and without the M bit: "optional" is no licence to guess either)
                    let mut m = header(r);
                    let a = GA { code: tcode, vendor: wire, flags: fl, v: value_for(r, ty) };
                    m.avps.push(a.clone());
                    o.line(&format!("dec {}", hex(&m.encode(&mut None))));
                    o.line(&format!("dget {} {}", tcode, vend(wire)));
                    // a neighbour with the same code under another vendor (with or without an entry of its own) in front of
                    // it or behind it, at top level and inside a group: every AVP is typed by its own entry alone
                    for nb in [None, Some(0u32), Some(5u32), Some(6u32), Some(7u32)] {
                        if nb == wire {
                            continue;
                        }
                        let b = GA { code: tcode, vendor: nb, flags: 0x40, v: GV::Oct(vec![0x61, 0x62, 0x63, 0x64]) };
                        for pair in [vec![a.clone(), b.clone()], vec![b.clone(), a.clone()]] {
                            let mut m = header(r);
                            m.avps = pair.clone();
                            o.line(&format!("dec {}", hex(&m.encode(&mut None))));
                            let mut m = header(r);
                            m.avps.push(GA { code: 600, vendor: None, flags: 0x40, v: GV::Grp(pair) });
                            o.line(&format!("dec {}", hex(&m.encode(&mut None))));
                        }
                    }
                    // nested inside a group too: the enclosing group's vendor must not lend itself to the member,
                    // directly or through a vendor-less group in between
                    for (gc, gv) in [(600u32, None), (601, Some(5u32)), (602, Some(6u32))] {
                        let mut m = header(r);
                        m.avps.push(GA { code: gc, vendor: gv, flags: 0x40, v: GV::Grp(vec![a.clone()]) });
                        o.line(&format!("dec {}", hex(&m.encode(&mut None))));
                        if gv.is_some() {
                            let inner = GA { code: 600, vendor: None, flags: 0x40, v: GV::Grp(vec![a.clone()]) };
                            let mut m = header(r);
                            m.avps.push(GA { code: gc, vendor: gv, flags: 0x40, v: GV::Grp(vec![inner]) });
                            o.line(&format!("dec {}", hex(&m.encode(&mut None))));
                        }
                    }
                }
            }
        }
    }
    // (B) the shipped dictionaries, read independently from the XML: every definition is found under its exact key
    // and name; every definition with a recognised type encodes and decodes a value of its type; the others are refused
    for p in extra {
        let (lines, d) = load_defs_file(p);
        o.case(&format!("dictionary {}", p));
        o.line("dreset");
        o.lines(&lines);
        // "every AVP definition of which loads": each <avp> element of a shipped document, not only the last one per
        // key, must be live after loading (a later element that re-declares the key differently un-loads the earlier)
        if !p.contains('+') {
            for e in load_defs_elements(p) {
                o.case(&format!("element name={} ty={} m={}", hexd(e.name.as_bytes()), if e.ty < 16 { TY_NAMES[e.ty] } else { "Unknown" }, e.m as u8));
                o.line(&format!("dget {} {}", e.code, vend(e.vendor)));
            }
        }
        // every grouped definition of a shipped document with a member the dictionary has no entry for (M clear, M set; no
        // vendor, the group's vendor): the group is no licence to guess what the member is
        for g in d.defs.iter().filter(|x| x.ty == T_GROUPED) {
            o.case(&format!("shipped group {} {} with unknown member", g.code, vend(g.vendor)));
            for (mv, fl) in [(None, 0u8), (None, 0x40), (g.vendor.or(Some(10415)), 0), (Some(99999), 0x20)] {
                let unk = GA { code: 70000, vendor: mv, flags: fl, v: GV::Oct(vec![1, 2, 3, 4]) };
                let mut m = header(r);
                m.avps.push(GA { code: g.code, vendor: g.vendor, flags: 0x40, v: GV::Grp(vec![unk]) });
                o.line(&format!("dec {}", hex(&m.encode(&mut None))));
            }
        }
        for def in &d.defs {
            o.case(&format!("shipped {} {}", def.code, vend(def.vendor)));
            o.line(&format!("dget {} {}", def.code, vend(def.vendor)));
            o.line(&format!("dget {} {}", def.code, vend(match def.vendor { Some(_) => None, None => Some(10415) })));
            o.line(&format!("dbyname {}", hexd(def.name.as_bytes())));
            let mut m = header(r);
            if def.ty < 16 {
                m.avps.push(avp_of(r, &d, def, 1, 2));
                let mut ls = vec![];
                m.ops(r, &mut ls);
                o.lines(&ls);
                o.line("rt");
            } else {
                m.avps.push(GA { code: def.code, vendor: def.vendor, flags: 0, v: GV::Oct(vec![1, 2, 3, 4]) });
                o.line(&format!("dec {}", hex(&m.encode(&mut None))));
            }
        }
    }
}

/// values within a few octets of the 24-bit AVP length limit, built by name: a vendor-less definition has an 8-octet header, a
/// vendor definition a 12-octet one, and both may be filled to the last octet (AVP Length 0xffffff at most)
fn gen_c16_big(o: &mut Out, d: &GDict) {
    let defs: Vec<&GDef> = [None, Some(99u32)].iter().filter_map(|v| d.defs.iter().find(|x| x.ty == T_OCT && x.vendor == *v && d.unique_name(x))).collect();
    for def in defs {
        let hl = if def.vendor.is_some() { 12usize } else { 8 };
        for n in [16777215 - hl - 4, 16777215 - hl - 1, 16777215 - hl, 16777215 - hl + 1] {
            o.case(&format!("big by name vendor={} value={}", vend(def.vendor), n));
            o.line("new 272 4 0 1 2");
            o.line("clear");
            o.line(&format!("val octn {} 41", n));
            o.line(&format!("avp_name {}", hexd(def.name.as_bytes())));
            o.line("vlen");
            o.line("clear");
        }
    }
}

/// the definition `values().find(name)` meets first in key order (all vendor-less keys sort before vendor keys)
fn first_by_name<'a>(d: &'a GDict, name: &str) -> Option<&'a GDef> {
    d.defs.iter().filter(|x| x.name == name).min_by_key(|x| (x.vendor.is_some(), x.code, x.vendor.unwrap_or(0)))
}

fn gen_c16(o: &mut Out, r: &mut Rng, tier: &str, extra: &[String]) {
    let thorough = tier == "thorough";
    // dictionary *histories*: names that were retired by re-declaring their slot, names moved to another slot, twins;
    // after every dictionary step every name of the universe is used to build an AVP
    {
        let codes = [1u32, 2, 3];
        let vendors = [None, Some(0u32), Some(5)];
        let names = ["A", "B", "C", "Twin"];
        for _ in 0..(if thorough { 20000 } else { 300 }) {
            o.case("retired names");
            o.line("dreset");
            o.line("new 272 4 0 1 2");
            o.line("clear");
            for _ in 0..2 + r.below(6) {
                // unique-name discipline is NOT kept here on purpose; by-name picks are compared through the model's
                // first-in-key-order rule, and a name no live definition carries must fail
                let ty = *r.pick(&[T_U32, T_UTF8, T_OCT, T_I32]);
                o.line(&format!("dadd {} {} {} {} {}", r.pick(&codes), vend(*r.pick(&vendors)), hexd(r.pick(&names).as_bytes()), ty_name(ty), r.below(2)));
                // a copy of the dictionary as it was a moment ago answers from what IT holds (an application keeps one for the
                // messages in flight), the current one from what it holds now - in either order of asking
                if r.chance(1, 3) {
                    let (n1, n2) = (*r.pick(&names), *r.pick(&names));
                    o.line("freeze");
                    o.line(&format!("dadd {} {} {} {} {}", r.pick(&codes), vend(*r.pick(&vendors)), hexd(format!("Only-New-{}", r.below(3)).as_bytes()), ty_name(T_U32), r.below(2)));
                    for n in [n1, "Only-New-0", n2, "Only-New-1"] {
                        if r.chance(1, 2) {
                            o.line(&format!("parname 1 {}", hexd(n.as_bytes())));
                            o.line(&format!("fbyname {}", hexd(n.as_bytes())));
                        } else {
                            o.line(&format!("fbyname {}", hexd(n.as_bytes())));
                            o.line(&format!("parname 1 {}", hexd(n.as_bytes())));
                        }
                    }
                }
                // the dictionary object is fresh now: several threads look names up in it at the same moment
                for n in names.iter().take(2) {
                    o.line(&format!("parname 8 {}", hexd(n.as_bytes())));
                }
                // a message holds the dictionary it was created with: create it after the dictionary changed
                o.line("new 272 4 0 1 2");
                for n in names {
                    o.line("enc");
                    o.line("len");
                    o.line("dump");
                    o.line("val u32 7");
                    o.line(&format!("add_by_name {}", hexd(n.as_bytes())));
                    o.line("dump");
                    o.line("new 272 4 0 1 2");
                }
            }
        }
    }
    let mut dicts: Vec<(String, GDict, Vec<String>)> = vec![("dict0".into(), dict0(), vec![])];
    for i in 0..(if thorough { 10 } else { 3 }) {
        let mut d = rand_dict(r, 30);
        // vendor id 0 and the maximal vendor id are ordinary vendor ids
        d.add(GDef { code: 900 + i, vendor: Some(0), name: format!("VendorZero{}", i), ty: T_U32, m: true });
        d.add(GDef { code: 901 + i, vendor: Some(4294967295), name: format!("VendorMax{}", i), ty: T_UTF8, m: false });
        dicts.push((format!("rand{}", i), d, vec![]));
    }
    for p in extra {
        let (lines, d) = load_defs_file(p);
        dicts.push((p.clone(), d, lines));
    }
    for (i, (name, d, lines)) in dicts.iter().enumerate() {
        o.case(&format!("dictionary {}", name));
        if !lines.is_empty() {
            o.line("dreset");
            o.lines(lines);
        } else if i % 2 == 1 {
            o.line("dreset");
            emit_doc(o, d, "load");
        } else {
            emit_dict(o.w, d);
        }
        // every name an <avp> element of a shipped document declares can be used (a later element must not un-declare it)
        if !lines.is_empty() && !name.contains('+') {
            for e in load_defs_elements(name) {
                if e.ty >= 16 {
                    continue;
                }
                o.case(&format!("element code={} vendor={} m={}", e.code, vend(e.vendor), e.m as u8));
                let val = if e.ty == T_GROUPED { GV::Grp(vec![]) } else { leaf(r, e.ty, None) };
                let mut ls = vec![];
                val.ops(r, &mut ls);
                o.lines(&ls);
                o.line(&format!("avp_name {}", hexd(e.name.as_bytes())));
                o.line("clear");
            }
        }
        // every name of the dictionary (exhaustive)
        let mut names: Vec<String> = d.defs.iter().map(|x| x.name.clone()).collect();
        names.sort();
        names.dedup();
        for n in &names {
            let def = first_by_name(d, n).unwrap();
            let ty = if def.ty < 16 { def.ty } else { T_OCT };
            let val = if ty == T_GROUPED { GV::Grp(vec![avp(r, d, 0, 1)]) } else { leaf(r, ty, None) };
            let h = header(r);
            for via_avp in [false, true] {
                o.case(&format!("twin name={}", n));
                o.line(&format!("new {} {} {} {} {}", h.cmd, h.app, h.flags, h.hbh, h.e2e));
                o.line("clear");
                let mut ls = vec![];
                val.ops(r, &mut ls);
                o.lines(&ls);
                if via_avp {
                    o.line(&format!("avp_name {}", hexd(n.as_bytes())));
                    o.line("add");
                } else {
                    o.line(&format!("add_by_name {}", hexd(n.as_bytes())));
                }
                o.line("dump");
                o.line("enc");
                // the same AVP from explicit numbers
                o.line(&format!("new {} {} {} {} {}", h.cmd, h.app, h.flags, h.hbh, h.e2e));
                let mut ls = vec![];
                val.ops(r, &mut ls);
                o.lines(&ls);
                o.line(&format!("add_avp {} {} {}", def.code, vend(def.vendor), if def.m { 0x40 } else { 0 }));
                o.line("enc");
            }
        }
        if i == 0 {
            gen_c16_big(o, d);
        }
        // unknown names: failure changes nothing (AVP list, reported length, encoding)
        let n_unknown = if thorough { 8000 } else { 200 };
        for k in 0..n_unknown {
            o.case("unknown name");
            let m = message(r, d, 3, 2);
            if k % 3 == 1 {
                // the message comes off the wire (padding octets and reserved flag bits as the peer chose them) and has
                // not been touched yet: a failing call must not change what it encodes to either
                let mut rr = Rng::new(r.next());
                let f = m.encode(&mut Some(&mut rr));
                o.line(&format!("new {} {} {} {} {}", m.cmd, m.app, m.flags, m.hbh, m.e2e));
                o.line(&format!("decode {}", hex(&f)));
            } else {
                let mut ls = vec![];
                m.ops(r, &mut ls);
                o.lines(&ls);
            }
            o.line("enc");
            o.line("len");
            o.line("dump");
            let bogus = match k % 7 {
                0 => String::new(),
                1 => { let n = &names[k % names.len()]; let ws = *r.pick(&[" ", "\t", "\n", "\r\n", "\u{a0}"]); if r.chance(1, 2) { format!("{}{}", n, ws) } else { format!("{}{}", ws, n) } }
                2 => names[k % names.len()].to_lowercase() + "x",
                3 => match r.below(3) {
                    0 => format!("No-Such-{}", r.below(100000)),
                    1 => r.pick(&["Origin-Host", "Session-Id", "User-Name", "Result-Code", "Origin-Realm", "CC-Request-Type", "Host-IP-Address"]).to_string(),
                    // a spelling variant of a name the dictionary has: another prefix for the same stem
                    _ => {
                        let n = &names[k % names.len()];
                        if let Some(rest) = n.strip_prefix("3GPP") { format!("TGPP{}", rest) } else if let Some(rest) = n.strip_prefix("TGPP") { format!("3GPP{}", rest) } else { format!("3GPP-{}", n) }
                    }
                },
                4 => { let mut c = names[k % names.len()].chars(); c.next_back(); c.as_str().to_string() }
                5 => {
                    // a name that looks like a number: the decimal code of a definition, with or without decoration
                    let c = d.defs.iter().filter(|x| x.vendor.is_none()).map(|x| x.code).nth(k % 7).unwrap_or(1);
                    [format!("{}", c), format!("0{}", c), format!("+{}", c), format!("{} ", c), format!("0x{:x}", c)][(k / 6) % 5].clone()
                }
                _ => { let n = 1 + r.below(12) as usize; text(r, n) }
            };
            if d.defs.iter().any(|x| x.name == bogus) || !bogus.is_char_boundary(bogus.len()) {
                continue;
            }
            // values of every type and size (odd sizes included: their padding must not be accounted for either),
            // and the failing call repeated
            for _ in 0..1 + r.below(3) {
                let ty = *r.pick(&[T_U32, T_UTF8, T_OCT, T_IDENT, T_U64, T_ADDRESS, T_URI, T_GROUPED, T_IPV6, T_TIME]);
                let vl = *r.pick(&[1usize, 2, 3, 5, 6, 7, 9, 17, 4, 8]);
                let v = if ty == T_GROUPED { GV::Grp(vec![avp(r, d, 0, 1)]) } else { leaf(r, ty, Some(vl)) };
                let mut ls = vec![];
                v.ops(r, &mut ls);
                o.lines(&ls);
                o.line(&format!("add_by_name {}", hexd(bogus.as_bytes())));
                o.line("enc");
                o.line("len");
                o.line("dump");
                // ... and the AVP constructor itself refuses the name
                let mut ls = vec![];
                v.ops(r, &mut ls);
                o.lines(&ls);
                o.line(&format!("avp_name {}", hexd(bogus.as_bytes())));
                o.line("clear");
            }
            // ... and the message still works afterwards
            let a = avp(r, d, 1, 2);
            let mut ls = vec![];
            a.ops_add(r, &mut ls);
            o.lines(&ls);
            o.line("enc");
        }
    }
}

fn gen_c17(o: &mut Out, r: &mut Rng, tier: &str) {
    let thorough = tier == "thorough";
    let t4 = ["u32", "i32", "enum", "f32", "time", "ipv4"];
    let t8 = ["u64", "i64", "f64"];
    for t in t4 {
        // boundaries, walking ones / zeros, byte boundaries
        let mut vals: Vec<u32> = vec![0, 1, 2, 0x7f, 0x80, 0xff, 0x100, 0xffff, 0x10000, 0xffffff, 0x1000000, 0x7ffffffe, 0x7fffffff, 0x80000000, 0x80000001, 0xfffffffe, 0xffffffff];
        // calendar anchors of the Time type: 1970-01-01, 2036-02-07T06:28:15Z, the day before the 32-bit unix rollover
        vals.extend([2208988799, 2208988800, 2208988801, 4294967295, 2085978496, 61505152, 61505151]);
        // float classes: +-0, +-inf, quiet / signalling NaNs with payloads, subnormals
        vals.extend([0x7f800000, 0xff800000, 0x7fc00000, 0x7fc00001, 0x7f800001, 0xffc00000, 0xffbfffff, 0x00000001, 0x007fffff, 0x00800000, 0x3f800000]);
        for i in 0..32 {
            vals.push(1u32 << i);
            vals.push(!(1u32 << i));
        }
        for _ in 0..(if thorough { 20000 } else { 2000 }) {
            vals.push(r.next() as u32);
        }
        for v in vals {
            o.case(&format!("fx {}", t));
            o.line(&format!("fx {} {}", t, hex(&v.to_be_bytes())));
        }
        if thorough {
            // all 2^32 values: 64 ranges of 2^26 (fine enough to balance the parallel chunks), one checksum per 2^20-value block
            for k in 0..64u64 {
                o.case(&format!("sweep {} range {}", t, k));
                o.line(&format!("sweep {} {} {} {}", t, k << 26, 1u64 << 26, 1u64 << 20));
            }
        } else {
            // 2^20 values: 16 random aligned blocks of 2^16, plus the blocks around the boundaries
            let mut blocks: Vec<u64> = (0..12).map(|_| r.below(1 << 16)).collect();
            blocks.extend([0, 0x7fff, 0x8000, 0xffff]);
            for b in blocks {
                o.case(&format!("sweep {} block {:#x}", t, b << 16));
                o.line(&format!("sweep {} {} {} {}", t, b << 16, 1u64 << 16, 1u64 << 12));
            }
        }
        // several threads decode and encode at the same moment, each in its own part of the range (for Time: its own
        // days): what a value means does not depend on what another thread is doing
        for round in 0..(if thorough { 40 } else { 6 }) {
            let lo = (r.below(1 << 12)) << 20;
            o.case(&format!("psweep {} round {}", t, round));
            // 8 blocks of 2^14 values, 2^17 apart (for Time: a day and a half): one thread each
            o.line(&format!("psweep {} {} {} {} 8", t, lo, 8u64 << 14, 1u64 << 14));
            o.line(&format!("psweep {} {} {} {} 8", t, lo, 8u64 << 17, 1u64 << 17).replace(&format!("{} 8", 1u64 << 17), &format!("{} 8", 1u64 << 17)));
        }
    }
    for t in t8 {
        let mut vals: Vec<u64> = vec![0, 1, 0xff, 0x100, 0xffffffff, 0x100000000, 0x7fffffffffffffff, 0x8000000000000000, 0x8000000000000001, 0xfffffffffffffffe, 0xffffffffffffffff];
        vals.extend([0x7ff0000000000000, 0xfff0000000000000, 0x7ff8000000000000, 0x7ff0000000000001, 0x7ff8000000000001, 0xfff7ffffffffffff, 1, 0x000fffffffffffff, 0x0010000000000000]);
        for i in 0..64 {
            vals.push(1u64 << i);
            vals.push(!(1u64 << i));
        }
        for i in 1..8 {
            vals.push((1u64 << (8 * i)) - 1);
            vals.push(1u64 << (8 * i));
        }
        for _ in 0..(if thorough { 1 << 20 } else { 20000 }) {
            vals.push(r.next());
        }
        for v in vals {
            o.case(&format!("fx {}", t));
            o.line(&format!("fx {} {}", t, hex(&v.to_be_bytes())));
        }
    }
    // IPv6 (16 octets) rides along: boundaries and a sample
    for i in 0..(if thorough { 20000 } else { 2000 }) {
        let v: u128 = match i {
            0 => 0,
            1 => 1,
            2 => u128::MAX,
            3 => 0xffff_7f00_0001,
            _ => (r.next() as u128) << 64 | r.next() as u128,
        };
        o.case("fx ipv6");
        o.line(&format!("fx ipv6 {}", hex(&v.to_be_bytes())));
    }
}

pub fn generate(family: &str, seed: u64, tier: &str, extra: &[String], w: &mut dyn Write) {
    let mut r = Rng::new(seed ^ family.bytes().fold(0u64, |a, b| a.wrapping_mul(131).wrapping_add(b as u64)));
    let thorough = tier == "thorough";
    let mut o = Out { w, cases: 0, clis: 0, ios: 0 };
    let d0 = dict0();
    match family {
        "c01" | "c18" | "c16h" => {
            emit_dict(o.w, &d0);
            let probes: Box<dyn Fn(&mut Out)> = match family {
                "c01" => Box::new(probes_c01),
                "c18" => Box::new(|o: &mut Out| {
                    o.line("dump");
                    o.line("enc");
                    o.line("acc");
                    for c in [1u32, 2, 3, 9, 14, 16, 101, 109, 116, 200, 4294967295, 0, 77, 257, 65537, 16777225, 255, 256, 65535, 65536, 65545, 16777217, 300, 301, 302] {
                        o.line(&format!("get {}", c));
                    }
                }),
                _ => Box::new(|o: &mut Out| {
                    o.line("enc");
                    o.line("len");
                    o.line("dump");
                }),
            };
            single_avp_sweep(&mut o, &mut r, &d0, &*probes);
            let n = if thorough { 400000 } else { 4000 };
            for _ in 0..n {
                o.case("history");
                rand_history(&mut o, &mut r, &d0, &*probes, true);
            }
            // nesting 0..40 (beyond the decoder's limit: construction has none)
            for depth in 0..40 {
                o.case(&format!("nest depth={}", depth));
                let mut m = header(&mut r);
                let inner = avp_of(&mut r, &d0, d0.by_type(T_UTF8)[0], 0, 0);
                m.avps.push(if depth == 0 { inner } else { nest(&d0, &mut r, depth, Some(inner)) });
                let mut ls = vec![];
                m.ops(&mut r, &mut ls);
                o.lines(&ls);
                probes(&mut o);
            }
            // positions beyond 65535: tens of thousands of AVPs of one kind in front of the first (and only) AVPs of others
            if family == "c18" {
                for k in [65534usize, 65535, 65536, 70000] {
                    let member = GA { code: 14, vendor: None, flags: 0x40, v: GV::U32(7) };
                    let mut m = header(&mut r);
                    m.avps = vec![member; k];
                    for c in [264u32, 268, 263, 296] {
                        if let Some(def) = d0.defs.iter().find(|x| x.code == c && x.vendor.is_none()) {
                            m.avps.push(avp_of(&mut r, &d0, def, 0, 0));
                        }
                    }
                    o.case(&format!("late first occurrence k={}", k));
                    o.line(&format!("decode {}", hex(&m.encode(&mut None))));
                    o.line("dump");
                    for c in [264u32, 268, 263, 296, 14, 1] {
                        o.line(&format!("get {}", c));
                    }
                    o.line("acc");
                }
            }
            // repeats: messages and groups drawn from two or three definitions only, so that the same AVP occurs
            // several times with others in between; built through the API, and decoded from the wire (then extended)
            for i in 0..(if thorough { 40000 } else { 600 }) {
                o.case("repeats");
                let few: Vec<&GDef> = if i % 3 == 0 {
                    // all the definitions of one code (they differ in vendor and type): neighbours with the same code
                    let code = *r.pick(&[300u32, 301, 302, 1, 9, 14]);
                    d0.defs.iter().filter(|x| x.code == code && x.ty < 16).collect()
                } else {
                    (0..2 + r.below(2)).map(|_| *r.pick(&d0.defs.iter().filter(|x| x.ty < 16).collect::<Vec<_>>())).collect()
                };
                let mut m = header(&mut r);
                // (now and then a long message: dozens of AVPs of two or three kinds, e.g. a trail of Route-Records)
                let count = if i % 10 == 5 || i % 10 == 0 { 24 + r.below(70) } else { 2 + r.below(5) };
                for _ in 0..count {
                    let def = *r.pick(&few);
                    let a = if def.ty == T_GROUPED {
                        let ms: Vec<GA> = (0..r.below(6)).map(|_| { let dd = *r.pick(&few); if dd.ty == T_GROUPED { GA { code: dd.code, vendor: dd.vendor, flags: 0x40, v: GV::Grp(vec![]) } } else { avp_of(&mut r, &d0, dd, 0, 0) } }).collect();
                        GA { code: def.code, vendor: def.vendor, flags: flags_choice(&mut r), v: GV::Grp(ms) }
                    } else {
                        avp_of(&mut r, &d0, def, 0, 0)
                    };
                    m.avps.push(a);
                }
                if i % 2 == 0 {
                    o.line(&format!("decode {}", hex(&m.encode(&mut None))));
                } else {
                    let mut ls = vec![];
                    m.ops(&mut r, &mut ls);
                    o.lines(&ls);
                }
                probes(&mut o);
                // extended afterwards: lookups still answer with the first occurrence
                let xd = *r.pick(&few);
                let extra = if xd.ty == T_GROUPED { GA { code: xd.code, vendor: xd.vendor, flags: 0, v: GV::Grp(vec![]) } } else { avp_of(&mut r, &d0, xd, 0, 0) };
                let mut ls = vec![];
                extra.ops_add(&mut r, &mut ls);
                o.lines(&ls);
                probes(&mut o);
            }
            if family == "c01" {
                // large values: 4 KiB .. 64 KiB (quick), up to the 24-bit limit (thorough)
                let mut sizes = vec![4093usize, 4096, 65535, 65536, 70001];
                if thorough {
                    sizes.extend([1 << 20, (1 << 24) - 8 - 20 - 1, (1 << 24) - 8 - 20 - 4, (1 << 24) - 8 - 20 - 5]);
                }
                for s in sizes {
                    o.case(&format!("large {}", s));
                    let mut m = header(&mut r);
                    m.avps.push(GA { code: d0.by_type(T_OCT)[0].code, vendor: None, flags: 0, v: GV::Oct(r.bytes(s)) });
                    let mut ls = vec![];
                    m.ops(&mut r, &mut ls);
                    o.lines(&ls);
                    o.line("enc");
                    o.line("len");
                }
            }
        }
        "c02" => {
            // dictionaries: dict0 via add_avp; random ones via add_avp and via generated XML; shipped ones from defs files
            let mut dicts: Vec<(String, GDict, Vec<String>)> = vec![("dict0".into(), d0.clone(), vec![])];
            let nd = if thorough { 12 } else { 4 };
            for i in 0..nd {
                let n = 20 + r.below(40) as usize;
                dicts.push((format!("rand{}", i), rand_dict(&mut r, n), vec![]));
            }
            for p in extra {
                let (lines, d) = load_defs_file(p);
                dicts.push((p.clone(), d, lines));
            }
            let per = if thorough { 40000 } else { 900 };
            for (i, (name, d, lines)) in dicts.iter().enumerate() {
                o.case(&format!("dictionary {}", name));
                if !lines.is_empty() {
                    o.line("dreset");
                    o.lines(lines);
                } else if i % 2 == 1 {
                    o.line("dreset");
                    emit_doc(&mut o, d, "load");
                } else {
                    emit_dict(o.w, d);
                }
                let probes = |o: &mut Out| {
                    o.line("rt");
                };
                if i == 0 {
                    single_avp_sweep(&mut o, &mut r, d, &probes);
                    big_cases(&mut o, &mut r, d, thorough, &|o: &mut Out, _f: &[u8]| o.line("rt"));
                }
                for _ in 0..per {
                    o.case("history");
                    rand_history(&mut o, &mut r, d, &probes, false);
                }
                // every definition of the dictionary once (C15: usable to encode and decode a value of its type)
                for def in d.defs.iter().filter(|x| x.ty < 16) {
                    o.case(&format!("def {} {}", def.code, vend(def.vendor)));
                    let mut m = header(&mut r);
                    m.avps.push(avp_of(&mut r, d, def, 2, 2));
                    let mut ls = vec![];
                    m.ops(&mut r, &mut ls);
                    o.lines(&ls);
                    o.line("rt");
                }
                // groups of a shipped dictionary with the members their <rule> children name, each member two and three times:
                // the rules are documentation - how often a member occurs is the sender's business
                if !lines.is_empty() {
                    for (gname, mname) in load_rules(name) {
                        let (g, mdef) = match (d.defs.iter().find(|x| x.name == gname && x.ty == T_GROUPED), d.defs.iter().find(|x| x.name == mname && x.ty < 16)) {
                            (Some(g), Some(m)) => (g.clone(), m.clone()),
                            _ => continue,
                        };
                        for reps in [2usize, 3] {
                            let one = if mdef.ty == T_GROUPED { GA { code: mdef.code, vendor: mdef.vendor, flags: 0x40, v: GV::Grp(vec![]) } } else { avp_of(&mut r, d, &mdef, 0, 0) };
                            let mut m = header(&mut r);
                            m.avps.push(GA { code: g.code, vendor: g.vendor, flags: 0x40, v: GV::Grp(vec![one; reps]) });
                            o.case(&format!("rule member x{} group={} member={}", reps, g.code, mdef.code));
                            let mut ls = vec![];
                            m.ops(&mut r, &mut ls);
                            o.lines(&ls);
                            o.line("rt");
                        }
                    }
                }
                // nesting exactly around the limit
                if !d.by_type(T_GROUPED).is_empty() && !d.by_type(T_U32).is_empty() {
                    for depth in [1usize, 2, 8, 15, 16, 17, 24, 31, 32, 33, 34, 40] {
                        o.case(&format!("nest depth={}", depth));
                        let mut m = header(&mut r);
                        let inner = avp_of(&mut r, d, d.by_type(T_U32)[0], 0, 0);
                        m.avps.push(nest(d, &mut r, depth, Some(inner)));
                        let mut ls = vec![];
                        m.ops(&mut r, &mut ls);
                        o.lines(&ls);
                        o.line("rt");
                    }
                }
            }
        }
        "c03" => {
            emit_dict(o.w, &d0);
            // the command-code and application-id tables, enumerated on the code and compared with the model's
            o.case("tables");
            o.line("tables");
            gen_c03(&mut o, &mut r, &d0, tier);
        }
        "c17" => gen_c17(&mut o, &mut r, tier),
        "c06" => {
            emit_dict(o.w, &d0);
            gen_c06(&mut o, &mut r, &d0, tier);
        }
        "c07" => {
            emit_dict(o.w, &d0);
            gen_c07(&mut o, &mut r, &d0, tier);
            gen_c07_many(&mut o, &d0, tier);
        }
        "c08" => {
            emit_dict(o.w, &d0);
            gen_c08(&mut o, &mut r, &d0, tier, false);
        }
        "c09" => {
            emit_dict(o.w, &d0);
            // a connection lost before the accept loop has even picked it up (offset 0, reset): the listener goes on
            // serving the peers that come later
            for tls in [0, 1] {
                o.case(&format!("listener reset-in-backlog tls={}", tls));
                o.line(&format!("lsn tls={} good=2 reqs=3 fault=reset when=before nfaulty=40", tls));
            }
            gen_c08(&mut o, &mut r, &d0, tier, true);
        }
        "c11" => {
            emit_dict(o.w, &d0);
            gen_c11(&mut o, &mut r, &d0, tier);
            let mut uid = 700000u32;
            gen_reuse(&mut o, &mut r, &d0, tier, &mut uid);
            gen_badsend(&mut o, &mut r, &d0, tier, &mut uid);
            gen_clim(&mut o, &mut r, &d0, tier, &mut uid);
            gen_backpressure(&mut o, &mut r, &d0, tier, &mut uid);
            // what a future may hold when the peer misbehaves (answers cut short, messages nobody asked for, corrupted
            // and unmatched answers): the families of C12, on a few corpora
            gen_c12(&mut o, &mut r, &d0, tier, if thorough { 12 } else { 2 });
            gen_ctcp(&mut o, &mut r, tier, false);
        }
        "c12" => {
            emit_dict(o.w, &d0);
            for end in ["e", "f", "g"] {
                o.case(&format!("client switch end={}", end));
                o.line(&format!("cliswitch {}", end));
            }
            gen_c12(&mut o, &mut r, &d0, tier, usize::MAX);
            let mut uid = 800000u32;
            gen_reuse(&mut o, &mut r, &d0, tier, &mut uid);
            gen_badsend(&mut o, &mut r, &d0, tier, &mut uid);
            gen_clim(&mut o, &mut r, &d0, tier, &mut uid);
            gen_backpressure(&mut o, &mut r, &d0, tier, &mut uid);
            gen_ctcp(&mut o, &mut r, tier, true);
        }
        "c10" => gen_c10(&mut o, &mut r, tier),
        "c13" => gen_c13(&mut o, &mut r, tier),
        "c14" => {
            gen_c14(&mut o, &mut r, tier);
            gen_big_documents(&mut o, &mut r, tier);
            gen_dict_objects(&mut o);
        }
        "c15" => gen_c15(&mut o, &mut r, tier, extra),
        "c16" => {
            gen_c16(&mut o, &mut r, tier, extra);
        }
        "c05" => {
            emit_dict(o.w, &d0);
            gen_c05(&mut o, &mut r, &d0, tier);
        }
        "c04" => {
            // the shipped dictionaries underneath (what is displayed may depend on an AVP's name), dict0 on top of them
            let mut shipped = GDict::default();
            o.line("dreset");
            if let Some(p) = extra.iter().find(|p| p.contains('+')) {
                let (lines, d) = load_defs_file(p);
                o.lines(&lines);
                shipped = d;
            }
            for x in &d0.defs {
                emit_dadd(o.w, x);
            }
            gen_c04(&mut o, &mut r, &d0, tier);
            // every numeric definition of the shipped dictionaries with runs of small values, the neighbourhoods of the
            // powers of ten and of two, and the extremes: decoded, displayed, inspected, re-encoded
            let overridden = |x: &GDef| d0.defs.iter().any(|y| y.code == x.code && y.vendor == x.vendor);
            for def in shipped.defs.iter().filter(|x| !overridden(x) && matches!(x.ty, T_U32 | T_U64 | T_I32 | T_I64 | T_ENUM | T_F32 | T_F64 | T_TIME)) {
                let mut vals: Vec<u64> = (0..=1280).collect();
                for p in [10u64.pow(4), 10u64.pow(5), 10u64.pow(6), 10u64.pow(9), 10u64.pow(12), 10u64.pow(18), 1 << 16, 1 << 20, 1 << 30, 1 << 31, 1 << 32, 1 << 40, 1 << 62, 1 << 63] {
                    vals.extend([p - 2, p - 1, p, p + 1, p + 24]);
                }
                vals.extend([u64::MAX, u64::MAX - 1, i64::MAX as u64, i64::MIN as u64, (i64::MIN + 1) as u64, u32::MAX as u64, i32::MIN as u32 as u64, i32::MAX as u64, (-1i64) as u64, (-1000i64) as u64, (-1023i64) as u64]);
                for chunk in vals.chunks(128) {
                    let mut m = header(&mut r);
                    for &v in chunk {
                        let gv = match def.ty {
                            T_U32 => GV::U32(v as u32),
                            T_U64 => GV::U64(v),
                            T_I32 => GV::I32(v as i32),
                            T_I64 => GV::I64(v as i64),
                            T_ENUM => GV::Enum(v as i32),
                            T_F32 => GV::F32(v as u32),
                            T_F64 => GV::F64(v),
                            _ => GV::Time((v as u32) as i64 - RFC868, 0),
                        };
                        m.avps.push(GA { code: def.code, vendor: def.vendor, flags: 0x40, v: gv });
                    }
                    o.case(&format!("shipped-values {} {}", def.code, vend(def.vendor)));
                    o.line(&format!("decq {}", hex(&m.encode(&mut None))));
                }
            }
        }
        _ => {
            eprintln!("unknown family {}", family);
            std::process::exit(2);
        }
    }
}

/* ---------- probes of the two parameters the properties leave open ---------- */

pub fn probe() -> String {
    use diameter::dictionary::{AvpDefinition, Dictionary};
    use diameter::DiameterMessage;
    use std::io::Cursor;
    use std::sync::Arc;
    let mut dict = Dictionary::new(&[]);
    for (i, t) in TY_NAMES.iter().enumerate() {
        dict.add_avp(AvpDefinition { code: 1 + i as u32, vendor_id: None, name: format!("T{}", i), avp_type: crate::interp::type_of_name(t).unwrap(), m_flag: false });
    }
    let dict = Arc::new(dict);
    let accepts = |f: &[u8]| -> bool {
        let d = dict.clone();
        let f = f.to_vec();
        std::panic::catch_unwind(move || DiameterMessage::decode_from(&mut Cursor::new(&f), d).is_ok()).unwrap_or(false)
    };
    std::panic::set_hook(Box::new(|_| {}));
    let hdr = |total: usize| -> Vec<u8> {
        let mut f = vec![1u8];
        f.extend(&(total as u32).to_be_bytes()[1..]);
        f.extend([0x80, 0, 1, 16, 0, 0, 0, 4, 0, 0, 0, 1, 0, 0, 0, 2]);
        f
    };
    // nesting limit: largest depth of header-only groups that is accepted (searched up to 4096)
    let nested = |depth: usize| -> Vec<u8> {
        let mut f = hdr(20 + 8 * depth);
        for i in 0..depth {
            f.extend((1 + T_GROUPED as u32).to_be_bytes());
            f.push(0);
            f.extend(&((8 * (depth - i)) as u32).to_be_bytes()[1..]);
        }
        f
    };
    let mut limit = 0usize;
    if accepts(&nested(1)) {
        let (mut lo, mut hi) = (1usize, 4096usize);
        if accepts(&nested(hi)) {
            lo = hi;
        } else {
            while lo + 1 < hi {
                let mid = (lo + hi) / 2;
                if accepts(&nested(mid)) {
                    lo = mid;
                } else {
                    hi = mid;
                }
            }
        }
        limit = lo;
    }
    // leniency per fixed-size type: declared value length 0 resp. natural + 4, all octets present
    let sizes: [(usize, usize); 10] = [(T_IPV4, 4), (T_IPV6, 16), (T_ENUM, 4), (T_F32, 4), (T_F64, 8), (T_I32, 4), (T_I64, 8), (T_TIME, 4), (T_U32, 4), (T_U64, 8)];
    let mut sh = vec![b'0'; 17];
    let mut lo = vec![b'0'; 17];
    for (t, n) in sizes {
        let mut f = hdr(20 + 8);
        f.extend((1 + t as u32).to_be_bytes());
        f.push(0);
        f.extend([0, 0, 8]);
        f.extend(vec![0u8; n]);
        if accepts(&f) {
            sh[t] = b'1';
        }
        let mut f = hdr(20 + 8 + n + 4);
        f.extend((1 + t as u32).to_be_bytes());
        f.push(0);
        f.extend(&((8 + n + 4) as u32).to_be_bytes()[1..]);
        f.extend(vec![0u8; n + 4]);
        if accepts(&f) {
            lo[t] = b'1';
        }
    }
    // the command codes and application ids the library's enums hold: every 24-bit command code and every 32-bit
    // application id is tried (in parallel), and each one found is confirmed on the decoder with a header-only frame
    let cmds = sweep(0, 1 << 24, |c| crate::interp::cmd_of(c).is_some());
    let apps = sweep(0, 1 << 32, |a| crate::interp::app_of(a).is_some());
    let frame_with = |c: u32, a: u32| -> Vec<u8> {
        let mut f = vec![1u8, 0, 0, 20, 0x80];
        f.extend(&c.to_be_bytes()[1..]);
        f.extend(a.to_be_bytes());
        f.extend([0, 0, 0, 1, 0, 0, 0, 2]);
        f
    };
    let (c0, a0) = (cmds.first().copied().unwrap_or(0), apps.first().copied().unwrap_or(0));
    let cmds: Vec<u32> = cmds.into_iter().filter(|c| accepts(&frame_with(*c, a0))).collect();
    let apps: Vec<u32> = apps.into_iter().filter(|a| accepts(&frame_with(c0, *a))).collect();
    let join = |v: &Vec<u32>| v.iter().map(|x| x.to_string()).collect::<Vec<_>>().join(",");
    format!("cfg {} {} {} cmds={} apps={}", limit, String::from_utf8(sh).unwrap(), String::from_utf8(lo).unwrap(), join(&cmds), join(&apps))
}

/// all `x` in `lo..hi` with `f(x)`, ascending (16 threads)
pub fn sweep(lo: u64, hi: u64, f: fn(u32) -> bool) -> Vec<u32> {
    {
        let nthreads = 16u64;
        let step = (hi - lo + nthreads - 1) / nthreads;
        let mut found: Vec<u32> = std::thread::scope(|sc| {
            let hs: Vec<_> = (0..nthreads)
                .map(|t| {
                    sc.spawn(move || {
                        let (a, b) = (lo + t * step, (lo + (t + 1) * step).min(hi));
                        (a..b).filter(|x| f(*x as u32)).map(|x| x as u32).collect::<Vec<u32>>()
                    })
                })
                .collect();
            hs.into_iter().flat_map(|h| h.join().unwrap()).collect()
        });
        found.sort();
        found
    }
}
