#!/bin/bash
# usage: tools/seedmatrix.sh [<Cxx-mN> ...]   run every seeded change (or the named ones) against the quick check of its
# property and record the verdicts in seeded/RESULTS.md. /repo must be clean; each change is undone straight afterwards.
cd /verif || exit 2
if ! git -C /repo diff --quiet; then echo "/repo has uncommitted changes"; exit 2; fi
seeds=("$@"); if [ ${#seeds[@]} -eq 0 ]; then seeds=($(ls seeded | grep -E '^C[0-9]+(-r[0-9]+(-[a-z]+)?)?-m[0-9]+$' | sort)); fi
out=seeded/RESULTS.md
# MERGE=1: only the named seeds are run; their rows replace / join those already in RESULTS.md
if [ "${MERGE:-0}" = "1" ] && [ -f $out ]; then cp $out /verif/work/RESULTS.prev.md; fi
{ echo "# Seeded changes against the quick checks"; echo; echo "(written by tools/seedmatrix.sh on $(date -u +%Y-%m-%dT%H:%MZ); /verif at $(git rev-parse --short HEAD), /repo at $(git -C /repo rev-parse --short HEAD))"; echo; echo "| seed | property | verdict | replay kind | what no longer checks | message |"; echo "|---|---|---|---|---|---|"; } > $out
for s in "${seeds[@]}"; do
  p=${s%%-*}
  # a seed may name the property whose check is the one that must report it (meta.json "checked_by")
  cb=$(python3 -c "import json;print(json.load(open('/verif/seeded/$s/meta.json')).get('checked_by',''))" 2>/dev/null); [ -n "$cb" ] && p=$cb
  git -C /repo apply /verif/seeded/$s/patch.diff || { echo "| $s | $p | PATCH-DOES-NOT-APPLY | | | |" >> $out; continue; }
  # a seed may need the thorough tier to be reached (meta.json "tier")
  tier=$(python3 -c "import json;print(json.load(open('/verif/seeded/$s/meta.json')).get('tier','quick'))" 2>/dev/null); [ -z "$tier" ] && tier=quick
  line=$(python3 check.py $p --tier $tier 2>&1 | grep -E "^VIOLATION" | head -1)
  git -C /repo checkout -- . ; git -C /repo clean -fdq -- src examples tests dict 2>/dev/null
  if [ -z "$line" ]; then echo "| $s | $p | **MISSED** | | | |" >> $out; echo "$s MISSED"; continue; fi
  rp=$(echo "$line" | sed -E 's/.*replay=([^ ]+).*/\1/')
  info=$(python3 - "$rp" <<'PY'
import json,sys
d=json.load(open(sys.argv[1]))
print("%s | %s | %s" % (d.get("kind"), str(d.get("what_no_longer_checks"))[:70].replace("|","/"), str(d.get("message"))[:110].replace("|","/").replace("\n"," ")))
PY
)
  v="caught"; [ "$tier" != "quick" ] && v="caught ($tier tier)"; echo "$line" | grep -q "no-failing-input-found" && v="caught (no failing input found)"
  echo "| $s | $p | $v | $info |" >> $out
  echo "$s $v"
done
if [ "${MERGE:-0}" = "1" ] && [ -f /verif/work/RESULTS.prev.md ]; then
python3 - <<'PY'
import re
new=open('/verif/seeded/RESULTS.md').read().split('\n')
old=open('/verif/work/RESULTS.prev.md').read().split('\n')
head=[l for l in new if not l.startswith('| C')]
rows={}
for l in old+new:
    m=re.match(r'\| (C\S+) \|',l)
    if m: rows[m.group(1)]=l
open('/verif/seeded/RESULTS.md','w').write('\n'.join([l for l in head if l.strip() or True][:6]+[rows[k] for k in sorted(rows)])+'\n')
PY
fi
# leave the evidence files describing the unchanged tree
echo "done; re-run the affected checks on the clean tree before committing evidence"
