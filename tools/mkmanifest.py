#!/usr/bin/env python3
"""Regenerates /verif/MANIFEST.json from the table of claimed properties below (keeps the file valid at all times)."""
import json
import os
import subprocess
import sys

ROOT = os.path.dirname(os.path.dirname(os.path.abspath(__file__)))
sys.path.insert(0, ROOT)
from vlib.props import PROPS  # noqa: E402

TEXT = {
    "C01": ("proof", "5 C01", "Theorem C01_encode_exact: for every construction history inside the quantifier (induction over the operation list, invariant C01_step) the model encoder equals the independently written Spec.encode and the reported length equals the octet count. Tied to the code by running the same histories through the real API and the compiled model and diffing octets, lengths and the tree.",
            "model of avp/*.rs, diameter.rs is hand-written; u32 wrap-around of lengths beyond 4 GiB not modelled"),
    "C02": ("proof", "5 C02", "Theorem C02_roundtrip: decMsg cfg dict (enc m) = ok m for every consistent, carriable, dictionary-typed message within the nesting limit and every leniency configuration (mutual structural induction); corollary C02_history for built messages. Tie: rt probes on histories under the built-in, 3GPP and generated dictionaries.",
            "dictionary XML parsing is exercised, not proved; nesting limit is probed from the code"),
    "C03": ("proof", "5 C03", "Theorems C03_faithful (every accepted frame of its declared size without a fixed-size length lie is, up to padding and reserved bits, Spec.encode of the returned message) and C03_accepts (every masked RFC encoding of a typed message within the limit is accepted), for all byte strings. Tie: dec lines compared in full against the model and the strict reader. Known finding F1 is classified, not hidden.",
            "F1 (fixed-size types ignore the declared length) is a listed known finding; leniency is probed per type on every run"),
    "C04": ("proof", "5 C04", "Theorem C04_no_panic: no byte string reaches a panic site of the model decoder (every checked subtraction/addition/slice is an explicit panic outcome), recursion on explicit fuel. Partial: stack consumption, allocation and wall-clock time are exercised on a 2 MiB thread under supervision (abort/hang attributed to the exact frame), not proved.",
            "proof (partial): real stack bytes per level, allocator, time are runtime behaviour"),
    "C17": ("proof", "5 C17", "Theorems C17_u32/i32/enum/f32/time/ipv4/u64/i64/f64 quantify over all octet values (omega on the byte decomposition), C17_injective gives the bijection. Tie: per-value fx probes and checksum sweeps (thorough tier: all 2^32 values of each of the six 4-octet types on both sides).",
            "chrono's timestamp arithmetic and std's Ipv4Addr Display are external, tied by the sweep"),
    "C18": ("proof", "5 C18", "Theorems C18_get_first, C18_typed, C18_typed_unique, C18_group_members, C18_decoded_order over all messages. Tie: get/acc/dump probes; the property is also evaluated directly on the implementation's own dump.",
            "none beyond the trusted base"),
}

NOT_YET = "check not built yet in this round (the model and theorems exist or are planned in DESIGN.md section 5); not claimed until its check runs"


def main():
    props = [json.loads(l) for l in open(os.path.join(ROOT, "properties.jsonl"))]
    hooks = subprocess.run(["git", "-C", "/repo", "log", "--format=%h %s"], stdout=subprocess.PIPE, text=True).stdout.split("\n")
    hook_commits = [l.split(" ")[0] for l in hooks if "verif-hooks" in l]
    checks = []
    na = []
    for p in props:
        pid = p["id"]
        if pid in PROPS and pid in TEXT:
            cat, ref, text, note = TEXT[pid]
            checks.append({
                "property_id": pid,
                "quick_cmd": "python3 check.py %s --tier quick" % pid,
                "thorough_cmd": "python3 check.py %s --tier thorough" % pid,
                "evidence_file": "/verif/evidence/%s.json" % pid,
                "replay_cmd_template": "python3 check.py %s --replay {path}" % pid,
                "engine": "lean4-proof+correspondence",
                "level_claimed": {"category": cat, "text": text, "design_ref": "DESIGN.md section " + ref},
                "level_note": note,
                "technique": "machine-checked proof in Lean 4 about a hand-written model, tied to the code by a differential correspondence check",
            })
        else:
            na.append({"property_id": pid, "reason": NOT_YET})
    man = {
        "version": 1,
        "setup_cmd": "python3 check.py setup",
        "hooks": {
            "guard": "cargo feature verif-hooks",
            "enable": "the harness crate /verif/harness depends on /repo by path with features = [\"verif-hooks\"]; every check rebuilds it from the working tree",
            "baseline_off_cmd": "cd /repo && cargo test --workspace --no-fail-fast --offline",
            "source_commits": hook_commits,
            "add_only": True,
        },
        "engines": [{
            "name": "lean4-proof+correspondence",
            "path": "/verif/check.py",
            "serves_properties": [c["property_id"] for c in checks],
            "kind_free_text": "Lean 4 theorems (lean/Dia/Props) about a hand-written executable model (lean/Dia), compiled driver (lean/Driver.lean) and Rust harness (harness/) run on the same generated operation lines; vlib diffs the property's projection",
        }],
        "checks": checks,
        "not_applicable": na,
        "notes": "see DESIGN.md; known findings in known_findings.json",
    }
    with open(os.path.join(ROOT, "MANIFEST.json"), "w") as f:
        json.dump(man, f, indent=1)
    print("claimed:", [c["property_id"] for c in checks])


if __name__ == "__main__":
    main()
