#!/usr/bin/env python3
"""Regenerates /verif/MANIFEST.json from the table of claimed properties below (keeps the file valid at all times)."""
import json
import os
import subprocess
import sys

ROOT = os.path.dirname(os.path.dirname(os.path.abspath(__file__)))
sys.path.insert(0, ROOT)
from vlib.props import PROPS  # noqa: E402

TEXT = {
    "C01": ("proof", "5 C01", "Theorem C01_encode_exact: for every construction history inside the quantifier (induction over the operation list, invariant C01_step) the model encoder equals the independently written Spec.encode and the reported length equals the octet count. Tied to the code by running the same histories through the real API and the compiled model and diffing octets, lengths and the tree.",
            "model of avp/*.rs, diameter.rs is hand-written; u32 wrap-around of lengths beyond 4 GiB not modelled"),
    "C02": ("proof", "5 C02", "Theorem C02_roundtrip: decMsg cfg dict (enc m) = ok m for every consistent, carriable, dictionary-typed message within the nesting limit and every leniency configuration (mutual structural induction); corollary C02_history for built messages. Tie: rt probes on histories under the built-in, 3GPP and generated dictionaries.",
            "dictionary XML parsing is exercised, not proved; nesting limit is probed from the code"),
    "C03": ("proof", "5 C03", "Theorems C03_faithful (every accepted frame of its declared size without a fixed-size length lie is, up to padding and reserved bits, Spec.encode of the returned message) and C03_accepts (every masked RFC encoding of a typed message within the limit is accepted), for all byte strings. Tie: dec lines compared in full against the model and the strict reader. Known finding F1 is classified, not hidden.",
            "F1 (fixed-size types ignore the declared length) is a listed known finding; leniency is probed per type on every run"),
    "C04": ("proof", "5 C04", "Theorem C04_no_panic: no byte string reaches a panic site of the model decoder (every checked subtraction/addition/slice is an explicit panic outcome), recursion on explicit fuel. Partial: stack consumption, allocation and wall-clock time are exercised on a 2 MiB thread under supervision (abort/hang attributed to the exact frame), not proved.",
            "proof (partial): real stack bytes per level, allocator, time are runtime behaviour"),
    "C05": ("proof", "5 C05", "Theorems C05_fault (success against a writer that dies after k octets implies no internal error and every octet accepted, for every message and every k), C05_range (a Time outside the 32-bit 1900-based range or an AVP/message length of 2^24 or more anywhere in the tree makes the encoder fail; mutual induction), C05_ok_is_complete (a success hands over exactly Spec.encode). Tie: fault enumeration over EVERY k of every corpus frame with short-write / Interrupted / Ok(0) delivery modes, out-of-range Times at every nesting level, lengths at and past 2^24. Since round 10: C05_avp_range / C05_avp_too_long for an AVP encoded on its own through Avp::encode_to, tied by `encha`.",
            "std::io::Write::write_all semantics are assumed (and exercised); the writer is modelled by its total budget, which is what the property quantifies over"),
    "C06": ("proof", "5 C06", "Theorems C06_read_exact (read_exact returns the next n octets of the stream for every chunking and Pending placement; induction over the script), C06_read_frame / C06_read_independent (one call returns the frame's message, consumes exactly |f| octets, leaves exactly the rest - for any two scripts delivering the same octets), C06_write (write_all over arbitrary partial acceptance puts exactly the octets on the stream). Partial: tokio's waker registration is exercised (self-waking scripted stream under a current-thread runtime), not proved. Tie: every pair of cut positions for short streams, dribble, exhaustive two-pause placements, random scripts; partial-write patterns; C06_read_refused (a frame the message decoder refuses costs exactly itself: the calls behind it read their own frames) with refused frames inside streams; streams that advertise vectored writes or fill the read buffer TLS-style (iomode).",
            "proof (partial): tokio read_exact/write_all loops are modelled as definitions (readExact, writeAll); the async runtime is not modelled"),
    "C07": ("proof", "5 C07", "Theorems C07_hostile / C07_announced: for every script, no panic site is reachable; an announced length above 1 MiB or below 20 is refused with exactly 4 octets consumed; never more than max(L,4) octets taken. Tie: announced lengths 0..64, around 2^20 and 2^24-1, powers of two, random, each with no / less / exact / more data behind a byte-counting scripted reader; C07_after_frames (behind any number of well-framed frames the announcement is refused by the very next call, 4 octets taken), tied by announcements as second frame and by sdecmany (thousands of accepted frames first; more than 4 GiB in the thorough tier); foreign-protocol prefixes; multiples of 4 / 16 / 64 KiB plus 4 or 20.",
            "allocation of the body buffer is runtime behaviour (exercised)"),
    "C08": ("proof", "5 C08", "Theorems C08_all_good (induction over the request list: calls = requests, written = answers, nothing else), C08_handler_fails, C08_malformed (after the first bad position no later request reaches the handler and nothing further is written), from the general serve_prefix lemma. Partial: async runtime as in C06. Tie: verif_serve_stream hook on scripted duplex streams, 1..8 requests, segmentation/Pending/partial-write patterns, one failing handler call or malformed frame (4 kinds) at every position.",
            "proof (partial): tokio scheduling not modelled; the listen()/TCP path is exercised under C10"),
    "C09": ("proof", "5 C09", "Theorems C09_read_cut (stream ending at ANY offset q inside the next frame: exactly the complete requests were handled, exactly their answers written, loop ended), C09_write_cut (write side failing at any point: calls = reqs.take k, answers to the first k-1 fully written, nothing beyond a prefix of the k-th), C09_write_prefix, C09_no_panic. Partial: promptness (time) is exercised under paused virtual time, not proved. Tie: fault enumeration over EVERY read cut offset (close / dribble+close / reset) and EVERY write failure offset (error and Ok(0)) of each corpus stream. Since rounds 8-10: C09_cut_both / C09_refused_both / C09_refused_frame_both (read-side cut or refused frame AND write-side failures in one run), tied by scenarios that combine a read cut with a write failure.",
            "proof (partial): termination in real time and wake-ups are runtime behaviour"),
    "C10": ("proof", "5 C10", "Theorems over the listener's labelled transition system (accept loop, per-connection tasks, handshakes; labels for peers arriving, sending anything, handshakes completing / failing / never completing, tasks consuming items incl. a handler panic): C10_frame (a step of another connection leaves this connection's component untouched), C10_answers_routed (in every reachable state what was written to c is exactly one answer per request c's own peer sent, in order - a function of c's input alone), C10_accept_enabled (the accept loop never waits on a peer; every backlog entry can be accepted), C10_serve_enabled, C10_handshake_enabled, and the negative witness C10_inline_blocks for the code before fix D9. Partial: tokio's scheduler fairness, the kernel backlog and accept() errors are runtime behaviour. Tie: real listen() on port 0 (verif_local_addr) on a multi-threaded runtime over loopback; scenario table fault kind x moment x plain/TLS x 1..4 well-behaved clients x 1..3 faulty peers; each good client's answers (ids and markers) are checked, a late connection must be served; the driver predicts the same from the model.",
            "proof (partial): scheduler fairness and real time are runtime behaviour; the multi-threaded runs are randomised in timing"),
    "C13": ("proof", "5 C13", "Theorem C13_table: for every cell of the finite table and EVERY port, the outcome produced by the decision glue (use_tls decides whether a session is attempted; verify_cert is passed as !accept_invalid; the domain handed to the TLS library is host_of(address), proved to be the host part for host:port, a.b.c.d:port and [v6]:port) equals the table the property states; C13_no_cleartext, C13_server_tls_never_plain, C13_domain_matters (defect D11 in the model's terms). Partial: the TLS library's semantics is a stated parameter (accept iff accept-invalid or trusted chain naming the domain). Tie: EXHAUSTIVE - every cell (x host name / IPv4 / IPv6 literal) is executed with the library's real client and server over loopback through a recording relay, certificates generated per run, trust injected via SSL_CERT_FILE, a unique marker searched in the capture; listen() is re-entered once before each cell. Since round 9: hostOf_host_port / hostOf_bracketed_port / C13_any_host / C13_any_literal / C13_any_modes (the glue for EVERY host text, bracketed literal, port and certificate; the table is its instance, C13_table_is_instance); the driver computes each cell through that general glue; further cells: the address spelled as a DiameterURI, certificates valid for thirty years or with RSA keys, one client object reconnecting to a server that changed its certificate (tlsre).",
            "proof (partial): native-tls / OpenSSL behaviour is an assumption, tied only by the exhaustive table run"),
    "C11": ("proof", "5 C11", "Theorems over the client's labelled transition system (labels = the lock-granularity atomic steps of send_message / handle / process_decoded_msg): C11_safety for EVERY run (any interleaving, any peer): a future only ever holds a message the peer emitted whose id is the id of its own request; C11_delivery and C11_once for polite runs (fresh ids, peer answers started requests at most once): every emitted answer ends in the future of its own request, in at most one. Proved by a 7- and a 15-clause inductive invariant. Partial: tokio's scheduler, oneshot channel and mutex are assumed. Tie: trace conformance - the harness drives the real client on scripted streams (verif_attach_stream + trace points), the driver replays every observed event trace through Client.step and rejects a trace that is not a run or whose predicted future values differ; the properties are also evaluated directly on the observed future values. Since round 6: a model of one client object attached to several connections (Dia.Cm; C11_multi_safety, C11_multi_one_deliverer, C11_single_is_slice: the single-connection model is its one-connection slice), tied by clim / ctracem trace conformance; C11_server_to_client and C11_end_to_end compose server loop, codec and client; the octets the client writes are checked against the encodings of the requests it reported as sent. Since round 9: C11_multi_end_to_end (one server loop per connection of a client object).",
            "proof (partial): tokio scheduling, oneshot delivery, Mutex serialisation are assumptions (DESIGN.md section 3); multi-threaded TCP runs are supporting evidence only"),
    "C12": ("proof", "5 C12", "Theorems C12_stopped (once the reader has stopped, for whatever reason, the table is closed and NO future is pending), C12_send_after_stop (a later send is refused under the lock), C12_superseded, C12_pending_means_waiting (pending implies the reader runs and the waiter is still registered or being delivered to) - for every run of the transition system. Partial: that the oneshot actually wakes the awaiting task is runtime behaviour; hangs are detected under paused virtual time. Tie: as C11, with the answer stream cut at EVERY byte offset (close / reset / undecodable continuation), corrupted, unmatched, duplicated answers at every position, superseded waiters, sends after the stop. Since round 6: C12_multi_stopped / C12_multi_delivery_enabled / C12_multi_quiescent / C12_multi_send_after_stop for a client object with several connections sharing one table (once any connection's reader has stopped nothing stays pending except a delivery already under way; a later connect() does not re-open the table), tied by clim scenarios; unsolicited floods, stalled sends, futures polled in one task and awaited in another.",
            "proof (partial): wake-ups and time are runtime behaviour"),
    "C14": ("proof", "5 C14", "Refinement theorem C14_refines: after any history of constructions, document loads and additions the ordered-map model represents the list of supplied definitions (lookup = last supplied for exactly that key; keys strictly sorted, nothing shadowed); corollaries C14_get, C14_no_shadow, C14_by_name_live, C14_by_name_iff, C14_app_declared. Tie: generated histories with colliding codes, names, vendor twins and all must spellings, documents rendered to XML for the real parser; the whole key/name universe is dumped after every step; by-name compared by membership.",
            "serde-xml-rs tokenisation is inside the tie, not the proof"),
    "C15": ("proof", "5 C15", "Theorems C15_names / C15_unknown_name (exactly sixteen spellings are types), C15_lookup_unknown_iff, C15_reject (no entry for the exact pair, or unrecognised type => decoding fails, whatever twins exist), C15_variant (what is returned carries the variant the exact entry declares). Tie: exhaustive table type spelling x entry scope x wire vendor x twins; every definition of both shipped dictionaries read independently by tools/xmlscan.py.",
            "none beyond the trusted base"),
    "C16": ("proof", "5 C16", "Theorems C16_from_name (the AVP built by name is the AVP built from the definition's explicit numbers, hence encodes identically), C16_flags, C16_which (the definition is live and carries the name), C16_unknown / C16_unknown_step (failure leaves message and dictionary untouched), C16_known_step. Tie: every name of dict0, generated and shipped dictionaries, unknown names between other additions, dictionary histories with retired names.",
            "by-name pick among several live definitions with one name follows the BTreeMap order in the model"),
    "C17": ("proof", "5 C17", "Theorems C17_u32/i32/enum/f32/time/ipv4/u64/i64/f64 quantify over all octet values (omega on the byte decomposition), C17_injective gives the bijection. Tie: per-value fx probes and checksum sweeps (thorough tier: all 2^32 values of each of the six 4-octet types on both sides).",
            "chrono's timestamp arithmetic and std's Ipv4Addr Display are external, tied by the sweep"),
    "C18": ("proof", "5 C18", "Theorems C18_get_first, C18_typed, C18_typed_unique, C18_group_members, C18_decoded_order over all messages. Tie: get/acc/dump probes; the property is also evaluated directly on the implementation's own dump.",
            "none beyond the trusted base"),
}

NOT_YET = "check not built yet in this round (the model and theorems exist or are planned in DESIGN.md section 5); not claimed until its check runs"


def main():
    props = [json.loads(l) for l in open(os.path.join(ROOT, "properties.jsonl"))]
    hooks = subprocess.run(["git", "-C", "/repo", "log", "--format=%h %s"], stdout=subprocess.PIPE, text=True).stdout.split("\n")
    hook_commits = [l.split(" ")[0] for l in hooks if "verif-hooks" in l]
    checks = []
    na = []
    for p in props:
        pid = p["id"]
        if pid in PROPS and pid in TEXT:
            cat, ref, text, note = TEXT[pid]
            checks.append({
                "property_id": pid,
                "quick_cmd": "python3 check.py %s --tier quick" % pid,
                "thorough_cmd": "python3 check.py %s --tier thorough" % pid,
                "evidence_file": "/verif/evidence/%s.json" % pid,
                "replay_cmd_template": "python3 check.py %s --replay {path}" % pid,
                "engine": "lean4-proof+correspondence",
                "level_claimed": {"category": cat, "text": text, "design_ref": "DESIGN.md section " + ref},
                "level_note": note,
                "technique": "machine-checked proof in Lean 4 about a hand-written model, tied to the code by a differential correspondence check",
            })
        else:
            na.append({"property_id": pid, "reason": NOT_YET})
    man = {
        "version": 1,
        "setup_cmd": "python3 check.py setup",
        "hooks": {
            "guard": "cargo feature verif-hooks",
            "enable": "the harness crate /verif/harness depends on /repo by path with features = [\"verif-hooks\"]; every check rebuilds it from the working tree",
            "baseline_off_cmd": "cd /repo && cargo test --workspace --no-fail-fast --offline",
            "source_commits": hook_commits,
            "add_only": True,
        },
        "engines": [{
            "name": "lean4-proof+correspondence",
            "path": "/verif/check.py",
            "serves_properties": [c["property_id"] for c in checks],
            "kind_free_text": "Lean 4 theorems (lean/Dia/Props) about a hand-written executable model (lean/Dia), compiled driver (lean/Driver.lean) and Rust harness (harness/) run on the same generated operation lines; vlib diffs the property's projection",
        }],
        "checks": checks,
        "not_applicable": na,
        "notes": "see DESIGN.md; known findings in known_findings.json",
    }
    with open(os.path.join(ROOT, "MANIFEST.json"), "w") as f:
        json.dump(man, f, indent=1)
    print("claimed:", [c["property_id"] for c in checks])


if __name__ == "__main__":
    main()
