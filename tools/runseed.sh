#!/bin/bash
# usage: MUTROOT=/tmp/mut6 tools/runseed.sh <Cxx> <mN> [<Cyy> ...]   confirm a seeded change in its scratch worktree, then run the
# quick check of its property (and of the further ones named) against it in /repo; /repo is locked meanwhile (/tmp/repo.lock)
p="$1"; m="$2"; shift 2
root=${MUTROOT:-/tmp/mut6}
conf=$(flock /tmp/cargo-test-3868.lock env MUTROOT=$root /verif/tools/confirm_seed.sh $p $m 2>&1 | tail -1)
echo "CONFIRM $conf"
res=$(flock /tmp/repo.lock /verif/tools/seedtest.sh $root/$p/_out/$m.patch $p "$@" 2>&1 | grep -v KNOWN-FINDING | tr '\n' ' ')
echo "CHECK $p $m: $res"
