#!/bin/bash
# usage: [MUTROOT=/tmp/mut2] confirm_seed.sh <Cxx> <mN>   confirm a seeded change in its scratch worktree $MUTROOT/<Cxx>:
#   compiles (with and without the hooks feature), the 34 tests pass, the demonstration fails with it and passes without
p="$1"; m="$2"; w=${MUTROOT:-/tmp/mut}/$p; o=$w/_out
cd "$w" || exit 2
git checkout -q -- . 2>/dev/null
# a demonstration may need a dev-dependency (never part of the seeded change itself)
[ -f "$o/demo_dev_dependency.patch" ] && git apply "$o/demo_dev_dependency.patch" 2>/dev/null
n=${m#m}
kind=$(python3 -c "import json;print(json.load(open('$o/$m.json')).get('demo_kind','example'))" 2>/dev/null || echo example)
mkdir -p examples tests
if [ "$kind" = "test" ]; then cp "$o/${m}_demo.rs" tests/demo_$n.rs; run="cargo test --offline --test demo_$n"; else cp "$o/${m}_demo.rs" examples/demo_$n.rs; run="cargo run --offline --example demo_$n"; fi
res="$p $m:"
git apply "$o/$m.patch" || { echo "$res PATCH-FAILS"; exit 1; }
cargo build --offline >/dev/null 2>&1 && res="$res build=ok" || res="$res build=FAIL"
cargo build --offline --features verif-hooks >/dev/null 2>&1 && res="$res hooks=ok" || res="$res hooks=FAIL"
t=$(cargo test --offline --lib 2>&1 | grep "test result" | head -1); echo "$t" | grep -q "34 passed; 0 failed" && res="$res tests=34ok" || res="$res tests=FAIL($t)"
timeout 600 $run >/dev/null 2>&1; rc=$?; [ $rc -ne 0 ] && res="$res demo_with=fails($rc)" || res="$res demo_with=PASSES"
git apply -R "$o/$m.patch"
timeout 600 $run >/dev/null 2>&1; rc=$?; [ $rc -eq 0 ] && res="$res demo_without=passes" || res="$res demo_without=FAILS($rc)"
echo "$res"
