#!/bin/bash
# usage: tools/saveseed.sh <mutroot> <Cxx> <mN> <seed-name> "<confirmation line>"   copy a confirmed seeded change into seeded/<seed-name>/
root="$1"; p="$2"; m="$3"; name="$4"; conf="$5"
o=$root/$p/_out; d=/verif/seeded/$name
mkdir -p "$d"
cp "$o/$m.patch" "$d/patch.diff"
cp "$o/${m}_demo.rs" "$d/demo.rs"
[ -f "$o/demo_dev_dependency.patch" ] && cp "$o/demo_dev_dependency.patch" "$d/demo_dev_dependency.patch"
python3 - "$o/$m.json" "$d/meta.json" "$p" "$m" "$name" "$conf" "$root" <<'PY'
import json,sys
src,dst,p,m,name,conf,root=sys.argv[1:8]
try: j=json.load(open(src))
except Exception as e: j={"property":p,"summary":"(meta file of the seeding agent unreadable: %s)"%e}
j["confirmed_in_scratch_worktree"]=conf
j["confirmation_cmd"]="MUTROOT=%s tools/confirm_seed.sh %s %s  (applies the patch in the scratch worktree: cargo build with and without --features verif-hooks, cargo test --lib, demo with the patch (must fail), demo without (must pass))"%(root,p,m)
j["how_to_run_checks_against_it"]="tools/seedtest.sh /verif/seeded/%s/patch.diff %s"%(name,p)
json.dump(j,open(dst,"w"),indent=1)
PY
