#!/bin/bash
# mirror /verif into /tmp/devverif (a development copy that builds against the clean worktree /tmp/devrepo)
rsync -a --delete --exclude work --exclude replays --exclude harness/target --exclude .git --exclude evidence /verif/ /tmp/devverif/
sed -i 's#path = "/repo"#path = "/tmp/devrepo"#' /tmp/devverif/harness/Cargo.toml
sed -i 's#^REPO = "/repo"#REPO = "/tmp/devrepo"#' /tmp/devverif/vlib/core.py
mkdir -p /tmp/devverif/evidence
