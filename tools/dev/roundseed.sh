#!/bin/bash
# usage: r10r.sh <area> <mN>: confirm a round-10 seed in its scratch worktree, then run the quick check of its property against it on /repo
a="$1"; m="$2"
prop=$(python3 -c "import json,re;print(re.findall(r'C\d\d',json.load(open('/tmp/mut10/$a/_out/$m.json')).get('property',''))[0])" 2>/dev/null)
conf=$(flock /tmp/cargo-test-3868.lock env MUTROOT=/tmp/mut10 /verif/tools/confirm_seed.sh $a $m 2>&1 | tail -1)
echo "CONFIRM $conf"
echo "$a $m $prop|$conf" >> /tmp/mut10/conf.txt
cd /verif
r=$(tools/seedtest.sh /tmp/mut10/$a/_out/$m.patch $prop 2>&1 | grep -E "^VIOLATION|ok tier|FAIL tier|patch does not" | tr '\n' ' ')
echo "CHECK $a $m ($prop): ${r:0:160}"
