#!/bin/bash
# usage: tools/seedtest.sh <patch.diff> <Cxx> [<Cyy> ...]   apply a seeded change to /repo, run the checks, undo it
set -u
patch="$1"; shift
cd /repo || exit 2
if ! git diff --quiet; then echo "/repo has uncommitted changes"; exit 2; fi
git apply "$patch" || { echo "patch does not apply"; exit 2; }
trap 'git -C /repo checkout -- . ; git -C /repo clean -fdq -- src examples tests dict 2>/dev/null' EXIT
cd /verif
for p in "$@"; do
  python3 check.py "$p" --tier "${TIER:-quick}" 2>&1 | grep -E "VIOLATION|KNOWN|ok tier|FAIL tier" 
done
