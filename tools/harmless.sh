#!/bin/bash
# usage: tools/harmless.sh <patch> [<Cxx> ...]   apply a behaviour-preserving rewrite to /repo, run the quick checks
# (all of them by default), print every verdict line, undo the change. Any VIOLATION here is a false alarm to repair.
set -u
patch="$1"; shift
cd /repo || exit 2
if ! git diff --quiet; then echo "/repo has uncommitted changes"; exit 2; fi
git apply "$patch" || { echo "patch does not apply"; exit 2; }
trap 'git -C /repo checkout -- . ; git -C /repo clean -fdq -- src examples tests dict 2>/dev/null' EXIT
cd /verif
if [ $# -eq 0 ]; then python3 check.py all 2>&1 | grep -E "VIOLATION|ok tier|FAIL tier"; else for p in "$@"; do python3 check.py "$p" 2>&1 | grep -E "VIOLATION|ok tier|FAIL tier"; done; fi
