#!/usr/bin/env python3
"""Independent reader of a dictionary XML document (xml.etree, nothing from the library): prints the structured
form the Lean model takes (`doc_begin` / `app` / `cmd` / `avp` / `doc_end <mode> <source>`).
usage: xmlscan.py <file.xml> <mode: load|stash> <source: builtin | file <path>>"""
import sys
import xml.etree.ElementTree as ET


def hx(s):
    b = s.encode("utf-8")
    return b.hex() if b else "-"


def rules(path):
    """`--rules <file.xml>`: the member names the <rule> children of grouped definitions mention, one line per
    (group, member): `grule <group name hex> <member name hex>` - used to build groups that repeat such members"""
    root = ET.parse(path).getroot()
    out = []
    for app in root.findall("application"):
        for a in app.findall("avp"):
            data = a.find("data")
            if data is None:
                continue
            for r in data.findall("rule"):
                if r.get("avp"):
                    out.append("grule %s %s" % (hx(a.get("name")), hx(r.get("avp"))))
    print("\n".join(out))


def main():
    if sys.argv[1] == "--rules":
        return rules(sys.argv[2])
    path, mode = sys.argv[1], sys.argv[2]
    source = " ".join(sys.argv[3:])
    root = ET.parse(path).getroot()
    assert root.tag == "diameter"
    out = ["doc_begin"]
    for app in root.findall("application"):
        out.append("app %s %s" % (int(app.get("id")), hx(app.get("name"))))
        for c in app.findall("command"):
            out.append("cmd %s %s" % (int(c.get("code")), hx(c.get("name"))))
        for a in app.findall("avp"):
            must = a.get("must")
            vendor = a.get("vendor-id")
            data = a.find("data")
            out.append("avp %s %s %s %s %s" % (hx(a.get("name")), int(a.get("code")), int(vendor) if vendor is not None else "-",
                                              hx(must) if must is not None else "~", hx(data.get("type"))))
    out.append("doc_end %s %s" % (mode, source))
    print("\n".join(out))


if __name__ == "__main__":
    main()
