import Dia.Faithful
namespace Dia

/-- virtual number of unread octets: negative once the position has run past the end -/
def Cur.vlen : Cur → Int
  | .inRange r => r.length
  | .past o => -((o : Int) + 1)

theorem Cur.read_vlen {c c' : Cur} {n : Nat} {b : Bytes} (h : c.read n = .ok (b, c')) :
    c'.vlen = c.vlen - n := by
  unfold Cur.read at h
  split at h
  · cases h; simp_all
  · cases c with
    | inRange r =>
      simp only at h
      split at h
      · cases h; simp [Cur.vlen]; omega
      · cases h
    | past o => cases h

theorem Cur.skip_vlen (c : Cur) (k : Nat) : (c.skip k).vlen = c.vlen - k := by
  unfold Cur.skip
  split
  · simp_all
  · cases c with
    | inRange r =>
      simp only
      split
      · simp [Cur.vlen]; omega
      · simp [Cur.vlen]; omega
    | past o => simp [Cur.vlen]; omega

theorem Cur.vlen_zero {c : Cur} (h : c.vlen = 0) : c = .inRange [] := by
  cases c with
  | inRange r => simp [Cur.vlen] at h; rw [h]
  | past o => simp [Cur.vlen] at h; omega

theorem decHdr_vlen {c c' : Cur} {h : Hdr} (hd : decHdr c = .ok (h, c')) :
    c'.vlen = c.vlen - hdrLen h.vendor := by
  unfold decHdr at hd
  rw [Out.bind_eq_ok] at hd
  obtain ⟨⟨b8, c1⟩, hr, hd⟩ := hd
  dsimp only at hd
  have e1 := Cur.read_vlen hr
  split at hd
  · rw [Out.bind_eq_ok] at hd
    obtain ⟨⟨b4, c2⟩, hr2, hd⟩ := hd
    dsimp only at hd
    have e2 := Cur.read_vlen hr2
    cases hd
    simp [hdrLen]; omega
  · cases hd
    simp [hdrLen]; omega

theorem decAddr_vlen {vl : Nat} {c c' : Cur} {v : Value} (h : decAddr vl c = .ok (v, c')) :
    c'.vlen = c.vlen - vl := by
  unfold decAddr at h
  rw [Out.bind_eq_ok] at h
  obtain ⟨⟨f, c1⟩, hr, h⟩ := h
  dsimp only at h
  have e1 := Cur.read_vlen hr
  split at h
  · split at h
    · cases h
    · rw [Out.bind_eq_ok] at h
      obtain ⟨⟨b, c2⟩, hr2, h⟩ := h
      dsimp only at h
      cases h
      have e2 := Cur.read_vlen hr2
      omega
  · split at h
    · cases h
    · rw [Out.bind_eq_ok] at h
      obtain ⟨⟨b, c2⟩, hr2, h⟩ := h
      dsimp only at h
      cases h
      have e2 := Cur.read_vlen hr2
      omega
  · split at h
    · cases h
    · split at h
      · cases h
      · unfold checkedSub at h
        rw [if_neg (by omega)] at h
        simp only [Out.bind_ok] at h
        split at h
        · cases h
        · rw [Out.bind_eq_ok] at h
          obtain ⟨⟨b, c2⟩, hr2, h⟩ := h
          dsimp only at h
          split at h
          · cases h
            have e2 := Cur.read_vlen hr2
            omega
          · cases h
  · cases h

theorem decLeaf_vlen {cfg : Cfg} {ty : Ty} {vl : Nat} {c c' : Cur} {v : Value}
    (h : decLeaf cfg ty vl c = .ok (v, c')) (hfix : ∀ n, fixedSize ty = some n → vl = n) :
    c'.vlen = c.vlen - vl := by
  cases hf : fixedSize ty with
  | some n =>
    have hvl := hfix n hf
    subst hvl
    obtain ⟨b, hr, _⟩ := decLeaf_fixed hf h
    exact Cur.read_vlen hr
  | none =>
    unfold decLeaf at h
    rw [hf] at h
    simp only at h
    cases ty <;> simp only [fixedSize, reduceCtorEq] at hf <;> simp only at h
    case address => exact decAddr_vlen h
    case utf8 =>
      rw [Out.bind_eq_ok] at h
      obtain ⟨⟨b, c2⟩, hr, h⟩ := h
      dsimp only at h
      split at h
      · cases h; exact Cur.read_vlen hr
      · cases h
    case identity =>
      rw [Out.bind_eq_ok] at h
      obtain ⟨⟨b, c2⟩, hr, h⟩ := h
      dsimp only at h
      split at h
      · cases h; exact Cur.read_vlen hr
      · cases h
    case octets =>
      rw [Out.bind_eq_ok] at h
      obtain ⟨⟨b, c2⟩, hr, h⟩ := h
      dsimp only at h
      cases h; exact Cur.read_vlen hr
    case uri =>
      rw [Out.bind_eq_ok] at h
      obtain ⟨⟨b, c2⟩, hr, h⟩ := h
      dsimp only at h
      cases h; exact Cur.read_vlen hr
    case grouped => cases h
    case unknown => cases h

mutual
theorem decAvp_vlen (cfg : Cfg) (dict : Lookup) : ∀ (fuel depth : Nat) (c c' : Cur) (a : Avp),
    decAvp cfg dict fuel depth c = .ok (a, c') → a.NoLie → c'.vlen = c.vlen - a.padded
  | 0, _, _, _, _, h, _ => by simp [decAvp] at h
  | fuel+1, depth, c, c', a, h, hnl => by
    simp only [decAvp] at h
    rw [Out.bind_eq_ok] at h
    obtain ⟨⟨hd, c1⟩, hh, h⟩ := h
    dsimp only at h
    have e1 := decHdr_vlen hh
    split at h
    · cases h
    · rw [Out.bind_eq_ok] at h
      obtain ⟨vl, hvl, h⟩ := h
      obtain ⟨hvl1, hvl2⟩ := checkedSub_ok hvl
      rw [Out.bind_eq_ok] at h
      obtain ⟨⟨v, c2⟩, hv, h⟩ := h
      dsimp only at h
      cases h
      simp only [Avp.NoLie] at hnl
      have e3 := Cur.skip_vlen c2 (pad vl)
      have e2 : c2.vlen = c1.vlen - vl := by
        split at hv
        · split at hv
          · cases hv
          · rw [Out.bind_eq_ok] at hv
            obtain ⟨⟨ms, c3⟩, hg, hv⟩ := hv
            dsimp only at hv
            cases hv
            obtain ⟨g1, g2⟩ := decGroup_vlen cfg dict fuel (depth+1) vl 0 c1 c2 ms hg hnl.2
            omega
        · cases hv
        · have hty := decLeaf_ty hv
          exact decLeaf_vlen hv (by
            intro n hn
            have := hnl.1 n (by rw [hty]; exact hn)
            omega)
      simp only [Avp.padded, Avp.len, Avp.padding]
      omega
theorem decGroup_vlen (cfg : Cfg) (dict : Lookup) : ∀ (fuel depth len off : Nat) (c c' : Cur) (ms : List Avp),
    decGroup cfg dict fuel depth len off c = .ok (ms, c') → NoLieList ms →
    c'.vlen = c.vlen - lenList ms ∧ off + lenList ms = len
  | 0, _, _, _, _, _, _, h, _ => by simp [decGroup] at h
  | fuel+1, depth, len, off, c, c', ms, h, hnl => by
    simp only [decGroup] at h
    split at h
    · rw [Out.bind_eq_ok] at h
      obtain ⟨⟨a, c1⟩, ha, h⟩ := h
      dsimp only at h
      rw [Out.bind_eq_ok] at h
      obtain ⟨o1, ho1, h⟩ := h
      rw [Out.bind_eq_ok] at h
      obtain ⟨o2, ho2, h⟩ := h
      rw [Out.bind_eq_ok] at h
      obtain ⟨⟨as, c2⟩, hg, h⟩ := h
      dsimp only at h
      cases h
      have e1 := checkedAdd32_ok ho1
      have e2 := checkedAdd32_ok ho2
      simp only [NoLieList] at hnl
      have a1 := decAvp_vlen cfg dict fuel depth c c1 a ha hnl.1
      obtain ⟨g1, g2⟩ := decGroup_vlen cfg dict fuel depth len o2 c1 _ as hg hnl.2
      simp only [lenList, Avp.padded] at *
      constructor <;> omega
    · split at h
      · cases h
        rename_i h2
        simp [lenList, h2]
      · cases h
end

end Dia
