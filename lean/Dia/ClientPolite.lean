import Dia.ClientThm
/-! delivery: in a run where ids are fresh and the peer answers each started request at most once and sends
nothing else, every answer the reader has finished processing sits in the future of its own request. -/
namespace Dia.Cl

/-- bookkeeping that the polite-run hypotheses talk about, computed from the label history -/
structure Hist where
  usedIds : List Nat := []      -- ids passed to sendBegin so far
  answered : List Nat := []     -- ids the peer has answered so far

def Hist.step (hs : Hist) : Label → Hist
  | .sendBegin h => { hs with usedIds := h :: hs.usedIds }
  | .peerEmit (.msg m) => { hs with answered := m.hbh :: hs.answered }
  | _ => hs

/-- what the quantifier of C11 assumes of a step -/
def polite (s : St) (hs : Hist) : Label → Prop
  | .sendBegin h => h ∉ hs.usedIds
  | .peerEmit (.msg m) => m.hbh ∈ s.started ∧ m.hbh ∉ hs.answered
  | .peerEmit .bad => False
  | _ => True

def runP (s : St) (hs : Hist) : List Label → Option (St × Hist)
  | [] => some (s, hs)
  | l :: ls => match step s l with
    | some s' => runP s' (hs.step l) ls
    | none => none

def politeRun (s : St) (hs : Hist) : List Label → Prop
  | [] => True
  | l :: ls => polite s hs l ∧ match step s l with
    | some s' => politeRun s' (hs.step l) ls
    | none => True

structure Inv2 (s : St) (hs : Hist) : Prop where
  base : Inv s
  k_started : ∀ h, h ∈ s.started → h ∈ hs.usedIds
  k_ids : ∀ w, w < s.nW → s.hbhOf w ∈ hs.usedIds
  k_uniq : ∀ w w', w < s.nW → w' < s.nW → s.hbhOf w = s.hbhOf w' → w = w'
  k_emit_ans : ∀ m, m ∈ s.emitted → m.hbh ∈ hs.answered
  k_emit_uniq : ∀ m m', m ∈ s.emitted → m' ∈ s.emitted → m.hbh = m'.hbh → m = m'
  k_ans_started : ∀ h, h ∈ hs.answered → h ∈ s.started
  k_cached : ∀ h, h ∈ s.started → h ∉ hs.answered → ∃ w, s.cache h = some w
  k_send : ∀ w, (s.send = .registered w ∨ s.send = .writing w) →
      w < s.nW ∧ (s.cache (s.hbhOf w) = some w ∨ s.hbhOf w ∈ hs.answered)
  k_reg : ∀ w, s.send = .registered w → s.hbhOf w ∉ s.started
  k_pend : ∀ m, (Item.msg m ∈ s.wire ∨ s.reader = .decoded m) → ∃ w, s.cache m.hbh = some w
  k_alive : s.reader ≠ .stopping ∧ s.reader ≠ .stopped ∧ s.closed = false
  k_nobad : Item.bad ∉ s.wire
  k_nodup : s.wire.Nodup
  k_lin : ∀ m, Item.msg m ∈ s.wire → s.reader ≠ .decoded m
  k_where : ∀ m, m ∈ s.emitted →
      Item.msg m ∈ s.wire ∨ s.reader = .decoded m ∨ (∃ w, s.reader = .removed m w) ∨
      ∃ w, w < s.nW ∧ s.hbhOf w = m.hbh ∧ s.status w = .got m

theorem inv2_init : Inv2 init {} := by
  refine ⟨inv_init, ?_, ?_, ?_, ?_, ?_, ?_, ?_, ?_, ?_, ?_, ?_, ?_, ?_, ?_, ?_⟩ <;> simp [init]

theorem inv2_sendBegin {s s' : St} {hs : Hist} (h0 : Nat) (hi : Inv2 s hs) (hp : polite s hs (.sendBegin h0))
    (h : step s (.sendBegin h0) = some s') : Inv2 s' (hs.step (.sendBegin h0)) := by
  have hb := inv_step (.sendBegin h0) hi.base h
  obtain ⟨⟨c1, c2, c3, c4, c5, c6, c7⟩, k1, k2, k3, k4, k5, k6, k7, k8, k9, k10, k11, k13, k14, k15, k12⟩ := hi
  simp only [step] at h
  simp only [polite] at hp
  simp only [Hist.step]
  split at h
  · cases h
  · split at h
    · rename_i hcl; exact absurd hcl (by simp [k11.2.2])
    · cases h
      cases hc : s.cache h0 <;> rw [hc] at hb <;> refine ⟨hb, ?_, ?_, ?_, ?_, ?_, ?_, ?_, ?_, ?_, ?_, ?_, ?_, ?_, ?_, ?_⟩ <;>
        (try simp only [upd]) <;> grind
theorem inv2_write {s s' : St} {hs : Hist} (hi : Inv2 s hs) (hp : polite s hs (.write))
    (h : step s (.write) = some s') : Inv2 s' (hs.step (.write)) := by
  have hb := inv_step (.write) hi.base h
  obtain ⟨⟨c1, c2, c3, c4, c5, c6, c7⟩, k1, k2, k3, k4, k5, k6, k7, k8, k9, k10, k11, k13, k14, k15, k12⟩ := hi
  simp only [step] at h
  simp only [polite] at hp
  simp only [Hist.step]
  split at h <;> first
    | (cases h; refine ⟨hb, ?_, ?_, ?_, ?_, ?_, ?_, ?_, ?_, ?_, ?_, ?_, ?_, ?_, ?_, ?_⟩ <;> grind)
    | cases h
theorem inv2_sendReturn {s s' : St} {hs : Hist} (hi : Inv2 s hs) (hp : polite s hs (.sendReturn))
    (h : step s (.sendReturn) = some s') : Inv2 s' (hs.step (.sendReturn)) := by
  have hb := inv_step (.sendReturn) hi.base h
  obtain ⟨⟨c1, c2, c3, c4, c5, c6, c7⟩, k1, k2, k3, k4, k5, k6, k7, k8, k9, k10, k11, k13, k14, k15, k12⟩ := hi
  simp only [step] at h
  simp only [polite] at hp
  simp only [Hist.step]
  split at h <;> first
    | (cases h; refine ⟨hb, ?_, ?_, ?_, ?_, ?_, ?_, ?_, ?_, ?_, ?_, ?_, ?_, ?_, ?_, ?_⟩ <;> grind)
    | cases h
theorem inv2_sendFail {s s' : St} {hs : Hist} (hi : Inv2 s hs) (hp : polite s hs (.sendFail))
    (h : step s (.sendFail) = some s') : Inv2 s' (hs.step (.sendFail)) := by
  have hb := inv_step (.sendFail) hi.base h
  obtain ⟨⟨c1, c2, c3, c4, c5, c6, c7⟩, k1, k2, k3, k4, k5, k6, k7, k8, k9, k10, k11, k13, k14, k15, k12⟩ := hi
  simp only [step] at h
  simp only [polite] at hp
  simp only [Hist.step]
  split at h <;> first
    | (cases h; refine ⟨hb, ?_, ?_, ?_, ?_, ?_, ?_, ?_, ?_, ?_, ?_, ?_, ?_, ?_, ?_, ?_⟩ <;> grind)
    | cases h
theorem inv2_peerEmit {s s' : St} {hs : Hist} (it : Item) (hi : Inv2 s hs) (hp : polite s hs (.peerEmit it))
    (h : step s (.peerEmit it) = some s') : Inv2 s' (hs.step (.peerEmit it)) := by
  have hb := inv_step (.peerEmit it) hi.base h
  obtain ⟨⟨c1, c2, c3, c4, c5, c6, c7⟩, k1, k2, k3, k4, k5, k6, k7, k8, k9, k10, k11, k13, k14, k15, k12⟩ := hi
  simp only [step] at h
  simp only [polite] at hp
  simp only [Hist.step]
  cases it with
  | bad => exact absurd hp (by simp)
  | msg m =>
    cases h
    refine ⟨hb, ?_, ?_, ?_, ?_, ?_, ?_, ?_, ?_, ?_, ?_, ?_, ?_, ?_, ?_, ?_⟩ <;> grind
theorem inv2_readerDecode {s s' : St} {hs : Hist} (hi : Inv2 s hs) (hp : polite s hs (.readerDecode))
    (h : step s (.readerDecode) = some s') : Inv2 s' (hs.step (.readerDecode)) := by
  have hb := inv_step (.readerDecode) hi.base h
  obtain ⟨⟨c1, c2, c3, c4, c5, c6, c7⟩, k1, k2, k3, k4, k5, k6, k7, k8, k9, k10, k11, k13, k14, k15, k12⟩ := hi
  simp only [step] at h
  simp only [polite] at hp
  simp only [Hist.step]
  split at h
  · cases h
  · split at h
    · cases h
    · cases h; refine ⟨hb, ?_, ?_, ?_, ?_, ?_, ?_, ?_, ?_, ?_, ?_, ?_, ?_, ?_, ?_, ?_⟩ <;> grind
    · cases h; refine ⟨hb, ?_, ?_, ?_, ?_, ?_, ?_, ?_, ?_, ?_, ?_, ?_, ?_, ?_, ?_, ?_⟩ <;> grind
theorem inv2_readerRemove {s s' : St} {hs : Hist} (hi : Inv2 s hs) (hp : polite s hs (.readerRemove))
    (h : step s (.readerRemove) = some s') : Inv2 s' (hs.step (.readerRemove)) := by
  have hb := inv_step (.readerRemove) hi.base h
  obtain ⟨⟨c1, c2, c3, c4, c5, c6, c7⟩, k1, k2, k3, k4, k5, k6, k7, k8, k9, k10, k11, k13, k14, k15, k12⟩ := hi
  simp only [step] at h
  simp only [polite] at hp
  simp only [Hist.step]
  split at h
  · split at h <;> (cases h; refine ⟨hb, ?_, ?_, ?_, ?_, ?_, ?_, ?_, ?_, ?_, ?_, ?_, ?_, ?_, ?_, ?_⟩ <;> (try simp only [upd]) <;> grind)
  · cases h
theorem inv2_readerDeliver {s s' : St} {hs : Hist} (hi : Inv2 s hs) (hp : polite s hs (.readerDeliver))
    (h : step s (.readerDeliver) = some s') : Inv2 s' (hs.step (.readerDeliver)) := by
  have hb := inv_step (.readerDeliver) hi.base h
  obtain ⟨⟨c1, c2, c3, c4, c5, c6, c7⟩, k1, k2, k3, k4, k5, k6, k7, k8, k9, k10, k11, k13, k14, k15, k12⟩ := hi
  simp only [step] at h
  simp only [polite] at hp
  simp only [Hist.step]
  split at h
  · cases h; refine ⟨hb, ?_, ?_, ?_, ?_, ?_, ?_, ?_, ?_, ?_, ?_, ?_, ?_, ?_, ?_, ?_⟩ <;> (try simp only [upd]) <;> grind
  · cases h
theorem inv2_readerStop {s s' : St} {hs : Hist} (hi : Inv2 s hs) (hp : polite s hs (.readerStop))
    (h : step s (.readerStop) = some s') : Inv2 s' (hs.step (.readerStop)) := by
  have hb := inv_step (.readerStop) hi.base h
  obtain ⟨⟨c1, c2, c3, c4, c5, c6, c7⟩, k1, k2, k3, k4, k5, k6, k7, k8, k9, k10, k11, k13, k14, k15, k12⟩ := hi
  simp only [step] at h
  simp only [polite] at hp
  simp only [Hist.step]
  split at h
  · cases h
  · rename_i hr; exact absurd (by simpa using hr) k11.1

theorem inv2_step {s s' : St} {hs : Hist} (l : Label) (hi : Inv2 s hs) (hp : polite s hs l)
    (h : step s l = some s') : Inv2 s' (hs.step l) := by
  cases l with
  | sendBegin h0 => exact inv2_sendBegin h0 hi hp h
  | write => exact inv2_write hi hp h
  | sendReturn => exact inv2_sendReturn hi hp h
  | sendFail => exact inv2_sendFail hi hp h
  | peerEmit it => exact inv2_peerEmit it hi hp h
  | readerDecode => exact inv2_readerDecode hi hp h
  | readerRemove => exact inv2_readerRemove hi hp h
  | readerDeliver => exact inv2_readerDeliver hi hp h
  | readerStop => exact inv2_readerStop hi hp h

theorem inv2_run {s s' : St} {hs hs' : Hist} (ls : List Label) (hi : Inv2 s hs) (hp : politeRun s hs ls)
    (h : runP s hs ls = some (s', hs')) : Inv2 s' hs' := by
  induction ls generalizing s hs with
  | nil => simp [runP] at h; obtain ⟨rfl, rfl⟩ := h; exact hi
  | cons l ls ih =>
    simp only [runP] at h
    simp only [politeRun] at hp
    split at h
    · rename_i s1 hs1
      rw [hs1] at hp
      exact ih (inv2_step l hi hp.1 hs1) hp.2 h
    · cases h

end Dia.Cl
