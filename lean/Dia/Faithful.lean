import Dia.Tree
namespace Dia

theorem take_drop_pad {r : Bytes} {k : Nat} (h : k ≤ r.length) :
    r = r.take k ++ r.drop k ∧ (r.take k).length = k := by
  constructor
  · simp
  · simp; omega

theorem checkedSub_ok {a b v : Nat} (h : checkedSub a b = .ok v) : v = a - b ∧ b ≤ a := by
  unfold checkedSub at h; split at h
  · cases h
  · cases h; exact ⟨rfl, by omega⟩

theorem checkedAdd32_ok {a b v : Nat} (h : checkedAdd32 a b = .ok v) : v = a + b := by
  unfold checkedAdd32 at h; split at h
  · cases h
  · cases h; rfl

mutual
theorem decAvp_inv (cfg : Cfg) (dict : Lookup) : ∀ (fuel depth : Nat) (c : Cur) (a : Avp) (r' : Bytes),
    decAvp cfg dict fuel depth c = .ok (a, .inRange r') → a.NoLie →
    ∃ used, c = .inRange (used ++ r') ∧ used.length = a.padded ∧ used.length = a.mask.length ∧
      a.enc = ⟨applyMask used a.mask, none⟩ ∧ a.Cons ∧ a.WF
  | 0, _, _, _, _, h, _ => by simp [decAvp] at h
  | fuel+1, depth, c, a, r', h, hnl => by
    simp only [decAvp] at h
    rw [Out.bind_eq_ok] at h
    obtain ⟨⟨hd, c1⟩, hh, h⟩ := h
    dsimp only at h
    obtain ⟨hin1, hlen24, hhdr⟩ := decHdr_inv hh
    split at h
    · cases h
    · rename_i hshort
      rw [Out.bind_eq_ok] at h
      obtain ⟨vl, hvl, h⟩ := h
      obtain ⟨hvl1, hvl2⟩ := checkedSub_ok hvl
      rw [Out.bind_eq_ok] at h
      obtain ⟨⟨v, c2⟩, hv, h⟩ := h
      dsimp only at h
      simp only [Out.ok.injEq, Prod.mk.injEq] at h
      obtain ⟨ha, hskip⟩ := h
      subst ha
      obtain ⟨r2, hc2, hpadle, hr'⟩ := Cur.skip_spec hskip
      subst hc2
      simp only [Avp.NoLie] at hnl
      -- the value part
      have hval : ∃ vb r1, c1 = .inRange r1 ∧ r1 = vb ++ r2 ∧ vb.length = v.len ∧ vb.length = v.mask.length ∧
          v.enc = ⟨applyMask vb v.mask, none⟩ ∧ v.Cons ∧ v.WF ∧ vl = v.len := by
        split at hv
        · split at hv
          · cases hv
          · rw [Out.bind_eq_ok] at hv
            obtain ⟨⟨ms, c3⟩, hg, hv⟩ := hv
            dsimp only at hv
            cases hv
            obtain ⟨ug, h1, h2, h3, h4, h5, h6, h7⟩ := decGroup_inv cfg dict fuel (depth+1) _ 0 c1 ms r2 hg hnl.2
            exact ⟨ug, ug ++ r2, h1, rfl, by simpa [Value.len] using h2, by simpa [Value.mask] using h4,
              by simpa [Value.mask, Value.enc] using h5, h6, h7, by simp [Value.len]; omega⟩
        · cases hv
        · have hty := decLeaf_ty hv
          have hfix : ∀ n, fixedSize (dict hd.code hd.vendor) = some n → vl = n := by
            intro n hn
            have := hnl.1 n (by rw [hty]; exact hn)
            omega
          obtain ⟨_, l2, l3, l4, _, _, l7⟩ := decLeaf_inv hv hfix
          obtain ⟨vb, hc1, hvbl, henc, hmask⟩ := l7 r2 rfl
          refine ⟨vb, vb ++ r2, hc1, rfl, by omega, by rw [hmask]; simp [hvbl], ?_, l4, l3, l2.symm⟩
          rw [hmask, applyMask_keep' vb vl hvbl]; exact henc
      obtain ⟨vb, r1, hc1, hr1, hvl', hvml, hvenc, hvcons, hvwf, hvlen⟩ := hval
      obtain ⟨hb, hc0, hblen, hbmlen, hbmask⟩ := hhdr r1 hc1
      obtain ⟨hpd1, hpd2⟩ := take_drop_pad hpadle
      refine ⟨hb ++ (vb ++ r2.take (pad vl)), ?_, ?_, ?_, ?_, ?_, ?_⟩
      · rw [hc0, hr1, hr']
        simp only [List.append_assoc]
        congr 3
      · simp only [List.length_append, Avp.padded, Avp.len, Avp.padding, hblen, hvl', hpd2]; omega
      · simp only [List.length_append, Avp.mask, List.length_replicate, hbmlen, hvml, hpd2]
      · simp only [Avp.mask, Avp.enc]
        rw [encHdr_ok hlen24, Enc.andThen_ok, hvenc, Enc.andThen_ok]
        rw [applyMask_append _ _ _ _ hbmlen, applyMask_append _ _ _ _ hvml, hbmask,
          applyMask_zero' _ _ hpd2]
        simp [Enc.ok]
      · exact ⟨by omega, by rw [hvlen], hvcons⟩
      · exact ⟨hlen24, hvwf⟩
theorem decGroup_inv (cfg : Cfg) (dict : Lookup) : ∀ (fuel depth len off : Nat) (c : Cur) (ms : List Avp) (r' : Bytes),
    decGroup cfg dict fuel depth len off c = .ok (ms, .inRange r') → NoLieList ms →
    ∃ used, c = .inRange (used ++ r') ∧ used.length = lenList ms ∧ off + lenList ms = len ∧
      used.length = (maskList ms).length ∧ encList ms = ⟨applyMask used (maskList ms), none⟩ ∧
      ConsList ms ∧ WFList ms
  | 0, _, _, _, _, _, _, h, _ => by simp [decGroup] at h
  | fuel+1, depth, len, off, c, ms, r', h, hnl => by
    simp only [decGroup] at h
    split at h
    · rw [Out.bind_eq_ok] at h
      obtain ⟨⟨a, c1⟩, ha, h⟩ := h
      dsimp only at h
      rw [Out.bind_eq_ok] at h
      obtain ⟨o1, ho1, h⟩ := h
      rw [Out.bind_eq_ok] at h
      obtain ⟨o2, ho2, h⟩ := h
      rw [Out.bind_eq_ok] at h
      obtain ⟨⟨as, c2⟩, hg, h⟩ := h
      dsimp only at h
      simp only [Out.ok.injEq, Prod.mk.injEq] at h
      obtain ⟨hms, hc2⟩ := h
      subst hms hc2
      have e1 := checkedAdd32_ok ho1
      have e2 := checkedAdd32_ok ho2
      simp only [NoLieList] at hnl
      have hin1 : c1.isIn := decGroup_isIn cfg dict fuel depth len o2 c1 _ as hg trivial
      obtain ⟨r1, hr1⟩ : ∃ r1, c1 = .inRange r1 := by
        cases c1 with
        | inRange r => exact ⟨r, rfl⟩
        | past o => exact absurd hin1 (by simp [Cur.isIn])
      subst hr1
      obtain ⟨u1, a1, a2, a3, a4, a5, a6⟩ := decAvp_inv cfg dict fuel depth c a r1 ha hnl.1
      obtain ⟨u2, g1, g2, g3, g4, g5, g6, g7⟩ := decGroup_inv cfg dict fuel depth len o2 (.inRange r1) as r' hg hnl.2
      cases g1
      refine ⟨u1 ++ u2, by rw [a1, List.append_assoc], by simp [lenList, a2, g2],
        by simp [lenList, Avp.padded] at *; omega, by simp [maskList, a3, g4], ?_, ⟨a5, g6⟩, ⟨a6, g7⟩⟩
      simp only [maskList, encList]
      rw [a4, Enc.andThen_ok, g5, applyMask_append _ _ _ _ a3]
    · split at h
      · rename_i h1 h2
        simp only [Out.ok.injEq, Prod.mk.injEq] at h
        obtain ⟨hms, hc⟩ := h
        subst hms hc
        exact ⟨[], by simp, by simp [lenList], by simp [lenList, h2], by simp [maskList],
          by simp [maskList, encList, applyMask, Enc.ok], trivial, trivial⟩
      · cases h
end

end Dia
