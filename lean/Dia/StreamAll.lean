import Dia.StreamSeq
/-! Streams that also carry frames the message decoder refuses: a refusal costs exactly the refused frame. -/
namespace Dia

/-- a frame the stream reader takes as one frame, whatever the message decoder then says about its content -/
structure Framed (f : Bytes) : Prop where
  len : declaredLen f = f.length
  lo : 20 ≤ f.length
  hi : f.length ≤ 1048576

/-- what `Codec::decode` makes of the message decoder's verdict -/
def COut.ofDec : Out Msg → COut
  | .ok m => .ok m
  | .err _ => .err .decode
  | .panic => .panic

theorem Accepts.framed {cfg : Cfg} {dict : Lookup} {f : Bytes} {m : Msg} (h : Accepts cfg dict f m) : Framed f :=
  ⟨h.len, h.lo, h.hi⟩

/-- one well-framed frame, accepted or not: however the octets are segmented, one call hands exactly the frame to the
message decoder, consumes exactly the frame, and leaves a script that delivers exactly the rest -/
theorem Codec.decode_framed (cfg : Cfg) (dict : Lookup) (evs : List REv) (f more : Bytes)
    (hne : noEmpty evs) (hflat : flat evs = f ++ more) (ha : Framed f) :
    ∃ evs', Codec.decode cfg dict evs = ⟨COut.ofDec (decMsg cfg dict f), evs', f.length⟩ ∧ flat evs' = more ∧
      noEmpty evs' := by
  obtain ⟨hlen, hlo, hhi⟩ := ha
  have h4 : 4 ≤ (flat evs).length := by rw [hflat]; simp; omega
  obtain ⟨evs1, r1, f1, n1⟩ := readExact_flat 4 evs hne h4
  have hp : (flat evs).take 4 = f.take 4 := by rw [hflat, List.take_append_of_le_length (by omega)]
  have hL : fromBe (((flat evs).take 4).drop 1) = f.length := by rw [hp]; exact hlen
  have hrest : f.length - 4 ≤ (flat evs1).length := by rw [f1, hflat]; simp; omega
  obtain ⟨evs2, r2, f2, n2⟩ := readExact_flat (f.length - 4) evs1 n1 hrest
  refine ⟨evs2, ?_, ?_, n2⟩
  · unfold Codec.decode
    rw [r1]
    simp only [hL]
    rw [if_neg (by omega), if_neg (by omega), if_neg (by omega), r2]
    simp only
    have hbody : (flat evs).take 4 ++ (flat evs1).take (f.length - 4) = f := by
      rw [f1, hflat, List.take_append_of_le_length (by omega), List.drop_append_of_le_length (by omega),
        List.take_append_of_le_length (by simp)]
      have : (f.drop 4).take (f.length - 4) = f.drop 4 := List.take_of_length_le (by simp)
      rw [this]; simp
    rw [hbody]
    simp only [DecRes.mk.injEq]
    refine ⟨?_, trivial, ?_⟩
    · cases decMsg cfg dict f <;> rfl
    · simp; omega
  · rw [f2, f1, hflat, List.drop_append_of_le_length (by omega)]
    have hl : (f.drop 4).length = f.length - 4 := by simp
    rw [← hl, List.drop_append_of_le_length (Nat.le_refl _)]
    simp; omega

/-- `n` successive `Codec::decode` calls on one stream, going on after a frame the message decoder refused (the stream
is at the next frame then) and stopping at the first failure of the stream or of the framing -/
def decodeSeqAll (cfg : Cfg) (dict : Lookup) : Nat → List REv → List (COut × Nat)
  | 0, _ => []
  | n+1, evs =>
    let r := Codec.decode cfg dict evs
    match r.out with
    | .ok m => (.ok m, r.consumed) :: decodeSeqAll cfg dict n r.rest
    | .err .decode => (.err .decode, r.consumed) :: decodeSeqAll cfg dict n r.rest
    | .err e => [(.err e, r.consumed)]
    | .panic => [(.panic, r.consumed)]

/-- a stream of well-framed frames, some of which the message decoder refuses: the i-th call reports exactly the verdict
on the i-th frame and consumes exactly that frame - a refused frame never costs an octet of its successors -/
theorem decodeSeqAll_framed (cfg : Cfg) (dict : Lookup) :
    ∀ (frames : List Bytes) (evs : List REv) (more : Bytes),
    (∀ f ∈ frames, Framed f) → (∀ f ∈ frames, decMsg cfg dict f ≠ .panic) →
    noEmpty evs → flat evs = frames.flatten ++ more →
    decodeSeqAll cfg dict frames.length evs = frames.map (fun f => (COut.ofDec (decMsg cfg dict f), f.length)) := by
  intro frames
  induction frames with
  | nil => intro evs more _ _ _ _; simp [decodeSeqAll]
  | cons f fs ih =>
    intro evs more hfr hnp hne hflat
    obtain ⟨evs1, hd, hf1, hne1⟩ := Codec.decode_framed cfg dict evs f (fs.flatten ++ more) hne
      (by simpa [List.append_assoc] using hflat) (hfr f (by simp))
    have ih' := ih evs1 more (fun g hg => hfr g (by simp [hg])) (fun g hg => hnp g (by simp [hg])) hne1 hf1
    have hnp0 := hnp f (by simp)
    simp only [List.length_cons, decodeSeqAll, hd, List.map_cons]
    cases hdm : decMsg cfg dict f with
    | ok m => simp only [COut.ofDec, ih']
    | err e => simp only [COut.ofDec, ih']
    | panic => exact absurd hdm hnp0


/-- the same with anything behind the frames: after the frames the calls go on with a script that delivers exactly the rest -/
theorem decodeSeqAll_prefix (cfg : Cfg) (dict : Lookup) :
    ∀ (frames : List Bytes) (evs : List REv) (more : Bytes) (k : Nat),
    (∀ f ∈ frames, Framed f) → (∀ f ∈ frames, decMsg cfg dict f ≠ .panic) →
    noEmpty evs → flat evs = frames.flatten ++ more →
    ∃ evs', decodeSeqAll cfg dict (frames.length + k) evs =
        frames.map (fun f => (COut.ofDec (decMsg cfg dict f), f.length)) ++ decodeSeqAll cfg dict k evs' ∧
      flat evs' = more ∧ noEmpty evs' := by
  intro frames
  induction frames with
  | nil => intro evs more k _ _ hne hflat; exact ⟨evs, by simp, by simpa using hflat, hne⟩
  | cons f fs ih =>
    intro evs more k hfr hnp hne hflat
    obtain ⟨evs1, hd, hf1, hne1⟩ := Codec.decode_framed cfg dict evs f (fs.flatten ++ more) hne
      (by simpa [List.append_assoc] using hflat) (hfr f (by simp))
    obtain ⟨evs2, ih', hf2, hne2⟩ := ih evs1 more k (fun g hg => hfr g (by simp [hg]))
      (fun g hg => hnp g (by simp [hg])) hne1 hf1
    have hnp0 := hnp f (by simp)
    refine ⟨evs2, ?_, hf2, hne2⟩
    have hk : (f :: fs).length + k = (fs.length + k) + 1 := by simp; omega
    rw [hk]
    simp only [decodeSeqAll, hd, List.map_cons, List.cons_append]
    cases hdm : decMsg cfg dict f with
    | ok m => simp only [COut.ofDec, ih']
    | err e => simp only [COut.ofDec, ih']
    | panic => exact absurd hdm hnp0

end Dia
