import Dia.History
/-! Canonical text forms shared with the Rust harness (DESIGN.md Appendix A). Driver glue: not verified. -/
namespace Dia

def hexDigit (n : Nat) : Char := if n < 10 then Char.ofNat (48 + n) else Char.ofNat (87 + n)

def hexChars (b : Bytes) (acc : List Char) : List Char :=
  b.foldr (fun x acc => hexDigit (x.toNat / 16) :: hexDigit (x.toNat % 16) :: acc) acc

def hex (b : Bytes) : String := String.ofList (hexChars b [])

/-- hex, with `-` standing for the empty string (a bare empty field would break `splitOn`) -/
def hexOrDash (b : Bytes) : String := if b.isEmpty then "-" else hex b

def hexVal? (c : Char) : Option Nat :=
  if '0' ≤ c ∧ c ≤ '9' then some (c.toNat - 48)
  else if 'a' ≤ c ∧ c ≤ 'f' then some (c.toNat - 87)
  else none

def unhexList : List Char → Bytes → Option Bytes
  | [], acc => some acc.reverse
  | a :: b :: r, acc =>
    match hexVal? a, hexVal? b with
    | some x, some y => unhexList r ((x * 16 + y).toUInt8 :: acc)
    | _, _ => none
  | [_], _ => none

def unhex? (s : String) : Option Bytes := if s = "-" then some [] else unhexList s.toList []

def toI32 (v : UInt32) : Int := if v.toNat < 2147483648 then v.toNat else (v.toNat : Int) - 4294967296
def toI64 (v : UInt64) : Int := if v.toNat < 9223372036854775808 then v.toNat else (v.toNat : Int) - 18446744073709551616

def padHex (width : Nat) (b : Bytes) : String := let s := hex b; String.ofList (List.replicate (width - s.length) '0') ++ s

mutual
def Value.dump : Value → String
  | .address (.v4 b) => "addr:0001" ++ hex b
  | .address (.v6 b) => "addr:0002" ++ hex b
  | .address (.e164 s) => "addr:0008" ++ hex s
  | .ipv4 b => "ipv4:" ++ hex b
  | .ipv6 b => "ipv6:" ++ hex b
  | .identity s => "ident:" ++ hex s
  | .uri b => "uri:" ++ hex b
  | .enumerated v => "enum:" ++ toString (toI32 v)
  | .float32 v => "f32:" ++ hex (be32 v.toNat)
  | .float64 v => "f64:" ++ hex (be64 v.toNat)
  | .grouped ms => "grp:[" ++ dumpList ms ++ "]"
  | .integer32 v => "i32:" ++ toString (toI32 v)
  | .integer64 v => "i64:" ++ toString (toI64 v)
  | .octets b => "oct:" ++ hex b
  | .time s n => "time:" ++ toString s ++ "." ++ toString n
  | .unsigned32 v => "u32:" ++ toString v.toNat
  | .unsigned64 v => "u64:" ++ toString v.toNat
  | .utf8 s => "utf8:" ++ hex s
def Avp.dump : Avp → String
  | .mk code vendor m p len padding v =>
    "A(" ++ toString code.toNat ++ "," ++ (match vendor with | some x => toString x.toNat | none => "-") ++ "," ++
      (if vendor.isSome then "1" else "0") ++ (if m then "1" else "0") ++ (if p then "1" else "0") ++ "," ++
      toString len ++ "," ++ toString padding ++ "," ++ v.dump ++ ")"
def dumpList : List Avp → String
  | [] => ""
  | a :: as => a.dump ++ dumpList as
end

def Msg.dump (m : Msg) : String :=
  "M(" ++ toString m.version.toNat ++ "," ++ toString m.length ++ "," ++ toString m.flags.toNat ++ "," ++
    toString m.cmd ++ "," ++ toString m.app ++ "," ++ toString m.hbh.toNat ++ "," ++ toString m.e2e.toNat ++ ")[" ++
    dumpList m.avps ++ "]"

def allTys : List Ty :=
  [.address, .ipv4, .ipv6, .identity, .uri, .enumerated, .float32, .float64, .grouped, .integer32, .integer64,
   .octets, .time, .unsigned32, .unsigned64, .utf8]

/- accessor matrix: per AVP the 16 typed getters (`1` = `Some`) and the value seen through the getter that answered -/
mutual
def Avp.accDump : Avp → String
  | .mk code vendor m p len padding v =>
    let a := Avp.mk code vendor m p len padding v
    let bits := String.ofList (allTys.map fun t => if (a.getTyped t).isSome then '1' else '0')
    "{" ++ bits ++ "=" ++
      (match v with
       | .grouped ms => "grp:[" ++ accDumpList ms ++ "]"
       | .address x => (Value.address x).dump | .ipv4 x => (Value.ipv4 x).dump | .ipv6 x => (Value.ipv6 x).dump
       | .identity x => (Value.identity x).dump | .uri x => (Value.uri x).dump
       | .enumerated x => (Value.enumerated x).dump | .float32 x => (Value.float32 x).dump
       | .float64 x => (Value.float64 x).dump | .integer32 x => (Value.integer32 x).dump
       | .integer64 x => (Value.integer64 x).dump | .octets x => (Value.octets x).dump
       | .time s n => (Value.time s n).dump | .unsigned32 x => (Value.unsigned32 x).dump
       | .unsigned64 x => (Value.unsigned64 x).dump | .utf8 x => (Value.utf8 x).dump) ++ "}"
def accDumpList : List Avp → String
  | [] => ""
  | a :: as => a.accDump ++ accDumpList as
end

def Ty.name : Ty → String
  | .address => "Address" | .ipv4 => "IPv4" | .ipv6 => "IPv6" | .identity => "DiameterIdentity"
  | .uri => "DiameterURI" | .enumerated => "Enumerated" | .float32 => "Float32" | .float64 => "Float64"
  | .grouped => "Grouped" | .integer32 => "Integer32" | .integer64 => "Integer64" | .octets => "OctetString"
  | .time => "Time" | .unsigned32 => "Unsigned32" | .unsigned64 => "Unsigned64" | .utf8 => "UTF8String"
  | .unknown => "Unknown"

def Def.dump (d : Def) : String :=
  toString d.code.toNat ++ "," ++ (match d.vendor with | some x => toString x.toNat | none => "-") ++ "," ++
    hexOrDash d.name.toUTF8.toList ++ "," ++ d.ty.name ++ "," ++ (if d.m then "1" else "0")

end Dia
