import Dia.Server
namespace Dia

def WEv.good : WEv → Prop
  | .accept k => 0 < k
  | .pending => True
  | .fail => False

def neverFails (w : List WEv) : Prop := ∀ e ∈ w, e.good

/-- C06 (write side): a stream that accepts octets in arbitrary partial amounts, with arbitrary pauses, ends up
holding exactly the octets handed to `write_all` -/
theorem writeAll_ok : ∀ (bs : Bytes) (w : List WEv), neverFails w →
    ∃ w', writeAll bs w = (true, bs, w') ∧ neverFails w' := by
  intro bs w
  induction w generalizing bs with
  | nil =>
    intro _
    cases bs <;> exact ⟨[], by simp [writeAll], by simp [neverFails]⟩
  | cons e w ih =>
    intro hnf
    have hw : neverFails w := fun x hx => hnf x (List.mem_cons_of_mem _ hx)
    have he : e.good := hnf e (List.mem_cons_self ..)
    cases bs with
    | nil => exact ⟨e :: w, by simp [writeAll], hnf⟩
    | cons b bs =>
      cases e with
      | pending =>
        obtain ⟨w', h1, h2⟩ := ih (b :: bs) hw
        exact ⟨w', by simp only [writeAll]; exact h1, h2⟩
      | fail => exact absurd he (by simp [WEv.good])
      | accept k =>
        simp only [WEv.good] at he
        simp only [writeAll]
        rw [if_neg (by omega)]
        split
        · exact ⟨w, rfl, hw⟩
        · obtain ⟨w', h1, h2⟩ := ih ((b :: bs).drop k) hw
          rw [h1]
          exact ⟨w', by simp, h2⟩

/-- the stream reader refuses a stream that has ended -/
theorem Codec.decode_end (cfg : Cfg) (dict : Lookup) (evs : List REv) (hne : noEmpty evs) (hflat : flat evs = []) :
    (Codec.decode cfg dict evs).out = .err .eof := by
  have hr : ∃ evs1, readExact 4 evs = (.eof [], evs1) := by
    induction evs with
    | nil => exact ⟨[], by simp [readExact]⟩
    | cons e r ih =>
      cases e with
      | pending =>
        obtain ⟨evs1, h⟩ := ih hne hflat
        exact ⟨evs1, by rw [readExact]; exact h⟩
      | eof => exact ⟨.eof :: r, by simp [readExact]⟩
      | fail => exact absurd hne (by simp [noEmpty])
      | data bs =>
        simp only [flat, noEmpty] at hflat hne
        have : bs = [] := by
          cases bs with
          | nil => rfl
          | cons x xs => simp at hflat
        exact absurd this hne.1
  obtain ⟨evs1, h⟩ := hr
  unfold Codec.decode
  rw [h]

/-- C08: for any sequence of acceptable request frames, however segmented and with `Pending` anywhere on both
directions, the handler sees exactly those requests in order, and exactly the encodings of its answers are
written, in that order, and nothing else. -/
theorem serve_all_good (cfg : Cfg) (dict : Lookup) :
    ∀ (frames : List Bytes) (reqs answers : List Msg) (evs : List REv) (w : List WEv),
    frames.length = reqs.length → answers.length = reqs.length →
    (∀ i (h1 : i < frames.length) (h2 : i < reqs.length), Accepts cfg dict frames[i] reqs[i]) →
    (∀ a ∈ answers, a.enc.err = none) →
    noEmpty evs → flat evs = frames.flatten → neverFails w →
    (serve cfg dict (answers.map .ok) evs w).calls = reqs ∧
    (serve cfg dict (answers.map .ok) evs w).written = (answers.map (fun a => a.enc.bytes)).flatten ∧
    (serve cfg dict (answers.map .ok) evs w).clean = true := by
  intro frames
  induction frames with
  | nil =>
    intro reqs answers evs w hl1 hl2 _ _ hne hflat _
    have hr : reqs = [] := List.eq_nil_of_length_eq_zero (by simpa using hl1.symm)
    subst hr
    have ha : answers = [] := List.eq_nil_of_length_eq_zero (by simpa using hl2)
    subst ha
    have := Codec.decode_end cfg dict evs hne (by simpa using hflat)
    rw [serve]
    simp [this]
  | cons f fs ih =>
    intro reqs answers evs w hl1 hl2 hacc henc hne hflat hw
    cases reqs with
    | nil => simp at hl1
    | cons req reqs =>
      cases answers with
      | nil => simp at hl2
      | cons ans answers =>
        have ha0 : Accepts cfg dict f req := hacc 0 (Nat.zero_lt_succ _) (Nat.zero_lt_succ _)
        obtain ⟨evs', hd, hf', hne'⟩ := Codec.decode_frame cfg dict evs f fs.flatten req hne (by simpa using hflat) ha0
        have hanse : ans.enc.err = none := henc ans (List.mem_cons_self ..)
        obtain ⟨w', hwr, hw'⟩ := writeAll_ok ans.enc.bytes w hw
        have ih' := ih reqs answers evs' w' (by simpa using hl1) (by simpa using hl2)
          (fun i h1 h2 => by
            have := hacc (i+1) (Nat.succ_lt_succ h1) (Nat.succ_lt_succ h2)
            simpa using this)
          (fun a ha => henc a (List.mem_cons_of_mem _ ha)) hne' hf' hw'
        rw [serve]
        simp only [hd, List.map_cons, hanse, hwr, if_true, ServeLog.cons]
        obtain ⟨i1, i2, i3⟩ := ih'
        exact ⟨by rw [i1], by rw [i2]; simp, i3⟩

end Dia
