/-! Model of `src/transport/client.rs`: the request/answer table as a labelled transition system whose labels are the
lock-granularity atomic steps of the code. Import-free, so the driver links.

  sendBegin h    `send_message`, under the table lock: refuse if `closed`, else create the waiter and insert it
                 (superseding - and thereby dropping - an older waiter registered under the same id)
  write          one `poll_write` of the request that accepted octets
  sendReturn     `send_message` returns `Ok(future)`
  sendFail       `send_message` returns `Err` after registering (write error)
  peerEmit it    the peer puts a message (or something undecodable / a close / a reset: `bad`) on the wire
  readerDecode   `Codec::decode` in `handle` returns
  readerRemove   `process_decoded_msg`, under the lock: `waiters.remove(hop_by_hop)`
  readerDeliver  `sender.send(res)`
  readerStop     `close`, under the lock: `closed := true`, every cached waiter dropped, table emptied -/
namespace Dia.Cl

structure Msg where
  hbh : Nat
  uid : Nat
deriving DecidableEq, Repr

inductive WStatus | pending | got (m : Msg) | dropped
deriving DecidableEq, Repr

inductive Item | msg (m : Msg) | bad
deriving DecidableEq, Repr

inductive Reader
  | running
  | decoded (m : Msg)
  | removed (m : Msg) (w : Nat)
  | stopping
  | stopped
deriving DecidableEq, Repr

inductive SendPhase | idle | registered (w : Nat) | writing (w : Nat)
deriving DecidableEq, Repr

structure St where
  nW : Nat
  hbhOf : Nat → Nat
  status : Nat → WStatus
  handed : Nat → Bool
  cache : Nat → Option Nat
  closed : Bool
  wire : List Item
  emitted : List Msg
  reader : Reader
  send : SendPhase
  started : List Nat

def init : St := ⟨0, fun _ => 0, fun _ => .dropped, fun _ => false, fun _ => none, false, [], [], .running, .idle, []⟩

inductive Label
  | sendBegin (hbh : Nat)
  | write
  | sendReturn
  | sendFail
  | peerEmit (it : Item)
  | readerDecode
  | readerRemove
  | readerDeliver
  | readerStop
deriving Repr

def upd {α} (f : Nat → α) (k : Nat) (v : α) : Nat → α := fun x => if x = k then v else f x

/-- `none` = label not enabled in this state -/
def step (s : St) : Label → Option St
  | .sendBegin h =>
    if s.send ≠ .idle then none else
    if s.closed then some s
    else
      let w := s.nW
      let st := upd s.status w .pending
      let st := match s.cache h with
        | some old => upd st old .dropped
        | none => st
      some { s with nW := w + 1, hbhOf := upd s.hbhOf w h, status := st, handed := upd s.handed w false,
                    cache := upd s.cache h (some w), send := .registered w }
  | .write =>
    match s.send with
    | .registered w | .writing w => some { s with send := .writing w, started := s.hbhOf w :: s.started }
    | .idle => none
  | .sendReturn =>
    match s.send with
    | .writing w => some { s with send := .idle, handed := upd s.handed w true }
    | _ => none
  | .sendFail =>
    match s.send with
    | .registered _ | .writing _ => some { s with send := .idle }
    | .idle => none
  | .peerEmit it =>
    some { s with wire := s.wire ++ [it],
                  emitted := match it with | .msg m => m :: s.emitted | .bad => s.emitted }
  | .readerDecode =>
    if s.reader ≠ .running then none else
    match s.wire with
    | [] => none
    | .msg m :: rest => some { s with wire := rest, reader := .decoded m }
    | .bad :: rest => some { s with wire := rest, reader := .stopping }
  | .readerRemove =>
    match s.reader with
    | .decoded m =>
      match s.cache m.hbh with
      | some w => some { s with cache := upd s.cache m.hbh none, reader := .removed m w }
      | none => some { s with reader := .stopping }
    | _ => none
  | .readerDeliver =>
    match s.reader with
    | .removed m w => some { s with status := upd s.status w (.got m), reader := .running }
    | _ => none
  | .readerStop =>
    if s.reader ≠ .stopping then none else
    some { s with closed := true,
                  status := fun w => if s.status w = .pending ∧ s.cache (s.hbhOf w) = some w then .dropped else s.status w,
                  cache := fun _ => none, reader := .stopped }

def run (s : St) : List Label → Option St
  | [] => some s
  | l :: ls => match step s l with
    | some s' => run s' ls
    | none => none

end Dia.Cl
