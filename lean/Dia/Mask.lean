import Dia.Wire
namespace Dia

inductive MK | keep | flags | zero
deriving DecidableEq, Repr

def applyMK : UInt8 → MK → UInt8
  | b, .keep => b
  | b, .flags => b &&& 0xE0
  | _, .zero => 0

def applyMask (bs : Bytes) (ms : List MK) : Bytes := List.zipWith applyMK bs ms

def maskHdr (vendor : Option UInt32) : List MK :=
  [.keep, .keep, .keep, .keep, .flags, .keep, .keep, .keep] ++
    (if vendor.isSome then [.keep, .keep, .keep, .keep] else [])

def tyOf : Value → Ty
  | .address _ => .address | .ipv4 _ => .ipv4 | .ipv6 _ => .ipv6 | .identity _ => .identity | .uri _ => .uri
  | .enumerated _ => .enumerated | .float32 _ => .float32 | .float64 _ => .float64 | .grouped _ => .grouped
  | .integer32 _ => .integer32 | .integer64 _ => .integer64 | .octets _ => .octets | .time _ _ => .time
  | .unsigned32 _ => .unsigned32 | .unsigned64 _ => .unsigned64 | .utf8 _ => .utf8

mutual
def Value.mask : Value → List MK
  | .grouped ms => maskList ms
  | .address a => List.replicate (Value.address a).len .keep
  | .ipv4 b => List.replicate (Value.ipv4 b).len .keep
  | .ipv6 b => List.replicate (Value.ipv6 b).len .keep
  | .identity b => List.replicate (Value.identity b).len .keep
  | .uri b => List.replicate (Value.uri b).len .keep
  | .enumerated b => List.replicate (Value.enumerated b).len .keep
  | .float32 b => List.replicate (Value.float32 b).len .keep
  | .float64 b => List.replicate (Value.float64 b).len .keep
  | .integer32 b => List.replicate (Value.integer32 b).len .keep
  | .integer64 b => List.replicate (Value.integer64 b).len .keep
  | .octets b => List.replicate (Value.octets b).len .keep
  | .time s n => List.replicate (Value.time s n).len .keep
  | .unsigned32 b => List.replicate (Value.unsigned32 b).len .keep
  | .unsigned64 b => List.replicate (Value.unsigned64 b).len .keep
  | .utf8 b => List.replicate (Value.utf8 b).len .keep
def Avp.mask : Avp → List MK
  | .mk _ vendor _ _ _ padding v => maskHdr vendor ++ (v.mask ++ List.replicate padding .zero)
def maskList : List Avp → List MK
  | [] => []
  | a :: as => a.mask ++ maskList as
end

/-- what a value must satisfy to be a value the decoder can return / the wire can carry -/
def Value.leafWF : Value → Prop
  | .address (.v4 b) => b.length = 4
  | .address (.v6 b) => b.length = 16
  | .address (.e164 s) => 1 ≤ s.length ∧ s.length ≤ 15 ∧ utf8Valid s = true
  | .ipv4 b => b.length = 4
  | .ipv6 b => b.length = 16
  | .identity s => utf8Valid s = true
  | .utf8 s => utf8Valid s = true
  | .time secs nanos => nanos = 0 ∧ 0 ≤ secs + RFC868 ∧ secs + RFC868 ≤ 4294967295
  | _ => True

mutual
def Value.WF : Value → Prop
  | .grouped ms => WFList ms
  | .address a => (Value.address a).leafWF
  | .ipv4 b => (Value.ipv4 b).leafWF
  | .ipv6 b => (Value.ipv6 b).leafWF
  | .identity b => (Value.identity b).leafWF
  | .utf8 b => (Value.utf8 b).leafWF
  | .time s n => (Value.time s n).leafWF
  | .uri _ => True | .enumerated _ => True | .float32 _ => True | .float64 _ => True
  | .integer32 _ => True | .integer64 _ => True | .octets _ => True | .unsigned32 _ => True | .unsigned64 _ => True
def Avp.WF : Avp → Prop
  | .mk _ _ _ _ len _ v => len < 16777216 ∧ v.WF
def WFList : List Avp → Prop
  | [] => True
  | a :: as => a.WF ∧ WFList as
end

mutual
def Value.Cons : Value → Prop
  | .grouped ms => ConsList ms
  | .address _ => True | .ipv4 _ => True | .ipv6 _ => True | .identity _ => True | .uri _ => True
  | .enumerated _ => True | .float32 _ => True | .float64 _ => True | .integer32 _ => True | .integer64 _ => True
  | .octets _ => True | .time _ _ => True | .unsigned32 _ => True | .unsigned64 _ => True | .utf8 _ => True
def Avp.Cons : Avp → Prop
  | .mk _ vendor _ _ len padding v => len = hdrLen vendor + v.len ∧ padding = pad v.len ∧ v.Cons
def ConsList : List Avp → Prop
  | [] => True
  | a :: as => a.Cons ∧ ConsList as
end

/- no fixed-size value sits in an AVP whose declared length disagrees with its natural size -/
mutual
def Value.NoLie : Value → Prop
  | .grouped ms => NoLieList ms
  | .address _ => True | .ipv4 _ => True | .ipv6 _ => True | .identity _ => True | .uri _ => True
  | .enumerated _ => True | .float32 _ => True | .float64 _ => True | .integer32 _ => True | .integer64 _ => True
  | .octets _ => True | .time _ _ => True | .unsigned32 _ => True | .unsigned64 _ => True | .utf8 _ => True
def Avp.NoLie : Avp → Prop
  | .mk _ vendor _ _ len _ v => (∀ n, fixedSize (tyOf v) = some n → len = hdrLen vendor + n) ∧ v.NoLie
def NoLieList : List Avp → Prop
  | [] => True
  | a :: as => a.NoLie ∧ NoLieList as
end

theorem applyMask_append (a b : Bytes) (ma mb : List MK) (h : a.length = ma.length) :
    applyMask (a ++ b) (ma ++ mb) = applyMask a ma ++ applyMask b mb := by
  unfold applyMask; exact List.zipWith_append h

theorem applyMask_keep' (b : Bytes) (n : Nat) (h : b.length = n) : applyMask b (List.replicate n .keep) = b := by
  subst h
  induction b with
  | nil => rfl
  | cons x xs ih => simp [applyMask, List.replicate_succ, applyMK] at ih ⊢; exact ih

theorem applyMask_zero' (b : Bytes) (n : Nat) (h : b.length = n) :
    applyMask b (List.replicate n .zero) = List.replicate n 0 := by
  subst h
  induction b with
  | nil => rfl
  | cons x xs ih => simp [applyMask, List.replicate_succ, applyMK] at ih ⊢; exact ih

theorem mask_len_hdr (v : Option UInt32) : (maskHdr v).length = hdrLen v := by
  cases v <;> simp [maskHdr, hdrLen]

theorem flags_all : ∀ n : Fin 256, let b : UInt8 := UInt8.ofNat n.val
    b &&& 0xE0 = (if b &&& 0x80 != 0 then 0x80 else 0) ||| (if b &&& 0x40 != 0 then 0x40 else 0) ||| (if b &&& 0x20 != 0 then 0x20 else (0:UInt8)) := by
  decide +kernel

theorem flags_u8 (b : UInt8) :
    b &&& 0xE0 = (if b &&& 0x80 != 0 then 0x80 else 0) ||| (if b &&& 0x40 != 0 then 0x40 else 0) ||| (if b &&& 0x20 != 0 then 0x20 else (0:UInt8)) := by
  have := flags_all ⟨b.toNat, b.toNat_lt⟩
  simpa using this

end Dia
