import Dia.SpecEq
import Dia.SpecParse
import Dia.RtDefs
/-! From the model to the specification: forgetting the stored lengths of a consistent, well-formed tree (`abs`) gives
a valid spec tree with the same mask, typing and depth. -/
namespace Dia
open Spec

theorem hdrSize_eq (v : Option UInt32) : hdrSize v = hdrLen v := by cases v <;> rfl

theorem Value.abs_ty (v : Value) : v.abs.ty = tyOf v := by cases v <;> rfl

/-- the data of a good value has the length the value reports -/
theorem Value.abs_bytes_len (v : Value) (hwf : v.WF) (hc : v.Cons) : v.abs.bytes.length = v.len := by
  have hs := Value.enc_spec v hwf hc
  have hl := (Value.enc_len v hwf hc (by rw [hs])).1
  rw [hs] at hl
  exact hl

mutual
theorem Value.abs_mask : ∀ v : Value, v.WF → v.Cons → v.abs.mask = v.mask
  | .grouped ms, hwf, hc => by
    simp only [Value.WF, Value.Cons] at hwf hc
    simp only [Value.abs, SData.mask, Value.mask]
    exact absList_mask ms hwf hc
  | .address a, hwf, hc => by
    have := Value.abs_bytes_len (.address a) hwf hc
    simp only [Value.abs] at this ⊢; simp only [SData.mask, Value.mask, this]
  | .ipv4 b, hwf, hc => by
    have := Value.abs_bytes_len (.ipv4 b) hwf hc
    simp only [Value.abs] at this ⊢; simp only [SData.mask, Value.mask, this]
  | .ipv6 b, hwf, hc => by
    have := Value.abs_bytes_len (.ipv6 b) hwf hc
    simp only [Value.abs] at this ⊢; simp only [SData.mask, Value.mask, this]
  | .identity b, hwf, hc => by
    have := Value.abs_bytes_len (.identity b) hwf hc
    simp only [Value.abs] at this ⊢; simp only [SData.mask, Value.mask, this]
  | .uri b, hwf, hc => by
    have := Value.abs_bytes_len (.uri b) hwf hc
    simp only [Value.abs] at this ⊢; simp only [SData.mask, Value.mask, this]
  | .enumerated b, hwf, hc => by
    have := Value.abs_bytes_len (.enumerated b) hwf hc
    simp only [Value.abs] at this ⊢; simp only [SData.mask, Value.mask, this]
  | .float32 b, hwf, hc => by
    have := Value.abs_bytes_len (.float32 b) hwf hc
    simp only [Value.abs] at this ⊢; simp only [SData.mask, Value.mask, this]
  | .float64 b, hwf, hc => by
    have := Value.abs_bytes_len (.float64 b) hwf hc
    simp only [Value.abs] at this ⊢; simp only [SData.mask, Value.mask, this]
  | .integer32 b, hwf, hc => by
    have := Value.abs_bytes_len (.integer32 b) hwf hc
    simp only [Value.abs] at this ⊢; simp only [SData.mask, Value.mask, this]
  | .integer64 b, hwf, hc => by
    have := Value.abs_bytes_len (.integer64 b) hwf hc
    simp only [Value.abs] at this ⊢; simp only [SData.mask, Value.mask, this]
  | .octets b, hwf, hc => by
    have := Value.abs_bytes_len (.octets b) hwf hc
    simp only [Value.abs] at this ⊢; simp only [SData.mask, Value.mask, this]
  | .time s n, hwf, hc => by
    have := Value.abs_bytes_len (.time s n) hwf hc
    simp only [Value.abs] at this ⊢; simp only [SData.mask, Value.mask, this]
  | .unsigned32 b, hwf, hc => by
    have := Value.abs_bytes_len (.unsigned32 b) hwf hc
    simp only [Value.abs] at this ⊢; simp only [SData.mask, Value.mask, this]
  | .unsigned64 b, hwf, hc => by
    have := Value.abs_bytes_len (.unsigned64 b) hwf hc
    simp only [Value.abs] at this ⊢; simp only [SData.mask, Value.mask, this]
  | .utf8 b, hwf, hc => by
    have := Value.abs_bytes_len (.utf8 b) hwf hc
    simp only [Value.abs] at this ⊢; simp only [SData.mask, Value.mask, this]
theorem Avp.abs_mask : ∀ a : Avp, a.WF → a.Cons → a.abs.mask = a.mask
  | .mk code vendor m p len padding v, hwf, hc => by
    obtain ⟨_, hvwf⟩ := hwf
    obtain ⟨_, hc2, hc3⟩ := hc
    simp only [Avp.abs, SAvp.mask, Avp.mask, Value.abs_mask v hvwf hc3, Value.abs_bytes_len v hvwf hc3, padTo4_eq, hc2]
theorem absList_mask : ∀ ms : List Avp, WFList ms → ConsList ms → maskAvps (absList ms) = maskList ms
  | [], _, _ => rfl
  | a :: as, hwf, hc => by
    simp only [absList, maskAvps, maskList, Avp.abs_mask a hwf.1 hc.1, absList_mask as hwf.2 hc.2]
end

mutual
theorem Value.abs_valid : ∀ v : Value, v.WF → v.Cons → v.abs.Valid
  | .grouped ms, hwf, hc => by
    simp only [Value.WF, Value.Cons] at hwf hc
    simp only [Value.abs, SData.Valid]
    exact absList_valid ms hwf hc
  | .address (.v4 b), hwf, _ => by simpa [Value.abs, SData.Valid, SData.leafValid, Value.WF, Value.leafWF] using hwf
  | .address (.v6 b), hwf, _ => by simpa [Value.abs, SData.Valid, SData.leafValid, Value.WF, Value.leafWF] using hwf
  | .address (.e164 s), hwf, _ => by simpa [Value.abs, SData.Valid, SData.leafValid, Value.WF, Value.leafWF] using hwf
  | .ipv4 b, hwf, _ => by simpa [Value.abs, SData.Valid, SData.leafValid, Value.WF, Value.leafWF] using hwf
  | .ipv6 b, hwf, _ => by simpa [Value.abs, SData.Valid, SData.leafValid, Value.WF, Value.leafWF] using hwf
  | .identity b, hwf, _ => by simpa [Value.abs, SData.Valid, SData.leafValid, Value.WF, Value.leafWF] using hwf
  | .utf8 b, hwf, _ => by simpa [Value.abs, SData.Valid, SData.leafValid, Value.WF, Value.leafWF] using hwf
  | .time s n, hwf, _ => by
    simp only [Value.WF, Value.leafWF] at hwf
    have hR : RFC868 = 2208988800 := rfl
    have hE : (epochOffset : Int) = 2208988800 := by decide
    simp only [Value.abs, SData.Valid, SData.leafValid, hE]
    omega
  | .uri _, _, _ => trivial | .enumerated _, _, _ => trivial | .float32 _, _, _ => trivial
  | .float64 _, _, _ => trivial | .integer32 _, _, _ => trivial | .integer64 _, _, _ => trivial
  | .octets _, _, _ => trivial | .unsigned32 _, _, _ => trivial | .unsigned64 _, _, _ => trivial
theorem Avp.abs_valid : ∀ a : Avp, a.WF → a.Cons → a.abs.Valid
  | .mk code vendor m p len padding v, hwf, hc => by
    obtain ⟨h24, hvwf⟩ := hwf
    obtain ⟨hc1, _, hc3⟩ := hc
    simp only [Avp.abs, SAvp.Valid, hdrSize_eq, Value.abs_bytes_len v hvwf hc3]
    exact ⟨by omega, Value.abs_valid v hvwf hc3⟩
theorem absList_valid : ∀ ms : List Avp, WFList ms → ConsList ms → ValidAvps (absList ms)
  | [], _, _ => trivial
  | a :: as, hwf, hc => ⟨Avp.abs_valid a hwf.1 hc.1, absList_valid as hwf.2 hc.2⟩
end

mutual
theorem Value.abs_typed (dict : Lookup) : ∀ v : Value, v.abs.Typed dict ↔ v.Typed dict
  | .grouped ms => by simp only [Value.abs, SData.Typed, Value.Typed]; exact absList_typed dict ms
  | .address _ => Iff.rfl | .ipv4 _ => Iff.rfl | .ipv6 _ => Iff.rfl | .identity _ => Iff.rfl | .uri _ => Iff.rfl
  | .enumerated _ => Iff.rfl | .float32 _ => Iff.rfl | .float64 _ => Iff.rfl | .integer32 _ => Iff.rfl
  | .integer64 _ => Iff.rfl | .octets _ => Iff.rfl | .time _ _ => Iff.rfl | .unsigned32 _ => Iff.rfl
  | .unsigned64 _ => Iff.rfl | .utf8 _ => Iff.rfl
theorem Avp.abs_typed (dict : Lookup) : ∀ a : Avp, a.abs.Typed dict ↔ a.Typed dict
  | .mk code vendor m p len padding v => by
    simp only [Avp.abs, SAvp.Typed, Avp.Typed, Value.abs_ty, Value.abs_typed dict v]
theorem absList_typed (dict : Lookup) : ∀ ms : List Avp, TypedAvps dict (absList ms) ↔ TypedList dict ms
  | [] => Iff.rfl
  | a :: as => by simp only [absList, TypedAvps, TypedList, Avp.abs_typed dict a, absList_typed dict as]
end

mutual
theorem Value.abs_depth : ∀ v : Value, v.abs.depth = v.depth
  | .grouped ms => by simp only [Value.abs, SData.depth, Value.depth, absList_depth ms]
  | .address _ => rfl | .ipv4 _ => rfl | .ipv6 _ => rfl | .identity _ => rfl | .uri _ => rfl
  | .enumerated _ => rfl | .float32 _ => rfl | .float64 _ => rfl | .integer32 _ => rfl
  | .integer64 _ => rfl | .octets _ => rfl | .time _ _ => rfl | .unsigned32 _ => rfl
  | .unsigned64 _ => rfl | .utf8 _ => rfl
theorem Avp.abs_depth : ∀ a : Avp, a.abs.depth = a.depth
  | .mk code vendor m p len padding v => by simp only [Avp.abs, SAvp.depth, Avp.depth, Value.abs_depth v]
theorem absList_depth : ∀ ms : List Avp, depthAvps (absList ms) = depthList ms
  | [] => rfl
  | a :: as => by simp only [absList, depthAvps, depthList, Avp.abs_depth a, absList_depth as]
end

end Dia
