import Dia.Model
/-! An independent characterisation of the UTF-8 predicate the model uses for `String::from_utf8`: an octet string is
accepted exactly when it is a concatenation of UTF-8 encodings of Unicode scalar values (RFC 3629 section 3; Unicode
D92). `utf8Valid` itself is the byte-range table (Unicode Table 3-7). -/
namespace Dia

/-- Unicode scalar values: code points except the surrogates -/
def isScalar (c : Nat) : Prop := c < 0xD800 ∨ (0xE000 ≤ c ∧ c < 0x110000)

/-- RFC 3629 section 3: the UTF-8 encoding of a scalar value -/
def encScalar (c : Nat) : Bytes :=
  if c < 0x80 then [c.toUInt8]
  else if c < 0x800 then [(0xC0 + c / 64).toUInt8, (0x80 + c % 64).toUInt8]
  else if c < 0x10000 then [(0xE0 + c / 4096).toUInt8, (0x80 + c / 64 % 64).toUInt8, (0x80 + c % 64).toUInt8]
  else [(0xF0 + c / 262144).toUInt8, (0x80 + c / 4096 % 64).toUInt8, (0x80 + c / 64 % 64).toUInt8, (0x80 + c % 64).toUInt8]

theorem toUInt8_toNat (n : Nat) (h : n < 256) : n.toUInt8.toNat = n := by
  simp [Nat.toUInt8, UInt8.toNat_ofNat', Nat.mod_eq_of_lt h]

/-- the encoding of a scalar value is accepted, and validity of what follows is all that remains -/
theorem utf8Valid_encScalar (c : Nat) (hc : isScalar c) (r : Bytes) : utf8Valid (encScalar c ++ r) = utf8Valid r := by
  unfold encScalar
  by_cases h1 : c < 0x80
  · rw [if_pos h1]
    simp only [List.cons_append, List.nil_append]
    rw [utf8Valid.eq_def]; dsimp only
    simp only [toUInt8_toNat c (by omega), if_pos h1]
  · rw [if_neg h1]
    by_cases h2 : c < 0x800
    · rw [if_pos h2]
      simp only [List.cons_append, List.nil_append]
      rw [utf8Valid.eq_def]; dsimp only
      simp only [toUInt8_toNat (0xC0 + c / 64) (by omega), toUInt8_toNat (0x80 + c % 64) (by omega)]
      rw [if_neg (by omega), if_pos (by omega)]
      simp
      intro _
      omega
    · rw [if_neg h2]
      by_cases h3 : c < 0x10000
      · rw [if_pos h3]
        simp only [List.cons_append, List.nil_append]
        rw [utf8Valid.eq_def]; dsimp only
        simp only [toUInt8_toNat (0xE0 + c / 4096) (by omega), toUInt8_toNat (0x80 + c / 64 % 64) (by omega),
          toUInt8_toNat (0x80 + c % 64) (by omega)]
        rw [if_neg (by omega), if_neg (by omega), if_pos (by omega)]
        have hs : c < 0xD800 ∨ 0xE000 ≤ c := by rcases hc with h | h <;> omega
        simp
        intro _
        refine ⟨⟨?_, ?_⟩, by omega⟩
        · split <;> omega
        · split <;> omega
      · rw [if_neg h3]
        have h4 : c < 0x110000 := by rcases hc with h | h <;> omega
        simp only [List.cons_append, List.nil_append]
        rw [utf8Valid.eq_def]; dsimp only
        simp only [toUInt8_toNat (0xF0 + c / 262144) (by omega), toUInt8_toNat (0x80 + c / 4096 % 64) (by omega),
          toUInt8_toNat (0x80 + c / 64 % 64) (by omega), toUInt8_toNat (0x80 + c % 64) (by omega)]
        rw [if_neg (by omega), if_neg (by omega), if_neg (by omega), if_pos (by omega)]
        simp
        intro _
        refine ⟨⟨⟨?_, ?_⟩, by omega⟩, by omega⟩
        · split <;> omega
        · split <;> omega

/-- every concatenation of encoded scalar values is accepted -/
theorem utf8Valid_of_scalars : ∀ cs : List Nat, (∀ c ∈ cs, isScalar c) → utf8Valid (cs.flatMap encScalar) = true
  | [], _ => rfl
  | c :: cs, h => by
    simp only [List.flatMap_cons]
    rw [utf8Valid_encScalar c (h c List.mem_cons_self)]
    exact utf8Valid_of_scalars cs (fun x hx => h x (List.mem_cons_of_mem _ hx))

end Dia

namespace Dia

theorem utf8_two (x y : Nat) (hx1 : 0xC2 ≤ x) (hx2 : x ≤ 0xDF) (hy1 : 0x80 ≤ y) (hy2 : y ≤ 0xBF) :
    ∃ c, c = (x - 0xC0) * 64 + (y - 0x80) ∧ isScalar c ∧ ¬ c < 0x80 ∧ c < 0x800 ∧ 0xC0 + c / 64 = x ∧
      0x80 + c % 64 = y := by
  refine ⟨_, rfl, Or.inl (by omega), by omega, by omega, by omega, by omega⟩

theorem utf8_three (x y z : Nat) (hx1 : 0xE0 ≤ x) (hx2 : x ≤ 0xEF) (hy1 : 0x80 ≤ y) (hy2 : y ≤ 0xBF)
    (hz1 : 0x80 ≤ z) (hz2 : z ≤ 0xBF) (g3 : x = 0xE0 → 0xA0 ≤ y) (g4 : x = 0xED → y ≤ 0x9F) :
    ∃ c, c = (x - 0xE0) * 4096 + (y - 0x80) * 64 + (z - 0x80) ∧
    isScalar c ∧ ¬ c < 0x80 ∧ ¬ c < 0x800 ∧ c < 0x10000 ∧
      0xE0 + c / 4096 = x ∧ 0x80 + c / 64 % 64 = y ∧ 0x80 + c % 64 = z := by
  refine ⟨_, rfl, ?_, ?_, ?_, ?_, ?_, ?_, ?_⟩
  · unfold isScalar
    by_cases he0 : x = 0xE0
    · have := g3 he0; omega
    · by_cases hed : x = 0xED
      · have := g4 hed; omega
      · omega
  all_goals
    by_cases he0 : x = 0xE0
    · have := g3 he0; omega
    · omega

theorem utf8_four (x y z w : Nat) (hx1 : 0xF0 ≤ x) (hx2 : x ≤ 0xF4) (hy1 : 0x80 ≤ y) (hy2 : y ≤ 0xBF)
    (hz1 : 0x80 ≤ z) (hz2 : z ≤ 0xBF) (hw1 : 0x80 ≤ w) (hw2 : w ≤ 0xBF) (g3 : x = 0xF0 → 0x90 ≤ y)
    (g4 : x = 0xF4 → y ≤ 0x8F) :
    ∃ c, c = (x - 0xF0) * 262144 + (y - 0x80) * 4096 + (z - 0x80) * 64 + (w - 0x80) ∧
    isScalar c ∧ ¬ c < 0x80 ∧ ¬ c < 0x800 ∧ ¬ c < 0x10000 ∧
      0xF0 + c / 262144 = x ∧ 0x80 + c / 4096 % 64 = y ∧ 0x80 + c / 64 % 64 = z ∧ 0x80 + c % 64 = w := by
  refine ⟨_, rfl, ?_, ?_, ?_, ?_, ?_, ?_, ?_, ?_⟩
  · unfold isScalar
    right
    by_cases hf0 : x = 0xF0
    · have := g3 hf0; omega
    · by_cases hf4 : x = 0xF4
      · have := g4 hf4; omega
      · omega
  all_goals
    by_cases hf0 : x = 0xF0
    · have := g3 hf0; omega
    · omega

theorem byte_eq (n : Nat) (b : UInt8) (h : n = b.toNat) : n.toUInt8 = b := by
  subst h; simp [Nat.toUInt8]

/-- everything accepted is a concatenation of encoded scalar values -/
theorem scalars_of_utf8Valid : ∀ (n : Nat) (bs : Bytes), bs.length ≤ n → utf8Valid bs = true →
    ∃ cs : List Nat, (∀ c ∈ cs, isScalar c) ∧ bs = cs.flatMap encScalar
  | _, [], _, _ => ⟨[], by simp, rfl⟩
  | 0, b0 :: r, hl, _ => by simp at hl
  | n+1, b0 :: r, hl, h => by
    rw [utf8Valid.eq_def] at h
    dsimp only at h
    have hb0 := b0.toNat_lt
    by_cases h1 : b0.toNat < 0x80
    · rw [if_pos h1] at h
      obtain ⟨cs, hcs, hr⟩ := scalars_of_utf8Valid n r (by simp at hl; omega) h
      refine ⟨b0.toNat :: cs, ?_, ?_⟩
      · intro c hc
        cases hc with
        | head => left; omega
        | tail _ hc' => exact hcs c hc'
      · simp only [List.flatMap_cons, encScalar, if_pos h1, ← hr, byte_eq b0.toNat b0 rfl]
        rfl
    · rw [if_neg h1] at h
      by_cases h2 : 0xC2 ≤ b0.toNat ∧ b0.toNat ≤ 0xDF
      · rw [if_pos h2] at h
        cases r with
        | nil => simp at h
        | cons b1 r' =>
          simp only [Bool.and_eq_true, decide_eq_true_eq] at h
          obtain ⟨⟨hlo, hhi⟩, hv⟩ := h
          obtain ⟨cs, hcs, hr⟩ := scalars_of_utf8Valid n r' (by simp at hl; omega) hv
          obtain ⟨c0, hc0, k1, k2, k3, k4, k5⟩ := utf8_two b0.toNat b1.toNat h2.1 h2.2 hlo hhi
          refine ⟨c0 :: cs, ?_, ?_⟩
          · intro c hc
            cases hc with
            | head => exact k1
            | tail _ hc' => exact hcs c hc'
          · simp only [List.flatMap_cons, encScalar, if_neg k2, if_pos k3, ← hr]
            rw [byte_eq _ b0 k4, byte_eq _ b1 k5]
            rfl
      · rw [if_neg h2] at h
        by_cases h3 : 0xE0 ≤ b0.toNat ∧ b0.toNat ≤ 0xEF
        · rw [if_pos h3] at h
          match r, h, hl with
          | b1 :: b2 :: r', h, hl =>
            simp only [Bool.and_eq_true, decide_eq_true_eq] at h
            obtain ⟨⟨⟨⟨hlo, hhi⟩, h2lo⟩, h2hi⟩, hv⟩ := h
            obtain ⟨cs, hcs, hr⟩ := scalars_of_utf8Valid n r' (by simp at hl; omega) hv
            have hlo' : (if b0.toNat = 0xE0 then 0xA0 else 0x80) ≤ b1.toNat := hlo
            have hhi' : b1.toNat ≤ (if b0.toNat = 0xED then 0x9F else 0xBF) := hhi
            have g1 : 0x80 ≤ b1.toNat := by split at hlo' <;> omega
            have g2 : b1.toNat ≤ 0xBF := by split at hhi' <;> omega
            have g3 : b0.toNat = 0xE0 → 0xA0 ≤ b1.toNat := by intro e; rw [if_pos e] at hlo'; exact hlo'
            have g4 : b0.toNat = 0xED → b1.toNat ≤ 0x9F := by intro e; rw [if_pos e] at hhi'; exact hhi'
            obtain ⟨c0, hc0, k0, k1, k2, k3, k4, k5, k6⟩ :=
              utf8_three b0.toNat b1.toNat b2.toNat h3.1 h3.2 g1 g2 h2lo h2hi g3 g4
            refine ⟨c0 :: cs, ?_, ?_⟩
            · intro c hc
              cases hc with
              | head => exact k0
              | tail _ hc' => exact hcs c hc'
            · simp only [List.flatMap_cons, encScalar, if_neg k1, if_neg k2, if_pos k3, ← hr]
              rw [byte_eq _ b0 k4, byte_eq _ b1 k5, byte_eq _ b2 k6]
              rfl
          | [], h, _ => simp at h
          | [_], h, _ => simp at h
        · rw [if_neg h3] at h
          by_cases h4 : 0xF0 ≤ b0.toNat ∧ b0.toNat ≤ 0xF4
          · rw [if_pos h4] at h
            match r, h, hl with
            | b1 :: b2 :: b3 :: r', h, hl =>
              simp only [Bool.and_eq_true, decide_eq_true_eq] at h
              obtain ⟨⟨⟨⟨⟨⟨hlo, hhi⟩, h2lo⟩, h2hi⟩, h3lo⟩, h3hi⟩, hv⟩ := h
              obtain ⟨cs, hcs, hr⟩ := scalars_of_utf8Valid n r' (by simp at hl; omega) hv
              have hlo' : (if b0.toNat = 0xF0 then 0x90 else 0x80) ≤ b1.toNat := hlo
              have hhi' : b1.toNat ≤ (if b0.toNat = 0xF4 then 0x8F else 0xBF) := hhi
              have g1 : 0x80 ≤ b1.toNat := by split at hlo' <;> omega
              have g2 : b1.toNat ≤ 0xBF := by split at hhi' <;> omega
              have g3 : b0.toNat = 0xF0 → 0x90 ≤ b1.toNat := by intro e; rw [if_pos e] at hlo'; exact hlo'
              have g4 : b0.toNat = 0xF4 → b1.toNat ≤ 0x8F := by intro e; rw [if_pos e] at hhi'; exact hhi'
              obtain ⟨c0, hc0, k0, k1, k2, k3, k4, k5, k6, k7⟩ := utf8_four b0.toNat b1.toNat b2.toNat b3.toNat h4.1 h4.2
                g1 g2 h2lo h2hi h3lo h3hi g3 g4
              refine ⟨c0 :: cs, ?_, ?_⟩
              · intro c hc
                cases hc with
                | head => exact k0
                | tail _ hc' => exact hcs c hc'
              · simp only [List.flatMap_cons, encScalar, if_neg k1, if_neg k2, if_neg k3, ← hr]
                rw [byte_eq _ b0 k4, byte_eq _ b1 k5, byte_eq _ b2 k6, byte_eq _ b3 k7]
                rfl
            | [], h, _ => simp at h
            | [_], h, _ => simp at h
            | [_, _], h, _ => simp at h
          · rw [if_neg h4] at h
            cases h

/-- **the UTF-8 predicate of the model is RFC 3629**: an octet string is accepted exactly when it is a concatenation of
UTF-8 encodings of Unicode scalar values -/
theorem utf8Valid_iff (bs : Bytes) :
    utf8Valid bs = true ↔ ∃ cs : List Nat, (∀ c ∈ cs, isScalar c) ∧ bs = cs.flatMap encScalar := by
  constructor
  · exact scalars_of_utf8Valid bs.length bs (Nat.le_refl _)
  · rintro ⟨cs, hcs, rfl⟩
    exact utf8Valid_of_scalars cs hcs

end Dia
