import Dia.ClientMulti
/-! The invariant of the multi-connection client transition system (all runs, all peers, all interleavings). -/
namespace Dia.Cm
open Dia.Cl (Msg WStatus Item Reader SendPhase upd)

structure Inv (s : St) : Prop where
  cache_ok : ∀ h w, s.cache h = some w → w < s.nW ∧ s.hbhOf w = h ∧ s.status w = .pending
  got_ok : ∀ w m, w < s.nW → s.status w = .got m → m.hbh = s.hbhOf w ∧ m ∈ s.emitted
  dec_ok : ∀ c m, s.reader c = .decoded m → m ∈ s.emitted
  rem_ok : ∀ c m w, s.reader c = .removed m w →
      m ∈ s.emitted ∧ w < s.nW ∧ s.hbhOf w = m.hbh ∧ s.status w = .pending ∧ s.cache (s.hbhOf w) ≠ some w
  rem_uniq : ∀ c c' m m' w, s.reader c = .removed m w → s.reader c' = .removed m' w → c = c'
  wire_ok : ∀ c m, Item.msg m ∈ s.wire c → m ∈ s.emitted
  pending_ok : ∀ w, w < s.nW → s.status w = .pending →
      s.cache (s.hbhOf w) = some w ∨ ∃ c m, s.reader c = .removed m w
  closed_ok : s.closed = true → ∀ h, s.cache h = none
  stopped_ok : ∀ c, s.reader c = .stopped → s.closed = true

theorem inv_init : Inv init := by
  constructor <;> simp [init]

theorem inv_sendBegin {s s' : St} (hb : Nat) (hi : Inv s) (h : step s (.sendBegin hb) = some s') : Inv s' := by
  obtain ⟨c1, c2, c3, c4, c4u, c5, c6, c7, c8⟩ := hi
  simp only [step] at h
  split at h
  · cases h
  · split at h
    · cases h; exact ⟨c1, c2, c3, c4, c4u, c5, c6, c7, c8⟩
    · split at h
      · cases h; exact ⟨c1, c2, c3, c4, c4u, c5, c6, c7, c8⟩
      · cases h
        cases hc : s.cache hb <;> constructor <;> (try simp only [hc, upd]) <;> grind

theorem inv_readerRemove {s s' : St} (c : Nat) (hi : Inv s) (h : step s (.readerRemove c) = some s') : Inv s' := by
  obtain ⟨c1, c2, c3, c4, c4u, c5, c6, c7, c8⟩ := hi
  simp only [step] at h
  split at h
  · split at h <;> (cases h; constructor <;> (try simp only [upd]) <;> grind)
  · cases h

theorem inv_readerDeliver {s s' : St} (c : Nat) (hi : Inv s) (h : step s (.readerDeliver c) = some s') : Inv s' := by
  obtain ⟨c1, c2, c3, c4, c4u, c5, c6, c7, c8⟩ := hi
  simp only [step] at h
  split at h
  · cases h; constructor <;> (try simp only [upd]) <;> grind
  · cases h

theorem inv_readerStop {s s' : St} (c : Nat) (hi : Inv s) (h : step s (.readerStop c) = some s') : Inv s' := by
  obtain ⟨c1, c2, c3, c4, c4u, c5, c6, c7, c8⟩ := hi
  simp only [step] at h
  split at h
  · cases h
  · cases h; constructor <;> (try simp only [upd]) <;> grind

theorem inv_readerDecode {s s' : St} (c : Nat) (hi : Inv s) (h : step s (.readerDecode c) = some s') : Inv s' := by
  obtain ⟨c1, c2, c3, c4, c4u, c5, c6, c7, c8⟩ := hi
  simp only [step] at h
  split at h
  · cases h
  · split at h
    · cases h
    · split at h <;> first | (cases h; constructor <;> (try simp only [upd]) <;> grind) | cases h

theorem inv_peerEmit {s s' : St} (c : Nat) (it : Item) (hi : Inv s) (h : step s (.peerEmit c it) = some s') : Inv s' := by
  obtain ⟨c1, c2, c3, c4, c4u, c5, c6, c7, c8⟩ := hi
  simp only [step] at h
  split at h
  · cases h
  · cases h; constructor <;> (try simp only [upd]) <;> grind

theorem inv_step {s s' : St} (l : Label) (hi : Inv s) (h : step s l = some s') : Inv s' := by
  cases l
  case connect =>
    obtain ⟨c1, c2, c3, c4, c4u, c5, c6, c7, c8⟩ := hi
    simp only [step] at h
    split at h
    · cases h
    · cases h; exact ⟨c1, c2, c3, c4, c4u, c5, c6, c7, c8⟩
  case sendBegin hb => exact inv_sendBegin hb hi h
  case write =>
    obtain ⟨c1, c2, c3, c4, c4u, c5, c6, c7, c8⟩ := hi
    simp only [step] at h
    split at h <;> first | (cases h; exact ⟨c1, c2, c3, c4, c4u, c5, c6, c7, c8⟩) | cases h
  case sendReturn =>
    obtain ⟨c1, c2, c3, c4, c4u, c5, c6, c7, c8⟩ := hi
    simp only [step] at h
    split at h <;> first | (cases h; exact ⟨c1, c2, c3, c4, c4u, c5, c6, c7, c8⟩) | cases h
  case sendFail =>
    obtain ⟨c1, c2, c3, c4, c4u, c5, c6, c7, c8⟩ := hi
    simp only [step] at h
    split at h <;> first | (cases h; exact ⟨c1, c2, c3, c4, c4u, c5, c6, c7, c8⟩) | cases h
  case peerEmit c it => exact inv_peerEmit c it hi h
  case readerDecode c => exact inv_readerDecode c hi h
  case readerRemove c => exact inv_readerRemove c hi h
  case readerDeliver c => exact inv_readerDeliver c hi h
  case readerStop c => exact inv_readerStop c hi h

theorem inv_run {s s' : St} (ls : List Label) (hi : Inv s) (h : run s ls = some s') : Inv s' := by
  induction ls generalizing s with
  | nil => simp [run] at h; exact h ▸ hi
  | cons l ls ih =>
    simp only [run] at h
    split at h
    · rename_i s1 hs1; exact ih (inv_step l hi hs1) h
    · cases h

/-- `closed` is never reset: not by a later `connect()`, not by anything else -/
theorem closed_step {s s' : St} (l : Label) (h : step s l = some s') (hc : s.closed = true) : s'.closed = true := by
  cases l <;> simp only [step] at h <;> grind

theorem closed_run {s s' : St} (ls : List Label) (h : run s ls = some s') (hc : s.closed = true) : s'.closed = true := by
  induction ls generalizing s with
  | nil => simp [run] at h; exact h ▸ hc
  | cons l ls ih =>
    simp only [run] at h
    split at h
    · rename_i s1 hs1; exact ih h (closed_step l hs1 hc)
    · cases h

end Dia.Cm
