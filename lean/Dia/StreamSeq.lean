import Dia.CodecThm
import Dia.ServerThm
/-! Successive calls of the stream reader on one stream, and the write side of the codec. -/
namespace Dia

/-- `n` successive `Codec::decode` calls on one stream (stopping at the first failure): each result with the number of
octets that call took from the stream -/
def decodeSeq (cfg : Cfg) (dict : Lookup) : Nat → List REv → List (COut × Nat)
  | 0, _ => []
  | n+1, evs =>
    let r := Codec.decode cfg dict evs
    match r.out with
    | .ok m => (.ok m, r.consumed) :: decodeSeq cfg dict n r.rest
    | .err e => [(.err e, r.consumed)]
    | .panic => [(.panic, r.consumed)]

/-- `Codec::encode`: encode into a buffer, then `write_all` it; nothing is written when encoding fails -/
def Codec.encodeTo (m : Msg) (w : List WEv) : Bool × Bytes :=
  match m.enc.err with
  | some _ => (false, [])
  | none => let r := writeAll m.enc.bytes w; (r.1, r.2.1)

/-- reading a stream that carries a concatenation of acceptable frames (followed by anything) yields exactly those
messages, in order, each call consuming exactly its own frame - for every segmentation and Pending placement -/
theorem decodeSeq_frames (cfg : Cfg) (dict : Lookup) :
    ∀ (frames : List Bytes) (msgs : List Msg) (evs : List REv) (more : Bytes),
    frames.length = msgs.length →
    (∀ i (h1 : i < frames.length) (h2 : i < msgs.length), Accepts cfg dict frames[i] msgs[i]) →
    noEmpty evs → flat evs = frames.flatten ++ more →
    decodeSeq cfg dict frames.length evs = (msgs.zip frames).map (fun mf => (COut.ok mf.1, mf.2.length)) := by
  intro frames
  induction frames with
  | nil => intro msgs evs more _ _ _ _; simp [decodeSeq]
  | cons f fs ih =>
    intro msgs evs more hl hacc hne hflat
    cases msgs with
    | nil => simp at hl
    | cons m ms =>
      have ha0 : Accepts cfg dict f m := hacc 0 (Nat.zero_lt_succ _) (Nat.zero_lt_succ _)
      obtain ⟨evs1, hd, hf1, hne1⟩ := Codec.decode_frame cfg dict evs f (fs.flatten ++ more) m hne
        (by simpa [List.append_assoc] using hflat) ha0
      have ih' := ih ms evs1 more (by simpa using hl)
        (fun i h1 h2 => by
          have := hacc (i+1) (Nat.succ_lt_succ h1) (Nat.succ_lt_succ h2)
          simpa using this) hne1 hf1
      simp only [List.length_cons, decodeSeq, hd, List.zip_cons_cons, List.map_cons]
      rw [ih']

/-- writing a message over a stream that accepts octets in arbitrary partial amounts puts exactly its encoding there -/
theorem Codec.encodeTo_ok (m : Msg) (w : List WEv) (hw : neverFails w) (he : m.enc.err = none) :
    Codec.encodeTo m w = (true, m.enc.bytes) := by
  unfold Codec.encodeTo
  rw [he]
  obtain ⟨w', h, _⟩ := writeAll_ok m.enc.bytes w hw
  simp [h]

end Dia
