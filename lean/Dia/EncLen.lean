import Dia.RtLeaf
namespace Dia

theorem Enc.andThen_eq_ok {a : Enc} {f : Unit → Enc} {bs : Bytes} (h : a.andThen f = ⟨bs, none⟩) :
    a.err = none ∧ (f ()).err = none ∧ bs = a.bytes ++ (f ()).bytes := by
  unfold Enc.andThen at h
  split at h
  · cases h
  · rename_i he
    simp only [Enc.mk.injEq] at h
    exact ⟨he, h.2, h.1.symm⟩

theorem Enc.andThen_err_none {a : Enc} {f : Unit → Enc} (h : (a.andThen f).err = none) :
    a.err = none ∧ (f ()).err = none ∧ (a.andThen f).bytes = a.bytes ++ (f ()).bytes := by
  cases hx : a.andThen f with
  | mk b e =>
    rw [hx] at h; simp only at h; subst h
    obtain ⟨h1, h2, h3⟩ := Enc.andThen_eq_ok hx
    exact ⟨h1, h2, h3⟩

theorem hdrBytes_length' (code : UInt32) (vendor : Option UInt32) (m p : Bool) (len : Nat) :
    (hdrBytes code vendor m p len).length = hdrLen vendor := by
  cases vendor <;> simp [hdrBytes, hdrLen]

mutual
theorem Value.enc_len : ∀ v : Value, v.WF → v.Cons → v.enc.err = none →
    v.enc.bytes.length = v.len ∧ v.mask.length = v.len
  | .grouped ms, hwf, hc, he => by
    simp only [Value.WF, Value.Cons, Value.enc, Value.mask, Value.len] at *
    exact encList_len ms hwf hc he
  | .address (.v4 b), hwf, _, _ => by simp_all [Value.WF, Value.leafWF, Value.enc, Enc.ok, Value.mask, Value.len]
  | .address (.v6 b), hwf, _, _ => by simp_all [Value.WF, Value.leafWF, Value.enc, Enc.ok, Value.mask, Value.len]
  | .address (.e164 s), hwf, _, _ => by simp [Value.enc, Enc.ok, Value.mask, Value.len]; omega
  | .ipv4 b, hwf, _, _ => by simp_all [Value.WF, Value.leafWF, Value.enc, Enc.ok, Value.mask, Value.len]
  | .ipv6 b, hwf, _, _ => by simp_all [Value.WF, Value.leafWF, Value.enc, Enc.ok, Value.mask, Value.len]
  | .identity b, _, _, _ => by simp [Value.enc, Enc.ok, Value.mask, Value.len]
  | .uri b, _, _, _ => by simp [Value.enc, Enc.ok, Value.mask, Value.len]
  | .enumerated b, _, _, _ => by simp [Value.enc, Enc.ok, Value.mask, Value.len]
  | .float32 b, _, _, _ => by simp [Value.enc, Enc.ok, Value.mask, Value.len]
  | .float64 b, _, _, _ => by simp [Value.enc, Enc.ok, Value.mask, Value.len]
  | .integer32 b, _, _, _ => by simp [Value.enc, Enc.ok, Value.mask, Value.len]
  | .integer64 b, _, _, _ => by simp [Value.enc, Enc.ok, Value.mask, Value.len]
  | .octets b, _, _, _ => by simp [Value.enc, Enc.ok, Value.mask, Value.len]
  | .time s n, hwf, _, _ => by
    simp only [Value.WF, Value.leafWF] at hwf
    simp only [Value.enc, Value.mask, Value.len]
    rw [if_neg (by omega), if_neg (by omega)]
    simp [Enc.ok]
  | .unsigned32 b, _, _, _ => by simp [Value.enc, Enc.ok, Value.mask, Value.len]
  | .unsigned64 b, _, _, _ => by simp [Value.enc, Enc.ok, Value.mask, Value.len]
  | .utf8 b, _, _, _ => by simp [Value.enc, Enc.ok, Value.mask, Value.len]
theorem Avp.enc_len : ∀ a : Avp, a.WF → a.Cons → a.enc.err = none →
    a.enc.bytes.length = a.padded ∧ a.mask.length = a.padded
  | .mk code vendor m p len padding v, hwf, hc, he => by
    obtain ⟨hlen24, hvwf⟩ := hwf
    obtain ⟨hc1, hc2, hc3⟩ := hc
    simp only [Avp.enc] at he ⊢
    rw [encHdr_ok hlen24] at he ⊢
    obtain ⟨_, he2, hb⟩ := Enc.andThen_err_none he
    obtain ⟨hve, _, hvb⟩ := Enc.andThen_err_none he2
    obtain ⟨l1, l2⟩ := Value.enc_len v hvwf hc3 hve
    rw [hb, hvb]
    simp only [Avp.mask, List.length_append, hdrBytes_length', mask_len_hdr, l1, l2, Enc.ok, List.length_replicate,
      Avp.padded, Avp.len, Avp.padding]
    omega
theorem encList_len : ∀ ms : List Avp, WFList ms → ConsList ms → (encList ms).err = none →
    (encList ms).bytes.length = lenList ms ∧ (maskList ms).length = lenList ms
  | [], _, _, _ => by simp [encList, Enc.ok, maskList, lenList]
  | a :: as, hwf, hc, he => by
    simp only [encList] at he ⊢
    obtain ⟨hae, hase, hb⟩ := Enc.andThen_err_none he
    obtain ⟨a1, a2⟩ := Avp.enc_len a hwf.1 hc.1 hae
    obtain ⟨s1, s2⟩ := encList_len as hwf.2 hc.2 hase
    rw [hb]
    simp only [maskList, lenList, List.length_append, a1, a2, s1, s2]
    exact ⟨trivial, trivial⟩
end

end Dia
