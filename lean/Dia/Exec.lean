import Dia.History
import Dia.RtDefs
/-! Executable (Bool-valued) versions of the predicates the theorems use, for the driver's reason codes and
oracle columns. `Dia/Props` relates them to the `Prop` versions where a check relies on them. -/
namespace Dia

mutual
def Value.noLieB : Value → Bool
  | .grouped ms => noLieListB ms
  | _ => true
def Avp.noLieB : Avp → Bool
  | .mk _ vendor _ _ len _ v =>
    (match fixedSize (tyOf v) with
     | some n => len == hdrLen vendor + n
     | none => true) && v.noLieB
def noLieListB : List Avp → Bool
  | [] => true
  | a :: as => a.noLieB && noLieListB as
end

mutual
def Value.consB : Value → Bool
  | .grouped ms => consListB ms
  | _ => true
def Avp.consB : Avp → Bool
  | .mk _ vendor _ _ len padding v => len == hdrLen vendor + v.len && padding == pad v.len && v.consB
def consListB : List Avp → Bool
  | [] => true
  | a :: as => a.consB && consListB as
end

def Value.leafWFB : Value → Bool
  | .address (.v4 b) => b.length == 4
  | .address (.v6 b) => b.length == 16
  | .address (.e164 s) => 1 ≤ s.length && s.length ≤ 15 && utf8Valid s
  | .ipv4 b => b.length == 4
  | .ipv6 b => b.length == 16
  | .identity s => utf8Valid s
  | .utf8 s => utf8Valid s
  | .time secs nanos => nanos == 0 && decide (0 ≤ secs + RFC868) && decide (secs + RFC868 ≤ 4294967295)
  | _ => true

mutual
def Value.wfB : Value → Bool
  | .grouped ms => wfListB ms
  | .address a => (Value.address a).leafWFB
  | .ipv4 b => (Value.ipv4 b).leafWFB
  | .ipv6 b => (Value.ipv6 b).leafWFB
  | .identity b => (Value.identity b).leafWFB
  | .utf8 b => (Value.utf8 b).leafWFB
  | .time s n => (Value.time s n).leafWFB
  | _ => true
def Avp.wfB : Avp → Bool
  | .mk _ _ _ _ len _ v => decide (len < 16777216) && v.wfB
def wfListB : List Avp → Bool
  | [] => true
  | a :: as => a.wfB && wfListB as
end

mutual
def Value.typedB (dict : Lookup) : Value → Bool
  | .grouped ms => typedListB dict ms
  | _ => true
def Avp.typedB (dict : Lookup) : Avp → Bool
  | .mk code vendor _ _ _ _ v => decide (dict code vendor = tyOf v) && v.typedB dict
def typedListB (dict : Lookup) : List Avp → Bool
  | [] => true
  | a :: as => a.typedB dict && typedListB dict as
end

/- type names of the AVPs whose declared length lies about a fixed-size value (finding F1), outermost first -/
mutual
def Value.lieTys : Value → List Ty
  | .grouped ms => lieTysList ms
  | _ => []
def Avp.lieTys : Avp → List Ty
  | .mk _ vendor _ _ len _ v =>
    (match fixedSize (tyOf v) with
     | some n => if len == hdrLen vendor + n then [] else [tyOf v]
     | none => []) ++ v.lieTys
def lieTysList : List Avp → List Ty
  | [] => []
  | a :: as => a.lieTys ++ lieTysList as
end

/- representable on the wire: every Time within the 32-bit 1900-based range, every AVP length within 24 bits
(C05: anything else must make the encoder fail) -/
mutual
def Value.repB : Value → Bool
  | .grouped ms => repListB ms
  | .time secs _ => decide (0 ≤ secs + RFC868) && decide (secs + RFC868 ≤ 4294967295)
  | _ => true
def Avp.repB : Avp → Bool
  | .mk _ _ _ _ len _ v => decide (len ≤ 16777215) && v.repB
def repListB : List Avp → Bool
  | [] => true
  | a :: as => a.repB && repListB as
end

def Msg.repB (m : Msg) : Bool := decide (m.length ≤ 16777215) && repListB m.avps

/-- FNV-1a over the octets (large frames are compared by length and hash instead of hex) -/
def fnv (bs : Bytes) : UInt64 := bs.foldl (fun h b => (h ^^^ b.toUInt64) * 1099511628211) 14695981039346656037

/-- C05: the encoder run against a writer that accepts exactly `k` octets in total and then fails -/
def encTo (m : Msg) (k : Nat) : Bool × Bytes :=
  let e := m.enc
  if e.bytes.length ≤ k then (e.err.isNone, e.bytes) else (false, e.bytes.take k)

def strictCfg (limit : Nat) (T : Tables := {}) : Cfg := ⟨fun _ _ => false, limit, T⟩

end Dia
