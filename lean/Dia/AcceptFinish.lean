import Dia.AcceptThm
/-! A served connection can always finish on its own: running only its own steps consumes its whole inbox and leaves
exactly the answers it is owed - whatever state the other connections are in. -/
namespace Dia.Acc

theorem owed_append (l r : List Item) (h : ended l = false) : owed (l ++ r) = owed l ++ owed r := by
  induction l with
  | nil => rfl
  | cons x xs ih =>
    cases x with
    | req j => simp only [List.cons_append, owed]; rw [ih (by simpa [ended] using h)]
    | boom j => simp [ended] at h
    | bad => simp [ended] at h
    | close => simp [ended] at h

theorem serveAll_out (cfg : Cfg) (c : Nat) : ∀ (fuel : Nat) (s : St), s.phase c = .serving →
    (s.inbox c).length ≤ fuel → s.out c = owed (s.consumed c) → ended (s.consumed c) = false →
    (serveAll cfg c fuel s).out c = owed (s.consumed c ++ s.inbox c)
  | 0, s, _, hlen, ho, _ => by
    have : s.inbox c = [] := List.eq_nil_of_length_eq_zero (by omega)
    simp [serveAll, this, ho]
  | fuel+1, s, hp, hlen, ho, he => by
    cases hin : s.inbox c with
    | nil =>
      have : step cfg s (.serve c) = none := by simp [step, hp, hin]
      simp [serveAll, this, ho]
    | cons it rest =>
      cases it with
      | req id =>
        have hs : step cfg s (.serve c) = some
            { s with inbox := upd s.inbox c rest, consumed := upd s.consumed c (s.consumed c ++ [.req id]),
                     out := upd s.out c (s.out c ++ [id]) } := by
          simp [step, hp, hin]
        simp only [serveAll, hs]
        have hlen' : rest.length ≤ fuel := by rw [hin] at hlen; simpa using hlen
        have := serveAll_out cfg c fuel
          { s with inbox := upd s.inbox c rest, consumed := upd s.consumed c (s.consumed c ++ [.req id]),
                   out := upd s.out c (s.out c ++ [id]) }
          hp (by simpa [upd] using hlen')
          (by simp only [upd, if_true]; rw [ho, owed_append_req _ _ he])
          (by simp only [upd, if_true]; exact ended_append_req _ _ he)
        rw [this]
        simp [upd]
      | boom id =>
        have hs : step cfg s (.serve c) = some
            { s with inbox := upd s.inbox c rest, consumed := upd s.consumed c (s.consumed c ++ [.boom id]),
                     phase := upd s.phase c .dead } := by
          simp [step, hp, hin]
        simp only [serveAll, hs]
        -- the task is dead: no further step of c is enabled
        have hstop : ∀ (n : Nat) (t : St), t.phase c = .dead → serveAll cfg c n t = t := by
          intro n
          induction n with
          | zero => intro t _; rfl
          | succ n _ => intro t ht; simp [serveAll, step, ht]
        rw [hstop fuel _ (by simp [upd])]
        simp only [ho]
        rw [owed_append _ _ he]
        simp [owed]
      | bad =>
        have hs : step cfg s (.serve c) = some
            { s with inbox := upd s.inbox c rest, consumed := upd s.consumed c (s.consumed c ++ [.bad]),
                     phase := upd s.phase c .done } := by
          simp [step, hp, hin]
        simp only [serveAll, hs]
        have hstop : ∀ (n : Nat) (t : St), t.phase c = .done → serveAll cfg c n t = t := by
          intro n
          induction n with
          | zero => intro t _; rfl
          | succ n _ => intro t ht; simp [serveAll, step, ht]
        rw [hstop fuel _ (by simp [upd])]
        simp only [ho]
        rw [owed_append _ _ he]
        simp [owed]
      | close =>
        have hs : step cfg s (.serve c) = some
            { s with inbox := upd s.inbox c rest, consumed := upd s.consumed c (s.consumed c ++ [.close]),
                     phase := upd s.phase c .done } := by
          simp [step, hp, hin]
        simp only [serveAll, hs]
        have hstop : ∀ (n : Nat) (t : St), t.phase c = .done → serveAll cfg c n t = t := by
          intro n
          induction n with
          | zero => intro t _; rfl
          | succ n _ => intro t ht; simp [serveAll, step, ht]
        rw [hstop fuel _ (by simp [upd])]
        simp only [ho]
        rw [owed_append _ _ he]
        simp [owed]

end Dia.Acc
