/-! Prototype of the full codec model (post-fix code), import-free. -/
namespace Dia

abbrev Bytes := List UInt8

def be16 (n : Nat) : Bytes := [(n / 256 % 256).toUInt8, (n % 256).toUInt8]
def be24 (n : Nat) : Bytes := [(n / 65536 % 256).toUInt8, (n / 256 % 256).toUInt8, (n % 256).toUInt8]
def be32 (n : Nat) : Bytes :=
  [(n / 16777216 % 256).toUInt8, (n / 65536 % 256).toUInt8, (n / 256 % 256).toUInt8, (n % 256).toUInt8]
def be64 (n : Nat) : Bytes := be32 (n / 4294967296) ++ be32 (n % 4294967296)
def fromBe (bs : Bytes) : Nat := bs.foldl (fun acc b => acc * 256 + b.toNat) 0
def pad (n : Nat) : Nat := (4 - n % 4) % 4

/-! UTF-8 well-formedness (Unicode 15, Table 3-7) -/
def utf8Valid : Bytes → Bool
  | [] => true
  | b0 :: r =>
    let x := b0.toNat
    if x < 0x80 then utf8Valid r
    else if 0xC2 ≤ x ∧ x ≤ 0xDF then
      match r with
      | b1 :: r => 0x80 ≤ b1.toNat && b1.toNat ≤ 0xBF && utf8Valid r
      | _ => false
    else if 0xE0 ≤ x ∧ x ≤ 0xEF then
      match r with
      | b1 :: b2 :: r =>
        let lo := if x = 0xE0 then 0xA0 else 0x80
        let hi := if x = 0xED then 0x9F else 0xBF
        lo ≤ b1.toNat && b1.toNat ≤ hi && 0x80 ≤ b2.toNat && b2.toNat ≤ 0xBF && utf8Valid r
      | _ => false
    else if 0xF0 ≤ x ∧ x ≤ 0xF4 then
      match r with
      | b1 :: b2 :: b3 :: r =>
        let lo := if x = 0xF0 then 0x90 else 0x80
        let hi := if x = 0xF4 then 0x8F else 0xBF
        lo ≤ b1.toNat && b1.toNat ≤ hi && 0x80 ≤ b2.toNat && b2.toNat ≤ 0xBF &&
          0x80 ≤ b3.toNat && b3.toNat ≤ 0xBF && utf8Valid r
      | _ => false
    else false

inductive Ty
  | address | ipv4 | ipv6 | identity | uri | enumerated | float32 | float64 | grouped
  | integer32 | integer64 | octets | time | unsigned32 | unsigned64 | utf8 | unknown
deriving DecidableEq, Repr

inductive Addr
  | v4 (b : Bytes)      -- 4 octets
  | v6 (b : Bytes)      -- 16 octets
  | e164 (s : Bytes)    -- text, utf-8
deriving DecidableEq, Repr

mutual
inductive Value
  | address (a : Addr)
  | ipv4 (b : Bytes)
  | ipv6 (b : Bytes)
  | identity (s : Bytes)
  | uri (b : Bytes)
  | enumerated (v : UInt32)
  | float32 (bits : UInt32)
  | float64 (bits : UInt64)
  | grouped (ms : List Avp)
  | integer32 (v : UInt32)
  | integer64 (v : UInt64)
  | octets (b : Bytes)
  | time (unixSecs : Int) (nanos : Nat)
  | unsigned32 (v : UInt32)
  | unsigned64 (v : UInt64)
  | utf8 (s : Bytes)
inductive Avp
  | mk (code : UInt32) (vendor : Option UInt32) (m p : Bool) (len : Nat) (padding : Nat) (v : Value)
end

def Avp.len : Avp → Nat | .mk _ _ _ _ l _ _ => l
def Avp.padding : Avp → Nat | .mk _ _ _ _ _ p _ => p
def Avp.padded (a : Avp) : Nat := a.len + a.padding
def Avp.code : Avp → UInt32 | .mk c _ _ _ _ _ _ => c
def Avp.vendor : Avp → Option UInt32 | .mk _ v _ _ _ _ _ => v
def Avp.value : Avp → Value | .mk _ _ _ _ _ _ v => v

def lenList : List Avp → Nat
  | [] => 0
  | a :: as => a.padded + lenList as

/-- `AvpValue::length()` : the value's self-reported length -/
def Value.len : Value → Nat
  | .address (.v4 _) => 6
  | .address (.v6 _) => 18
  | .address (.e164 s) => 2 + s.length
  | .ipv4 _ => 4 | .ipv6 _ => 16
  | .identity s => s.length | .uri b => b.length
  | .enumerated _ => 4 | .float32 _ => 4 | .float64 _ => 8
  | .grouped ms => lenList ms
  | .integer32 _ => 4 | .integer64 _ => 8
  | .octets b => b.length
  | .time _ _ => 4
  | .unsigned32 _ => 4 | .unsigned64 _ => 8
  | .utf8 s => s.length

def hdrLen (vendor : Option UInt32) : Nat := if vendor.isSome then 12 else 8

def Avp.new (code : UInt32) (vendor : Option UInt32) (flags : UInt8) (v : Value) : Avp :=
  .mk code vendor (flags &&& 0x40 != 0) (flags &&& 0x20 != 0) (hdrLen vendor + v.len) (pad v.len) v

def flagsByte (vendor : Option UInt32) (m p : Bool) : UInt8 :=
  (if vendor.isSome then 0x80 else 0) ||| (if m then 0x40 else 0) ||| (if p then 0x20 else 0)

def RFC868 : Int := 2208988800

inductive Err | eof | unknownAvp | mismatch | fuel | short | deep | utf8 | addr | cmd | app | timeRange | tooLong
deriving DecidableEq, Repr

inductive Out (α : Type) | ok (a : α) | err (e : Err) | panic
deriving Repr

@[inline] def Out.bind {α β} (x : Out α) (f : α → Out β) : Out β :=
  match x with
  | .ok a => f a
  | .err e => .err e
  | .panic => .panic

/-- Rust `a - b` on unsigned integers with overflow checks: panics when it would wrap -/
def checkedSub (a b : Nat) : Out Nat := if a < b then .panic else .ok (a - b)
/-- Rust `a + b` on `u32` with overflow checks -/
def checkedAdd32 (a b : Nat) : Out Nat := if a + b ≥ 4294967296 then .panic else .ok (a + b)

/-! ### encoder: the octets handed to the writer and the first internal error -/

structure Enc where
  bytes : Bytes
  err : Option Err

def Enc.ok (b : Bytes) : Enc := ⟨b, none⟩
def Enc.andThen (a : Enc) (b : Unit → Enc) : Enc :=
  match a.err with
  | some e => ⟨a.bytes, some e⟩
  | none => let r := b (); ⟨a.bytes ++ r.bytes, r.err⟩

def hdrBytes (code : UInt32) (vendor : Option UInt32) (m p : Bool) (len : Nat) : Bytes :=
  be32 code.toNat ++ flagsByte vendor m p :: be24 len ++
      (match vendor with | some x => be32 x.toNat | none => [])

def encHdr (code : UInt32) (vendor : Option UInt32) (m p : Bool) (len : Nat) : Enc :=
  if len > 0xFFFFFF then ⟨[], some .tooLong⟩ else .ok (hdrBytes code vendor m p len)

mutual
def Value.enc : Value → Enc
  | .address (.v4 b) => .ok ([0, 1] ++ b)
  | .address (.v6 b) => .ok ([0, 2] ++ b)
  | .address (.e164 s) => .ok ([0, 8] ++ s)
  | .ipv4 b => .ok b | .ipv6 b => .ok b
  | .identity s => .ok s | .uri b => .ok b
  | .enumerated v => .ok (be32 v.toNat) | .float32 v => .ok (be32 v.toNat) | .float64 v => .ok (be64 v.toNat)
  | .grouped ms => encList ms
  | .integer32 v => .ok (be32 v.toNat) | .integer64 v => .ok (be64 v.toNat)
  | .octets b => .ok b
  | .time secs _ =>
    let t := secs + RFC868
    if t > 4294967295 then ⟨[], some .timeRange⟩
    else if t < 0 then ⟨[], some .timeRange⟩
    else .ok (be32 t.toNat)
  | .unsigned32 v => .ok (be32 v.toNat) | .unsigned64 v => .ok (be64 v.toNat)
  | .utf8 s => .ok s
def Avp.enc : Avp → Enc
  | .mk code vendor m p len padding v =>
    (encHdr code vendor m p len).andThen fun _ =>
      v.enc.andThen fun _ => .ok (List.replicate padding 0)
def encList : List Avp → Enc
  | [] => .ok []
  | a :: as => a.enc.andThen fun _ => encList as
end

structure Msg where
  version : UInt8
  length : Nat
  flags : UInt8
  cmd : Nat
  app : Nat
  hbh : UInt32
  e2e : UInt32
  avps : List Avp

/-- the command codes and application ids the library's two enums hold. A parameter of the model like the nesting limit:
probed from the code on every run (every 24-bit command code and every 32-bit application id is tried), so that a new
enum variant is followed and not mistaken for a defect. The defaults are the tables of the pinned commit. -/
structure Tables where
  cmds : List Nat := [0, 257, 280, 282, 258, 275, 274, 272, 8388635, 8388636, 271, 265]
  apps : List Nat := [0, 3, 4, 16777238, 16777236, 16777302]

def Tables.cmdKnown (T : Tables) (c : Nat) : Bool := decide (c ∈ T.cmds)
def Tables.appKnown (T : Tables) (a : Nat) : Bool := decide (a ∈ T.apps)

/-- every command code fits the 24-bit header field and every application id the 32-bit one -/
def Tables.Fit (T : Tables) : Prop := (∀ c ∈ T.cmds, c < 16777216) ∧ (∀ a ∈ T.apps, a < 4294967296)
def Tables.fitB (T : Tables) : Bool := T.cmds.all (· < 16777216) && T.apps.all (· < 4294967296)

theorem Tables.fit_of_fitB (T : Tables) (h : T.fitB = true) : T.Fit := by
  simp only [Tables.fitB, Bool.and_eq_true, List.all_eq_true, decide_eq_true_eq] at h
  exact h

theorem Tables.cmd_lt {T : Tables} (hf : T.Fit) {c : Nat} (h : T.cmdKnown c = true) : c < 16777216 :=
  hf.1 c (by simpa [Tables.cmdKnown] using h)
theorem Tables.app_lt {T : Tables} (hf : T.Fit) {a : Nat} (h : T.appKnown a = true) : a < 4294967296 :=
  hf.2 a (by simpa [Tables.appKnown] using h)

def Msg.enc (m : Msg) : Enc :=
  if m.length > 0xFFFFFF then ⟨[], some .tooLong⟩ else
  (Enc.ok (m.version :: be24 m.length ++ m.flags :: be24 m.cmd ++ be32 m.app ++ be32 m.hbh.toNat ++ be32 m.e2e.toNat)).andThen
    fun _ => encList m.avps

/-! ### decoder -/

inductive Cur
  | inRange (rest : Bytes)
  | past (over : Nat)        -- position is over+1 octets beyond the end
deriving Repr

def Cur.read (c : Cur) (n : Nat) : Out (Bytes × Cur) :=
  if n = 0 then .ok ([], c) else
  match c with
  | .inRange r => if n ≤ r.length then .ok (r.take n, .inRange (r.drop n)) else .err .eof
  | .past _ => .err .eof

def Cur.skip (c : Cur) (k : Nat) : Cur :=
  if k = 0 then c else
  match c with
  | .inRange r => if k ≤ r.length then .inRange (r.drop k) else .past (k - r.length - 1)
  | .past o => .past (o + k)

/-! Compiler-only replacements (`@[csimp]`, i.e. *proved* equal) for the two cursor primitives, whose definitions
compute `r.length` on every call - quadratic on a 1 MiB frame. The theorems speak about the plain definitions. -/

def lenGe {α : Type} : List α → Nat → Bool
  | _, 0 => true
  | [], _+1 => false
  | _ :: r, n+1 => lenGe r n

theorem lenGe_iff {α : Type} : ∀ (l : List α) (n : Nat), lenGe l n = true ↔ n ≤ l.length
  | _, 0 => by simp [lenGe]
  | [], n+1 => by simp [lenGe]
  | _ :: r, n+1 => by simp [lenGe, lenGe_iff r n]

def Cur.readFast (c : Cur) (n : Nat) : Out (Bytes × Cur) :=
  if n = 0 then .ok ([], c) else
  match c with
  | .inRange r => if lenGe r n then .ok (r.take n, .inRange (r.drop n)) else .err .eof
  | .past _ => .err .eof

@[csimp] theorem Cur.read_eq_readFast : @Cur.read = @Cur.readFast := by
  funext c n
  unfold Cur.read Cur.readFast
  cases c with
  | inRange r =>
    by_cases h : n ≤ r.length
    · simp [h, (lenGe_iff r n).mpr h]
    · have : lenGe r n = false := by
        cases hh : lenGe r n with
        | false => rfl
        | true => exact absurd ((lenGe_iff r n).mp hh) h
      simp [h, this]
  | past o => rfl

def Cur.skipFast (c : Cur) (k : Nat) : Cur :=
  if k = 0 then c else
  match c with
  | .inRange r => if lenGe r k then .inRange (r.drop k) else .past (k - r.length - 1)
  | .past o => .past (o + k)

@[csimp] theorem Cur.skip_eq_skipFast : @Cur.skip = @Cur.skipFast := by
  funext c k
  unfold Cur.skip Cur.skipFast
  cases c with
  | inRange r =>
    by_cases h : k ≤ r.length
    · simp [h, (lenGe_iff r k).mpr h]
    · have : lenGe r k = false := by
        cases hh : lenGe r k with
        | false => rfl
        | true => exact absurd ((lenGe_iff r k).mp hh) h
      simp [h, this]
  | past o => rfl


inductive Dir | shorter | longer
deriving DecidableEq, Repr

structure Cfg where
  lenient : Ty → Dir → Bool
  limit : Nat
  tables : Tables := {}

abbrev Lookup := UInt32 → Option UInt32 → Ty

structure Hdr where
  code : UInt32
  vendor : Option UInt32
  m : Bool
  p : Bool
  len : Nat

def decHdr (c : Cur) : Out (Hdr × Cur) :=
  (c.read 8).bind fun (h, c) =>
    let code := (fromBe (h.take 4)).toUInt32
    let fl := h.getD 4 0
    let len := fromBe (h.drop 5)
    if fl &&& 0x80 != 0 then
      (c.read 4).bind fun (vb, c) =>
        .ok (⟨code, some (fromBe vb).toUInt32, fl &&& 0x40 != 0, fl &&& 0x20 != 0, len⟩, c)
    else .ok (⟨code, none, fl &&& 0x40 != 0, fl &&& 0x20 != 0, len⟩, c)

def fixedSize : Ty → Option Nat
  | .ipv4 => some 4 | .ipv6 => some 16 | .enumerated => some 4 | .float32 => some 4 | .float64 => some 8
  | .integer32 => some 4 | .integer64 => some 8 | .time => some 4 | .unsigned32 => some 4 | .unsigned64 => some 8
  | _ => none

def ofFixed : Ty → Bytes → Value
  | .ipv4, b => .ipv4 b | .ipv6, b => .ipv6 b
  | .enumerated, b => .enumerated (fromBe b).toUInt32
  | .float32, b => .float32 (fromBe b).toUInt32
  | .float64, b => .float64 (fromBe b).toUInt64
  | .integer32, b => .integer32 (fromBe b).toUInt32
  | .integer64, b => .integer64 (fromBe b).toUInt64
  | .time, b => .time ((fromBe b : Nat) - RFC868) 0
  | .unsigned32, b => .unsigned32 (fromBe b).toUInt32
  | .unsigned64, b => .unsigned64 (fromBe b).toUInt64
  | _, b => .octets b

def decAddr (vl : Nat) (c : Cur) : Out (Value × Cur) :=
  (c.read 2).bind fun (f, c) =>
    match f with
    | [0, 1] => if vl ≠ 6 then .err .addr else (c.read 4).bind fun (b, c) => .ok (.address (.v4 b), c)
    | [0, 2] => if vl ≠ 18 then .err .addr else (c.read 16).bind fun (b, c) => .ok (.address (.v6 b), c)
    | [0, 8] =>
      if vl > 17 then .err .addr else if vl < 3 then .err .addr else
      (checkedSub vl 2).bind fun n =>
      if n > 15 then .panic else        -- `&mut b[0..actual_len]` on a 15-octet buffer
      (c.read n).bind fun (b, c) => if utf8Valid b then .ok (.address (.e164 b), c) else .err .utf8
    | _ => .err .addr

def decLeaf (cfg : Cfg) (ty : Ty) (vl : Nat) (c : Cur) : Out (Value × Cur) :=
  match fixedSize ty with
  | some n =>
    if vl < n ∧ ¬ cfg.lenient ty .shorter then .err .mismatch
    else if vl > n ∧ ¬ cfg.lenient ty .longer then .err .mismatch
    else (c.read n).bind fun (b, c) => .ok (ofFixed ty b, c)
  | none =>
    match ty with
    | .address => decAddr vl c
    | .utf8 => (c.read vl).bind fun (b, c) => if utf8Valid b then .ok (.utf8 b, c) else .err .utf8
    | .identity => (c.read vl).bind fun (b, c) => if utf8Valid b then .ok (.identity b, c) else .err .utf8
    | .octets => (c.read vl).bind fun (b, c) => .ok (.octets b, c)
    | .uri => (c.read vl).bind fun (b, c) => .ok (.uri b, c)
    | _ => .err .unknownAvp

mutual
def decAvp (cfg : Cfg) (dict : Lookup) : Nat → Nat → Cur → Out (Avp × Cur)
  | 0, _, _ => .err .fuel
  | fuel+1, depth, c =>
    (decHdr c).bind fun (h, c) =>
      if h.len < hdrLen h.vendor then .err .short else
      (checkedSub h.len (hdrLen h.vendor)).bind fun vl =>
      (match dict h.code h.vendor with
        | .grouped =>
          if depth + 1 > cfg.limit then (Out.err .deep : Out (Value × Cur)) else
          (decGroup cfg dict fuel (depth+1) vl 0 c).bind fun (ms, c) => Out.ok (Value.grouped ms, c)
        | .unknown => Out.err .unknownAvp
        | ty => decLeaf cfg ty vl c).bind fun (v, c) =>
        .ok (.mk h.code h.vendor h.m h.p h.len (pad vl) v, c.skip (pad vl))
def decGroup (cfg : Cfg) (dict : Lookup) : Nat → Nat → Nat → Nat → Cur → Out (List Avp × Cur)
  | 0, _, _, _, _ => .err .fuel
  | fuel+1, depth, len, off, c =>
    if off < len then
      (decAvp cfg dict fuel depth c).bind fun (a, c) =>
        (checkedAdd32 off a.len).bind fun o1 =>
        (checkedAdd32 o1 a.padding).bind fun o2 =>
        (decGroup cfg dict fuel depth len o2 c).bind fun (as, c) => .ok (a :: as, c)
    else if off = len then .ok ([], c) else .err .mismatch
end

def decMsg (cfg : Cfg) (dict : Lookup) (bs : Bytes) : Out Msg :=
  ((Cur.inRange bs).read 20).bind fun (h, c) =>
    let version := h.getD 0 0
    let length := fromBe ((h.drop 1).take 3)
    let flags := h.getD 4 0
    let cmd := fromBe ((h.drop 5).take 3)
    let app := fromBe ((h.drop 8).take 4)
    let hbh := (fromBe ((h.drop 12).take 4)).toUInt32
    let e2e := (fromBe ((h.drop 16).take 4)).toUInt32
    if ¬ cfg.tables.cmdKnown cmd then .err .cmd else
    if ¬ cfg.tables.appKnown app then .err .app else
    (decGroup cfg dict (bs.length + 1) 0 length 20 c).bind fun (avps, _) =>
      .ok ⟨version, length, flags, cmd, app, hbh, e2e, avps⟩

end Dia
