import Dia.ServerPrefix
/-! Write-side failures at arbitrary points: what was called and written is always a consistent prefix. -/
namespace Dia

/-- whatever the write script does, what `write_all` put on the stream is a prefix of what it was given, and all of
it when it reports success -/
theorem writeAll_prefix : ∀ (bs : Bytes) (w : List WEv),
    (writeAll bs w).2.1 <+: bs ∧ ((writeAll bs w).1 = true → (writeAll bs w).2.1 = bs) := by
  intro bs w
  induction w generalizing bs with
  | nil => cases bs <;> simp [writeAll]
  | cons e w ih =>
    cases bs with
    | nil => simp [writeAll]
    | cons b bs =>
      cases e with
      | pending => rw [writeAll]; exact ih (b :: bs); intro h; cases h
      | fail => simp [writeAll]
      | accept k =>
        rw [writeAll]
        by_cases hk : k = 0
        · simp [hk]
        · rw [if_neg hk]
          by_cases hle : (b :: bs).length ≤ k
          · rw [if_pos hle]; simp
          · rw [if_neg hle]
            obtain ⟨h1, h2⟩ := ih ((b :: bs).drop k)
            cases hx : writeAll ((b :: bs).drop k) w with
            | mk ok rest =>
              obtain ⟨wr, w'⟩ := rest
              rw [hx] at h1 h2
              simp only at h1 h2 ⊢
              constructor
              · obtain ⟨t, ht⟩ := h1
                refine ⟨t, ?_⟩
                rw [List.append_assoc, ht, List.take_append_drop]
              · intro hok
                rw [h2 hok, List.take_append_drop]

/-- **write failures anywhere.** With acceptable requests arriving over a well-behaved read side and a write side that
may stall, accept partially and fail at any point: the handler has been called with a prefix `reqs.take k` of the
requests, the answers to all but the last of them are completely on the stream, and nothing beyond the answers to
those `k` requests was written. -/
theorem serve_write_any (cfg : Cfg) (dict : Lookup) :
    ∀ (frames : List Bytes) (reqs answers : List Msg) (evs : List REv) (w : List WEv),
    frames.length = reqs.length → answers.length = reqs.length →
    (∀ i (h1 : i < frames.length) (h2 : i < reqs.length), Accepts cfg dict frames[i] reqs[i]) →
    (∀ a ∈ answers, a.enc.err = none) →
    noEmpty evs → flat evs = frames.flatten →
    ∃ k, k ≤ reqs.length ∧ (serve cfg dict (answers.map .ok) evs w).calls = reqs.take k ∧
      ((answers.take (k - 1)).map (fun a => a.enc.bytes)).flatten <+: (serve cfg dict (answers.map .ok) evs w).written ∧
      (serve cfg dict (answers.map .ok) evs w).written <+: ((answers.take k).map (fun a => a.enc.bytes)).flatten := by
  intro frames
  induction frames with
  | nil =>
    intro reqs answers evs w hl1 hl2 _ _ hne hflat
    have hr : reqs = [] := List.eq_nil_of_length_eq_zero (by simpa using hl1.symm)
    subst hr
    have ha : answers = [] := List.eq_nil_of_length_eq_zero (by simpa using hl2)
    subst ha
    have := Codec.decode_end cfg dict evs hne (by simpa using hflat)
    refine ⟨0, Nat.le_refl _, ?_⟩
    rw [serve]
    simp [this]
  | cons f fs ih =>
    intro reqs answers evs w hl1 hl2 hacc henc hne hflat
    cases reqs with
    | nil => simp at hl1
    | cons req reqs =>
      cases answers with
      | nil => simp at hl2
      | cons ans answers =>
        have ha0 : Accepts cfg dict f req := hacc 0 (Nat.zero_lt_succ _) (Nat.zero_lt_succ _)
        obtain ⟨evs1, hd, hf1, hne1⟩ := Codec.decode_frame cfg dict evs f fs.flatten req hne (by simpa using hflat) ha0
        have hanse : ans.enc.err = none := henc ans (List.mem_cons_self ..)
        obtain ⟨hp1, hp2⟩ := writeAll_prefix ans.enc.bytes w
        cases hx : writeAll ans.enc.bytes w with
        | mk ok rest =>
          obtain ⟨wr, w1⟩ := rest
          rw [hx] at hp1 hp2
          simp only at hp1 hp2
          rw [serve]
          simp only [hd, List.map_cons, hanse, hx]
          cases ok with
          | false =>
            refine ⟨1, by simp, ?_⟩
            simp only [Bool.false_eq_true, if_false, List.take_succ_cons, List.take_zero, Nat.sub_self, List.map_nil,
              List.flatten_nil, List.map_cons, List.flatten_cons, List.append_nil]
            exact ⟨trivial, List.nil_prefix, hp1⟩
          | true =>
            have hwr : wr = ans.enc.bytes := hp2 rfl
            subst hwr
            obtain ⟨k, hk, c1, c2, c3⟩ := ih reqs answers evs1 w1 (by simpa using hl1) (by simpa using hl2)
              (fun i h1 h2 => by
                have := hacc (i+1) (Nat.succ_lt_succ h1) (Nat.succ_lt_succ h2)
                simpa using this)
              (fun a ha => henc a (List.mem_cons_of_mem _ ha)) hne1 hf1
            refine ⟨k + 1, by simp; omega, ?_⟩
            simp only [if_true, ServeLog.cons, List.take_succ_cons, c1, Nat.add_sub_cancel, List.map_cons,
              List.flatten_cons]
            refine ⟨trivial, ?_, ?_⟩
            · cases k with
              | zero => simp
              | succ k =>
                simp only [List.take_succ_cons, List.map_cons, List.flatten_cons]
                have : ((answers.take k).map fun a => a.enc.bytes).flatten <+:
                    (serve cfg dict (answers.map HRes.ok) evs1 w1).written := by simpa using c2
                exact (List.prefix_append_right_inj _).mpr this
            · exact (List.prefix_append_right_inj _).mpr c3

end Dia
