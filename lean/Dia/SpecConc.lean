import Dia.SpecAbs
/-! From the specification to the model: computing the stored lengths and paddings of a valid spec tree (`conc`) gives
a consistent, well-formed model tree whose abstraction is the tree one started from. -/
namespace Dia
open Spec

mutual
def Spec.SData.conc : SData → Value
  | .grouped ms => .grouped (concAvps ms)
  | .address a => .address a | .ipv4 b => .ipv4 b | .ipv6 b => .ipv6 b | .identity b => .identity b | .uri b => .uri b
  | .enumerated b => .enumerated b | .float32 b => .float32 b | .float64 b => .float64 b
  | .integer32 b => .integer32 b | .integer64 b => .integer64 b | .octets b => .octets b
  | .time t => .time ((t : Int) - RFC868) 0
  | .unsigned32 b => .unsigned32 b | .unsigned64 b => .unsigned64 b | .utf8 b => .utf8 b
def Spec.SAvp.conc : SAvp → Avp
  | .mk code vendor m p d => .mk code vendor m p (hdrLen vendor + d.conc.len) (pad d.conc.len) d.conc
def concAvps : List SAvp → List Avp
  | [] => []
  | a :: as => a.conc :: concAvps as
end

mutual
theorem SData.conc_good : ∀ d : SData, d.Valid → d.conc.WF ∧ d.conc.Cons ∧ d.conc.abs = d
  | .grouped ms, hv => by
    simp only [SData.Valid] at hv
    obtain ⟨h1, h2, h3⟩ := concAvps_good ms hv
    simp only [SData.conc, Value.WF, Value.Cons, Value.abs, h3]
    exact ⟨h1, h2, trivial⟩
  | .address (.v4 b), hv => by
    simp only [SData.Valid, SData.leafValid] at hv
    simp [SData.conc, Value.WF, Value.leafWF, Value.Cons, Value.abs, hv]
  | .address (.v6 b), hv => by
    simp only [SData.Valid, SData.leafValid] at hv
    simp [SData.conc, Value.WF, Value.leafWF, Value.Cons, Value.abs, hv]
  | .address (.e164 s), hv => by
    simp only [SData.Valid, SData.leafValid] at hv
    simp [SData.conc, Value.WF, Value.leafWF, Value.Cons, Value.abs, hv]
  | .ipv4 b, hv => by
    simp only [SData.Valid, SData.leafValid] at hv
    simp [SData.conc, Value.WF, Value.leafWF, Value.Cons, Value.abs, hv]
  | .ipv6 b, hv => by
    simp only [SData.Valid, SData.leafValid] at hv
    simp [SData.conc, Value.WF, Value.leafWF, Value.Cons, Value.abs, hv]
  | .identity b, hv => by
    simp only [SData.Valid, SData.leafValid] at hv
    simp [SData.conc, Value.WF, Value.leafWF, Value.Cons, Value.abs, hv]
  | .utf8 b, hv => by
    simp only [SData.Valid, SData.leafValid] at hv
    simp [SData.conc, Value.WF, Value.leafWF, Value.Cons, Value.abs, hv]
  | .time t, hv => by
    simp only [SData.Valid, SData.leafValid] at hv
    have hR : RFC868 = 2208988800 := rfl
    have hE : (epochOffset : Int) = 2208988800 := by decide
    refine ⟨?_, trivial, ?_⟩
    · simp only [SData.conc, Value.WF, Value.leafWF]
      refine ⟨trivial, ?_, ?_⟩ <;> omega
    · simp only [SData.conc, Value.abs, hE, hR]
      congr 1
      omega
  | .uri _, _ => ⟨trivial, trivial, rfl⟩ | .enumerated _, _ => ⟨trivial, trivial, rfl⟩
  | .float32 _, _ => ⟨trivial, trivial, rfl⟩ | .float64 _, _ => ⟨trivial, trivial, rfl⟩
  | .integer32 _, _ => ⟨trivial, trivial, rfl⟩ | .integer64 _, _ => ⟨trivial, trivial, rfl⟩
  | .octets _, _ => ⟨trivial, trivial, rfl⟩ | .unsigned32 _, _ => ⟨trivial, trivial, rfl⟩
  | .unsigned64 _, _ => ⟨trivial, trivial, rfl⟩
theorem SAvp.conc_good : ∀ a : SAvp, a.Valid → a.conc.WF ∧ a.conc.Cons ∧ a.conc.abs = a
  | .mk code vendor m p d, hv => by
    obtain ⟨h24, hdv⟩ := hv
    obtain ⟨h1, h2, h3⟩ := SData.conc_good d hdv
    have hl := Value.abs_bytes_len d.conc h1 h2
    rw [h3] at hl
    simp only [SAvp.conc, Avp.WF, Avp.Cons, Avp.abs, h3]
    rw [hdrSize_eq] at h24
    exact ⟨⟨by omega, h1⟩, ⟨trivial, trivial, h2⟩, trivial⟩
theorem concAvps_good : ∀ ms : List SAvp, ValidAvps ms →
    WFList (concAvps ms) ∧ ConsList (concAvps ms) ∧ absList (concAvps ms) = ms
  | [], _ => ⟨trivial, trivial, rfl⟩
  | a :: as, hv => by
    obtain ⟨a1, a2, a3⟩ := SAvp.conc_good a hv.1
    obtain ⟨s1, s2, s3⟩ := concAvps_good as hv.2
    simp only [concAvps, WFList, ConsList, absList, a3, s3]
    exact ⟨⟨a1, s1⟩, ⟨a2, s2⟩, trivial⟩
end

end Dia
