import Dia.Rt
namespace Dia

mutual
theorem Value.sz_le : ∀ v : Value, v.Cons → v.sz ≤ 1 + v.len
  | .grouped ms, hc => by
    simp only [Value.Cons, Value.sz, Value.len] at *
    have := szList_le ms hc; omega
  | .address _, _ => by simp [Value.sz] | .ipv4 _, _ => by simp [Value.sz] | .ipv6 _, _ => by simp [Value.sz]
  | .identity _, _ => by simp [Value.sz] | .uri _, _ => by simp [Value.sz] | .enumerated _, _ => by simp [Value.sz]
  | .float32 _, _ => by simp [Value.sz] | .float64 _, _ => by simp [Value.sz] | .integer32 _, _ => by simp [Value.sz]
  | .integer64 _, _ => by simp [Value.sz] | .octets _, _ => by simp [Value.sz] | .time _ _, _ => by simp [Value.sz]
  | .unsigned32 _, _ => by simp [Value.sz] | .unsigned64 _, _ => by simp [Value.sz] | .utf8 _, _ => by simp [Value.sz]
theorem Avp.sz_le : ∀ a : Avp, a.Cons → a.sz + 1 ≤ a.padded
  | .mk code vendor m p len padding v, hc => by
    obtain ⟨h1, h2, h3⟩ := hc
    have := Value.sz_le v h3
    simp only [Avp.sz, Avp.padded, Avp.len, Avp.padding, hdrLen] at *
    split at h1 <;> omega
theorem szList_le : ∀ ms : List Avp, ConsList ms → szList ms ≤ lenList ms
  | [], _ => by simp [szList]
  | a :: as, hc => by
    have := Avp.sz_le a hc.1
    have := szList_le as hc.2
    simp only [szList, lenList]; omega
end

def Msg.hdrBytes (m : Msg) : Bytes :=
  m.version :: be24 m.length ++ m.flags :: be24 m.cmd ++ be32 m.app ++ be32 m.hbh.toNat ++ be32 m.e2e.toNat

/-- C02 / C03 (accepting half) for the model: any frame that is the encoding of a consistent, well-formed,
dictionary-typed message of admissible depth - whatever its padding octets and reserved AVP flag bits
contain - is decoded to exactly that message. -/
theorem decMsg_rt (cfg : Cfg) (dict : Lookup) (m : Msg) (body : Bytes)
    (hc : ConsList m.avps) (hwf : WFList m.avps) (hty : TypedList dict m.avps)
    (hlen : m.length = 20 + lenList m.avps) (hlen24 : m.length < 16777216)
    (hcmd : cfg.tables.cmdKnown m.cmd = true) (happ : cfg.tables.appKnown m.app = true)
    (hcmd24 : m.cmd < 16777216) (happ32 : m.app < 4294967296)
    (hd : depthList m.avps ≤ cfg.limit)
    (hbl : body.length = (maskList m.avps).length)
    (henc : encList m.avps = ⟨applyMask body (maskList m.avps), none⟩) :
    decMsg cfg dict (m.hdrBytes ++ body) = .ok m := by
  have hlb := (encList_len m.avps hwf hc (by rw [henc])).2
  unfold decMsg
  have h20 : m.hdrBytes.length = 20 := by simp [Msg.hdrBytes]
  rw [Cur.read_append' _ _ 20 h20]
  simp only [Out.bind_ok]
  simp only [Msg.hdrBytes, be24, be32, List.cons_append, List.nil_append, List.getD_cons_zero, List.getD_cons_succ,
    List.drop, List.take]
  have e1 : fromBe [(m.length / 65536 % 256).toUInt8, (m.length / 256 % 256).toUInt8, (m.length % 256).toUInt8] = m.length :=
    fromBe_be24 _ hlen24
  have e2 : fromBe [(m.cmd / 65536 % 256).toUInt8, (m.cmd / 256 % 256).toUInt8, (m.cmd % 256).toUInt8] = m.cmd :=
    fromBe_be24 _ hcmd24
  have e3 : fromBe [(m.app / 16777216 % 256).toUInt8, (m.app / 65536 % 256).toUInt8, (m.app / 256 % 256).toUInt8, (m.app % 256).toUInt8] = m.app :=
    fromBe_be32 _ happ32
  have e4 := u32_rt m.hbh
  have e5 := u32_rt m.e2e
  simp only [be32] at e4 e5
  rw [e1, e2, e3, e4, e5]
  rw [if_neg (by simp [hcmd]), if_neg (by simp [happ])]
  have hsz := szList_le m.avps hc
  have := decGroup_rt cfg dict ((m.version :: be24 m.length ++ m.flags :: be24 m.cmd ++ be32 m.app ++ be32 m.hbh.toNat ++ be32 m.e2e.toNat ++ body).length + 1)
    0 m.length 20 m.avps body [] hc hwf hty hbl henc (by simp; omega) (by omega) (by omega) hlen24
  simp only [List.append_nil, be24, be32, List.cons_append, List.nil_append] at this
  rw [this]
  rfl

end Dia
