import Dia.Account
namespace Dia

theorem list_len20 {bs : Bytes} (h : bs.length = 20) :
    ∃ b0 b1 b2 b3 b4 b5 b6 b7 b8 b9 b10 b11 b12 b13 b14 b15 b16 b17 b18 b19,
      bs = [b0,b1,b2,b3,b4,b5,b6,b7,b8,b9,b10,b11,b12,b13,b14,b15,b16,b17,b18,b19] := by
  match bs, h with
  | [b0,b1,b2,b3,b4,b5,b6,b7,b8,b9,b10,b11,b12,b13,b14,b15,b16,b17,b18,b19], _ =>
    exact ⟨b0,b1,b2,b3,b4,b5,b6,b7,b8,b9,b10,b11,b12,b13,b14,b15,b16,b17,b18,b19,rfl⟩

/-- C03 (faithful half) for the model: a frame whose size equals its declared length and that the decoder
accepts without a fixed-size length lie is, up to padding octets and reserved AVP flag bits, exactly the
encoding of the message returned; that message is consistent and re-encodes without error. -/
theorem decMsg_faithful (cfg : Cfg) (dict : Lookup) (bs : Bytes) (m : Msg)
    (h : decMsg cfg dict bs = .ok m) (hlen : bs.length = m.length) (hnl : NoLieList m.avps) :
    ∃ hb body, bs = hb ++ body ∧ hb.length = 20 ∧ body.length = (maskList m.avps).length ∧
      m.enc = ⟨hb ++ applyMask body (maskList m.avps), none⟩ ∧
      ConsList m.avps ∧ WFList m.avps ∧ m.length = 20 + lenList m.avps := by
  unfold decMsg at h
  rw [Out.bind_eq_ok] at h
  obtain ⟨⟨hb, c1⟩, hr, h⟩ := h
  dsimp only at h
  obtain ⟨hl20, _, hrest⟩ := read_leaf hr
  have ev1 := Cur.read_vlen hr
  obtain ⟨b0,b1,b2,b3,b4,b5,b6,b7,b8,b9,b10,b11,b12,b13,b14,b15,b16,b17,b18,b19,rfl⟩ := list_len20 hl20
  simp only [List.take, List.drop, List.getD_cons_succ, List.getD_cons_zero] at h
  split at h
  · cases h
  · split at h
    · cases h
    · rw [Out.bind_eq_ok] at h
      obtain ⟨⟨avps, c2⟩, hg, h⟩ := h
      dsimp only at h
      cases h
      simp only at hlen hnl ⊢
      obtain ⟨g1, g2⟩ := decGroup_vlen cfg dict _ 0 _ 20 c1 c2 avps hg hnl
      have hv0 : c2.vlen = 0 := by
        have e0 : (Cur.inRange bs).vlen = bs.length := rfl
        rw [e0] at ev1
        omega
      have hc2 := Cur.vlen_zero hv0
      subst hc2
      obtain ⟨body, k1, k2, k3, k4, k5, k6, k7⟩ := decGroup_inv cfg dict _ 0 _ 20 c1 avps [] hg hnl
      have hbs := hrest _ k1
      simp only [Cur.inRange.injEq, List.append_nil] at hbs
      refine ⟨_, body, hbs, rfl, k4, ?_, k6, k7, by omega⟩
      unfold Msg.enc
      simp only
      have hl3 := fromBe3_lt b1 b2 b3
      rw [if_neg (by omega)]
      simp only [Enc.ok, Enc.andThen_ok, k5]
      rw [be24_fromBe, be24_fromBe, be32_fromBe,
        UInt32.toNat_ofNat_of_lt' (fromBe4_lt _ _ _ _), UInt32.toNat_ofNat_of_lt' (fromBe4_lt _ _ _ _),
        be32_fromBe, be32_fromBe]
      simp

end Dia
