import Dia.Model
/-! Model of `src/dictionary.rs`: an ordered map keyed `Code(c)` / `CodeAndVendor(c, v)` (Rust `BTreeMap` with the
derived `Ord`: every `Code` key sorts before every `CodeAndVendor` key), the four lookups, the name scan (first entry
in key order), and `parse()` over a *structured* document (the XML tokenizer is an external library). Import-free
apart from the codec model, so that the driver links. -/
namespace Dia

inductive Key
  | code (c : UInt32)
  | cv (c v : UInt32)
deriving DecidableEq, Repr

/-- the derived `Ord` of `AvpKey` -/
def Key.lt : Key → Key → Bool
  | .code a, .code b => a < b
  | .code _, .cv _ _ => true
  | .cv _ _, .code _ => false
  | .cv a v, .cv b w => a < b || (a == b && v < w)

def keyOf (code : UInt32) (vendor : Option UInt32) : Key :=
  match vendor with
  | some v => .cv code v
  | none => .code code

structure Def where
  code : UInt32
  vendor : Option UInt32
  name : String
  ty : Ty
  m : Bool
deriving DecidableEq, Repr

def Def.key (d : Def) : Key := keyOf d.code d.vendor

/-- `BTreeMap::insert`: replace the entry with an equal key, else insert in key order -/
def insertKV : List (Key × Def) → Key → Def → List (Key × Def)
  | [], k, d => [(k, d)]
  | (k', d') :: rest, k, d =>
    if k' = k then (k, d) :: rest
    else if k.lt k' then (k, d) :: (k', d') :: rest
    else (k', d') :: insertKV rest k d

def lookupKV : List (Key × Def) → Key → Option Def
  | [], _ => none
  | (k', d') :: rest, k => if k' = k then some d' else lookupKV rest k

/-- `HashMap<String, _>::insert` / `get`, as an association list with the newest binding first -/
def lookupName : List (String × Nat) → String → Option Nat
  | [], _ => none
  | (n', x) :: rest, n => if n' = n then some x else lookupName rest n

structure Dict where
  avps : List (Key × Def) := []
  apps : List (String × Nat) := []
  cmds : List (String × Nat) := []

def Dict.empty : Dict := {}

def Dict.add (D : Dict) (d : Def) : Dict := { D with avps := insertKV D.avps d.key d }

def Dict.get (D : Dict) (code : UInt32) (vendor : Option UInt32) : Option Def := lookupKV D.avps (keyOf code vendor)
def Dict.getType (D : Dict) (code : UInt32) (vendor : Option UInt32) : Option Ty := (D.get code vendor).map (·.ty)
def Dict.getName (D : Dict) (code : UInt32) (vendor : Option UInt32) : Option String := (D.get code vendor).map (·.name)
/-- `self.avps.values().find(|avp| avp.name == name)` -/
def Dict.getByName (D : Dict) (n : String) : Option Def := (D.avps.find? (fun kd => kd.2.name = n)).map (·.2)
def Dict.appByName (D : Dict) (n : String) : Option Nat := lookupName D.apps n
def Dict.cmdByName (D : Dict) (n : String) : Option Nat := lookupName D.cmds n

/-- what `Avp::decode_from` asks the dictionary: `get_avp_type(..).unwrap_or(&AvpType::Unknown)` -/
def Dict.lookup (D : Dict) : Lookup := fun code vendor => (D.getType code vendor).getD .unknown

/-- the data-type names `parse()` recognises -/
def tyOfName (s : String) : Ty :=
  match s with
  | "UTF8String" => .utf8
  | "OctetString" => .octets
  | "Integer32" => .integer32
  | "Integer64" => .integer64
  | "Unsigned32" => .unsigned32
  | "Unsigned64" => .unsigned64
  | "Enumerated" => .enumerated
  | "Grouped" => .grouped
  | "DiameterIdentity" => .identity
  | "DiameterURI" => .uri
  | "Time" => .time
  | "Address" => .address
  | "IPv4" => .ipv4
  | "IPv6" => .ipv6
  | "Float32" => .float32
  | "Float64" => .float64
  | _ => .unknown

/-- `must` attribute: split on ',' and look for the exact item `M` -/
def mFlag (must : Option String) : Bool :=
  match must with
  | some s => (s.splitOn ",").contains "M"
  | none => false

/-- one `<avp>` element of a dictionary document -/
structure DocAvp where
  name : String
  code : UInt32
  vendor : Option UInt32
  must : Option String
  tyName : String
deriving Repr

/-- one `<application>` element -/
structure DocApp where
  id : Nat
  name : String
  cmds : List (Nat × String)     -- (code, name)
  avps : List DocAvp
deriving Repr

abbrev Doc := List DocApp

def DocAvp.toDef (a : DocAvp) : Def := ⟨a.code, a.vendor, a.name, tyOfName a.tyName, mFlag a.must⟩

def Dict.loadApp (D : Dict) (app : DocApp) : Dict :=
  let D := { D with apps := (app.name, app.id) :: D.apps }
  let D := app.cmds.foldl (fun D c => { D with cmds := (c.2, c.1) :: D.cmds }) D
  app.avps.foldl (fun D a => D.add a.toDef) D

/-- `parse(xml, dict)` after the XML has been read; the library `unwrap()`s application ids and command codes it
does not know, so documents are restricted to known ones by the generator (`docOk`) -/
def Dict.loadDoc (D : Dict) (doc : Doc) : Dict := doc.foldl Dict.loadApp D

def docOk (T : Tables) (doc : Doc) : Bool :=
  doc.all fun app => T.appKnown app.id && app.cmds.all fun c => T.cmdKnown c.1

end Dia
