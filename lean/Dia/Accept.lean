/-! Model of `DiameterServer::listen` (C10): the accept loop and the per-connection tasks as a labelled transition
system. Nothing is shared between connections but the immutable dictionary and the cloned handler, so the state is
a family of per-connection components plus the listener. `inline := true` is the code before fix D9 (the TLS
handshake awaited inside the accept loop); the repaired code is `inline := false`. Import-free. -/
namespace Dia.Acc

/-- what a peer puts on its connection, at message granularity -/
inductive Item
  | req (id : Nat)      -- a well-formed request
  | boom (id : Nat)     -- a well-formed request that makes the handler panic
  | bad                 -- a malformed / oversized / undersized frame
  | close               -- the peer closes or resets
deriving DecidableEq, Repr

inductive Phase | absent | backlog | handshake | serving | done | dead
deriving DecidableEq, Repr

structure Cfg where
  tls : Bool
  inline : Bool

structure St where
  phase : Nat → Phase := fun _ => .absent
  inbox : Nat → List Item := fun _ => []       -- sent by the peer, not yet consumed by the connection's task
  consumed : Nat → List Item := fun _ => []    -- consumed so far (ghost)
  out : Nat → List Nat := fun _ => []          -- ids of the requests whose answers were written to connection c
  busy : Option Nat := none                    -- the accept loop is waiting for this connection's handshake (inline only)

inductive Label
  | arrive (c : Nat)
  | send (c : Nat) (it : Item)
  | accept (c : Nat)
  | hsDone (c : Nat)
  | hsFail (c : Nat)
  | serve (c : Nat)
deriving Repr

def Label.conn : Label → Nat
  | .arrive c | .send c _ | .accept c | .hsDone c | .hsFail c | .serve c => c

def upd {α} (f : Nat → α) (k : Nat) (v : α) : Nat → α := fun x => if x = k then v else f x

/-- `none` = the label is not enabled -/
def step (cfg : Cfg) (s : St) : Label → Option St
  | .arrive c => if s.phase c = .absent then some { s with phase := upd s.phase c .backlog } else none
  | .send c it => if s.phase c = .absent then none else some { s with inbox := upd s.inbox c (s.inbox c ++ [it]) }
  | .accept c =>
    if s.phase c ≠ .backlog then none
    else if s.busy.isSome then none      -- the loop sits in `acceptor.accept(stream).await`
    else if cfg.tls then
      some { s with phase := upd s.phase c .handshake, busy := if cfg.inline then some c else none }
    else some { s with phase := upd s.phase c .serving }
  | .hsDone c =>
    if s.phase c ≠ .handshake then none
    else some { s with phase := upd s.phase c .serving, busy := if s.busy = some c then none else s.busy }
  | .hsFail c =>
    if s.phase c ≠ .handshake then none
    else some { s with phase := upd s.phase c .done, busy := if s.busy = some c then none else s.busy }
  | .serve c =>
    if s.phase c ≠ .serving then none
    else match s.inbox c with
      | [] => none
      | it :: rest =>
        let s := { s with inbox := upd s.inbox c rest, consumed := upd s.consumed c (s.consumed c ++ [it]) }
        match it with
        | .req id => some { s with out := upd s.out c (s.out c ++ [id]) }
        | .boom _ => some { s with phase := upd s.phase c .dead }      -- the panic is confined to the task
        | .bad => some { s with phase := upd s.phase c .done }
        | .close => some { s with phase := upd s.phase c .done }

def run (cfg : Cfg) (s : St) : List Label → Option St
  | [] => some s
  | l :: ls => match step cfg s l with
    | some s' => run cfg s' ls
    | none => none

/-- the answers a connection is owed: one per request, up to the first item that ends the connection -/
def owed : List Item → List Nat
  | [] => []
  | .req id :: rest => id :: owed rest
  | _ :: _ => []

/-- does the item list end the connection's task? -/
def ended : List Item → Bool
  | [] => false
  | .req _ :: rest => ended rest
  | _ :: _ => true

/-- a complete canonical schedule for `n` connections with the given inputs (used by the driver to predict what
every connection receives; any other complete schedule gives the same, see `Props/C10`) -/
def serveAll (cfg : Cfg) (c : Nat) : Nat → St → St
  | 0, s => s
  | fuel+1, s => match step cfg s (.serve c) with
    | some s' => serveAll cfg c fuel s'
    | none => s

end Dia.Acc
