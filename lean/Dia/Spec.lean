import Dia.Model
/-! RFC 6733 wire format, written from the RFC text (sections 3, 4, 4.1, 4.2, 4.3), independent of `Dia.*.enc`. -/
namespace Dia.Spec

/-- seconds between 1900-01-01T00:00:00Z and 1970-01-01T00:00:00Z: 70 years of which 17 are leap years -/
def epochOffset : Nat := (70 * 365 + 17) * 86400

mutual
inductive SData
  | address (a : Addr)
  | ipv4 (b : Bytes)
  | ipv6 (b : Bytes)
  | identity (s : Bytes)
  | uri (b : Bytes)
  | enumerated (v : UInt32)
  | float32 (bits : UInt32)
  | float64 (bits : UInt64)
  | grouped (ms : List SAvp)
  | integer32 (v : UInt32)
  | integer64 (v : UInt64)
  | octets (b : Bytes)
  | time (ntpSecs : Nat)          -- seconds since 1900-01-01T00:00:00Z (RFC 6733 4.3.1, RFC 5905)
  | unsigned32 (v : UInt32)
  | unsigned64 (v : UInt64)
  | utf8 (s : Bytes)
inductive SAvp
  | mk (code : UInt32) (vendor : Option UInt32) (m p : Bool) (d : SData)
end

def u32be (n : Nat) : Bytes :=
  [(n / 2^24 % 256).toUInt8, (n / 2^16 % 256).toUInt8, (n / 2^8 % 256).toUInt8, (n % 256).toUInt8]
def u24be (n : Nat) : Bytes := [(n / 2^16 % 256).toUInt8, (n / 2^8 % 256).toUInt8, (n % 256).toUInt8]
def u64be (n : Nat) : Bytes := u32be (n / 2^32) ++ u32be (n % 2^32)

def padTo4 (n : Nat) : Nat := (4 - n % 4) % 4

mutual
/-- AVP data formats: 4.2 basic, 4.3 derived -/
def SData.bytes : SData → Bytes
  | .address (.v4 b) => [0, 1] ++ b          -- IANA address family 1 = IPv4
  | .address (.v6 b) => [0, 2] ++ b          -- 2 = IPv6
  | .address (.e164 s) => [0, 8] ++ s        -- 8 = E.164
  | .ipv4 b => b | .ipv6 b => b
  | .identity s => s | .uri b => b
  | .enumerated v => u32be v.toNat | .float32 v => u32be v.toNat | .float64 v => u64be v.toNat
  | .grouped ms => encodeAvps ms              -- 4.4: concatenation of the member AVPs, padding included
  | .integer32 v => u32be v.toNat | .integer64 v => u64be v.toNat
  | .octets b => b
  | .time t => u32be t
  | .unsigned32 v => u32be v.toNat | .unsigned64 v => u64be v.toNat
  | .utf8 s => s
/-- 4.1 AVP header, data, and zero padding to a multiple of four octets -/
def SAvp.encode : SAvp → Bytes
  | .mk code vendor m p d =>
    let data := d.bytes
    let hl := match vendor with | some _ => 12 | none => 8
    let flags : UInt8 := (if vendor.isSome then 0x80 else 0) ||| (if m then 0x40 else 0) ||| (if p then 0x20 else 0)
    u32be code.toNat ++ [flags] ++ u24be (hl + data.length) ++
      (match vendor with | some v => u32be v.toNat | none => []) ++ data ++ List.replicate (padTo4 data.length) 0
def encodeAvps : List SAvp → Bytes
  | [] => []
  | a :: as => a.encode ++ encodeAvps as
end

structure SMsg where
  version : UInt8
  flags : UInt8
  cmd : Nat
  app : Nat
  hbh : UInt32
  e2e : UInt32
  avps : List SAvp

/-- section 3: the 20-octet header, then the AVPs; Message Length counts everything -/
def encode (m : SMsg) : Bytes :=
  let body := encodeAvps m.avps
  [m.version] ++ u24be (20 + body.length) ++ [m.flags] ++ u24be m.cmd ++ u32be m.app ++
    u32be m.hbh.toNat ++ u32be m.e2e.toNat ++ body

end Dia.Spec
