import Dia.Tree
import Dia.RtDefs
import Dia.Faithful
/-! What every accepted decode satisfies regardless of leniency: the tree is typed by the dictionary, and its nesting
stays within the decoder's limit. -/
namespace Dia

theorem leaf_typed_depth {dict : Lookup} {v : Value} (h : tyOf v ≠ .grouped) : v.Typed dict ∧ v.depth = 0 := by
  cases v <;> first | exact absurd rfl h | exact ⟨trivial, rfl⟩

mutual
theorem decAvp_typed (cfg : Cfg) (dict : Lookup) : ∀ (fuel depth : Nat) (c c' : Cur) (a : Avp),
    decAvp cfg dict fuel depth c = .ok (a, c') → depth ≤ cfg.limit → a.Typed dict ∧ depth + a.depth ≤ cfg.limit
  | 0, _, _, _, _, h, _ => by simp [decAvp] at h
  | fuel+1, depth, c, c', a, h, hd => by
    simp only [decAvp] at h
    rw [Out.bind_eq_ok] at h
    obtain ⟨⟨hdr, c1⟩, hh, h⟩ := h
    dsimp only at h
    split at h
    · cases h
    · rw [Out.bind_eq_ok] at h
      obtain ⟨vl, hvl, h⟩ := h
      rw [Out.bind_eq_ok] at h
      obtain ⟨⟨v, c2⟩, hv, h⟩ := h
      dsimp only at h
      cases h
      simp only [Avp.Typed, Avp.depth]
      split at hv
      · rename_i hg
        split at hv
        · cases hv
        · rename_i hlim
          rw [Out.bind_eq_ok] at hv
          obtain ⟨⟨ms, c3⟩, hgr, hv⟩ := hv
          dsimp only at hv
          cases hv
          obtain ⟨t1, t2⟩ := decGroup_typed cfg dict fuel (depth+1) vl 0 c1 c2 ms hgr (by omega)
          refine ⟨⟨by rw [hg]; rfl, ?_⟩, ?_⟩
          · simpa [Value.Typed] using t1
          · simp only [Value.depth]; omega
      · cases hv
      · have hty := decLeaf_ty hv
        rename_i hng hnu
        have hleaf : tyOf v ≠ .grouped := by rw [hty]; exact hng
        obtain ⟨l1, l2⟩ := leaf_typed_depth (dict := dict) hleaf
        exact ⟨⟨hty.symm, l1⟩, by rw [l2]; omega⟩
theorem decGroup_typed (cfg : Cfg) (dict : Lookup) : ∀ (fuel depth len off : Nat) (c c' : Cur) (ms : List Avp),
    decGroup cfg dict fuel depth len off c = .ok (ms, c') → depth ≤ cfg.limit →
    TypedList dict ms ∧ depth + depthList ms ≤ cfg.limit
  | 0, _, _, _, _, _, _, h, _ => by simp [decGroup] at h
  | fuel+1, depth, len, off, c, c', ms, h, hd => by
    simp only [decGroup] at h
    split at h
    · rw [Out.bind_eq_ok] at h
      obtain ⟨⟨a, c1⟩, ha, h⟩ := h
      dsimp only at h
      rw [Out.bind_eq_ok] at h
      obtain ⟨o1, ho1, h⟩ := h
      rw [Out.bind_eq_ok] at h
      obtain ⟨o2, ho2, h⟩ := h
      rw [Out.bind_eq_ok] at h
      obtain ⟨⟨as, c2⟩, hg, h⟩ := h
      dsimp only at h
      cases h
      obtain ⟨a1, a2⟩ := decAvp_typed cfg dict fuel depth c c1 a ha hd
      obtain ⟨g1, g2⟩ := decGroup_typed cfg dict fuel depth len o2 c1 _ as hg hd
      exact ⟨⟨a1, g1⟩, by simp only [depthList]; omega⟩
    · split at h
      · cases h; exact ⟨trivial, by simp only [depthList]; omega⟩
      · cases h
end

/-- every accepted message - under any leniency - is typed by the dictionary at every nesting level, carries a command
code and application id the library knows, and nests no deeper than the decoder's limit -/
theorem decMsg_typed (cfg : Cfg) (dict : Lookup) (bs : Bytes) (m : Msg) (h : decMsg cfg dict bs = .ok m) :
    TypedList dict m.avps ∧ depthList m.avps ≤ cfg.limit ∧ cfg.tables.cmdKnown m.cmd = true ∧ cfg.tables.appKnown m.app = true := by
  unfold decMsg at h
  rw [Out.bind_eq_ok] at h
  obtain ⟨⟨hb, c1⟩, hr, h⟩ := h
  dsimp only at h
  split at h
  · cases h
  · rename_i hc
    split at h
    · cases h
    · rename_i ha
      rw [Out.bind_eq_ok] at h
      obtain ⟨⟨avps, c2⟩, hg, h⟩ := h
      dsimp only at h
      cases h
      obtain ⟨t1, t2⟩ := decGroup_typed cfg dict _ 0 _ 20 c1 c2 avps hg (Nat.zero_le _)
      exact ⟨t1, by simpa using t2, by simpa using hc, by simpa using ha⟩

end Dia
