import Dia.Client
import Dia.StreamSeq
/-! From octets to the client model's wire items: what the reader task sees of the peer's byte stream is the sequence of
messages the stream reader decodes, ended by a `bad` item at the first failure (close, reset, undecodable octets).
This connects `Client.lean` (items) with `Stream.lean` (octets and segmentation). -/
namespace Dia

/-- the client model's view of a message: its hop-by-hop id and its end-to-end id as identity -/
def Msg.item (m : Msg) : Cl.Item := .msg ⟨m.hbh.toNat, m.e2e.toNat⟩

/-- the items the reader loop of `handle` extracts from a read script: one per decoded message, then `bad` -/
def itemsOf (cfg : Cfg) (dict : Lookup) : Nat → List REv → List Cl.Item
  | 0, _ => []
  | n+1, evs =>
    let r := Codec.decode cfg dict evs
    match r.out with
    | .ok m => m.item :: itemsOf cfg dict n r.rest
    | _ => [.bad]

/-- `itemsOf` is the item view of `decodeSeq` -/
theorem itemsOf_decodeSeq (cfg : Cfg) (dict : Lookup) : ∀ (n : Nat) (evs : List REv),
    itemsOf cfg dict n evs = (decodeSeq cfg dict n evs).map fun r =>
      match r.1 with | .ok m => m.item | _ => .bad
  | 0, _ => rfl
  | n+1, evs => by
    simp only [itemsOf, decodeSeq]
    cases h : (Codec.decode cfg dict evs).out with
    | ok m => simp [itemsOf_decodeSeq cfg dict n]
    | err e => simp
    | panic => simp

/-- **answer segmentation is irrelevant to the client**: on any script that delivers a concatenation of acceptable
answer frames - however segmented, with `Pending` anywhere - the reader sees exactly those answers, in order -/
theorem itemsOf_frames (cfg : Cfg) (dict : Lookup) (frames : List Bytes) (msgs : List Msg) (evs : List REv)
    (more : Bytes) (hl : frames.length = msgs.length)
    (hacc : ∀ i (h1 : i < frames.length) (h2 : i < msgs.length), Accepts cfg dict frames[i] msgs[i])
    (hne : noEmpty evs) (hflat : flat evs = frames.flatten ++ more) :
    itemsOf cfg dict frames.length evs = msgs.map Msg.item := by
  rw [itemsOf_decodeSeq, decodeSeq_frames cfg dict frames msgs evs more hl hacc hne hflat]
  simp only [List.map_map]
  have : ∀ (ms : List Msg) (fs : List Bytes), fs.length = ms.length →
      (ms.zip fs).map ((fun r : COut × Nat => match r.1 with | .ok m => m.item | _ => Cl.Item.bad) ∘
        fun mf => (COut.ok mf.1, mf.2.length)) = ms.map Msg.item := by
    intro ms
    induction ms with
    | nil => intro fs _; simp
    | cons m ms ih =>
      intro fs h
      cases fs with
      | nil => simp at h
      | cons f fs => simp [ih fs (by simpa using h)]
  exact this msgs frames hl

end Dia
