import Dia.Props.C02
import Dia.Props.C08
import Dia.ClientWire
/-! Server and client put together: what the per-connection loop of the server writes is, to the reader of a client,
exactly the handler's answers - for every segmentation in either direction. -/
namespace Dia
open Spec

/-- the encoding of a consistent, carriable, typed message of admissible depth and of at most 1 MiB is a frame the stream
reader and the decoder accept as exactly that message -/
theorem Accepts_enc (cfg : Cfg) (hf : cfg.tables.Fit) (dict : Lookup) (m : Msg) (hg : m.Good)
    (hh : m.HeaderOk cfg.tables) (hty : TypedList dict m.avps) (h1M : m.length ≤ 1048576)
    (hd : depthList m.avps ≤ cfg.limit) : Accepts cfg dict m.enc.bytes m := by
  have h24 : m.length < 16777216 := by omega
  obtain ⟨_, hdec⟩ := C02_roundtrip cfg hf dict m hg hh hty h24 hd
  have hs := Msg.enc_spec m hg.wf hg.cons hg.len h24
  have hlen : m.enc.bytes.length = m.length := by rw [hs.1]; exact hs.2
  have hb := encList_spec m.avps hg.wf hg.cons
  have he : (encList m.avps).err = none := by rw [hb]
  have hE : encList m.avps = ⟨(encList m.avps).bytes, none⟩ := by
    cases hx : encList m.avps with
    | mk b e => rw [hx] at he; simp only at he; subst he; rfl
  have henc : m.enc.bytes = m.hdrBytes ++ (encList m.avps).bytes := by
    unfold Msg.enc
    rw [if_neg (by omega), hE]
    simp only [Enc.ok, Enc.andThen_ok, Msg.hdrBytes]
  refine ⟨hdec, ?_, ?_, ?_⟩
  · rw [hlen, henc]
    simp only [declaredLen, Msg.hdrBytes, List.cons_append, List.append_assoc]
    have : ((m.version :: (be24 m.length ++ (m.flags :: (be24 m.cmd ++ (be32 m.app ++ (be32 m.hbh.toNat ++
        (be32 m.e2e.toNat ++ (encList m.avps).bytes))))))).take 4).drop 1 = be24 m.length := by
      simp [be24]
    rw [this]
    exact fromBe_be24 _ h24
  · rw [hlen, hg.len]; omega
  · rw [hlen]; exact h1M

/-- **server to client, end to end.** The server's loop reads `frames` (acceptable requests, any segmentation `evs`), the
handler answers with `answers` (each a consistent, typed message of at most 1 MiB), the answers go out over a stream
that takes octets in arbitrary pieces (`w`); whatever read script `evsC` then delivers those written octets to a client -
again in any pieces, followed by anything - the client's reader extracts exactly the handler's answers, in order. -/
theorem server_to_client (cfg : Cfg) (hf : cfg.tables.Fit) (dict : Lookup) (frames : List Bytes) (reqs answers : List Msg)
    (evs : List REv) (w : List WEv) (evsC : List REv) (more : Bytes)
    (hl1 : frames.length = reqs.length) (hl2 : answers.length = reqs.length)
    (hacc : ∀ i (h1 : i < frames.length) (h2 : i < reqs.length), Accepts cfg dict frames[i] reqs[i])
    (hans : ∀ a ∈ answers, a.Good ∧ a.HeaderOk cfg.tables ∧ TypedList dict a.avps ∧ a.length ≤ 1048576 ∧
      depthList a.avps ≤ cfg.limit)
    (hne : noEmpty evs) (hflat : flat evs = frames.flatten) (hw : neverFails w)
    (hneC : noEmpty evsC) (hflatC : flat evsC = (serve cfg dict (answers.map .ok) evs w).written ++ more) :
    (serve cfg dict (answers.map .ok) evs w).calls = reqs ∧
    itemsOf cfg dict answers.length evsC = answers.map Msg.item := by
  have hencA : ∀ a ∈ answers, a.enc.err = none := fun a ha => by
    obtain ⟨g, h, t, l, d⟩ := hans a ha
    exact (C02_roundtrip cfg hf dict a g h t (by omega) d).1
  obtain ⟨c1, c2, _⟩ := C08_all_good cfg dict frames reqs answers evs w hl1 hl2 hacc hencA hne hflat hw
  refine ⟨c1, ?_⟩
  rw [c2] at hflatC
  have hl : (answers.map (fun a => a.enc.bytes)).length = answers.length := by simp
  have := itemsOf_frames cfg dict (answers.map (fun a => a.enc.bytes)) answers evsC more hl
    (fun i h1 h2 => by
      have hm : answers[i] ∈ answers := List.getElem_mem h2
      obtain ⟨g, h, t, l, d⟩ := hans _ hm
      simpa using Accepts_enc cfg hf dict answers[i] g h t l d) hneC hflatC
  rw [hl] at this
  exact this

end Dia
