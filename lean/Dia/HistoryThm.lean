import Dia.History
import Dia.Top
/-! Helper lemmas: the construction API preserves consistency and well-formedness. -/
namespace Dia

theorem lenList_append (ms : List Avp) (a : Avp) : lenList (ms ++ [a]) = lenList ms + a.padded := by
  induction ms with
  | nil => simp [lenList]
  | cons x xs ih => simp only [List.cons_append, lenList, ih]; omega

theorem WFList_append (ms : List Avp) (a : Avp) : WFList (ms ++ [a]) ↔ WFList ms ∧ a.WF := by
  induction ms with
  | nil => simp [WFList]
  | cons x xs ih => simp only [List.cons_append, WFList, ih, and_assoc]

theorem ConsList_append (ms : List Avp) (a : Avp) : ConsList (ms ++ [a]) ↔ ConsList ms ∧ a.Cons := by
  induction ms with
  | nil => simp [ConsList]
  | cons x xs ih => simp only [List.cons_append, ConsList, ih, and_assoc]

theorem WFList_mem {ms : List Avp} (h : WFList ms) {a : Avp} (ha : a ∈ ms) : a.WF := by
  induction ms with
  | nil => cases ha
  | cons x xs ih =>
    cases ha with
    | head => exact h.1
    | tail _ h' => exact ih h.2 h'

theorem ConsList_mem {ms : List Avp} (h : ConsList ms) {a : Avp} (ha : a ∈ ms) : a.Cons := by
  induction ms with
  | nil => cases ha
  | cons x xs ih =>
    cases ha with
    | head => exact h.1
    | tail _ h' => exact ih h.2 h'

/-- a value as the construction API can hold it: well formed and consistent -/
def Value.Good (v : Value) : Prop := v.WF ∧ v.Cons
def Avp.Good (a : Avp) : Prop := a.WF ∧ a.Cons

theorem Value.good_grouped (ms : List Avp) : (Value.grouped ms).Good ↔ WFList ms ∧ ConsList ms := by
  simp only [Value.Good, Value.WF, Value.Cons]

/-- `Avp::new` computes length and padding from the value: the result is consistent; it is well formed when the
length fits the 24-bit field -/
theorem Avp.new_good (code : UInt32) (vendor : Option UInt32) (flags : UInt8) (v : Value) (hv : v.Good)
    (h24 : hdrLen vendor + v.len < 16777216) : (Avp.new code vendor flags v).Good := by
  unfold Avp.new Avp.Good
  simp only [Avp.WF, Avp.Cons]
  exact ⟨⟨h24, hv.1⟩, trivial, trivial, hv.2⟩

theorem Avp.good_value {a : Avp} (h : a.Good) : a.value.Good := by
  cases a with
  | mk c vd m p l pd v =>
    simp only [Avp.Good, Avp.WF, Avp.Cons] at h
    exact ⟨h.1.2, h.2.2.2⟩

/-- a message whose bookkeeping is right -/
structure Msg.Good (m : Msg) : Prop where
  wf : WFList m.avps
  cons : ConsList m.avps
  len : m.length = 20 + lenList m.avps

theorem Msg.new_good (cmd app : Nat) (flags : UInt8) (hbh e2e : UInt32) : (Msg.new cmd app flags hbh e2e).Good :=
  ⟨trivial, trivial, rfl⟩

theorem Msg.add_good {m : Msg} {a : Avp} (hm : m.Good) (ha : a.Good) : (m.add a).Good := by
  refine ⟨(WFList_append _ _).mpr ⟨hm.wf, ha.1⟩, (ConsList_append _ _).mpr ⟨hm.cons, ha.2⟩, ?_⟩
  simp only [Msg.add, lenList_append, Avp.padded, hm.len]; omega

/-- what the decoder returns for a frame of its declared size, without a fixed-size length lie, is a good message -/
theorem decMsg_good {cfg : Cfg} {dict : Lookup} {bs : Bytes} {m : Msg} (h : decMsg cfg dict bs = .ok m)
    (hlen : bs.length = m.length) (hnl : NoLieList m.avps) : m.Good := by
  obtain ⟨_, _, _, _, _, _, hc, hw, hl⟩ := decMsg_faithful cfg dict bs m h hlen hnl
  exact ⟨hw, hc, hl⟩

end Dia
