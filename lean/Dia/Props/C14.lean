import Dia.DictRefine
import Dia.DictApps
/-! # C14 - Dictionary lookups reflect exactly what was loaded, latest wins. Property theorems only.
The abstract spec is the list of definitions supplied so far (since the last construction), in order: a lookup
returns the *last* one supplied for exactly that (code, vendor) pair. -/
namespace Dia

/-- the refinement: after any history the concrete map represents the supplied definitions -/
theorem C14_refines (ops : List DOp) : Refines (runD ops).avps (supplied ops) := by
  unfold runD supplied
  have : ∀ (ops : List DOp) (D : Dict) (defs : List Def), Refines D.avps defs →
      Refines (ops.foldl DOp.apply D).avps (ops.foldl DOp.supply defs) := by
    intro ops
    induction ops with
    | nil => intro D defs h; exact h
    | cons op ops ih =>
      intro D defs h
      simp only [List.foldl_cons]
      apply ih
      cases op with
      | construct docs => exact construct_refines docs
      | load doc => exact loadDoc_refines h doc
      | add d => exact refines_add h d
  exact this ops Dict.empty [] refines_nil

/-- **C14, lookup by code and vendor.** After any history of constructions, document loads and single additions, the
lookup returns the most recently supplied definition for exactly that pair - name, type and mandatory flag all from
that one definition - and nothing for a pair never defined. -/
theorem C14_get (ops : List DOp) (code : UInt32) (vendor : Option UInt32) :
    (runD ops).get code vendor = specGet (supplied ops) (keyOf code vendor) :=
  (C14_refines ops).get _

/-- `get_avp_type` / `get_avp_name` are projections of the same definition -/
theorem C14_type_name (D : Dict) (code : UInt32) (vendor : Option UInt32) :
    D.getType code vendor = (D.get code vendor).map (·.ty) ∧
    D.getName code vendor = (D.get code vendor).map (·.name) := ⟨rfl, rfl⟩

/-- a vendor-specific and a vendor-less definition sharing a code never shadow or overwrite each other -/
theorem C14_no_shadow (D : Dict) (d : Def) (code : UInt32) (vendor : Option UInt32)
    (h : keyOf d.code d.vendor ≠ keyOf code vendor) : (D.add d).get code vendor = D.get code vendor := by
  unfold Dict.get Dict.add Def.key
  simp only [lookup_insert, if_neg h]

theorem C14_keys_distinct (c : UInt32) (v : UInt32) : keyOf c none ≠ keyOf c (some v) := by
  simp [keyOf]

/-- **C14, lookup by name (soundness).** What the name lookup returns carries that name and is *live*: it is the
definition the (code, vendor) lookup currently returns for its own pair. -/
theorem C14_by_name_live (ops : List DOp) (n : String) (d : Def) (h : (runD ops).getByName n = some d) :
    d.name = n ∧ (runD ops).get d.code d.vendor = some d := by
  have hr := C14_refines ops
  unfold Dict.getByName at h
  cases hf : (runD ops).avps.find? (fun kd => kd.2.name = n) with
  | none => rw [hf] at h; cases h
  | some kd =>
    rw [hf] at h
    simp only [Option.map_some, Option.some.injEq] at h
    subst h
    have hp := List.find?_some hf
    have hm := List.mem_of_find?_eq_some hf
    obtain ⟨k, d⟩ := kd
    have hk := hr.keys k d hm
    subst hk
    exact ⟨by simpa using hp, lookup_of_mem hr.sorted hm⟩

/-- **C14, lookup by name (completeness).** It returns a definition if and only if some live definition carries the
name. -/
theorem C14_by_name_iff (ops : List DOp) (n : String) :
    ((runD ops).getByName n).isSome ↔
      ∃ code vendor d, (runD ops).get code vendor = some d ∧ d.name = n := by
  constructor
  · intro h
    cases hg : (runD ops).getByName n with
    | none => rw [hg] at h; cases h
    | some d =>
      obtain ⟨h1, h2⟩ := C14_by_name_live ops n d hg
      exact ⟨d.code, d.vendor, d, h2, h1⟩
  · rintro ⟨code, vendor, d, hget, hn⟩
    have hm := mem_of_lookup hget
    unfold Dict.getByName
    rw [Option.isSome_map, List.find?_isSome]
    exact ⟨_, hm, by simpa using hn⟩

/-- application and command names resolve to the identifiers they were (last) declared with -/
theorem C14_app_declared (D : Dict) (app : DocApp) : (D.loadApp app).appByName app.name = some app.id := by
  unfold Dict.loadApp Dict.appByName
  simp only
  have hc : ∀ (cs : List (Nat × String)) (D : Dict),
      (cs.foldl (fun D c => { D with cmds := (c.2, c.1) :: D.cmds }) D).apps = D.apps := by
    intro cs
    induction cs with
    | nil => intro D; rfl
    | cons c cs ih => intro D; simp only [List.foldl_cons]; rw [ih]
  have ha : ∀ (as : List DocAvp) (D : Dict), (as.foldl (fun D a => D.add a.toDef) D).apps = D.apps := by
    intro as
    induction as with
    | nil => intro D; rfl
    | cons a as ih => intro D; simp only [List.foldl_cons]; rw [ih]; rfl
  rw [ha, hc]
  simp [lookupName]

/-- **application and command names over whole histories.** After any history, an application (command) name resolves
to the identifier of the *last* declaration of that name supplied since the last construction, and to nothing if it
was never declared. -/
theorem C14_apps_cmds (ops : List DOp) (n : String) :
    (runD ops).appByName n = ((declaredApps ops).reverse.find? (fun p => p.1 = n)).map (·.2) ∧
    (runD ops).cmdByName n = ((declaredCmds ops).reverse.find? (fun p => p.1 = n)).map (·.2) := by
  obtain ⟨h1, h2⟩ := run_apps_cmds ops
  unfold Dict.appByName Dict.cmdByName
  rw [h1, h2, lookupName_eq_find, lookupName_eq_find]
  exact ⟨rfl, rfl⟩

/-- the mandatory flag is set exactly when the comma-separated `must` list contains the item `M` -/
theorem C14_mflag (must : Option String) :
    mFlag must = match must with | some s => (s.splitOn ",").contains "M" | none => false := by
  cases must <;> rfl

/-! non-vacuity: twins under one code, the later definition of a key wins -/
example : let ops := [DOp.add ⟨7, none, "a", .utf8, false⟩, .add ⟨7, some 5, "b", .unsigned32, true⟩,
                      .add ⟨7, none, "c", .octets, true⟩]
    ((runD ops).get 7 none).map (·.name) = some "c" ∧ ((runD ops).get 7 (some 5)).map (·.name) = some "b" ∧
    (runD ops).get 7 (some 6) = none := by
  decide

end Dia
