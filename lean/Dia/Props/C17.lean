import Dia.Fixed
import Dia.RtLeaf
/-! # C17 - Four-octet data types are exact bijections with their wire form
Property theorems only. Universally quantified over the four (eight) octets: all 2^32 (2^64) wire values. -/
namespace Dia

/-- big-endian value of four octets, written out -/
def be4val (a b c d : UInt8) : Nat := a.toNat * 2^24 + b.toNat * 2^16 + c.toNat * 2^8 + d.toNat

theorem fromBe4_eq (a b c d : UInt8) : fromBe [a,b,c,d] = be4val a b c d := by
  simp only [fromBe, List.foldl, be4val]; omega

/-- the 1900 epoch: 70 years, 17 of them leap years, of 86400 seconds -/
theorem C17_epoch : (2208988800 : Nat) = (70 * 365 + 17) * 86400 := by decide

/-- Unsigned32: the big-endian unsigned value; re-encoding gives the same four octets -/
theorem C17_u32 (a b c d : UInt8) :
    ∃ v, ofFixed .unsigned32 [a,b,c,d] = .unsigned32 v ∧ v.toNat = be4val a b c d ∧
      (Value.unsigned32 v).enc = ⟨[a,b,c,d], none⟩ := by
  refine ⟨(fromBe [a,b,c,d]).toUInt32, rfl, ?_, ?_⟩
  · rw [UInt32.toNat_ofNat_of_lt' (fromBe4_lt _ _ _ _), fromBe4_eq]
  · simp [Value.enc, Enc.ok, UInt32.toNat_ofNat_of_lt' (fromBe4_lt _ _ _ _), be32_fromBe]

/-- Integer32: big-endian two's complement -/
theorem C17_i32 (a b c d : UInt8) :
    ∃ v, ofFixed .integer32 [a,b,c,d] = .integer32 v ∧
      toI32 v = (if be4val a b c d < 2^31 then (be4val a b c d : Int) else (be4val a b c d : Int) - 2^32) ∧
      (Value.integer32 v).enc = ⟨[a,b,c,d], none⟩ := by
  refine ⟨(fromBe [a,b,c,d]).toUInt32, rfl, ?_, ?_⟩
  · unfold toI32
    rw [UInt32.toNat_ofNat_of_lt' (fromBe4_lt _ _ _ _), fromBe4_eq]
    split <;> rename_i h <;> simp at h ⊢ <;> split <;> omega
  · simp [Value.enc, Enc.ok, UInt32.toNat_ofNat_of_lt' (fromBe4_lt _ _ _ _), be32_fromBe]

/-- Enumerated: identical to Integer32 -/
theorem C17_enum (a b c d : UInt8) :
    ∃ v, ofFixed .enumerated [a,b,c,d] = .enumerated v ∧
      toI32 v = (if be4val a b c d < 2^31 then (be4val a b c d : Int) else (be4val a b c d : Int) - 2^32) ∧
      (Value.enumerated v).enc = ⟨[a,b,c,d], none⟩ := by
  refine ⟨(fromBe [a,b,c,d]).toUInt32, rfl, ?_, ?_⟩
  · unfold toI32
    rw [UInt32.toNat_ofNat_of_lt' (fromBe4_lt _ _ _ _), fromBe4_eq]
    split <;> rename_i h <;> simp at h ⊢ <;> split <;> omega
  · simp [Value.enc, Enc.ok, UInt32.toNat_ofNat_of_lt' (fromBe4_lt _ _ _ _), be32_fromBe]

/-- Float32: the IEEE-754 single whose bit pattern is the four octets (no conversion, NaN payloads included) -/
theorem C17_f32 (a b c d : UInt8) :
    ∃ bits, ofFixed .float32 [a,b,c,d] = .float32 bits ∧ bits.toNat = be4val a b c d ∧
      (Value.float32 bits).enc = ⟨[a,b,c,d], none⟩ := by
  refine ⟨(fromBe [a,b,c,d]).toUInt32, rfl, ?_, ?_⟩
  · rw [UInt32.toNat_ofNat_of_lt' (fromBe4_lt _ _ _ _), fromBe4_eq]
  · simp [Value.enc, Enc.ok, UInt32.toNat_ofNat_of_lt' (fromBe4_lt _ _ _ _), be32_fromBe]

/-- Time: seconds since 1900-01-01T00:00:00Z, i.e. unix seconds = wire value - 2208988800; every wire value is in
range, so re-encoding never fails -/
theorem C17_time (a b c d : UInt8) :
    ofFixed .time [a,b,c,d] = .time ((be4val a b c d : Int) - 2208988800) 0 ∧
      (Value.time ((be4val a b c d : Int) - 2208988800) 0).enc = ⟨[a,b,c,d], none⟩ := by
  have hf := fromBe4_eq a b c d
  have hlt := fromBe4_lt a b c d
  have hR : RFC868 = 2208988800 := rfl
  refine ⟨by simp only [ofFixed, hf, hR], ?_⟩
  rw [← hf]
  simp only [Value.enc]
  rw [if_neg (by omega), if_neg (by omega)]
  have e : (((fromBe [a,b,c,d] : Nat) : Int) - 2208988800 + RFC868).toNat = fromBe [a,b,c,d] := by omega
  rw [e]
  simp [Enc.ok, be32_fromBe]

/-- IPv4: the four octets themselves, shown as a dotted quad -/
theorem C17_ipv4 (a b c d : UInt8) :
    ofFixed .ipv4 [a,b,c,d] = .ipv4 [a,b,c,d] ∧ (Value.ipv4 [a,b,c,d]).enc = ⟨[a,b,c,d], none⟩ ∧
      dotted [a,b,c,d] =
        toString a.toNat ++ "." ++ toString b.toNat ++ "." ++ toString c.toNat ++ "." ++ toString d.toNat :=
  ⟨rfl, rfl, rfl⟩

/-- the four-octet decoders are injective: distinct wire values give distinct values (bijection with C17_*'s
re-encoding) -/
theorem C17_injective (ty : Ty) (hty : ty ∈ ty4) (x y : Bytes) (hx : x.length = 4) (hy : y.length = 4)
    (h : ofFixed ty x = ofFixed ty y) : x = y := by
  have hn : fixedSize ty = some 4 := by
    simp only [ty4, List.mem_cons, List.not_mem_nil, or_false] at hty
    rcases hty with rfl | rfl | rfl | rfl | rfl | rfl <;> rfl
  have ex := (ofFixed_facts hn hx).2.2.2.2.2.1
  have ey := (ofFixed_facts hn hy).2.2.2.2.2.1
  rw [h] at ex
  rw [ex] at ey
  exact (Enc.mk.inj ey).1

/-- eight-octet types: the same for all 2^64 patterns (stronger than the property asks) -/
theorem C17_u64 (bs : Bytes) (h : bs.length = 8) :
    ∃ v, ofFixed .unsigned64 bs = .unsigned64 v ∧ v.toNat = fromBe bs ∧ (Value.unsigned64 v).enc = ⟨bs, none⟩ := by
  obtain ⟨a0,a1,a2,a3,a4,a5,a6,a7,rfl⟩ := list_len8 h
  refine ⟨(fromBe [a0,a1,a2,a3,a4,a5,a6,a7]).toUInt64, rfl, UInt64.toNat_ofNat_lt' (fromBe8_lt _ _ _ _ _ _ _ _), ?_⟩
  simp [Value.enc, Enc.ok, UInt64.toNat_ofNat_lt' (fromBe8_lt _ _ _ _ _ _ _ _), be64_fromBe]

theorem C17_i64 (bs : Bytes) (h : bs.length = 8) :
    ∃ v, ofFixed .integer64 bs = .integer64 v ∧
      toI64 v = (if fromBe bs < 2^63 then (fromBe bs : Int) else (fromBe bs : Int) - 2^64) ∧
      (Value.integer64 v).enc = ⟨bs, none⟩ := by
  obtain ⟨a0,a1,a2,a3,a4,a5,a6,a7,rfl⟩ := list_len8 h
  refine ⟨(fromBe [a0,a1,a2,a3,a4,a5,a6,a7]).toUInt64, rfl, ?_, ?_⟩
  · unfold toI64
    rw [UInt64.toNat_ofNat_lt' (fromBe8_lt _ _ _ _ _ _ _ _)]
    split <;> rename_i h <;> simp at h ⊢ <;> split <;> omega
  · simp [Value.enc, Enc.ok, UInt64.toNat_ofNat_lt' (fromBe8_lt _ _ _ _ _ _ _ _), be64_fromBe]

theorem C17_f64 (bs : Bytes) (h : bs.length = 8) :
    ∃ bits, ofFixed .float64 bs = .float64 bits ∧ bits.toNat = fromBe bs ∧ (Value.float64 bits).enc = ⟨bs, none⟩ := by
  obtain ⟨a0,a1,a2,a3,a4,a5,a6,a7,rfl⟩ := list_len8 h
  refine ⟨(fromBe [a0,a1,a2,a3,a4,a5,a6,a7]).toUInt64, rfl, UInt64.toNat_ofNat_lt' (fromBe8_lt _ _ _ _ _ _ _ _), ?_⟩
  simp [Value.enc, Enc.ok, UInt64.toNat_ofNat_lt' (fromBe8_lt _ _ _ _ _ _ _ _), be64_fromBe]

/-- and these are exactly the values the AVP decoder produces for a fixed-size type: `decLeaf` reads the natural
size and applies `ofFixed` (so the statements above are statements about decoding) -/
theorem C17_decoder (cfg : Cfg) (ty : Ty) (n : Nat) (hn : fixedSize ty = some n) (vb r : Bytes) (hl : vb.length = n) :
    decLeaf cfg ty n (.inRange (vb ++ r)) = .ok (ofFixed ty vb, .inRange r) :=
  decLeaf_fixed_rt hn hl

/-! non-vacuity / anchors -/
example : ofFixed .time [0,0,0,0] = .time (-2208988800) 0 := by simp [ofFixed, fromBe, RFC868]
example : ofFixed .time [0x83,0xaa,0x7e,0x80] = .time 0 0 := by simp [ofFixed, fromBe, RFC868]
example : ofFixed .integer32 [0xff,0xff,0xff,0xff] = .integer32 0xffffffff ∧ toI32 0xffffffff = -1 := by
  refine ⟨by simp [ofFixed, fromBe], by decide⟩

end Dia
