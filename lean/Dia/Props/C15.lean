import Dia.DictThm
import Dia.Tree
import Dia.Rt
/-! # C15 - AVPs are typed by their exact dictionary entry or rejected. Property theorems only. -/
namespace Dia

/-- the sixteen documented data-type names -/
def knownTypeNames : List String :=
  ["UTF8String", "OctetString", "Integer32", "Integer64", "Unsigned32", "Unsigned64", "Enumerated", "Grouped",
   "DiameterIdentity", "DiameterURI", "Time", "Address", "IPv4", "IPv6", "Float32", "Float64"]

/-- each of the sixteen names produces the corresponding kind of value ... -/
theorem C15_names :
    tyOfName "UTF8String" = .utf8 ∧ tyOfName "OctetString" = .octets ∧ tyOfName "Integer32" = .integer32 ∧
    tyOfName "Integer64" = .integer64 ∧ tyOfName "Unsigned32" = .unsigned32 ∧ tyOfName "Unsigned64" = .unsigned64 ∧
    tyOfName "Enumerated" = .enumerated ∧ tyOfName "Grouped" = .grouped ∧ tyOfName "DiameterIdentity" = .identity ∧
    tyOfName "DiameterURI" = .uri ∧ tyOfName "Time" = .time ∧ tyOfName "Address" = .address ∧
    tyOfName "IPv4" = .ipv4 ∧ tyOfName "IPv6" = .ipv6 ∧ tyOfName "Float32" = .float32 ∧ tyOfName "Float64" = .float64 := by
  decide

/-- ... and every other spelling is an unrecognised type -/
theorem C15_unknown_name (n : String) (h : n ∉ knownTypeNames) : tyOfName n = .unknown := by
  simp only [knownTypeNames, List.mem_cons, List.not_mem_nil, or_false, not_or] at h
  unfold tyOfName
  split <;> simp_all

/-- what the decoder asks the dictionary is `unknown` exactly when there is no entry for the exact (code, vendor)
pair or that entry's type name was not recognised -/
theorem C15_lookup_unknown_iff (D : Dict) (code : UInt32) (vendor : Option UInt32) :
    D.lookup code vendor = .unknown ↔
      D.get code vendor = none ∨ ∃ d, D.get code vendor = some d ∧ d.ty = .unknown := by
  unfold Dict.lookup Dict.getType
  cases D.get code vendor with
  | none => simp
  | some d => simp

/-- an entry under another vendor (or only without one) is not an entry for this pair: the keys differ -/
theorem C15_exact_key (c : UInt32) (v w : UInt32) (h : v ≠ w) :
    keyOf c (some v) ≠ keyOf c (some w) ∧ keyOf c none ≠ keyOf c (some v) := by
  simp [keyOf, h]

/-- **C15, rejection.** An AVP whose exact (code, vendor) pair has no entry, or an entry of unrecognised type, makes
decoding fail with an error - whatever other entries (other vendors, neighbouring codes) the dictionary holds and
whatever follows the header. -/
theorem C15_reject (cfg : Cfg) (dict : Lookup) (fuel depth : Nat) (c c1 : Cur) (h : Hdr)
    (hh : decHdr c = .ok (h, c1)) (hd : dict h.code h.vendor = .unknown) :
    ∃ e, decAvp cfg dict (fuel+1) depth c = .err e := by
  simp only [decAvp, hh, Out.bind_ok]
  split
  · exact ⟨_, rfl⟩
  · unfold checkedSub
    split
    · rename_i h1 h2; omega
    · simp only [Out.bind_ok, hd]
      exact ⟨_, rfl⟩

/-- **C15, typing.** Whatever the decoder returns for one AVP carries exactly the variant the dictionary entry for its
(code, vendor) pair declares - never a guess -/
theorem C15_variant (cfg : Cfg) (dict : Lookup) (fuel depth : Nat) (c c' : Cur) (a : Avp)
    (h : decAvp cfg dict fuel depth c = .ok (a, c')) :
    dict a.code a.vendor = tyOf a.value ∧ tyOf a.value ≠ .unknown := by
  refine ⟨?_, tyOf_ne_unknown a.value⟩
  cases fuel with
  | zero => simp [decAvp] at h
  | succ fuel =>
    simp only [decAvp] at h
    rw [Out.bind_eq_ok] at h
    obtain ⟨⟨hd, c1⟩, hh, h⟩ := h
    dsimp only at h
    split at h
    · cases h
    · rw [Out.bind_eq_ok] at h
      obtain ⟨vl, hvl, h⟩ := h
      rw [Out.bind_eq_ok] at h
      obtain ⟨⟨v, c2⟩, hv, h⟩ := h
      dsimp only at h
      cases h
      simp only [Avp.code, Avp.vendor, Avp.value]
      split at hv
      · rename_i hg
        split at hv
        · cases hv
        · rw [Out.bind_eq_ok] at hv
          obtain ⟨⟨ms, c3⟩, _, hv⟩ := hv
          dsimp only at hv
          cases hv
          rw [hg]; rfl
      · cases hv
      · exact (decLeaf_ty hv).symm

end Dia
