import Dia.Hostile
import Dia.StreamAll
import Dia.NoPanic
/-! # C07 - Hostile frame lengths on a stream are refused cheaply and safely. Property theorems only. -/
namespace Dia

/-- **C07.** Whatever script the peer produces: the stream reader never reaches a panic site; once the 4-octet
prefix is read, an announced length above 1 MiB or below a Diameter header is refused having consumed exactly
those 4 octets, and in no case are more than max(announced, 4) octets taken; if the prefix itself cannot be read
the call fails having taken at most 4 octets. -/
theorem C07_hostile (cfg : Cfg) (dict : Lookup) (evs : List REv) :
    (Codec.decode cfg dict evs).out ≠ .panic ∧
    (∀ p evs1, readExact 4 evs = (.ok p, evs1) →
      (fromBe (p.drop 1) > 1048576 →
        (Codec.decode cfg dict evs).out = .err .tooLarge ∧ (Codec.decode cfg dict evs).consumed = 4) ∧
      (fromBe (p.drop 1) < 20 →
        (Codec.decode cfg dict evs).out = .err .tooShort ∧ (Codec.decode cfg dict evs).consumed = 4) ∧
      (Codec.decode cfg dict evs).consumed ≤ max (fromBe (p.drop 1)) 4) ∧
    (∀ o evs1, readExact 4 evs = (o, evs1) → (∀ p, o ≠ .ok p) →
      (∃ e, (Codec.decode cfg dict evs).out = .err e) ∧ (Codec.decode cfg dict evs).consumed ≤ 4) :=
  Codec.decode_hostile cfg dict evs

/-- the same in terms of the octets delivered: a well-behaved script that starts with a version octet and the
24-bit announcement `L`, followed by any amount of further data -/
theorem C07_announced (cfg : Cfg) (dict : Lookup) (evs : List REv) (b0 : UInt8) (L : Nat) (tail : Bytes)
    (hL : L < 16777216) (hne : noEmpty evs) (hflat : flat evs = b0 :: be24 L ++ tail) :
    (Codec.decode cfg dict evs).out ≠ .panic ∧
    (L > 1048576 → (Codec.decode cfg dict evs).out = .err .tooLarge ∧ (Codec.decode cfg dict evs).consumed = 4) ∧
    (L < 20 → (Codec.decode cfg dict evs).out = .err .tooShort ∧ (Codec.decode cfg dict evs).consumed = 4) ∧
    (Codec.decode cfg dict evs).consumed ≤ max L 4 := by
  obtain ⟨h1, h2, _⟩ := Codec.decode_hostile cfg dict evs
  obtain ⟨evs1, hr, _, _⟩ := readExact_flat 4 evs hne (by rw [hflat]; simp [be24])
  have hp : (flat evs).take 4 = b0 :: be24 L := by rw [hflat]; simp [be24]
  rw [hp] at hr
  have hfb : fromBe ((b0 :: be24 L).drop 1) = L := by simpa using fromBe_be24 L hL
  obtain ⟨g1, g2, g3⟩ := h2 _ _ hr
  rw [hfb] at g1 g2 g3
  exact ⟨h1, g1, g2, g3⟩

/-- the other side of the limit: an announcement from a bare header (20) up to and including exactly 1 MiB is *not*
refused on size grounds, and when the announced octets are there exactly `L` of them are taken - the limit is 1 MiB,
not "about" 1 MiB -/
theorem C07_within_limit (cfg : Cfg) (dict : Lookup) (evs : List REv) (b0 : UInt8) (L : Nat) (tail : Bytes)
    (hlo : 20 ≤ L) (hhi : L ≤ 1048576) (hne : noEmpty evs) (hflat : flat evs = b0 :: be24 L ++ tail)
    (hall : L ≤ (flat evs).length) :
    (Codec.decode cfg dict evs).consumed = L ∧
    (Codec.decode cfg dict evs).out ≠ .err .tooLarge ∧ (Codec.decode cfg dict evs).out ≠ .err .tooShort ∧
    (Codec.decode cfg dict evs).out ≠ .err .eof ∧ (Codec.decode cfg dict evs).out ≠ .err .io := by
  obtain ⟨evs1, hr, hf1, hne1⟩ := readExact_flat 4 evs hne (by rw [hflat]; simp [be24])
  have hp : (flat evs).take 4 = b0 :: be24 L := by rw [hflat]; simp [be24]
  rw [hp] at hr
  have hfb : fromBe ((b0 :: be24 L).drop 1) = L := by simpa using fromBe_be24 L (by omega)
  obtain ⟨evs2, hr2, hf2, _⟩ := readExact_flat (L - 4) evs1 hne1 (by rw [hf1]; simp; omega)
  unfold Codec.decode
  simp only [hr, hfb]
  rw [if_neg (by omega), if_neg (by omega), if_neg (by omega)]
  simp only [hr2]
  have hl : ((flat evs1).take (L - 4)).length = L - 4 := by rw [List.length_take, hf1]; simp; omega
  refine ⟨by simp only [hl]; omega, ?_, ?_, ?_, ?_⟩ <;> (split <;> simp)

/-- **later frames are guarded like the first.** Behind any number of well-framed frames on the same stream - accepted by the
message decoder or refused by it - an announcement above 1 MiB or below a Diameter header is refused by the very next call,
which takes exactly its 4 octets; the calls before it each took exactly their own frame. -/
theorem C07_after_frames (cfg : Cfg) (dict : Lookup) (frames : List Bytes) (evs : List REv) (b0 : UInt8) (L : Nat)
    (tail : Bytes) (hfr : ∀ f ∈ frames, Framed f) (hL : L < 16777216) (hbad : L > 1048576 ∨ L < 20)
    (hne : noEmpty evs) (hflat : flat evs = frames.flatten ++ (b0 :: be24 L ++ tail)) :
    decodeSeqAll cfg dict (frames.length + 1) evs =
      frames.map (fun f => (COut.ofDec (decMsg cfg dict f), f.length)) ++
        [(.err (if L > 1048576 then .tooLarge else .tooShort), 4)] := by
  obtain ⟨evs', h, hf', hne'⟩ := decodeSeqAll_prefix cfg dict frames evs (b0 :: be24 L ++ tail) 1 hfr
    (fun f _ => decMsg_ne_panic cfg dict f) hne hflat
  rw [h]
  congr 1
  obtain ⟨_, g1, g2, _⟩ := C07_announced cfg dict evs' b0 L tail hL hne' hf'
  simp only [decodeSeqAll]
  rcases hbad with hb | hb
  · obtain ⟨o, c⟩ := g1 hb
    simp [o, c, hb]
  · obtain ⟨o, c⟩ := g2 hb
    have : ¬ L > 1048576 := by omega
    simp [o, c, this]

/-! non-vacuity: the boundary values themselves -/
example : (20 : Nat) ≤ 1048576 ∧ (1048576 : Nat) ≤ 1048576 ∧ ¬ ((1048577 : Nat) ≤ 1048576) := by decide

end Dia
