import Dia.Props.C01
import Dia.RtTop
import Dia.MaskFix
import Dia.SpecTop
/-! # C02 - Encode then decode returns the same message. Property theorems only.
Equality is structural equality of `Msg`: header fields, AVP order, code, vendor id, flags, variant and value
(floats as bit patterns), stored lengths and paddings, recursively. -/
namespace Dia
open Spec

/-- a message the header can carry: command code and application id are ones the library knows (they are Rust enums;
the tables `T` are read off the code on every run, `T.Fit`: every command code fits 24 bits) -/
structure Msg.HeaderOk (T : Tables) (m : Msg) : Prop where
  cmd : T.cmdKnown m.cmd = true
  app : T.appKnown m.app = true

/-- the tables of the pinned commit fit (the run-time check `fitB` covers whatever tables are probed) -/
theorem defaultTables_fit : ({} : Tables).Fit := Tables.fit_of_fitB _ (by decide)

/-- **C02.** For every consistent, carriable message whose AVPs the dictionary types and whose groups nest no deeper
than the decoder's limit: encoding succeeds, and decoding the octets - for *every* leniency configuration of the
decoder - returns exactly the message. -/
theorem C02_roundtrip (cfg : Cfg) (hf : cfg.tables.Fit) (dict : Lookup) (m : Msg) (hg : m.Good)
    (hh : m.HeaderOk cfg.tables)
    (hty : TypedList dict m.avps) (h24 : m.length < 16777216) (hd : depthList m.avps ≤ cfg.limit) :
    m.enc.err = none ∧ decMsg cfg dict m.enc.bytes = .ok m := by
  have hs := encList_spec m.avps hg.wf hg.cons
  have he : (encList m.avps).err = none := by rw [hs]
  obtain ⟨l1, l2⟩ := encList_len m.avps hg.wf hg.cons he
  have hfix := encList_fix m.avps hg.wf hg.cons he
  have hE : encList m.avps = ⟨(encList m.avps).bytes, none⟩ := by
    cases hx : encList m.avps with
    | mk b e => rw [hx] at he; simp only at he; subst he; rfl
  have henc : m.enc = ⟨m.hdrBytes ++ (encList m.avps).bytes, none⟩ := by
    unfold Msg.enc
    rw [if_neg (by omega), hE]
    simp only [Enc.ok, Enc.andThen_ok, Msg.hdrBytes]
  rw [henc]
  refine ⟨rfl, ?_⟩
  simp only
  refine decMsg_rt cfg dict m (encList m.avps).bytes hg.cons hg.wf hty hg.len h24 hh.cmd hh.app
    (Tables.cmd_lt hf hh.cmd) (Tables.app_lt hf hh.app) hd (by rw [l1, l2]) ?_
  rw [hfix]
  exact hE

/-- ... in particular for every message a construction history inside C01's quantifier produces -/
theorem C02_history (cfg : Cfg) (hf : cfg.tables.Fit) (D : Dict) (ops : List Op) (hok : OpsOk cfg { dict := D } ops) :
    let m := (MState.run cfg { dict := D } ops).msg
    m.HeaderOk cfg.tables → TypedList D.lookup m.avps → m.length < 16777216 → depthList m.avps ≤ cfg.limit →
      m.enc.err = none ∧ decMsg cfg D.lookup m.enc.bytes = .ok m := by
  intro m hh hty h24 hd
  have hg := (C01_encode_exact cfg D ops hok h24).2.2
  exact C02_roundtrip cfg hf D.lookup m hg hh hty h24 hd

/-- in the operation machine: re-encoding and decoding a built message is the identity on it -/
theorem C02_reencode_fixpoint (cfg : Cfg) (hf : cfg.tables.Fit) (s : MState) (hg : s.msg.Good)
    (hh : s.msg.HeaderOk cfg.tables)
    (hty : TypedList s.dict.lookup s.msg.avps) (h24 : s.msg.length < 16777216)
    (hd : depthList s.msg.avps ≤ cfg.limit) :
    (s.step cfg .reencode).1.msg = s.msg ∧ (s.step cfg .reencode).2 = .ok := by
  obtain ⟨h1, h2⟩ := C02_roundtrip cfg hf s.dict.lookup s.msg hg hh hty h24 hd
  simp only [MState.step, h1, h2]
  exact ⟨trivial, trivial⟩

/-- **what is encoded is what an independent reader reads.** The octets produced for a consistent, typed message parse -
in the sense of the independent relation `Spec.Parses`, which does not mention the model - as exactly the content of
that message; by `C03_unique` as nothing else. Encoder and decoder therefore cannot share a consistent but wrong
convention: both are pinned to `Spec`. -/
theorem C02_encoding_parses (T : Tables) (dict : Lookup) (m : Msg) (hg : m.Good) (hh : m.HeaderOk T)
    (hty : TypedList dict m.avps)
    (h24 : m.length < 16777216) : m.enc = ⟨Spec.encode m.abs, none⟩ ∧ Parses T dict (Spec.encode m.abs) m.abs :=
  ⟨(Msg.enc_spec m hg.wf hg.cons hg.len h24).1, enc_parses T dict m hg hh.cmd hh.app hty h24⟩

/-! non-vacuity: a message with a vendor AVP and a group, under a dictionary that types them, meets every hypothesis -/
def exDict : Lookup := fun c v =>
  if c = 14 ∧ v = some 9 then .unsigned32 else if c = 9 ∧ v = none then .grouped else if c = 16 ∧ v = none then .utf8
  else .unknown
def exMsg : Msg :=
  (Msg.new 272 4 0x80 1 2).addAvp 14 (some 9) 0x40 (.unsigned32 5) |>.addAvp 9 none 0
    (.grouped [Avp.new 16 none 0 (.utf8 [0x61, 0x62, 0x63])])

example : exMsg.Good ∧ exMsg.HeaderOk {} ∧ TypedList exDict exMsg.avps ∧ exMsg.length < 16777216 ∧
    depthList exMsg.avps ≤ 32 := by
  refine ⟨⟨?_, ?_, ?_⟩, ⟨by decide, by decide⟩, ?_, by decide, by decide⟩
  · simp [exMsg, Msg.addAvp, Msg.add, Msg.new, Avp.new, WFList, Avp.WF, Value.WF, Value.leafWF, hdrLen, Value.len,
      lenList, Avp.padded, Avp.len, Avp.padding, pad, utf8Valid]
  · simp [exMsg, Msg.addAvp, Msg.add, Msg.new, Avp.new, ConsList, Avp.Cons, Value.Cons, hdrLen, Value.len,
      lenList, Avp.padded, Avp.len, Avp.padding, pad]
  · decide
  · simp [exMsg, exDict, Msg.addAvp, Msg.add, Msg.new, Avp.new, TypedList, Avp.Typed, Value.Typed, tyOf]

end Dia
