import Dia.Props.C02
import Dia.Strict
import Dia.SpecTop
import Dia.ConsNoLie
import Dia.Utf8Spec
/-! # C03 - Decoding is faithful: accepted frames mean what their bytes say. Property theorems only.
`Spec.encode` (Dia/Spec.lean) is the independent RFC 6733 reading; `applyMask _ (maskList _)` forgets exactly what
the property allows to be normalised: AVP padding octets (`zero`) and the five reserved AVP flag bits (`flags`). -/
namespace Dia
open Spec

/-- **C03, faithful half.** A frame whose size equals its declared length and that the decoder accepts - under any
leniency configuration - without a fixed-size length lie (`NoLieList`, finding F1; see `C03_strict_no_lie`) is, up to
padding octets and reserved flag bits, *the RFC 6733 encoding of the message returned*: the returned message is
consistent, re-encodes without error to a frame of the same length, and that frame is `Spec.encode` of its content. -/
theorem C03_faithful (cfg : Cfg) (dict : Lookup) (bs : Bytes) (m : Msg)
    (h : decMsg cfg dict bs = .ok m) (hlen : bs.length = m.length) (hnl : NoLieList m.avps) :
    m.Good ∧ m.enc = ⟨Spec.encode m.abs, none⟩ ∧ (Spec.encode m.abs).length = bs.length ∧
    ∃ hb body, bs = hb ++ body ∧ hb.length = 20 ∧ body.length = (maskList m.avps).length ∧
      Spec.encode m.abs = hb ++ applyMask body (maskList m.avps) := by
  obtain ⟨hb, body, e1, e2, e3, e4, hc, hw, hl⟩ := decMsg_faithful cfg dict bs m h hlen hnl
  have h24 : m.length < 16777216 := by
    -- a decoded message length is a 24-bit field
    unfold Msg.enc at e4
    split at e4
    · have := congrArg Enc.err e4; simp at this
    · omega
  have hs := Msg.enc_spec m hw hc hl h24
  refine ⟨⟨hw, hc, hl⟩, hs.1, by rw [hs.2, hlen], hb, body, e1, e2, e3, ?_⟩
  rw [hs.1] at e4
  exact (Enc.mk.inj e4).1

/-- **C03, accepting half.** Every frame that is, up to padding octets and reserved flag bits, the RFC encoding of a
consistent carriable message with known command code, application id and dictionary-typed AVPs nested no deeper
than the decoder's limit is accepted and decoded to exactly that message - whatever the padding octets and
reserved bits contain. -/
theorem C03_accepts (cfg : Cfg) (hf : cfg.tables.Fit) (dict : Lookup) (m : Msg) (body : Bytes) (hg : m.Good)
    (hh : m.HeaderOk cfg.tables)
    (hty : TypedList dict m.avps) (h24 : m.length < 16777216) (hd : depthList m.avps ≤ cfg.limit)
    (hbl : body.length = (maskList m.avps).length)
    (hbody : applyMask body (maskList m.avps) = encodeAvps (absList m.avps)) :
    decMsg cfg dict (m.hdrBytes ++ body) = .ok m := by
  refine decMsg_rt cfg dict m body hg.cons hg.wf hty hg.len h24 hh.cmd hh.app (Tables.cmd_lt hf hh.cmd)
    (Tables.app_lt hf hh.app) hd hbl ?_
  rw [hbody]
  exact encList_spec m.avps hg.wf hg.cons

/-- two frames that differ only in padding octets and reserved bits decode to the same message -/
theorem C03_noise_irrelevant (cfg : Cfg) (hf : cfg.tables.Fit) (dict : Lookup) (m : Msg) (body body' : Bytes)
    (hg : m.Good) (hh : m.HeaderOk cfg.tables) (hty : TypedList dict m.avps) (h24 : m.length < 16777216) (hd : depthList m.avps ≤ cfg.limit)
    (hbl : body.length = (maskList m.avps).length) (hbl' : body'.length = (maskList m.avps).length)
    (hbody : applyMask body (maskList m.avps) = encodeAvps (absList m.avps))
    (hbody' : applyMask body' (maskList m.avps) = encodeAvps (absList m.avps)) :
    decMsg cfg dict (m.hdrBytes ++ body) = decMsg cfg dict (m.hdrBytes ++ body') := by
  rw [C03_accepts cfg hf dict m body hg hh hty h24 hd hbl hbody,
    C03_accepts cfg hf dict m body' hg hh hty h24 hd hbl' hbody']

/-- a decoder that is lenient for no type (the configuration probed from the code when finding F1 is absent) never
returns a fixed-size value under a lying length: for it the hypothesis `NoLieList` of `C03_faithful` is vacuous -/
theorem C03_strict_no_lie (cfg : Cfg) (dict : Lookup) (hs : ∀ t d, cfg.lenient t d = false) (bs : Bytes) (m : Msg)
    (h : decMsg cfg dict bs = .ok m) : NoLieList m.avps :=
  decMsg_strict cfg dict hs bs m h

/-- **C03 at full strength for a strict decoder**: whenever it accepts a complete frame, the frame is the RFC encoding
of what is returned, up to padding octets and reserved flag bits -/
theorem C03_faithful_strict (cfg : Cfg) (dict : Lookup) (hs : ∀ t d, cfg.lenient t d = false) (bs : Bytes) (m : Msg)
    (h : decMsg cfg dict bs = .ok m) (hlen : bs.length = m.length) :
    m.Good ∧ m.enc = ⟨Spec.encode m.abs, none⟩ ∧ (Spec.encode m.abs).length = bs.length ∧
    ∃ hb body, bs = hb ++ body ∧ hb.length = 20 ∧ body.length = (maskList m.avps).length ∧
      Spec.encode m.abs = hb ++ applyMask body (maskList m.avps) :=
  C03_faithful cfg dict bs m h hlen (C03_strict_no_lie cfg dict hs bs m h)

/-- whatever is accepted, under any leniency, is typed by the dictionary at every nesting level (the value variant of
every AVP is the one its exact (code, vendor) entry declares), nests within the limit, and carries a known command
code and application id -/
theorem C03_typed (cfg : Cfg) (dict : Lookup) (bs : Bytes) (m : Msg) (h : decMsg cfg dict bs = .ok m) :
    TypedList dict m.avps ∧ depthList m.avps ≤ cfg.limit ∧ m.HeaderOk cfg.tables :=
  let ⟨t1, t2, t3, t4⟩ := decMsg_typed cfg dict bs m h
  ⟨t1, t2, ⟨t3, t4⟩⟩

/-! ### the same against the independent reading relation `Spec.Parses` (Dia/SpecParse.lean)

`Parses dict bs s` says, without mentioning the model: `s` is a message the library can represent (known command code
and application id, valid values, every AVP typed by the dictionary entry of its exact (code, vendor) pair), `bs` has
exactly the size of `Spec.encode s`, and equals it on every significant octet and bit (`Spec.SMsg.mask`). -/

/-- **soundness**: what the decoder accepts (frame of its declared size, no fixed-size length lie) is what an
independent RFC 6733 reader extracts from those octets -/
theorem C03_sound (cfg : Cfg) (dict : Lookup) (bs : Bytes) (m : Msg)
    (h : decMsg cfg dict bs = .ok m) (hlen : bs.length = m.length) (hnl : NoLieList m.avps) :
    Parses cfg.tables dict bs m.abs :=
  decMsg_parses cfg dict bs m h hlen hnl

/-- **completeness**: every well-formed frame whose command code, application id and AVPs are known to the library
and dictionary, nested within the limit, is accepted - whatever its padding octets and reserved bits contain - and the
message returned has exactly the content the reader extracts -/
theorem C03_complete (cfg : Cfg) (hf : cfg.tables.Fit) (dict : Lookup) (bs : Bytes) (s : SMsg)
    (hp : Parses cfg.tables dict bs s)
    (hd : depthAvps s.avps ≤ cfg.limit) : ∃ m, decMsg cfg dict bs = .ok m ∧ m.abs = s :=
  ⟨s.conc, decMsg_of_parses cfg dict bs s hf hp hd⟩

/-- **uniqueness**: the octets determine the message (so "the message an independent reader extracts" is well defined) -/
theorem C03_unique (T : Tables) (hf : T.Fit) (dict : Lookup) (bs : Bytes) (s s' : SMsg) (h : Parses T dict bs s)
    (h' : Parses T dict bs s') : s = s' :=
  parses_unique T hf dict bs s s' h h'

/-- the strict reader the check uses as its run-time oracle returns `s` exactly when the frame parses as `s` -/
theorem C03_read_correct (T : Tables) (hf : T.Fit) (dict : Lookup) (bs : Bytes) (s : SMsg) :
    Spec.read T dict bs = some s ↔ Parses T dict bs s :=
  read_correct T hf dict bs s

/-- rejection of inconsistent frames, as a consequence: a frame (of its declared size) that does not parse as anything -
lying length fields, wrong fixed-size values, unknown address families, malformed UTF-8, group boundaries that do not
add up - is not accepted by a strict decoder -/
theorem C03_rejects_unparsable (cfg : Cfg) (dict : Lookup) (hs : ∀ t d, cfg.lenient t d = false) (bs : Bytes)
    (hno : ∀ s, ¬ Parses cfg.tables dict bs s) (m : Msg) (hlen : bs.length = m.length) : decMsg cfg dict bs ≠ .ok m := by
  intro h
  exact hno m.abs (decMsg_parses cfg dict bs m h hlen (decMsg_strict cfg dict hs bs m h))

/-- **the decode-then-extend part of C01's quantifier is inhabited by every well-formed frame.** A frame that parses
(as any `s`, within the nesting limit) is a legitimate argument of the `decode` operation of a construction history
(`OpOk`), under every leniency: it is accepted, the message has the frame's size and contains no length lie - so
the history can go on extending it and C01/C02 keep applying. -/
theorem C03_parsed_frames_in_domain (cfg : Cfg) (hf : cfg.tables.Fit) (s0 : MState) (bs : Bytes) (s : SMsg)
    (hp : Parses cfg.tables s0.dict.lookup bs s) (hd : depthAvps s.avps ≤ cfg.limit) : OpOk cfg s0 (.decode bs) := by
  intro m hm
  obtain ⟨hdec, _⟩ := decMsg_of_parses cfg s0.dict.lookup bs s hf hp hd
  rw [hdec] at hm
  have hm' : s.conc = m := by injection hm
  subst hm'
  obtain ⟨g1, g2, g3⟩ := concAvps_good s.avps hp.valid
  refine ⟨?_, consList_nolie _ g2⟩
  have hbody : (encodeAvps s.avps).length = lenList (concAvps s.avps) := by
    have := encodeAvps_length (concAvps s.avps) g1 g2
    rwa [g3] at this
  have hlen : (Spec.encode s).length = 20 + (encodeAvps s.avps).length := by
    simp [Spec.encode, u24be, u32be]; omega
  rw [hp.size, hlen, hbody]; rfl

/-- **what "well-formed UTF-8 text" means, independently.** The predicate the model uses for `String::from_utf8`
(`utf8Valid`: the byte-range table, Unicode Table 3-7) accepts an octet string exactly when it is a concatenation of
RFC 3629 encodings of Unicode scalar values (code points below 0x110000 that are not surrogates): overlong forms,
surrogates, values beyond U+10FFFF, stray continuation octets and truncated sequences are all refused, and nothing else
is. This is the meaning of `Valid` for UTF8String, DiameterIdentity and E.164 values in `Spec.Parses`. -/
theorem C03_utf8_is_rfc3629 (bs : Bytes) :
    utf8Valid bs = true ↔ ∃ cs : List Nat, (∀ c ∈ cs, isScalar c) ∧ bs = cs.flatMap encScalar :=
  utf8Valid_iff bs

/-! ### finding F1: the full statement fails for the lenient configuration the code has today -/

def lenientAll : Cfg := ⟨fun _ _ => true, 32, {}⟩
/-- the dictionary of the witness: AVP 415 (CC-Request-Number) is an Unsigned32 -/
def dict415 : Lookup := fun c v => if c = 415 ∧ v = none then .unsigned32 else .unknown
/-- 36 octets: a CCR whose only AVP, an Unsigned32, declares 16 octets instead of 12 -/
def witnessF1 : Bytes :=
  [0x01,0x00,0x00,0x24, 0x80,0x00,0x01,0x10, 0,0,0,4, 0,0,0,1, 0,0,0,2,
   0,0,0x01,0x9f, 0x40,0,0,0x10, 0,0,0,7, 1,2,3,4]

def decSummary (o : Out Msg) : Option (Nat × Nat × Nat) :=
  match o with
  | .ok m => some (m.length, m.enc.bytes.length, m.avps.length)
  | _ => none

/-- the lenient decoder accepts the witness, reports 36 octets about it, and re-encodes it to 32: the last four octets
are silently dropped (replayed on the real code by the C03 check: known finding F1) -/
theorem C03_lenient_witness :
    witnessF1.length = 36 ∧ decSummary (decMsg lenientAll dict415 witnessF1) = some (36, 32, 1) := by
  decide

/-- while the strict reader refuses it -/
theorem C03_strict_refuses_witness :
    decSummary (decMsg ⟨fun _ _ => false, 32, {}⟩ dict415 witnessF1) = none := by
  decide

end Dia
