import Dia.Tls
/-! # C13 - TLS settings are honoured exactly. Property theorems only.
The quantifier is a finite table (times the port digits of the address); the theorem is about the decision glue of the
repository - which parameters reach the TLS library - with the library's behaviour as a stated parameter. -/
namespace Dia.Tls

theorem splitLastColon_port (pre port : List Char) (hp : ∀ ch ∈ port, ch ≠ ':') :
    splitLastColon (pre ++ ':' :: port) = some (pre, port) := by
  unfold splitLastColon
  have hr : (pre ++ ':' :: port).reverse = port.reverse ++ ':' :: pre.reverse := by simp
  have hall : ∀ a ∈ port.reverse, (decide (a ≠ ':')) = true := by
    intro a ha; simpa using hp a (List.mem_reverse.mp ha)
  simp only [hr]
  rw [List.dropWhile_append_of_pos hall, List.takeWhile_append_of_pos hall]
  simp [List.dropWhile, List.takeWhile]

/-- the host part is found whatever the port digits are: `host:port`, `a.b.c.d:port`, `[v6]:port` -/
theorem hostOf_address (k : AddrKind) (port : List Char) (hp : ∀ ch ∈ port, ch ≠ ':' ∧ ch ≠ ']') :
    hostOf (addressOf k port) = match k with | .host => nLocalhost | .ip => nIp4 | .ip6 => nIp6 := by
  have hnc : ∀ ch ∈ port, ch ≠ ':' := fun ch h => (hp ch h).1
  have hnb : port.contains ']' = false := by
    cases hc : port.contains ']' with
    | false => rfl
    | true =>
      rw [List.contains_iff_mem] at hc
      exact absurd rfl (hp ']' hc).2
  cases k
  · unfold addressOf hostOf
    rw [splitLastColon_port nLocalhost port hnc]
    simp only [hnb, Bool.false_eq_true, if_false]
    decide
  · unfold addressOf hostOf
    rw [splitLastColon_port nIp4 port hnc]
    simp only [hnb, Bool.false_eq_true, if_false]
    decide
  · unfold addressOf hostOf
    rw [splitLastColon_port nIp6Bracketed port hnc]
    simp only [hnb, Bool.false_eq_true, if_false]
    decide

/-- **C13.** For every cell of the table and every port: the outcome produced by the glue (`use_tls` decides whether a
session is attempted at all; `verify_cert` is passed as `!accept_invalid`; the domain handed to the library is the
host part of the address) equals the table the property states. -/
theorem C13_table (c : Cell) (port : List Char) (hp : ∀ ch ∈ port, ch ≠ ':' ∧ ch ≠ ']') :
    outcome c port = expected c := by
  have hd := hostOf_address c.addr port hp
  obtain ⟨ct, vf, st, cert, addr⟩ := c
  simp only at hd
  cases ct <;> cases vf <;> cases st <;> cases cert <;> cases addr <;>
    simp [outcome, expected, clientParams, tlsLibAccepts, hd, trusted, sans] <;> decide

/-- with TLS enabled the client puts no Diameter octet on the socket in clear text, and proceeds only inside a session -/
theorem C13_no_cleartext (c : Cell) (port : List Char) (h : c.clientTls = true) :
    clearText c = false ∧ outcome c port ≠ .plain := by
  refine ⟨by simp [clearText, h], ?_⟩
  unfold outcome
  simp only [clientParams, h]
  split
  · simp_all
  · simp
  · simp
  · split <;> simp

/-- a server configured with a TLS identity never processes or answers a plain-text request -/
theorem C13_server_tls_never_plain (c : Cell) (port : List Char) (h : c.serverTls = true) (hc : c.clientTls = false) :
    outcome c port = .refused := by
  obtain ⟨ct, vf, st, cert, addr⟩ := c
  simp only at h hc
  subst h hc
  simp [outcome, clientParams]

/-- the defect D11 in the model's terms: had the whole `host:port` been handed to the library as the domain, a
trusted matching certificate would be refused under verification (`"localhost:3868"` is no SAN of it) -/
theorem C13_domain_matters :
    tlsLibAccepts ⟨true, false, nLocalhost ++ [':', '3', '8', '6', '8']⟩ .good = false ∧
    tlsLibAccepts ⟨true, false, hostOf (nLocalhost ++ [':', '3', '8', '6', '8'])⟩ .good = true := by
  decide

end Dia.Tls
