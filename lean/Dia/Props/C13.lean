import Dia.Tls
/-! # C13 - TLS settings are honoured exactly. Property theorems only.
The quantifier is a finite table (times the port digits of the address); the theorem is about the decision glue of the
repository - which parameters reach the TLS library - with the library's behaviour as a stated parameter. -/
namespace Dia.Tls

theorem splitLastColon_port (pre port : List Char) (hp : ∀ ch ∈ port, ch ≠ ':') :
    splitLastColon (pre ++ ':' :: port) = some (pre, port) := by
  unfold splitLastColon
  have hr : (pre ++ ':' :: port).reverse = port.reverse ++ ':' :: pre.reverse := by simp
  have hall : ∀ a ∈ port.reverse, (decide (a ≠ ':')) = true := by
    intro a ha; simpa using hp a (List.mem_reverse.mp ha)
  simp only [hr]
  rw [List.dropWhile_append_of_pos hall, List.takeWhile_append_of_pos hall]
  simp [List.dropWhile, List.takeWhile]

/-- the host part is found whatever the port digits are: `host:port`, `a.b.c.d:port`, `[v6]:port` -/
theorem hostOf_address (k : AddrKind) (port : List Char) (hp : ∀ ch ∈ port, ch ≠ ':' ∧ ch ≠ ']') :
    hostOf (addressOf k port) = match k with | .host => nLocalhost | .ip => nIp4 | .ip6 => nIp6 := by
  have hnc : ∀ ch ∈ port, ch ≠ ':' := fun ch h => (hp ch h).1
  have hnb : port.contains ']' = false := by
    cases hc : port.contains ']' with
    | false => rfl
    | true =>
      rw [List.contains_iff_mem] at hc
      exact absurd rfl (hp ']' hc).2
  cases k
  · unfold addressOf hostOf
    rw [splitLastColon_port nLocalhost port hnc]
    simp only [hnb, Bool.false_eq_true, if_false]
    decide
  · unfold addressOf hostOf
    rw [splitLastColon_port nIp4 port hnc]
    simp only [hnb, Bool.false_eq_true, if_false]
    decide
  · unfold addressOf hostOf
    rw [splitLastColon_port nIp6Bracketed port hnc]
    simp only [hnb, Bool.false_eq_true, if_false]
    decide

/-- **C13.** For every cell of the table and every port: the outcome produced by the glue (`use_tls` decides whether a
session is attempted at all; `verify_cert` is passed as `!accept_invalid`; the domain handed to the library is the
host part of the address) equals the table the property states. -/
theorem C13_table (c : Cell) (port : List Char) (hp : ∀ ch ∈ port, ch ≠ ':' ∧ ch ≠ ']') :
    outcome c port = expected c := by
  have hd := hostOf_address c.addr port hp
  obtain ⟨ct, vf, st, cert, addr⟩ := c
  simp only at hd
  cases ct <;> cases vf <;> cases st <;> cases cert <;> cases addr <;>
    simp [outcome, expected, clientParams, tlsLibAccepts, hd, trusted, sans] <;> decide

/-- with TLS enabled the client puts no Diameter octet on the socket in clear text, and proceeds only inside a session -/
theorem C13_no_cleartext (c : Cell) (port : List Char) (h : c.clientTls = true) :
    clearText c = false ∧ outcome c port ≠ .plain := by
  refine ⟨by simp [clearText, h], ?_⟩
  unfold outcome
  simp only [clientParams, h]
  split
  · simp_all
  · simp
  · simp
  · split <;> simp

/-- a server configured with a TLS identity never processes or answers a plain-text request -/
theorem C13_server_tls_never_plain (c : Cell) (port : List Char) (h : c.serverTls = true) (hc : c.clientTls = false) :
    outcome c port = .refused := by
  obtain ⟨ct, vf, st, cert, addr⟩ := c
  simp only at h hc
  subst h hc
  simp [outcome, clientParams]

/-- the defect D11 in the model's terms: had the whole `host:port` been handed to the library as the domain, a
trusted matching certificate would be refused under verification (`"localhost:3868"` is no SAN of it) -/
theorem C13_domain_matters :
    tlsLibAccepts ⟨true, false, nLocalhost ++ [':', '3', '8', '6', '8']⟩ .good = false ∧
    tlsLibAccepts ⟨true, false, hostOf (nLocalhost ++ [':', '3', '8', '6', '8'])⟩ .good = true := by
  decide

/-! ### any host name, any IPv6 literal, any certificate -/

theorem dropWhile_none (l : List Char) (c : Char) (h : ∀ ch ∈ l, ch ≠ c) : l.dropWhile (· = c) = l := by
  cases l with
  | nil => rfl
  | cons a t => simp [List.dropWhile, h a (by simp)]

theorem contains_false (l : List Char) (c : Char) (h : ∀ ch ∈ l, ch ≠ c) : l.contains c = false := by
  cases hc : l.contains c with
  | false => rfl
  | true => rw [List.contains_iff_mem] at hc; exact absurd rfl (h c hc)

/-- `host:port` for any bracket-free host text (a name, a dotted quad, even a bare IPv6 literal): the domain handed to the
TLS library is exactly the host -/
theorem hostOf_host_port (h port : List Char) (hh : ∀ ch ∈ h, ch ≠ '[' ∧ ch ≠ ']')
    (hp : ∀ ch ∈ port, ch ≠ ':' ∧ ch ≠ ']') : hostOf (h ++ ':' :: port) = h := by
  unfold hostOf
  rw [splitLastColon_port h port (fun ch m => (hp ch m).1)]
  simp only [contains_false port ']' (fun ch m => (hp ch m).2), Bool.false_eq_true, if_false]
  rw [dropWhile_none h '[' (fun ch m => (hh ch m).1),
    dropWhile_none h.reverse ']' (fun ch m => (hh ch (List.mem_reverse.mp m)).2), List.reverse_reverse]

/-- `[v6]:port` for any bracket-free literal: the domain is the literal without its brackets -/
theorem hostOf_bracketed_port (x port : List Char) (hx : ∀ ch ∈ x, ch ≠ '[' ∧ ch ≠ ']')
    (hp : ∀ ch ∈ port, ch ≠ ':' ∧ ch ≠ ']') : hostOf ('[' :: x ++ ']' :: ':' :: port) = x := by
  unfold hostOf
  have e : '[' :: x ++ ']' :: ':' :: port = ('[' :: x ++ [']']) ++ ':' :: port := by simp
  rw [e, splitLastColon_port _ port (fun ch m => (hp ch m).1)]
  simp only [contains_false port ']' (fun ch m => (hp ch m).2), Bool.false_eq_true, if_false]
  have d1 : ('[' :: x ++ [']']).dropWhile (· = '[') = x ++ [']'] := by
    cases x with
    | nil => decide
    | cons a t => simp [List.dropWhile, (hx a (by simp)).1]
  rw [d1]
  have d2 : (x ++ [']']).reverse = ']' :: x.reverse := by simp
  rw [d2]
  have d3 : (']' :: x.reverse).dropWhile (· = ']') = x.reverse := by
    simp only [List.dropWhile, decide_true]
    exact dropWhile_none x.reverse ']' (fun ch m => (hx ch (List.mem_reverse.mp m)).2)
  rw [d3, List.reverse_reverse]

/-- **C13 for every host and every certificate.** With TLS on both sides and an address `host:port`: a session is established
iff verification is off, or the certificate's chain is trusted *and* it names exactly the host the client was asked to connect
to - whatever the host text, the port and the certificate are. -/
theorem C13_any_host (verify : Bool) (h port : List Char) (cert : GCert) (hh : ∀ ch ∈ h, ch ≠ '[' ∧ ch ≠ ']')
    (hp : ∀ ch ∈ port, ch ≠ ':' ∧ ch ≠ ']') :
    gOutcome true verify true (h ++ ':' :: port) cert =
      (if !verify || (cert.trusted && cert.names.contains h) then .session else .refused) := by
  simp only [gOutcome, gLibAccepts, hostOf_host_port h port hh hp]

theorem C13_any_literal (verify : Bool) (x port : List Char) (cert : GCert) (hx : ∀ ch ∈ x, ch ≠ '[' ∧ ch ≠ ']')
    (hp : ∀ ch ∈ port, ch ≠ ':' ∧ ch ≠ ']') :
    gOutcome true verify true ('[' :: x ++ ']' :: ':' :: port) cert =
      (if !verify || (cert.trusted && cert.names.contains x) then .session else .refused) := by
  simp only [gOutcome, gLibAccepts, hostOf_bracketed_port x port hx hp]

/-- whatever the address and the certificate: a TLS client never ends in plain text, a plain client never gets a session, and a
TLS server never serves a plain client -/
theorem C13_any_modes (useTls verify serverTls : Bool) (address : List Char) (cert : GCert) :
    (useTls = true → gOutcome useTls verify serverTls address cert ≠ .plain) ∧
    (useTls = false → gOutcome useTls verify serverTls address cert ≠ .session) ∧
    (serverTls = true → useTls = false → gOutcome useTls verify serverTls address cert = .refused) := by
  cases useTls <;> cases serverTls <;> simp [gOutcome] <;> split <;> simp

/-- the table is the instance of the general glue at the scenario's addresses and certificates -/
theorem C13_table_is_instance (c : Cell) (port : List Char) :
    outcome c port = gOutcome c.clientTls c.verify c.serverTls (addressOf c.addr port) ⟨trusted c.cert, sans c.cert⟩ := by
  obtain ⟨ct, vf, st, cert, addr⟩ := c
  cases ct <;> cases st <;> simp [outcome, gOutcome, clientParams, tlsLibAccepts, gLibAccepts]

example : gOutcome true true true ("db.example.net:3868".toList) ⟨true, ["db.example.net".toList]⟩ = .session ∧
    gOutcome true true true ("db.example.net:3868".toList) ⟨true, ["other.example.net".toList]⟩ = .refused ∧
    gOutcome true true true ("[2001:db8::7]:3868".toList) ⟨true, ["2001:db8::7".toList]⟩ = .session := by decide

end Dia.Tls
