import Dia.Exec
import Dia.HistoryThm
import Dia.StreamSeq
/-! # C05 - Encoding never reports success for a frame it did not fully produce. Property theorems only.
`Msg.enc` is the stream of octets the encoder hands to the writer and the first internal error (where the encoder
stops); `encTo m k` runs it against a writer that accepts exactly `k` octets in total and then fails. -/
namespace Dia
open Spec

/-- **C05, faults.** Success against a writer that dies after `k` octets means: no internal error, every octet of
the stream was accepted, and the writer had room for all of them. For every message and every `k`. -/
theorem C05_fault (m : Msg) (k : Nat) (h : (encTo m k).1 = true) :
    (encTo m k).2 = m.enc.bytes ∧ m.enc.err = none ∧ m.enc.bytes.length ≤ k := by
  unfold encTo at h ⊢
  simp only at h ⊢
  split at h
  · rename_i hk
    rw [if_pos hk]
    exact ⟨rfl, by simpa using h, hk⟩
  · simp at h

/-- conversely a writer with room for everything does not disturb a successful encoding -/
theorem C05_transparent (m : Msg) (k : Nat) (hk : m.enc.bytes.length ≤ k) :
    encTo m k = (m.enc.err.isNone, m.enc.bytes) := by
  unfold encTo; simp [hk]

/- what an error-free encoding implies about the tree: every Time lies within the 32-bit 1900-based range and every
AVP length fits 24 bits, at every nesting level -/
mutual
theorem Value.enc_ok_rep : ∀ v : Value, v.enc.err = none → v.repB = true
  | .grouped ms, h => by
    simp only [Value.enc] at h
    simp only [Value.repB]
    exact encList_ok_rep ms h
  | .time secs n, h => by
    simp only [Value.enc] at h
    simp only [Value.repB, Bool.and_eq_true, decide_eq_true_eq]
    have hR : RFC868 = 2208988800 := rfl
    split at h
    · simp at h
    · split at h
      · simp at h
      · omega
  | .address _, _ => rfl | .ipv4 _, _ => rfl | .ipv6 _, _ => rfl | .identity _, _ => rfl | .uri _, _ => rfl
  | .enumerated _, _ => rfl | .float32 _, _ => rfl | .float64 _, _ => rfl | .integer32 _, _ => rfl
  | .integer64 _, _ => rfl | .octets _, _ => rfl | .unsigned32 _, _ => rfl | .unsigned64 _, _ => rfl
  | .utf8 _, _ => rfl
theorem Avp.enc_ok_rep : ∀ a : Avp, a.enc.err = none → a.repB = true
  | .mk code vendor m p len padding v, h => by
    simp only [Avp.enc] at h
    obtain ⟨h1, h2, _⟩ := Enc.andThen_err_none h
    obtain ⟨h3, _, _⟩ := Enc.andThen_err_none h2
    simp only [Avp.repB, Bool.and_eq_true, decide_eq_true_eq]
    refine ⟨?_, Value.enc_ok_rep v h3⟩
    unfold encHdr at h1
    split at h1
    · simp at h1
    · omega
theorem encList_ok_rep : ∀ ms : List Avp, (encList ms).err = none → repListB ms = true
  | [], _ => rfl
  | a :: as, h => by
    simp only [encList] at h
    obtain ⟨h1, h2, _⟩ := Enc.andThen_err_none h
    simp only [repListB, Bool.and_eq_true]
    exact ⟨Avp.enc_ok_rep a h1, encList_ok_rep as h2⟩
end

/-- **C05, range.** If anything in the message cannot be represented on the wire - a Time before 1900 or after
2036-02-07T06:28:15Z, an AVP or the message of 2^24 octets or more, at any nesting level - encoding reports an error -/
theorem C05_range (m : Msg) (h : m.repB = false) : m.enc.err ≠ none := by
  intro he
  have : m.repB = true := by
    unfold Msg.enc at he
    simp only [Msg.repB, Bool.and_eq_true, decide_eq_true_eq]
    split at he
    · simp at he
    · obtain ⟨_, h2, _⟩ := Enc.andThen_err_none he
      exact ⟨by omega, encList_ok_rep m.avps h2⟩
  rw [this] at h
  cases h

/-- **an AVP on its own** (`Avp::encode_to`, which an application may call directly): success is never reported for an AVP the
wire cannot carry - a Time outside the range, a length of 2^24 or more, at any nesting level below it -/
theorem C05_avp_range (a : Avp) (h : a.repB = false) : a.enc.err ≠ none := by
  intro he
  have := Avp.enc_ok_rep a he
  rw [this] at h
  cases h

/-- ... and an AVP whose own length does not fit the 24-bit field is refused before a single octet is produced -/
theorem C05_avp_too_long (code : UInt32) (vendor : Option UInt32) (m p : Bool) (len padding : Nat) (v : Value)
    (h : len > 0xFFFFFF) : (Avp.mk code vendor m p len padding v).enc = ⟨[], some .tooLong⟩ := by
  simp [Avp.enc, encHdr, h, Enc.andThen]

/-- **C05, completeness of a success.** For a message whose bookkeeping is consistent (every built or faithfully
decoded message, C01_run), an encoding that reports success against a writer that dies after `k` octets has handed
over exactly the complete RFC 6733 frame of its content, whose length field equals the number of octets. -/
theorem C05_ok_is_complete (m : Msg) (k : Nat) (hg : m.Good) (h : (encTo m k).1 = true) :
    (encTo m k).2 = Spec.encode m.abs ∧ (Spec.encode m.abs).length = m.length ∧ m.length ≤ k := by
  obtain ⟨h1, h2, h3⟩ := C05_fault m k h
  have h24 : m.length < 16777216 := by
    unfold Msg.enc at h2
    split at h2
    · simp at h2
    · omega
  have hs := Msg.enc_spec m hg.wf hg.cons hg.len h24
  rw [h1, hs.1]
  refine ⟨rfl, hs.2, ?_⟩
  rw [hs.1] at h3
  simp only at h3
  omega

/-- **the stream codec**: `Codec::encode` encodes into a buffer first, so for a message that cannot be represented
nothing at all reaches the stream - not a truncated, wrapped or length-inconsistent frame - and the call fails -/
theorem C05_codec_nothing_written (m : Msg) (w : List WEv) (h : m.repB = false) : Codec.encodeTo m w = (false, []) := by
  have he := C05_range m h
  unfold Codec.encodeTo
  cases hx : m.enc.err with
  | none => exact absurd hx he
  | some e => rfl

/-! non-vacuity: a Time in 2040 inside a group makes the encoder fail; the same message with the Time in range
succeeds when the writer has room -/
example : (Msg.new 272 4 0 1 2 |>.addAvp 9 none 0 (.grouped [Avp.new 13 none 0 (.time 2208988800 0)])).repB = false := by
  decide
example : (Msg.new 272 4 0 1 2 |>.addAvp 9 none 0 (.grouped [Avp.new 13 none 0 (.time 0 0)])).repB = true := by
  decide

end Dia
