import Dia.ClientThm
/-! # C12 - Every response future eventually completes. Property theorems only.
Liveness is stated as safety over terminal states: the reader's stop step is the only step that matters, and it
resolves everything at once; a future can stay pending only while the reader runs and its waiter is still
registered (an open, silent peer) or a delivery is under way. -/
namespace Dia.Cl

/-- **C12.** Once the reader has stopped - whatever stopped it: close, reset, an undecodable or an unmatched message -
the connection is marked closed and every future ever created, handed out or not, is resolved (answer or error). -/
theorem C12_stopped (ls : List Label) (s : St) (h : run init ls = some s) (hs : s.reader = .stopped) :
    s.closed = true ∧ ∀ w, w < s.nW → s.status w ≠ .pending := by
  have hi := inv_run ls inv_init h
  refine ⟨(hi.stopped_ok hs).1, fun w hw hp => ?_⟩
  rcases hi.pending_ok w hw hp with hc | ⟨m, hm⟩
  · rw [(hi.stopped_ok hs).2] at hc; cases hc
  · rw [hs] at hm; cases hm


/-- a send attempted after the reader has stopped is refused under the lock: no waiter is created, nothing can hang -/
theorem C12_send_after_stop (ls : List Label) (s : St) (h : run init ls = some s) (hs : s.reader = .stopped)
    (hidle : s.send = .idle) (hb : Nat) : step s (.sendBegin hb) = some s := by
  have hc := ((inv_run ls inv_init h).stopped_ok hs).1
  simp [step, hidle, hc]

/-- a waiter superseded by a newer request with the same identifier is dropped (its future fails) at that very step -/
theorem C12_superseded (s s' : St) (hb w : Nat) (hc : s.cache hb = some w) (hcl : s.closed = false)
    (hidle : s.send = .idle) (hw : w < s.nW) (h : step s (.sendBegin hb) = some s') : s'.status w = .dropped := by
  simp only [step, hidle, hcl, hc] at h
  simp at h
  subst h
  simp only [upd]
  have : w ≠ s.nW := by omega
  simp [this]

/-- the only way to stay pending: the reader has not stopped and the waiter is still registered under its id (an
open, silent peer) or the reader is about to deliver to it -/
theorem C12_pending_means_waiting (ls : List Label) (s : St) (h : run init ls = some s) (w : Nat)
    (hw : w < s.nW) (hp : s.status w = .pending) :
    s.reader ≠ .stopped ∧ (s.cache (s.hbhOf w) = some w ∨ ∃ m, s.reader = .removed m w) := by
  have hi := inv_run ls inv_init h
  refine ⟨fun hs => ?_, hi.pending_ok w hw hp⟩
  exact (C12_stopped ls s h hs).2 w hw hp

/-- **the reader cannot get stuck on the way to stopping.** Whatever state the sender and the other waiters are in:
an undecodable item, a close or a reset at the head of the wire takes the running reader to `stopping`; a decoded
message nobody waits for does the same; and from `stopping` the stop step is always enabled and leads to `stopped` -
so every way the connection can go wrong ends in the state `C12_stopped` speaks about. -/
theorem C12_stop_path (s : St) :
    (s.reader = .running → ∀ rest, s.wire = .bad :: rest →
      ∃ s', step s .readerDecode = some s' ∧ s'.reader = .stopping) ∧
    (∀ m, s.reader = .decoded m → s.cache m.hbh = none →
      ∃ s', step s .readerRemove = some s' ∧ s'.reader = .stopping) ∧
    (s.reader = .stopping → ∃ s', step s .readerStop = some s' ∧ s'.reader = .stopped) := by
  refine ⟨?_, ?_, ?_⟩
  · intro hr rest hw
    refine ⟨{ s with wire := rest, reader := .stopping }, ?_, rfl⟩
    simp [step, hr, hw]
  · intro m hr hc
    refine ⟨{ s with reader := .stopping }, ?_, rfl⟩
    simp [step, hr, hc]
  · intro hr
    simp [step, hr]

/-- non-vacuity: a run that registers, writes, gets answered, and stops -/
example : ∃ s, run init [.sendBegin 7, .write, .peerEmit (.msg ⟨7, 0⟩), .readerDecode, .readerRemove,
    .sendReturn, .readerDeliver, .peerEmit .bad, .readerDecode, .readerStop] = some s ∧
    s.status 0 = .got ⟨7, 0⟩ ∧ s.reader = .stopped := by
  refine ⟨_, rfl, ?_, ?_⟩ <;> decide

end Dia.Cl
