import Dia.ClientThm
import Dia.ClientMultiThm
/-! # C12 - Every response future eventually completes. Property theorems only.
Liveness is stated as safety over terminal states: the reader's stop step is the only step that matters, and it
resolves everything at once; a future can stay pending only while the reader runs and its waiter is still
registered (an open, silent peer) or a delivery is under way. -/
namespace Dia.Cl

/-- **C12.** Once the reader has stopped - whatever stopped it: close, reset, an undecodable or an unmatched message -
the connection is marked closed and every future ever created, handed out or not, is resolved (answer or error). -/
theorem C12_stopped (ls : List Label) (s : St) (h : run init ls = some s) (hs : s.reader = .stopped) :
    s.closed = true ∧ ∀ w, w < s.nW → s.status w ≠ .pending := by
  have hi := inv_run ls inv_init h
  refine ⟨(hi.stopped_ok hs).1, fun w hw hp => ?_⟩
  rcases hi.pending_ok w hw hp with hc | ⟨m, hm⟩
  · rw [(hi.stopped_ok hs).2] at hc; cases hc
  · rw [hs] at hm; cases hm


/-- a send attempted after the reader has stopped is refused under the lock: no waiter is created, nothing can hang -/
theorem C12_send_after_stop (ls : List Label) (s : St) (h : run init ls = some s) (hs : s.reader = .stopped)
    (hidle : s.send = .idle) (hb : Nat) : step s (.sendBegin hb) = some s := by
  have hc := ((inv_run ls inv_init h).stopped_ok hs).1
  simp [step, hidle, hc]

/-- a waiter superseded by a newer request with the same identifier is dropped (its future fails) at that very step -/
theorem C12_superseded (s s' : St) (hb w : Nat) (hc : s.cache hb = some w) (hcl : s.closed = false)
    (hidle : s.send = .idle) (hw : w < s.nW) (h : step s (.sendBegin hb) = some s') : s'.status w = .dropped := by
  simp only [step, hidle, hcl, hc] at h
  simp at h
  subst h
  simp only [upd]
  have : w ≠ s.nW := by omega
  simp [this]

/-- the only way to stay pending: the reader has not stopped and the waiter is still registered under its id (an
open, silent peer) or the reader is about to deliver to it -/
theorem C12_pending_means_waiting (ls : List Label) (s : St) (h : run init ls = some s) (w : Nat)
    (hw : w < s.nW) (hp : s.status w = .pending) :
    s.reader ≠ .stopped ∧ (s.cache (s.hbhOf w) = some w ∨ ∃ m, s.reader = .removed m w) := by
  have hi := inv_run ls inv_init h
  refine ⟨fun hs => ?_, hi.pending_ok w hw hp⟩
  exact (C12_stopped ls s h hs).2 w hw hp

/-- **the reader cannot get stuck on the way to stopping.** Whatever state the sender and the other waiters are in:
an undecodable item, a close or a reset at the head of the wire takes the running reader to `stopping`; a decoded
message nobody waits for does the same; and from `stopping` the stop step is always enabled and leads to `stopped` -
so every way the connection can go wrong ends in the state `C12_stopped` speaks about. -/
theorem C12_stop_path (s : St) :
    (s.reader = .running → ∀ rest, s.wire = .bad :: rest →
      ∃ s', step s .readerDecode = some s' ∧ s'.reader = .stopping) ∧
    (∀ m, s.reader = .decoded m → s.cache m.hbh = none →
      ∃ s', step s .readerRemove = some s' ∧ s'.reader = .stopping) ∧
    (s.reader = .stopping → ∃ s', step s .readerStop = some s' ∧ s'.reader = .stopped) := by
  refine ⟨?_, ?_, ?_⟩
  · intro hr rest hw
    refine ⟨{ s with wire := rest, reader := .stopping }, ?_, rfl⟩
    simp [step, hr, hw]
  · intro m hr hc
    refine ⟨{ s with reader := .stopping }, ?_, rfl⟩
    simp [step, hr, hc]
  · intro hr
    simp [step, hr]

/-- non-vacuity: a run that registers, writes, gets answered, and stops -/
example : ∃ s, run init [.sendBegin 7, .write, .peerEmit (.msg ⟨7, 0⟩), .readerDecode, .readerRemove,
    .sendReturn, .readerDeliver, .peerEmit .bad, .readerDecode, .readerStop] = some s ∧
    s.status 0 = .got ⟨7, 0⟩ ∧ s.reader = .stopped := by
  refine ⟨_, rfl, ?_, ?_⟩ <;> decide

end Dia.Cl

/-! ## One client object, several connections (`connect()` called again)
`Dia/ClientMulti.lean`: all connections of a `DiameterClient` share one table and one `closed` flag. -/
namespace Dia.Cm
open Dia.Cl (Msg WStatus Item Reader SendPhase upd)

/-- **C12 for a client with any number of connections.** Once the reader of *any* connection has stopped, the shared
table is closed and empty, and a future can be unresolved only because the reader of another connection has already
taken its waiter out of the table and is about to hand it the answer - whichever connection the request was written
to, and whichever connection's reader stopped. -/
theorem C12_multi_stopped (ls : List Label) (s : St) (h : run init ls = some s) (c : Nat)
    (hs : s.reader c = .stopped) :
    s.closed = true ∧ (∀ hb, s.cache hb = none) ∧
    ∀ w, w < s.nW → s.status w = .pending → ∃ c' m, c' ≠ c ∧ s.reader c' = .removed m w := by
  have hi := inv_run ls inv_init h
  have hc := hi.stopped_ok c hs
  refine ⟨hc, hi.closed_ok hc, fun w hw hp => ?_⟩
  rcases hi.pending_ok w hw hp with h1 | ⟨c', m, hm⟩
  · rw [hi.closed_ok hc] at h1; cases h1
  · refine ⟨c', m, fun e => ?_, hm⟩
    subst e; rw [hs] at hm; cases hm

/-- ... and that hand-over cannot get stuck: the delivery step of such a reader is enabled in every state and resolves
the future with the answer. -/
theorem C12_multi_delivery_enabled (s : St) (c : Nat) (m : Msg) (w : Nat) (hr : s.reader c = .removed m w) :
    ∃ s', step s (.readerDeliver c) = some s' ∧ s'.status w = .got m := by
  refine ⟨_, by simp only [step, hr]; rfl, ?_⟩
  simp [upd]

/-- so when every reader is at rest (none in the middle of a delivery) and one of them has stopped, no future is pending -/
theorem C12_multi_quiescent (ls : List Label) (s : St) (h : run init ls = some s) (c : Nat)
    (hs : s.reader c = .stopped) (hq : ∀ c' m w, s.reader c' ≠ .removed m w) :
    ∀ w, w < s.nW → s.status w ≠ .pending := by
  intro w hw hp
  obtain ⟨c', m, _, hm⟩ := (C12_multi_stopped ls s h c hs).2.2 w hw hp
  exact hq c' m w hm

/-- once closed, always refused: a later `connect()` does not re-open the table (the code never resets `closed`), so
no send after a stop - on the old or on a new connection - creates a waiter that nobody will release -/
theorem C12_multi_send_after_stop (ls : List Label) (s : St) (h : run init ls = some s) (c : Nat)
    (hs : s.reader c = .stopped) (ls2 : List Label) (s2 : St) (h2 : run s ls2 = some s2) (hidle : s2.send = .idle)
    (hb : Nat) : s2.closed = true ∧ step s2 (.sendBegin hb) = some s2 := by
  have hi := inv_run ls inv_init h
  have hi2 := inv_run ls2 hi h2
  have hc2 := closed_run ls2 h2 (hi.stopped_ok c hs)
  refine ⟨hc2, ?_⟩
  simp [step, hidle, hc2]

/-- the only ways to stay pending, with several connections: no reader of the client has stopped and the waiter is still
registered under its id (open, silent peers), or some connection's reader is about to deliver to it -/
theorem C12_multi_pending_means_waiting (ls : List Label) (s : St) (h : run init ls = some s) (w : Nat)
    (hw : w < s.nW) (hp : s.status w = .pending) :
    (s.cache (s.hbhOf w) = some w ∧ ∀ c, s.reader c ≠ .stopped) ∨ ∃ c m, s.reader c = .removed m w := by
  have hi := inv_run ls inv_init h
  rcases hi.pending_ok w hw hp with hc | hr
  · refine Or.inl ⟨hc, fun c hs => ?_⟩
    have := hi.closed_ok (hi.stopped_ok c hs) (s.hbhOf w)
    rw [hc] at this; cases this
  · exact Or.inr hr

/-- the reader of any connection cannot get stuck on the way to stopping: an undecodable item, a close or a reset at the
head of its wire takes it to `stopping`; so does a decoded message nobody waits for; and from `stopping` its stop step is
always enabled - whatever the other connections and the sender are doing -/
theorem C12_multi_stop_path (s : St) (c : Nat) (hc : c < s.nC) :
    (s.reader c = .running → ∀ rest, s.wire c = .bad :: rest →
      ∃ s', step s (.readerDecode c) = some s' ∧ s'.reader c = .stopping) ∧
    (∀ m, s.reader c = .decoded m → s.cache m.hbh = none →
      ∃ s', step s (.readerRemove c) = some s' ∧ s'.reader c = .stopping) ∧
    (s.reader c = .stopping → ∃ s', step s (.readerStop c) = some s' ∧ s'.reader c = .stopped) := by
  refine ⟨?_, ?_, ?_⟩
  · intro hr rest hw
    refine ⟨{ s with wire := upd s.wire c rest, reader := upd s.reader c .stopping }, ?_, by simp [upd]⟩
    simp only [step, hr, hw]; rw [if_neg (by omega)]; simp
  · intro m hr hcn
    refine ⟨{ s with reader := upd s.reader c .stopping }, ?_, by simp [upd]⟩
    simp only [step, hr, hcn]
  · intro hr
    refine ⟨{ s with closed := true,
                     status := fun w => if s.status w = .pending ∧ s.cache (s.hbhOf w) = some w then .dropped else s.status w,
                     cache := fun _ => none, reader := upd s.reader c .stopped }, ?_, by simp [upd]⟩
    simp only [step, hr]; simp

/-- non-vacuity, and the switch-over history itself: a request is outstanding on connection 0 when connection 1 is
attached; connection 0 ends; the request's future is resolved (with an error), connection 1 never said a word -/
example : ∃ s, run init [.connect, .sendBegin 501, .write, .sendReturn, .connect, .peerEmit 0 .bad, .readerDecode 0,
    .readerStop 0] = some s ∧ s.reader 0 = .stopped ∧ s.reader 1 = .running ∧ s.status 0 = .dropped ∧ s.nC = 2 := by
  refine ⟨_, rfl, ?_, ?_, ?_, ?_⟩ <;> decide

end Dia.Cm
