import Dia.StreamAll
import Dia.Examples
import Dia.ServerBoth
import Dia.ResetSim
import Dia.Hostile
/-! # C09 - Server survives connection loss at any byte offset. Property theorems only.
`serve` is a total function of its scripts, so "the connection's task terminates" holds by construction for the
model; what the theorems establish is *what* has been called and written at the point of the loss. -/
namespace Dia

/-- **C09, read side.** The peer's stream carries `k` complete acceptable requests and then ends at an arbitrary
offset `q` inside the next one - in its length prefix, its header, an AVP, or exactly between frames (`q = 0`): the
handler has been invoked for exactly the `k` requests that arrived completely, exactly their answers have been
written, and the loop has ended (cleanly: the loss is reported as end of stream). -/
theorem C09_read_cut (cfg : Cfg) (dict : Lookup) (frames : List Bytes) (reqs answers : List Msg)
    (f : Bytes) (m : Msg) (q : Nat) (hs : List HRes) (evs : List REv) (w : List WEv)
    (hl1 : frames.length = reqs.length) (hl2 : answers.length = reqs.length)
    (hacc : ∀ i (h1 : i < frames.length) (h2 : i < reqs.length), Accepts cfg dict frames[i] reqs[i])
    (henc : ∀ a ∈ answers, a.enc.err = none) (hf : Accepts cfg dict f m) (hq : q < f.length)
    (hne : noEmpty evs) (hflat : flat evs = frames.flatten ++ f.take q) (hw : neverFails w) :
    serve cfg dict (answers.map .ok ++ hs) evs w =
      ⟨reqs, (answers.map (fun a => a.enc.bytes)).flatten, true⟩ := by
  obtain ⟨evs', w', g1, g2, _, g4⟩ := serve_prefix cfg dict frames reqs answers hs evs (f.take q) w
    hl1 hl2 hacc henc hne hflat hw
  have hc := Codec.decode_cut cfg dict evs' f m q g2 hf hq g1
  rw [g4, serve]
  simp [hc, ServeLog.prepend]

/-- **C09, reset instead of close.** Whether the peer's stream ends with an orderly close or with a read error
(connection reset), at whatever point of whatever script: the handler calls and the octets written are the same.
Together with `C09_read_cut` this covers a reset at any byte offset. -/
theorem C09_reset_like_close (cfg : Cfg) (dict : Lookup) (hs : List HRes) (evs : List REv) (w : List WEv) :
    (serve cfg dict hs (toEof evs) w).calls = (serve cfg dict hs evs w).calls ∧
    (serve cfg dict hs (toEof evs) w).written = (serve cfg dict hs evs w).written :=
  serve_toEof cfg dict hs evs w

/-- **C09, write side.** With the requests arriving intact and a write side that may stall, accept partially and fail
at any offset of any answer: the handler has been called for a prefix `reqs.take k` of the requests; the answers to
all but the last of them are completely on the stream; nothing beyond (a prefix of) the answer to the last one was
written - so no later handler call or write happens after the failure. -/
theorem C09_write_cut (cfg : Cfg) (dict : Lookup) (frames : List Bytes) (reqs answers : List Msg)
    (evs : List REv) (w : List WEv)
    (hl1 : frames.length = reqs.length) (hl2 : answers.length = reqs.length)
    (hacc : ∀ i (h1 : i < frames.length) (h2 : i < reqs.length), Accepts cfg dict frames[i] reqs[i])
    (henc : ∀ a ∈ answers, a.enc.err = none) (hne : noEmpty evs) (hflat : flat evs = frames.flatten) :
    ∃ k, k ≤ reqs.length ∧ (serve cfg dict (answers.map .ok) evs w).calls = reqs.take k ∧
      ((answers.take (k - 1)).map (fun a => a.enc.bytes)).flatten <+: (serve cfg dict (answers.map .ok) evs w).written ∧
      (serve cfg dict (answers.map .ok) evs w).written <+: ((answers.take k).map (fun a => a.enc.bytes)).flatten :=
  serve_write_any cfg dict frames reqs answers evs w hl1 hl2 hacc henc hne hflat

/-- the primitive fact behind it: whatever the write script does, what reaches the stream is a prefix of what was to
be written, and all of it exactly when the write reports success -/
theorem C09_write_prefix (bs : Bytes) (w : List WEv) :
    (writeAll bs w).2.1 <+: bs ∧ ((writeAll bs w).1 = true → (writeAll bs w).2.1 = bs) :=
  writeAll_prefix bs w

/-- no script of read outcomes and no script of write outcomes makes the loop reach a panic site of the decoder -/
theorem C09_no_panic (cfg : Cfg) (dict : Lookup) (evs : List REv) : (Codec.decode cfg dict evs).out ≠ .panic :=
  (Codec.decode_hostile cfg dict evs).1

/-- **C09, both sides at once.** The peer's stream carries complete acceptable requests and then ends at an arbitrary offset
`q` inside the next one, *while* the write side may stall, accept partially and fail at any offset of any answer: the handler
has been called for a prefix `reqs.take k` of the requests that arrived completely - never for the truncated one -, the answers
to all but the last of them are completely on the stream, and nothing beyond (a prefix of) the answer to the last one was
written. -/
theorem C09_cut_both (cfg : Cfg) (dict : Lookup) (frames : List Bytes) (reqs answers : List Msg)
    (f : Bytes) (m : Msg) (q : Nat) (evs : List REv) (w : List WEv)
    (hl1 : frames.length = reqs.length) (hl2 : answers.length = reqs.length)
    (hacc : ∀ i (h1 : i < frames.length) (h2 : i < reqs.length), Accepts cfg dict frames[i] reqs[i])
    (henc : ∀ a ∈ answers, a.enc.err = none) (hf : Accepts cfg dict f m) (hq : q < f.length)
    (hne : noEmpty evs) (hflat : flat evs = frames.flatten ++ f.take q) :
    ∃ k, k ≤ reqs.length ∧ (serve cfg dict (answers.map .ok) evs w).calls = reqs.take k ∧
      ((answers.take (k - 1)).map (fun a => a.enc.bytes)).flatten <+: (serve cfg dict (answers.map .ok) evs w).written ∧
      (serve cfg dict (answers.map .ok) evs w).written <+: ((answers.take k).map (fun a => a.enc.bytes)).flatten :=
  serve_write_any_rest cfg dict frames reqs answers (f.take q) evs w hl1 hl2 hacc henc hne hflat
    (fun evs2 hne2 hfl2 m' hm' => by
      have := Codec.decode_cut cfg dict evs2 f m q hne2 hf hq hfl2
      rw [this] at hm'; cases hm')

/-- the same with anything behind the complete requests from which the stream reader extracts no message (a hostile
announcement, a frame the decoder refuses): the loop never calls the handler for it, whatever the write side does -/
theorem C09_refused_both (cfg : Cfg) (dict : Lookup) (frames : List Bytes) (reqs answers : List Msg)
    (rest : Bytes) (evs : List REv) (w : List WEv)
    (hl1 : frames.length = reqs.length) (hl2 : answers.length = reqs.length)
    (hacc : ∀ i (h1 : i < frames.length) (h2 : i < reqs.length), Accepts cfg dict frames[i] reqs[i])
    (henc : ∀ a ∈ answers, a.enc.err = none)
    (hne : noEmpty evs) (hflat : flat evs = frames.flatten ++ rest)
    (hrest : ∀ evs2, noEmpty evs2 → flat evs2 = rest → ∀ m, (Codec.decode cfg dict evs2).out ≠ .ok m) :
    ∃ k, k ≤ reqs.length ∧ (serve cfg dict (answers.map .ok) evs w).calls = reqs.take k ∧
      ((answers.take (k - 1)).map (fun a => a.enc.bytes)).flatten <+: (serve cfg dict (answers.map .ok) evs w).written ∧
      (serve cfg dict (answers.map .ok) evs w).written <+: ((answers.take k).map (fun a => a.enc.bytes)).flatten :=
  serve_write_any_rest cfg dict frames reqs answers rest evs w hl1 hl2 hacc henc hne hflat hrest

/-- ... in particular a well-framed frame the message decoder refuses (a command or an application the library does not know, an
AVP the dictionary does not know, a short frame whose last AVP announces data the frame does not have), followed by anything: the
requests before it are handled - as far as the write side lets them - and the handler is never called for the refused frame or
for anything behind it -/
theorem C09_refused_frame_both (cfg : Cfg) (dict : Lookup) (frames : List Bytes) (reqs answers : List Msg)
    (f more : Bytes) (evs : List REv) (w : List WEv)
    (hl1 : frames.length = reqs.length) (hl2 : answers.length = reqs.length)
    (hacc : ∀ i (h1 : i < frames.length) (h2 : i < reqs.length), Accepts cfg dict frames[i] reqs[i])
    (henc : ∀ a ∈ answers, a.enc.err = none) (hf : Framed f) (hno : ∀ m, decMsg cfg dict f ≠ .ok m)
    (hne : noEmpty evs) (hflat : flat evs = frames.flatten ++ (f ++ more)) :
    ∃ k, k ≤ reqs.length ∧ (serve cfg dict (answers.map .ok) evs w).calls = reqs.take k ∧
      ((answers.take (k - 1)).map (fun a => a.enc.bytes)).flatten <+: (serve cfg dict (answers.map .ok) evs w).written ∧
      (serve cfg dict (answers.map .ok) evs w).written <+: ((answers.take k).map (fun a => a.enc.bytes)).flatten :=
  serve_write_any_rest cfg dict frames reqs answers (f ++ more) evs w hl1 hl2 hacc henc hne hflat
    (fun evs2 hne2 hfl2 m' hm' => by
      obtain ⟨evs', hd, _, _⟩ := Codec.decode_framed cfg dict evs2 f more hne2 hfl2 hf
      rw [hd] at hm'
      simp only at hm'
      cases hdm : decMsg cfg dict f with
      | ok m => exact hno m hdm
      | err e => rw [hdm] at hm'; simp [COut.ofDec] at hm'
      | panic => rw [hdm] at hm'; simp [COut.ofDec] at hm')

/-- non-vacuity of `C09_cut_both`: one complete request, the next one cut after 7 octets, the write side failing after 3 octets
of the answer - one handler call, three octets written -/
example : ∃ k, k ≤ 1 ∧
    (serve exCfg exDictNone [.ok exFrameMsg] [.data (exFrame ++ exFrame.take 7)] [.accept 3, .fail]).calls = [exFrameMsg].take k ∧
    ((([exFrameMsg] : List Msg).take (k - 1)).map (fun a => a.enc.bytes)).flatten <+:
      (serve exCfg exDictNone [.ok exFrameMsg] [.data (exFrame ++ exFrame.take 7)] [.accept 3, .fail]).written ∧
    (serve exCfg exDictNone [.ok exFrameMsg] [.data (exFrame ++ exFrame.take 7)] [.accept 3, .fail]).written <+:
      ((([exFrameMsg] : List Msg).take k).map (fun a => a.enc.bytes)).flatten :=
  C09_cut_both exCfg exDictNone [exFrame] [exFrameMsg] [exFrameMsg] exFrame exFrameMsg 7
    [.data (exFrame ++ exFrame.take 7)] [.accept 3, .fail] rfl rfl
    (fun i h1 h2 => by
      have : i = 0 := by simp at h1; omega
      subst this; exact exFrame_accepts)
    (fun a ha => by simp at ha; subst ha; rw [exFrameMsg_enc])
    exFrame_accepts (by decide) (by simp [noEmpty, exFrame]) (by simp [flat])

end Dia
