import Dia.History
import Dia.Dump
import Dia.Top
import Dia.SpecTop
/-! # C18 - AVP lookup and typed accessors agree with the message content. Property theorems only. -/
namespace Dia
open Spec

/-- `get_avps()` is the stored list; `add` appends at the end, so built messages keep insertion (= wire) order -/
theorem C18_add_appends (m : Msg) (a : Avp) : (m.add a).avps = m.avps ++ [a] := rfl

/-- `get_avp(code)`: the first AVP with that code in list order; nothing exactly when there is none -/
theorem C18_get_first (m : Msg) (c : UInt32) :
    (m.getAvp c = none ↔ ∀ a ∈ m.avps, a.code ≠ c) ∧
    (∀ a, m.getAvp c = some a ↔
      a.code = c ∧ ∃ pre post, m.avps = pre ++ a :: post ∧ ∀ b ∈ pre, b.code ≠ c) := by
  constructor
  · unfold Msg.getAvp
    rw [List.find?_eq_none]
    simp
  · intro a
    unfold Msg.getAvp
    rw [List.find?_eq_some_iff_append]
    simp

/-- lookup along a history: after `add` (on a built *or* decoded message) the lookup still answers with the earlier
first occurrence if there was one, and with the appended AVP only when the code was absent before -/
theorem C18_get_after_add (m : Msg) (a : Avp) (c : UInt32) :
    (m.add a).getAvp c = (match m.getAvp c with
      | some x => some x
      | none => if a.code = c then some a else none) := by
  unfold Msg.getAvp
  rw [C18_add_appends, List.find?_append]
  cases h : List.find? (fun x => x.code == c) m.avps <;> simp [List.find?]
  by_cases hc : a.code = c
  · simp [hc]
  · have : (a.code == c) = false := by simpa using hc
    simp [this, hc]

/-- the index the harness reports is the position of that first AVP -/
theorem C18_get_idx (m : Msg) (c : UInt32) (i : Nat) (h : m.getAvpIdx c = some i) :
    ∃ a, m.avps[i]? = some a ∧ m.getAvp c = some a := by
  unfold Msg.getAvpIdx at h
  unfold Msg.getAvp
  rw [List.findIdx?_eq_some_iff_getElem] at h
  obtain ⟨hi, hp, hlt⟩ := h
  refine ⟨m.avps[i], by simp [hi], ?_⟩
  rw [List.find?_eq_some_iff_getElem]
  exact ⟨hp, i, hi, rfl, fun j hj => by simpa using hlt j hj⟩

/-- each typed getter answers exactly when the AVP holds that data type ... -/
theorem C18_typed (a : Avp) (acc : Ty) : (a.getTyped acc).isSome ↔ tyOf a.value = acc := by
  unfold Avp.getTyped; split <;> simp_all

/-- ... and then with the stored value -/
theorem C18_typed_value (a : Avp) (acc : Ty) (x : Value) (h : a.getTyped acc = some x) : x = a.value := by
  unfold Avp.getTyped at h; split at h <;> simp_all

/-- of the 16 getters exactly one answers -/
theorem C18_typed_unique (a : Avp) : tyOf a.value ∈ allTys ∧ ∀ t, (a.getTyped t).isSome → t = tyOf a.value := by
  refine ⟨?_, fun t h => ((C18_typed a t).mp h).symm⟩
  cases a with
  | mk c v m p l pd val => cases val <;> simp [Avp.value, tyOf, allTys]

/-- a group's member accessor returns its members, in order -/
theorem C18_group_members (a : Avp) (ms : List Avp) (h : a.value = .grouped ms) : a.groupMembers = some ms := by
  unfold Avp.groupMembers; rw [h]

/-- decoded messages list their AVPs in wire order: the body of the frame is, up to padding octets and reserved flag
bits, the concatenation of the RFC encodings of the returned AVPs in list order -/
theorem C18_decoded_order (cfg : Cfg) (dict : Lookup) (bs : Bytes) (m : Msg)
    (h : decMsg cfg dict bs = .ok m) (hlen : bs.length = m.length) (hnl : NoLieList m.avps) :
    ∃ hb body, bs = hb ++ body ∧ hb.length = 20 ∧ body.length = (maskList m.avps).length ∧
      applyMask body (maskList m.avps) = encodeAvps (absList m.avps) := by
  obtain ⟨hb, body, e1, e2, e3, e4, hc, hw, _⟩ := decMsg_faithful cfg dict bs m h hlen hnl
  refine ⟨hb, body, e1, e2, e3, ?_⟩
  have hs := encList_spec m.avps hw hc
  unfold Msg.enc at e4
  split at e4
  · have := congrArg Enc.err e4; simp at this
  · simp only [Enc.ok, Enc.andThen_ok, hs, Enc.mk.injEq, and_true] at e4
    have hl : (m.version :: be24 m.length ++ m.flags :: be24 m.cmd ++ be32 m.app ++ be32 m.hbh.toNat ++
        be32 m.e2e.toNat).length = hb.length := by simp [e2]
    exact (List.append_inj e4 hl).2.symm

/-- the same against the independent reader: if the frame parses as `s`, the AVP list accessor of the decoded message
lists exactly `s`'s AVPs, in `s`'s (= wire) order -/
theorem C18_decoded_is_parsed (cfg : Cfg) (hf : cfg.tables.Fit) (dict : Lookup) (bs : Bytes) (m : Msg) (s : SMsg)
    (h : decMsg cfg dict bs = .ok m) (hlen : bs.length = m.length) (hnl : NoLieList m.avps)
    (hp : Parses cfg.tables dict bs s) : absList m.avps = s.avps := by
  have := parses_unique cfg.tables hf dict bs m.abs s (decMsg_parses cfg dict bs m h hlen hnl) hp
  rw [← this]; rfl

/-! non-vacuity: a message with a repeated code -/
example : (Msg.new 272 4 0 0 0 |>.addAvp 7 none 0 (.unsigned32 1) |>.addAvp 9 none 0 (.utf8 []) |>.addAvp 7 (some 3) 0
    (.unsigned32 2)).getAvpIdx 7 = some 0 := by decide

end Dia
