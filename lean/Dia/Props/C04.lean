import Dia.NoPanic
/-! # C04 - The decoder is total: any bytes give Ok or Err, never a crash. Property theorems only.
`decMsg` returns `.panic` at every operation that panics in Rust with overflow checks on (checked `u32`
subtraction and addition, slice bounds); recursion is on an explicit fuel, so termination is by construction. -/
namespace Dia

/-- **C04.** No octet string, under any leniency configuration, nesting limit and dictionary, reaches a panic site -/
theorem C04_no_panic (cfg : Cfg) (dict : Lookup) (bs : Bytes) : decMsg cfg dict bs ≠ .panic :=
  decMsg_ne_panic cfg dict bs

/-- nor does any single AVP or group decode, from any cursor state (also one that ran past the end) -/
theorem C04_no_panic_avp (cfg : Cfg) (dict : Lookup) (fuel depth : Nat) (c : Cur) :
    decAvp cfg dict fuel depth c ≠ .panic :=
  decAvp_ne_panic cfg dict fuel depth c

end Dia
