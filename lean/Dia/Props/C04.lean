import Dia.NoPanic
import Dia.DecTyped
import Dia.Fuel
/-! # C04 - The decoder is total: any bytes give Ok or Err, never a crash. Property theorems only.
`decMsg` returns `.panic` at every operation that panics in Rust with overflow checks on (checked `u32`
subtraction and addition, slice bounds); recursion is on an explicit fuel, so termination is by construction. -/
namespace Dia

/-- **C04.** No octet string, under any leniency configuration, nesting limit and dictionary, reaches a panic site -/
theorem C04_no_panic (cfg : Cfg) (dict : Lookup) (bs : Bytes) : decMsg cfg dict bs ≠ .panic :=
  decMsg_ne_panic cfg dict bs

/-- nor does any single AVP or group decode, from any cursor state (also one that ran past the end) -/
theorem C04_no_panic_avp (cfg : Cfg) (dict : Lookup) (fuel depth : Nat) (c : Cur) :
    decAvp cfg dict fuel depth c ≠ .panic :=
  decAvp_ne_panic cfg dict fuel depth c

/-- every message the decoder returns nests no deeper than the decoder's limit: the recursions that walk a returned
value - display, the accessors, clone, drop, re-encoding - are bounded by that limit too (they are structural in the
tree) -/
theorem C04_depth (cfg : Cfg) (dict : Lookup) (bs : Bytes) (m : Msg) (h : decMsg cfg dict bs = .ok m) :
    depthList m.avps ≤ cfg.limit :=
  (decMsg_typed cfg dict bs m h).2.1

/-- a frame nested deeper than the limit is refused with an error (never mis-parsed, never recursed into): the
decoder's own recursion depth is bounded by the limit whatever the frame says -/
theorem C04_too_deep_is_error (cfg : Cfg) (dict : Lookup) (bs : Bytes) (m : Msg)
    (h : decMsg cfg dict bs = .ok m) : ¬ cfg.limit < depthList m.avps := by
  have := C04_depth cfg dict bs m h
  omega

/-- the decoder's loops are bounded by the input: every successful AVP decode consumes at least the 8 octets of its
header, so at most |bs|/8 AVPs are decoded (linear work), and the explicit fuel of the model - an artefact of writing
the recursion structurally; the code has none - is never exhausted: `err fuel` is not a possible answer -/
theorem C04_fuel (cfg : Cfg) (dict : Lookup) (bs : Bytes) : decMsg cfg dict bs ≠ .err .fuel :=
  decMsg_ne_fuel cfg dict bs

theorem C04_progress (cfg : Cfg) (dict : Lookup) (fuel depth : Nat) (c c' : Cur) (a : Avp)
    (h : decAvp cfg dict fuel depth c = .ok (a, c')) : c'.rem + 8 ≤ c.rem :=
  decAvp_rem cfg dict fuel depth c c' a h

end Dia
