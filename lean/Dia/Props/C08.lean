import Dia.ServerPrefix
import Dia.Hostile
import Dia.Examples
/-! # C08 - Server answers each request exactly once, in order, unmodified. Property theorems only.
`serve` is the per-connection loop as a function of the read script, the handler's scripted results and the write
script; its log lists the requests handed to the handler and every octet put on the stream. -/
namespace Dia

/-- **C08, all good.** For any sequence of acceptable request frames, however segmented and with `Pending` anywhere
on both directions, the handler sees exactly those requests in order, exactly the encodings of its answers are
written in that order, and nothing else. (Induction over the frame list; no bound on its length.) -/
theorem C08_all_good (cfg : Cfg) (dict : Lookup) (frames : List Bytes) (reqs answers : List Msg)
    (evs : List REv) (w : List WEv) (hl1 : frames.length = reqs.length) (hl2 : answers.length = reqs.length)
    (hacc : ∀ i (h1 : i < frames.length) (h2 : i < reqs.length), Accepts cfg dict frames[i] reqs[i])
    (henc : ∀ a ∈ answers, a.enc.err = none) (hne : noEmpty evs) (hflat : flat evs = frames.flatten)
    (hw : neverFails w) :
    (serve cfg dict (answers.map .ok) evs w).calls = reqs ∧
    (serve cfg dict (answers.map .ok) evs w).written = (answers.map (fun a => a.enc.bytes)).flatten ∧
    (serve cfg dict (answers.map .ok) evs w).clean = true :=
  serve_all_good cfg dict frames reqs answers evs w hl1 hl2 hacc henc hne hflat hw

/-- **C08, handler failure at position k.** After `k` good exchanges the `k+1`-th acceptable request reaches the
handler, which fails: the handler has been called for exactly `k+1` requests, exactly the first `k` answers are on the
stream, and whatever follows on the read script - more requests - is never looked at: nothing further is called or
written. -/
theorem C08_handler_fails (cfg : Cfg) (dict : Lookup) (frames : List Bytes) (reqs answers : List Msg)
    (f : Bytes) (req : Msg) (later : Bytes) (hs : List HRes) (evs : List REv) (w : List WEv)
    (hl1 : frames.length = reqs.length) (hl2 : answers.length = reqs.length)
    (hacc : ∀ i (h1 : i < frames.length) (h2 : i < reqs.length), Accepts cfg dict frames[i] reqs[i])
    (henc : ∀ a ∈ answers, a.enc.err = none) (hf : Accepts cfg dict f req)
    (hne : noEmpty evs) (hflat : flat evs = frames.flatten ++ (f ++ later)) (hw : neverFails w) :
    (serve cfg dict (answers.map .ok ++ .err :: hs) evs w).calls = reqs ++ [req] ∧
    (serve cfg dict (answers.map .ok ++ .err :: hs) evs w).written = (answers.map (fun a => a.enc.bytes)).flatten := by
  obtain ⟨evs', w', g1, g2, _, g4⟩ := serve_prefix cfg dict frames reqs answers (.err :: hs) evs (f ++ later) w
    hl1 hl2 hacc henc hne hflat hw
  obtain ⟨evs2, hd, _, _⟩ := Codec.decode_frame cfg dict evs' f later req g2 g1 hf
  rw [g4, serve]
  simp [hd, ServeLog.prepend]

/-- **C08, unencodable answer at position k.** The handler returns an answer that cannot be represented on the wire (C05):
nothing of it is written - not a truncated or length-inconsistent frame - and the loop ends; the first `k` answers are
on the stream, complete. -/
theorem C08_answer_unencodable (cfg : Cfg) (dict : Lookup) (frames : List Bytes) (reqs answers : List Msg)
    (f : Bytes) (req ans : Msg) (later : Bytes) (hs : List HRes) (evs : List REv) (w : List WEv)
    (hl1 : frames.length = reqs.length) (hl2 : answers.length = reqs.length)
    (hacc : ∀ i (h1 : i < frames.length) (h2 : i < reqs.length), Accepts cfg dict frames[i] reqs[i])
    (henc : ∀ a ∈ answers, a.enc.err = none) (hf : Accepts cfg dict f req) (hbad : ans.enc.err ≠ none)
    (hne : noEmpty evs) (hflat : flat evs = frames.flatten ++ (f ++ later)) (hw : neverFails w) :
    (serve cfg dict (answers.map .ok ++ .ok ans :: hs) evs w).calls = reqs ++ [req] ∧
    (serve cfg dict (answers.map .ok ++ .ok ans :: hs) evs w).written = (answers.map (fun a => a.enc.bytes)).flatten := by
  obtain ⟨evs', w', g1, g2, _, g4⟩ := serve_prefix cfg dict frames reqs answers (.ok ans :: hs) evs (f ++ later) w
    hl1 hl2 hacc henc hne hflat hw
  obtain ⟨evs2, hd, _, _⟩ := Codec.decode_frame cfg dict evs' f later req g2 g1 hf
  rw [g4, serve]
  cases he : ans.enc.err with
  | none => exact absurd he hbad
  | some e => simp [hd, he, ServeLog.prepend]

/-- **C08, malformed frame at position k.** After `k` good exchanges the stream continues with octets the stream
reader refuses (however they are delivered): the handler has been called for exactly the `k` requests before, exactly
their answers are written, and no later request reaches the handler. -/
theorem C08_malformed (cfg : Cfg) (dict : Lookup) (frames : List Bytes) (reqs answers : List Msg)
    (rest : Bytes) (hs : List HRes) (evs : List REv) (w : List WEv)
    (hl1 : frames.length = reqs.length) (hl2 : answers.length = reqs.length)
    (hacc : ∀ i (h1 : i < frames.length) (h2 : i < reqs.length), Accepts cfg dict frames[i] reqs[i])
    (henc : ∀ a ∈ answers, a.enc.err = none)
    (hbad : ∀ evs', flat evs' = rest → noEmpty evs' → ∃ e, (Codec.decode cfg dict evs').out = .err e)
    (hne : noEmpty evs) (hflat : flat evs = frames.flatten ++ rest) (hw : neverFails w) :
    (serve cfg dict (answers.map .ok ++ hs) evs w).calls = reqs ∧
    (serve cfg dict (answers.map .ok ++ hs) evs w).written = (answers.map (fun a => a.enc.bytes)).flatten := by
  obtain ⟨evs', w', g1, g2, _, g4⟩ := serve_prefix cfg dict frames reqs answers hs evs rest w
    hl1 hl2 hacc henc hne hflat hw
  obtain ⟨e, he⟩ := hbad evs' g1 g2
  rw [g4, serve]
  cases e <;> simp [he, ServeLog.prepend]

/-- the hypothesis of `C08_malformed` is satisfiable: e.g. a frame announcing fewer than 20 octets is refused however
it is delivered (C07) -/
theorem C08_malformed_example (cfg : Cfg) (dict : Lookup) (b0 : UInt8) (L : Nat) (tail : Bytes) (hL : L < 20)
    (evs' : List REv) (hflat : flat evs' = b0 :: be24 L ++ tail) (hne : noEmpty evs') :
    ∃ e, (Codec.decode cfg dict evs').out = .err e := by
  obtain ⟨_, h2, _⟩ := Codec.decode_hostile cfg dict evs'
  obtain ⟨evs1, hr, _, _⟩ := readExact_flat 4 evs' hne (by rw [hflat]; simp [be24])
  have hp : (flat evs').take 4 = b0 :: be24 L := by rw [hflat]; simp [be24]
  rw [hp] at hr
  have hfb : fromBe ((b0 :: be24 L).drop 1) = L := by simpa using fromBe_be24 L (by omega)
  obtain ⟨_, g2, _⟩ := h2 _ _ hr
  rw [hfb] at g2
  exact ⟨_, (g2 hL).1⟩

/-! non-vacuity: one acceptable request (`exFrame`), answered by a message that encodes to the same 20 octets, delivered
in two pieces over a writer that accepts one octet at a time -/
example : (serve exCfg exDictNone [.ok exFrameMsg] [.data (exFrame.take 7), .pending, .data (exFrame.drop 7)]
    [.accept 1, .pending, .accept 1]).calls = [exFrameMsg] ∧
    (serve exCfg exDictNone [.ok exFrameMsg] [.data (exFrame.take 7), .pending, .data (exFrame.drop 7)]
    [.accept 1, .pending, .accept 1]).written = exFrame := by
  have h := C08_all_good exCfg exDictNone [exFrame] [exFrameMsg] [exFrameMsg]
    [.data (exFrame.take 7), .pending, .data (exFrame.drop 7)] [.accept 1, .pending, .accept 1] rfl rfl
    (by intro i h1 h2; have : i = 0 := by simpa using h1
        subst this; exact exFrame_accepts)
    (by intro a ha; simp at ha; subst ha; rw [exFrameMsg_enc])
    (by simp [noEmpty, exFrame]) (by decide) (by intro e he; simp at he; rcases he with rfl | rfl | rfl <;> simp [WEv.good])
  simp only [List.map_cons, List.map_nil] at h
  exact ⟨h.1, by rw [h.2.1]; simp [exFrameMsg_enc]⟩

end Dia
