import Dia.History
import Dia.Props.C14
/-! # C16 - Building an AVP by name follows the dictionary; failure changes nothing. Property theorems only. -/
namespace Dia

/-- **C16, success.** For a name the dictionary contains, `from_name` yields exactly the AVP built from the explicit
numbers of the definition found: its code, its vendor id, the M flag iff the definition is mandatory (P clear), the V
bit iff there is a vendor id - hence the two encode identically. -/
theorem C16_from_name (D : Dict) (n : String) (v : Value) (d : Def) (h : D.getByName n = some d) :
    Avp.fromName D n v = some (Avp.new d.code d.vendor (if d.m then 0x40 else 0) v) ∧
    (Avp.new d.code d.vendor (if d.m then 0x40 else 0) v).code = d.code ∧
    (Avp.new d.code d.vendor (if d.m then 0x40 else 0) v).vendor = d.vendor ∧
    (∀ a, Avp.fromName D n v = some a → a.enc = (Avp.new d.code d.vendor (if d.m then 0x40 else 0) v).enc) := by
  have e : Avp.fromName D n v = some (Avp.new d.code d.vendor (if d.m then 0x40 else 0) v) := by
    unfold Avp.fromName; rw [h]; rfl
  refine ⟨e, rfl, rfl, ?_⟩
  intro a ha
  rw [e] at ha
  cases ha
  rfl

/-- the flags octet on the wire: V set exactly when the definition has a vendor id, M exactly when it is mandatory -/
theorem C16_flags (d : Def) (v : Value) :
    (Avp.new d.code d.vendor (if d.m then 0x40 else 0) v).enc.bytes.getD 4 0 =
      (if d.vendor.isSome then 0x80 else 0) ||| (if d.m then 0x40 else 0) ∨
    (Avp.new d.code d.vendor (if d.m then 0x40 else 0) v).enc.err ≠ none := by
  unfold Avp.new
  simp only [Avp.enc]
  unfold encHdr
  split
  · right; simp [Enc.andThen]
  · left
    simp only [Enc.ok, Enc.andThen]
    cases hv : d.vendor <;> cases hm : d.m <;> simp [hdrBytes, be32, flagsByte] <;> decide

/-- which definition: one that is live in the dictionary and carries the name (C14); if only one definition carries
the name, it is that one -/
theorem C16_which (ops : List DOp) (n : String) (d : Def) (h : (runD ops).getByName n = some d) :
    d.name = n ∧ (runD ops).get d.code d.vendor = some d :=
  C14_by_name_live ops n d h

/-- **C16, failure.** Asking for a name the dictionary does not contain fails and leaves the message - its AVP list,
reported length and (therefore) its encoding - exactly as it was. -/
theorem C16_unknown (D : Dict) (m : Msg) (n : String) (v : Value) (h : D.getByName n = none) :
    Avp.fromName D n v = none ∧ m.addByName D n v = none := by
  unfold Msg.addByName Avp.fromName
  rw [h]
  exact ⟨rfl, rfl⟩

/-- in the operation machine: the failed call changes neither the message nor the dictionary (only the argument is
consumed) -/
theorem C16_unknown_step (cfg : Cfg) (s : MState) (n : String) (h : s.dict.getByName n = none) :
    (s.step cfg (.addByName n)).1.msg = s.msg ∧ (s.step cfg (.addByName n)).1.dict = s.dict ∧
    (s.step cfg (.addByName n)).2 ≠ .ok := by
  simp only [MState.step]
  split
  · rename_i v rest heq
    rw [(C16_unknown s.dict s.msg n v h).2]
    exact ⟨rfl, rfl, by simp⟩
  · exact ⟨rfl, rfl, by simp⟩

/-- and a successful call appends exactly that AVP, updating the reported length by its padded size -/
theorem C16_known_step (D : Dict) (m m' : Msg) (n : String) (v : Value) (d : Def) (h : D.getByName n = some d)
    (hm : m.addByName D n v = some m') :
    m'.avps = m.avps ++ [Avp.new d.code d.vendor (if d.m then 0x40 else 0) v] ∧
    m'.length = m.length + (Avp.new d.code d.vendor (if d.m then 0x40 else 0) v).padded := by
  unfold Msg.addByName at hm
  rw [(C16_from_name D n v d h).1] at hm
  simp only [Option.map_some, Option.some.injEq] at hm
  subst hm
  simp only [Msg.add, Avp.padded]
  exact ⟨trivial, by omega⟩

end Dia
