import Dia.HistoryThm
/-! # C01 - Encoded bytes are exactly the RFC 6733 wire format
Property theorems only. Histories are lists of `Op` (one per public API call, `Dia/History.lean`); the independent
encoder is `Spec.encode` (`Dia/Spec.lean`, written from the RFC text). -/
namespace Dia
open Spec

def Item.Good : Item → Prop
  | .val v => v.Good
  | .avp a => a.Good

def StackGood : List Item → Prop
  | [] => True
  | it :: r => it.Good ∧ StackGood r

/-- every message and every value the history has built so far is consistent (stored lengths and paddings are the
ones the data imply, the running message length is the sum) and carriable by the wire -/
structure MState.Good (s : MState) : Prop where
  msg : s.msg.Good
  stack : StackGood s.stack

/-- C01's quantifier, operation by operation: values are ones the wire can carry (Time in range, E.164 of 1..15
octets, text is UTF-8 - `Value.WF`), no AVP reaches 2^24 octets, and frames handed to `decode` are frames of their
declared size that are accepted without a fixed-size length lie (finding F1; vacuous for a strict decoder) -/
def OpOk (cfg : Cfg) (s : MState) : Op → Prop
  | .val v => v.Good
  | .grpAddAvp _ vendor _ => ∀ v rest, s.stack = .val v :: rest → hdrLen vendor + v.len < 16777216
  | .avpNew _ vendor _ => ∀ v rest, s.stack = .val v :: rest → hdrLen vendor + v.len < 16777216
  | .addAvp _ vendor _ => ∀ v rest, s.stack = .val v :: rest → hdrLen vendor + v.len < 16777216
  | .avpName n => ∀ v rest d, s.stack = .val v :: rest → s.dict.getByName n = some d →
      hdrLen d.vendor + v.len < 16777216
  | .addByName n => ∀ v rest d, s.stack = .val v :: rest → s.dict.getByName n = some d →
      hdrLen d.vendor + v.len < 16777216
  | .decode bs => ∀ m, decMsg cfg s.dict.lookup bs = .ok m → bs.length = m.length ∧ NoLieList m.avps
  | .reencode => ∀ m, decMsg cfg s.dict.lookup s.msg.enc.bytes = .ok m →
      s.msg.enc.bytes.length = m.length ∧ NoLieList m.avps
  | _ => True

/-- the restriction along a whole history -/
def OpsOk (cfg : Cfg) : MState → List Op → Prop
  | _, [] => True
  | s, op :: ops => OpOk cfg s op ∧ OpsOk cfg (s.step cfg op).1 ops

/-- every API call preserves the invariant -/
theorem C01_step (cfg : Cfg) (s : MState) (op : Op) (hs : s.Good) (hop : OpOk cfg s op) :
    (s.step cfg op).1.Good := by
  obtain ⟨hm, hst⟩ := hs
  cases op with
  | new cmd app flags hbh e2e =>
    simp only [MState.step]
    split
    · exact ⟨Msg.new_good _ _ _ _ _, hst⟩
    · exact ⟨hm, hst⟩
  | val v => exact ⟨hm, ⟨hop, hst⟩⟩
  | grpNew => exact ⟨hm, ⟨⟨trivial, trivial⟩, hst⟩⟩
  | grpAddAvp code vendor flags =>
    simp only [MState.step]
    split
    · rename_i v ms rest heq
      rw [heq] at hst
      obtain ⟨hv, hg, hr⟩ := hst
      have ha := Avp.new_good code vendor flags v hv (hop v _ heq)
      have hg' := (Value.good_grouped ms).mp hg
      exact ⟨hm, ⟨(Value.good_grouped _).mpr ⟨(WFList_append _ _).mpr ⟨hg'.1, ha.1⟩,
        (ConsList_append _ _).mpr ⟨hg'.2, ha.2⟩⟩, hr⟩⟩
    · exact ⟨hm, hst⟩
  | grpAdd =>
    simp only [MState.step]
    split
    · rename_i a ms rest heq
      rw [heq] at hst
      obtain ⟨ha, hg, hr⟩ := hst
      have hg' := (Value.good_grouped ms).mp hg
      exact ⟨hm, ⟨(Value.good_grouped _).mpr ⟨(WFList_append _ _).mpr ⟨hg'.1, ha.1⟩,
        (ConsList_append _ _).mpr ⟨hg'.2, ha.2⟩⟩, hr⟩⟩
    · exact ⟨hm, hst⟩
  | avpNew code vendor flags =>
    simp only [MState.step]
    split
    · rename_i v rest heq
      rw [heq] at hst
      exact ⟨hm, ⟨Avp.new_good code vendor flags v hst.1 (hop v _ heq), hst.2⟩⟩
    · exact ⟨hm, hst⟩
  | avpName n =>
    simp only [MState.step]
    split
    · rename_i v rest heq
      rw [heq] at hst
      split
      · rename_i a hfn
        unfold Avp.fromName at hfn
        cases hd : s.dict.getByName n with
        | none => rw [hd] at hfn; cases hfn
        | some d =>
          rw [hd] at hfn
          simp only [Option.map_some, Option.some.injEq] at hfn
          subst hfn
          exact ⟨hm, ⟨Avp.new_good _ _ _ v hst.1 (hop v _ d heq hd), hst.2⟩⟩
      · exact ⟨hm, hst.2⟩
    · exact ⟨hm, hst⟩
  | add =>
    simp only [MState.step]
    split
    · rename_i a rest heq
      rw [heq] at hst
      exact ⟨Msg.add_good hm hst.1, hst.2⟩
    · exact ⟨hm, hst⟩
  | addAvp code vendor flags =>
    simp only [MState.step]
    split
    · rename_i v rest heq
      rw [heq] at hst
      exact ⟨Msg.add_good hm (Avp.new_good code vendor flags v hst.1 (hop v _ heq)), hst.2⟩
    · exact ⟨hm, hst⟩
  | addByName n =>
    simp only [MState.step]
    split
    · rename_i v rest heq
      rw [heq] at hst
      split
      · rename_i m' hfn
        unfold Msg.addByName Avp.fromName at hfn
        cases hd : s.dict.getByName n with
        | none => rw [hd] at hfn; cases hfn
        | some d =>
          rw [hd] at hfn
          simp only [Option.map_some, Option.some.injEq] at hfn
          subst hfn
          exact ⟨Msg.add_good hm (Avp.new_good _ _ _ v hst.1 (hop v _ d heq hd)), hst.2⟩
      · exact ⟨hm, hst.2⟩
    · exact ⟨hm, hst⟩
  | decode bs =>
    simp only [MState.step]
    split
    · rename_i m' hd
      obtain ⟨h1, h2⟩ := hop m' hd
      exact ⟨decMsg_good hd h1 h2, hst⟩
    · exact ⟨hm, hst⟩
  | grpFromAvp i =>
    simp only [MState.step]
    split
    · rename_i a hi
      split
      · rename_i ms hv
        have hmem := List.mem_of_getElem? hi
        have hg := Avp.good_value ⟨WFList_mem hm.wf hmem, ConsList_mem hm.cons hmem⟩
        rw [hv] at hg
        exact ⟨hm, ⟨hg, hst⟩⟩
      · exact ⟨hm, hst⟩
    · exact ⟨hm, hst⟩
  | avpFromMsg i =>
    simp only [MState.step]
    split
    · rename_i a hi
      have hmem := List.mem_of_getElem? hi
      exact ⟨hm, ⟨⟨WFList_mem hm.wf hmem, ConsList_mem hm.cons hmem⟩, hst⟩⟩
    · exact ⟨hm, hst⟩
  | reencode =>
    simp only [MState.step]
    split
    · exact ⟨hm, hst⟩
    · split
      · rename_i m' hd
        obtain ⟨h1, h2⟩ := hop m' hd
        exact ⟨decMsg_good hd h1 h2, hst⟩
      · exact ⟨hm, hst⟩

/-- ... hence every state a history reaches satisfies it (induction over the operation list, no bound) -/
theorem C01_run (cfg : Cfg) : ∀ (ops : List Op) (s : MState), s.Good → OpsOk cfg s ops → (s.run cfg ops).Good
  | [], s, hs, _ => hs
  | op :: ops, s, hs, hok => by
    simp only [MState.run, List.foldl_cons]
    exact C01_run cfg ops _ (C01_step cfg s op hs hok.1) hok.2

/-- **C01.** For every construction history inside the quantifier, the message that results encodes without
error to exactly the octets the independent RFC 6733 encoder produces for its content, and the length it reports
about itself is the number of octets produced (which the 24-bit header field carries exactly). -/
theorem C01_encode_exact (cfg : Cfg) (D : Dict) (ops : List Op)
    (hok : OpsOk cfg { dict := D } ops) :
    let m := (MState.run cfg { dict := D } ops).msg
    m.length < 16777216 →
      m.enc = ⟨Spec.encode m.abs, none⟩ ∧ (Spec.encode m.abs).length = m.length ∧ m.Good := by
  intro m h24
  have hg : (MState.run cfg { dict := D } ops).Good :=
    C01_run cfg ops _ ⟨Msg.new_good _ _ _ _ _, trivial⟩ hok
  have := Msg.enc_spec m hg.msg.wf hg.msg.cons hg.msg.len h24
  exact ⟨this.1, this.2, hg.msg⟩

/-- sanity corollaries about the independent encoder itself (what the statement above is measured against):
20-octet header first, octets 1..3 = total length, V bit set exactly when a vendor id is present -/
theorem C01_spec_layout (s : SMsg) :
    (Spec.encode s).length = 20 + (encodeAvps s.avps).length ∧
    (Spec.encode s).take 4 = s.version :: u24be (20 + (encodeAvps s.avps).length) := by
  simp [Spec.encode, u24be, u32be]; omega

theorem C01_spec_vbit (code : UInt32) (vendor : Option UInt32) (m p : Bool) (d : SData) :
    ((SAvp.mk code vendor m p d).encode.getD 4 0 &&& 0x80 != 0) = vendor.isSome := by
  cases vendor <;> cases m <;> cases p <;> simp [SAvp.encode, u32be, u24be] <;> decide

/-- every AVP occupies a multiple of four octets (so every AVP starts 4-aligned) and its padding is zero -/
theorem C01_spec_aligned (a : SAvp) : a.encode.length % 4 = 0 := by
  cases a with
  | mk code vendor m p d =>
    cases vendor <;> simp [SAvp.encode, u32be, u24be, padTo4] <;> omega

/-! non-vacuity: a concrete history with a vendor AVP and a group is inside the quantifier -/
example : OpsOk ⟨fun _ _ => false, 32, {}⟩ {}
    [.new 272 4 0x80 1 2, .val (.unsigned32 5), .addAvp 7 (some 9) 0x40, .grpNew, .val (.utf8 [0x61]),
     .grpAddAvp 3 none 0, .addAvp 8 none 0] := by
  simp [OpsOk, OpOk, MState.step, Value.Good, Value.WF, Value.Cons, Value.leafWF, utf8Valid, hdrLen, Value.len,
    lenList, Avp.padded, Avp.new, Avp.len, Avp.padding, pad, Tables.cmdKnown, Tables.appKnown]

end Dia
