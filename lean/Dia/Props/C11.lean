import Dia.ClientPolite
import Dia.ClientWire
import Dia.ClientEmbed
import Dia.EndToEnd
import Dia.ClientMultiPolite
/-! # C11 - Client delivers each answer to the request it belongs to. Property theorems only.
The client is the labelled transition system of `Dia/Client.lean`; a *run* is any list of labels, i.e. any
interleaving of the sender, the reader task and an arbitrary peer, at the granularity of the code's critical
sections. -/
namespace Dia.Cl

/-- **C11, safety - every interleaving, every peer.** Whatever a response future holds is a message the peer emitted,
and its hop-by-hop identifier is the identifier of that future's own request. -/
theorem C11_safety (ls : List Label) (s : St) (h : run init ls = some s) (w : Nat) (m : Msg)
    (hw : w < s.nW) (hg : s.status w = .got m) : m.hbh = s.hbhOf w ∧ m ∈ s.emitted :=
  (inv_run ls inv_init h).got_ok w m hw hg

/-- **C11, delivery.** In a run where ids are fresh and the peer answers each started request at most once and sends
nothing else (`polite`: the causality assumption of the quantifier spelled out): whatever the interleaving, once the reader has finished processing (nothing left on the wire,
nothing in its hands), every answer the peer emitted sits in the future of the request with that very id. -/
theorem C11_delivery (ls : List Label) (s : St) (hs : Hist) (hp : politeRun init {} ls)
    (h : runP init {} ls = some (s, hs)) (hw : s.wire = []) (hr : s.reader = .running)
    (m : Msg) (hm : m ∈ s.emitted) : ∃ w, w < s.nW ∧ s.hbhOf w = m.hbh ∧ s.status w = .got m := by
  have hi := inv2_run ls inv2_init hp h
  rcases hi.k_where m hm with h1 | h2 | ⟨w, h3⟩ | h4
  · rw [hw] at h1; cases h1
  · rw [hr] at h2; cases h2
  · rw [hr] at h3; cases h3
  · exact h4

/-- non-vacuity: the eager-answer schedule (answer decoded and removed before `sendReturn`) is a polite run -/
example : politeRun init {} [.sendBegin 7, .write, .peerEmit (.msg ⟨7, 0⟩), .readerDecode, .readerRemove,
    .write, .readerDeliver, .sendReturn] ∧
    ∃ s hs, runP init {} [.sendBegin 7, .write, .peerEmit (.msg ⟨7, 0⟩), .readerDecode, .readerRemove,
      .write, .readerDeliver, .sendReturn] = some (s, hs) ∧ s.wire = [] ∧ s.reader = .running ∧ s.status 0 = .got ⟨7, 0⟩ := by
  refine ⟨by simp [politeRun, polite, step, init, upd, Hist.step], _, _, rfl, by decide, by decide, by decide⟩


/-- **C11, at most once.** In such a run no answer is delivered to more than one future -/
theorem C11_once (ls : List Label) (s : St) (hs : Hist) (hp : politeRun init {} ls)
    (h : runP init {} ls = some (s, hs)) (w w' : Nat) (m : Msg) (hw : w < s.nW) (hw' : w' < s.nW)
    (hg : s.status w = .got m) (hg' : s.status w' = .got m) : w = w' := by
  have hi := inv2_run ls inv2_init hp h
  have h1 := (hi.base.got_ok w m hw hg).1
  have h2 := (hi.base.got_ok w' m hw' hg').1
  exact hi.k_uniq w w' hw hw' (by rw [← h1, ← h2])

/-- **how answer bytes are segmented does not matter.** The items of the transition system above are what the stream
reader extracts from the peer's octets; on any script that delivers a concatenation of acceptable answer frames -
split anywhere, with `Pending` anywhere - the reader sees exactly those answers in order, so every statement above holds
for every segmentation of the same octets. (`Dia/ClientWire.lean`, from `C06_read_all`.) -/
theorem C11_segmentation_irrelevant (cfg : Dia.Cfg) (dict : Dia.Lookup) (frames : List Dia.Bytes) (msgs : List Dia.Msg)
    (evs evs2 : List Dia.REv) (more : Dia.Bytes) (hl : frames.length = msgs.length)
    (hacc : ∀ i (h1 : i < frames.length) (h2 : i < msgs.length), Dia.Accepts cfg dict frames[i] msgs[i])
    (hne : Dia.noEmpty evs) (hne2 : Dia.noEmpty evs2)
    (hflat : Dia.flat evs = frames.flatten ++ more) (hflat2 : Dia.flat evs2 = frames.flatten ++ more) :
    Dia.itemsOf cfg dict frames.length evs = msgs.map Dia.Msg.item ∧
    Dia.itemsOf cfg dict frames.length evs = Dia.itemsOf cfg dict frames.length evs2 := by
  have h1 := Dia.itemsOf_frames cfg dict frames msgs evs more hl hacc hne hflat
  have h2 := Dia.itemsOf_frames cfg dict frames msgs evs2 more hl hacc hne2 hflat2
  exact ⟨h1, by rw [h1, h2]⟩

/-- **server and client put together (octets).** What the server's per-connection loop writes - reading acceptable
requests in any segmentation, answering with the handler's (consistent, typed, at most 1 MiB) answers over a stream that takes
octets in arbitrary pieces - is, for a client reading those octets in any pieces, exactly the handler's answers in order; and
the handler was called with exactly the requests. (`Dia/EndToEnd.lean`: C08_all_good, C02_roundtrip and C06_read_all composed.) -/
theorem C11_server_to_client (cfg : Dia.Cfg) (hf : cfg.tables.Fit) (dict : Dia.Lookup) (frames : List Dia.Bytes)
    (reqs answers : List Dia.Msg) (evs : List Dia.REv) (w : List Dia.WEv) (evsC : List Dia.REv) (more : Dia.Bytes)
    (hl1 : frames.length = reqs.length) (hl2 : answers.length = reqs.length)
    (hacc : ∀ i (h1 : i < frames.length) (h2 : i < reqs.length), Dia.Accepts cfg dict frames[i] reqs[i])
    (hans : ∀ a ∈ answers, a.Good ∧ a.HeaderOk cfg.tables ∧ Dia.TypedList dict a.avps ∧ a.length ≤ 1048576 ∧
      Dia.depthList a.avps ≤ cfg.limit)
    (hne : Dia.noEmpty evs) (hflat : Dia.flat evs = frames.flatten) (hw : Dia.neverFails w)
    (hneC : Dia.noEmpty evsC)
    (hflatC : Dia.flat evsC = (Dia.serve cfg dict (answers.map .ok) evs w).written ++ more) :
    (Dia.serve cfg dict (answers.map .ok) evs w).calls = reqs ∧
    Dia.itemsOf cfg dict answers.length evsC = answers.map Dia.Msg.item :=
  Dia.server_to_client cfg hf dict frames reqs answers evs w evsC more hl1 hl2 hacc hans hne hflat hw hneC hflatC

/-- **end to end.** ... and in any polite run of the client whose peer is that server - the messages the peer emitted include
what the stream carries - once the reader has nothing left to process, every answer the handler gave sits in the future of the
request with that answer's hop-by-hop id: whatever the segmentation on either side and whatever the interleaving of the
client's sender and reader. -/
theorem C11_end_to_end (cfg : Dia.Cfg) (hf : cfg.tables.Fit) (dict : Dia.Lookup) (frames : List Dia.Bytes)
    (reqs answers : List Dia.Msg) (evs : List Dia.REv) (w : List Dia.WEv) (evsC : List Dia.REv) (more : Dia.Bytes)
    (hl1 : frames.length = reqs.length) (hl2 : answers.length = reqs.length)
    (hacc : ∀ i (h1 : i < frames.length) (h2 : i < reqs.length), Dia.Accepts cfg dict frames[i] reqs[i])
    (hans : ∀ a ∈ answers, a.Good ∧ a.HeaderOk cfg.tables ∧ Dia.TypedList dict a.avps ∧ a.length ≤ 1048576 ∧
      Dia.depthList a.avps ≤ cfg.limit)
    (hne : Dia.noEmpty evs) (hflat : Dia.flat evs = frames.flatten) (hw : Dia.neverFails w)
    (hneC : Dia.noEmpty evsC)
    (hflatC : Dia.flat evsC = (Dia.serve cfg dict (answers.map .ok) evs w).written ++ more)
    (ls : List Label) (s : St) (hs : Hist) (hp : politeRun init {} ls) (h : runP init {} ls = some (s, hs))
    (hemit : ∀ m, Item.msg m ∈ Dia.itemsOf cfg dict answers.length evsC → m ∈ s.emitted)
    (hwire : s.wire = []) (hr : s.reader = .running) :
    ∀ a ∈ answers, ∃ wt, wt < s.nW ∧ s.hbhOf wt = a.hbh.toNat ∧ s.status wt = .got ⟨a.hbh.toNat, a.e2e.toNat⟩ := by
  intro a ha
  have hitems := (C11_server_to_client cfg hf dict frames reqs answers evs w evsC more hl1 hl2 hacc hans hne hflat hw
    hneC hflatC).2
  have hmem : Item.msg ⟨a.hbh.toNat, a.e2e.toNat⟩ ∈ Dia.itemsOf cfg dict answers.length evsC := by
    rw [hitems]
    exact List.mem_map.mpr ⟨a, ha, rfl⟩
  exact C11_delivery ls s hs hp h hwire hr ⟨a.hbh.toNat, a.e2e.toNat⟩ (hemit _ hmem)

/-- non-vacuity of the hypotheses about the server side: the header-only request of `Dia/Examples.lean`, answered by a
message of the same shape, read in two pieces, written one octet at a time - the client reader gets exactly that answer -/
example : Dia.itemsOf Dia.exCfg Dia.exDictNone 1
    [.data ((Dia.serve Dia.exCfg Dia.exDictNone [.ok Dia.exFrameMsg] [.data (Dia.exFrame.take 7), .pending, .data (Dia.exFrame.drop 7)]
      [.accept 1, .pending, .accept 1]).written)] = [Dia.exFrameMsg.item] := by
  have h := (C11_server_to_client Dia.exCfg Dia.defaultTables_fit Dia.exDictNone [Dia.exFrame] [Dia.exFrameMsg] [Dia.exFrameMsg]
    [.data (Dia.exFrame.take 7), .pending, .data (Dia.exFrame.drop 7)] [.accept 1, .pending, .accept 1]
    [.data ((Dia.serve Dia.exCfg Dia.exDictNone [.ok Dia.exFrameMsg] [.data (Dia.exFrame.take 7), .pending, .data (Dia.exFrame.drop 7)]
      [.accept 1, .pending, .accept 1]).written)] [] rfl rfl
    (fun i h1 h2 => by
      have : i = 0 := by simp at h1; omega
      subst this; exact Dia.exFrame_accepts)
    (fun a ha => by
      simp at ha; subst ha
      exact ⟨⟨trivial, trivial, rfl⟩, ⟨by decide, by decide⟩, trivial, by decide, by decide⟩)
    (by simp [Dia.noEmpty, Dia.exFrame]) (by decide) (by intro e he; simp at he; rcases he with rfl | rfl | rfl <;> simp [Dia.WEv.good]) ?_ (by simp [Dia.flat])).2
  · simpa using h
  · have hw : (Dia.serve Dia.exCfg Dia.exDictNone [.ok Dia.exFrameMsg]
        [.data (Dia.exFrame.take 7), .pending, .data (Dia.exFrame.drop 7)] [.accept 1, .pending, .accept 1]).written = Dia.exFrame := by
      have := (Dia.C08_all_good Dia.exCfg Dia.exDictNone [Dia.exFrame] [Dia.exFrameMsg] [Dia.exFrameMsg]
        [.data (Dia.exFrame.take 7), .pending, .data (Dia.exFrame.drop 7)] [.accept 1, .pending, .accept 1] rfl rfl
        (fun i h1 h2 => by
          have : i = 0 := by simp at h1; omega
          subst this; exact Dia.exFrame_accepts)
        (fun a ha => by simp at ha; subst ha; rw [Dia.exFrameMsg_enc])
        (by simp [Dia.noEmpty, Dia.exFrame]) (by decide) (by intro e he; simp at he; rcases he with rfl | rfl | rfl <;> simp [Dia.WEv.good])).2.1
      simp only [List.map_cons, List.map_nil] at this
      rw [this]; simp [Dia.exFrameMsg_enc]
    rw [hw]; simp [Dia.noEmpty, Dia.exFrame]

end Dia.Cl

/-! ## One client object, several connections
`Dia/ClientMulti.lean`: the connections of one `DiameterClient` share the table of waiting requests. -/
namespace Dia.Cm
open Dia.Cl (WStatus Item Reader SendPhase upd)

/-- **C11, safety, for a client with any number of connections, every interleaving of their readers, every peer.**
Whatever a response future holds is a message some peer emitted, and its hop-by-hop identifier is the identifier of that
future's own request - on whichever connection the answer arrived. -/
theorem C11_multi_safety (ls : List Label) (s : St) (h : run init ls = some s) (w : Nat) (m : Cl.Msg)
    (hw : w < s.nW) (hg : s.status w = .got m) : m.hbh = s.hbhOf w ∧ m ∈ s.emitted :=
  (inv_run ls inv_init h).got_ok w m hw hg

/-- two readers never hold the same waiter: an answer is handed to a future by at most one connection's reader -/
theorem C11_multi_one_deliverer (ls : List Label) (s : St) (h : run init ls = some s) (c c' : Nat) (m m' : Cl.Msg) (w : Nat)
    (h1 : s.reader c = .removed m w) (h2 : s.reader c' = .removed m' w) : c = c' :=
  (inv_run ls inv_init h).rem_uniq c c' m m' w h1 h2

/-- **the single-connection model is the one-connection slice of this one**: every run of `Dia.Cl` is, label for label,
a run of `Dia.Cm` after one `connect`, ending in the corresponding state - so `C11_safety`, `C11_delivery`, `C11_once`
and the C12 theorems of `Dia.Cl` are statements about runs of this model too. -/
theorem C11_single_is_slice (ls : List Cl.Label) (s' : Cl.St) (h : Cl.run Cl.init ls = some s') :
    run init (.connect :: ls.map liftL) = some (lift s') ∧ (lift s').nC = 1 ∧
    (lift s').status = s'.status ∧ (lift s').hbhOf = s'.hbhOf ∧ (lift s').reader 0 = s'.reader :=
  ⟨embed ls s' h, rfl, rfl, rfl, rfl⟩

/-- **C11, delivery, for a client with any number of connections.** In a run where ids are fresh and the peers answer each
started request at most once - on *whichever* connection they like, the table is shared - and send nothing else: whatever the
interleaving of the sender and the readers of all the connections, once every reader has finished processing (nothing left on
any wire, nothing in any reader's hands) every answer that was emitted sits in the future of the request with that very id.
(A 17-clause inductive invariant over polite runs, `Dia/ClientMultiPolite.lean`.) -/
theorem C11_multi_delivery (ls : List Label) (s : St) (hs : Hist) (hp : politeRun init {} ls)
    (h : runP init {} ls = some (s, hs)) (hw : ∀ c, s.wire c = []) (hr : ∀ c, s.reader c = .running)
    (m : Cl.Msg) (hm : m ∈ s.emitted) : ∃ w, w < s.nW ∧ s.hbhOf w = m.hbh ∧ s.status w = .got m := by
  have hi := inv2_run ls inv2_init hp h
  rcases hi.k_where m hm with ⟨c, h1⟩ | ⟨c, h2⟩ | ⟨c, w, h3⟩ | h4
  · rw [hw c] at h1; cases h1
  · rw [hr c] at h2; cases h2
  · rw [hr c] at h3; cases h3
  · exact h4

/-- ... and no answer is delivered to more than one future, whichever connections the answers arrived on -/
theorem C11_multi_once (ls : List Label) (s : St) (hs : Hist) (hp : politeRun init {} ls)
    (h : runP init {} ls = some (s, hs)) (w w' : Nat) (m : Cl.Msg) (hw : w < s.nW) (hw' : w' < s.nW)
    (hg : s.status w = .got m) (hg' : s.status w' = .got m) : w = w' := by
  have hi := inv2_run ls inv2_init hp h
  have h1 := (hi.base.got_ok w m hw hg).1
  have h2 := (hi.base.got_ok w' m hw' hg').1
  exact hi.k_uniq w w' hw hw' (by rw [← h1, ← h2])

/-- non-vacuity of the polite-run hypotheses: the answer to a request written on connection 0 arrives on connection 1 -/
example : politeRun init {} [.connect, .sendBegin 7, .write, .sendReturn, .connect, .peerEmit 1 (.msg ⟨7, 3⟩),
    .readerDecode 1, .readerRemove 1, .readerDeliver 1] ∧
    ∃ s hs, runP init {} [.connect, .sendBegin 7, .write, .sendReturn, .connect, .peerEmit 1 (.msg ⟨7, 3⟩),
      .readerDecode 1, .readerRemove 1, .readerDeliver 1] = some (s, hs) ∧ s.status 0 = .got ⟨7, 3⟩ := by
  refine ⟨by simp [politeRun, polite, step, init, upd, Hist.step], _, _, rfl, by decide⟩

/-- non-vacuity: the answer to a request written on connection 0 arrives on connection 1 (the table is shared) -/
example : ∃ s, run init [.connect, .sendBegin 7, .write, .sendReturn, .connect, .peerEmit 1 (.msg ⟨7, 3⟩),
    .readerDecode 1, .readerRemove 1, .readerDeliver 1] = some s ∧ s.status 0 = .got ⟨7, 3⟩ := by
  refine ⟨_, rfl, ?_⟩; decide

/-- **end to end with several connections.** Each connection `c` of one client object may be served by a server loop of its own
(`frames c`, `answers c`, its own segmentations in both directions). In any polite run of the client in which the peers emitted
what those streams carry, once every reader has nothing left to process, every answer any of the handlers gave - on whichever
connection - sits in the future of the request with that answer's hop-by-hop id. -/
theorem C11_multi_end_to_end (cfg : Dia.Cfg) (hf : cfg.tables.Fit) (dict : Dia.Lookup) (conns : List Nat)
    (frames : Nat → List Dia.Bytes) (reqs answers : Nat → List Dia.Msg) (evs : Nat → List Dia.REv) (w : Nat → List Dia.WEv)
    (evsC : Nat → List Dia.REv) (more : Nat → Dia.Bytes)
    (hl1 : ∀ c ∈ conns, (frames c).length = (reqs c).length) (hl2 : ∀ c ∈ conns, (answers c).length = (reqs c).length)
    (hacc : ∀ c ∈ conns, ∀ i (h1 : i < (frames c).length) (h2 : i < (reqs c).length),
      Dia.Accepts cfg dict (frames c)[i] (reqs c)[i])
    (hans : ∀ c ∈ conns, ∀ a ∈ answers c, a.Good ∧ a.HeaderOk cfg.tables ∧ Dia.TypedList dict a.avps ∧ a.length ≤ 1048576 ∧
      Dia.depthList a.avps ≤ cfg.limit)
    (hne : ∀ c ∈ conns, Dia.noEmpty (evs c)) (hflat : ∀ c ∈ conns, Dia.flat (evs c) = (frames c).flatten)
    (hw : ∀ c ∈ conns, Dia.neverFails (w c)) (hneC : ∀ c ∈ conns, Dia.noEmpty (evsC c))
    (hflatC : ∀ c ∈ conns, Dia.flat (evsC c) = (Dia.serve cfg dict ((answers c).map .ok) (evs c) (w c)).written ++ more c)
    (ls : List Label) (s : St) (hs : Hist) (hp : politeRun init {} ls) (h : runP init {} ls = some (s, hs))
    (hemit : ∀ c ∈ conns, ∀ m, Cl.Item.msg m ∈ Dia.itemsOf cfg dict (answers c).length (evsC c) → m ∈ s.emitted)
    (hwire : ∀ c, s.wire c = []) (hr : ∀ c, s.reader c = .running) :
    ∀ c ∈ conns, ∀ a ∈ answers c,
      ∃ wt, wt < s.nW ∧ s.hbhOf wt = a.hbh.toNat ∧ s.status wt = .got ⟨a.hbh.toNat, a.e2e.toNat⟩ := by
  intro c hc a ha
  have hitems := (Cl.C11_server_to_client cfg hf dict (frames c) (reqs c) (answers c) (evs c) (w c) (evsC c) (more c)
    (hl1 c hc) (hl2 c hc) (hacc c hc) (hans c hc) (hne c hc) (hflat c hc) (hw c hc) (hneC c hc) (hflatC c hc)).2
  have hmem : Cl.Item.msg ⟨a.hbh.toNat, a.e2e.toNat⟩ ∈ Dia.itemsOf cfg dict (answers c).length (evsC c) := by
    rw [hitems]
    exact List.mem_map.mpr ⟨a, ha, rfl⟩
  exact C11_multi_delivery ls s hs hp h hwire hr ⟨a.hbh.toNat, a.e2e.toNat⟩ (hemit c hc _ hmem)

end Dia.Cm
