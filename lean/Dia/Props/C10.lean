import Dia.AcceptThm
import Dia.AcceptNI
import Dia.AcceptFinish
/-! # C10 - One misbehaving connection cannot disturb the others. Property theorems only.
The listener is the labelled transition system of `Dia/Accept.lean`; a schedule is any list of labels (peers
arriving, sending anything, the accept loop, handshakes completing or failing or never completing, connection tasks
consuming items - including a handler panic, which kills that task only). -/
namespace Dia.Acc

def Reachable (cfg : Cfg) (s : St) : Prop := ∃ ls, run cfg {} ls = some s

/-- **frame property.** A step of another connection - whatever it is: a malformed frame, a stall, a reset, a failed
handshake, a handler panic - leaves this connection's component (phase, unread input, consumed input, answers
written) exactly as it was. -/
theorem C10_frame (cfg : Cfg) (s s' : St) (l : Label) (c : Nat) (h : step cfg s l = some s') (hc : l.conn ≠ c) :
    s'.phase c = s.phase c ∧ s'.inbox c = s.inbox c ∧ s'.consumed c = s.consumed c ∧ s'.out c = s.out c := by
  cases l with
  | arrive c' =>
    have hne : ¬ c = c' := fun e => hc (by simp [Label.conn, e])
    simp only [step] at h
    split at h <;> first | (cases h; simp [upd, hne]; done) | (cases h; done)
  | send c' it =>
    have hne : ¬ c = c' := fun e => hc (by simp [Label.conn, e])
    simp only [step] at h
    split at h <;> first | (cases h; simp [upd, hne]; done) | (cases h; done)
  | accept c' =>
    have hne : ¬ c = c' := fun e => hc (by simp [Label.conn, e])
    simp only [step] at h
    split at h
    · cases h
    · split at h
      · cases h
      · split at h <;> (cases h; simp [upd, hne])
  | hsDone c' =>
    have hne : ¬ c = c' := fun e => hc (by simp [Label.conn, e])
    simp only [step] at h
    split at h <;> first | (cases h; simp [upd, hne]; done) | (cases h; done)
  | hsFail c' =>
    have hne : ¬ c = c' := fun e => hc (by simp [Label.conn, e])
    simp only [step] at h
    split at h <;> first | (cases h; simp [upd, hne]; done) | (cases h; done)
  | serve c' =>
    have hne : ¬ c = c' := fun e => hc (by simp [Label.conn, e])
    simp only [step] at h
    split at h
    · cases h
    · split at h
      · cases h
      · rename_i it rest hin
        cases it <;> (cases h; simp [upd, hne])

/-- **non-interference over whole schedules.** For every schedule - any number of other connections doing anything
at all, interleaved in any way - connection `c` ends in exactly the state (phase, unread input, consumed input,
answers written) that it reaches when the schedule is stripped of everything that does not concern `c`. -/
theorem C10_noninterference (cfg : Cfg) (hinl : cfg.inline = false) (c : Nat) (ls : List Label) (s : St)
    (h : run cfg {} ls = some s) :
    ∃ s', run cfg {} (ls.filter (fun l => l.conn = c)) = some s' ∧ s.proj c = s'.proj c :=
  noninterference cfg hinl c ls {} {} s rfl rfl rfl h

/-- **answers are routed to their own connection, exactly once, in order.** In every reachable state, what has been
written to connection `c` is exactly one answer per request that `c`'s own peer sent and `c`'s task consumed, in
order, up to the first item that ended the connection - a function of `c`'s own input alone. -/
theorem C10_answers_routed (cfg : Cfg) (s : St) (h : Reachable cfg s) (c : Nat) :
    s.out c = owed (s.consumed c) ∧ ∀ id ∈ s.out c, Item.req id ∈ s.consumed c := by
  obtain ⟨ls, hr⟩ := h
  have hi := inv_run ls (inv_init cfg) hr
  refine ⟨hi.out_ok c, fun id hid => ?_⟩
  rw [hi.out_ok c] at hid
  exact mem_owed hid

/-- **the listener keeps accepting** (repaired code: the handshake runs in the connection's own task). In every
reachable state any connection waiting in the backlog can be accepted - the accept loop never waits on a peer. -/
theorem C10_accept_enabled (cfg : Cfg) (hinl : cfg.inline = false) (s : St) (h : Reachable cfg s) (c : Nat)
    (hb : s.phase c = .backlog) : (step cfg s (.accept c)).isSome = true := by
  obtain ⟨ls, hr⟩ := h
  have hbusy := (inv_run ls (inv_init cfg) hr).busy_cfg hinl
  simp only [step, hb, hbusy]
  cases cfg.tls <;> simp

/-- **every connection makes progress on its own.** A connection that is being served and has unread input can take
its next step whatever state the other connections and the listener are in. -/
theorem C10_serve_enabled (cfg : Cfg) (s : St) (c : Nat) (hp : s.phase c = .serving) (hin : s.inbox c ≠ []) :
    (step cfg s (.serve c)).isSome = true := by
  simp only [step, hp]
  cases hx : s.inbox c with
  | nil => exact absurd hx hin
  | cons it rest => cases it <;> simp

/-- **every served connection can finish on its own.** In any reachable state, whatever the other connections are
doing or have done: running only connection `c`'s own steps consumes its whole pending input and leaves on `c`
exactly the answers `c` is owed - one per request, in order, up to the first item that ends the connection. -/
theorem C10_can_finish (cfg : Cfg) (s : St) (h : Reachable cfg s) (c : Nat) (hp : s.phase c = .serving) :
    (serveAll cfg c (s.inbox c).length s).out c = owed (s.consumed c ++ s.inbox c) := by
  obtain ⟨ls, hr⟩ := h
  have hi := inv_run ls (inv_init cfg) hr
  exact serveAll_out cfg c _ s hp (Nat.le_refl _) (hi.out_ok c) (hi.serving_ok c hp)

/-- and a handshake that completes, fails or never completes concerns that connection only: completing is enabled
whenever the connection is in its handshake -/
theorem C10_handshake_enabled (cfg : Cfg) (s : St) (c : Nat) (hp : s.phase c = .handshake) :
    (step cfg s (.hsDone c)).isSome = true ∧ (step cfg s (.hsFail c)).isSome = true := by
  simp [step, hp]

/-- **negative witness for the code before fix D9** (`inline := true`, TLS on): one peer that connects and never
finishes its handshake leaves the next connection in the backlog with `accept` disabled. -/
theorem C10_inline_blocks :
    ∃ s, run ⟨true, true⟩ {} [.arrive 0, .arrive 1, .accept 0] = some s ∧ s.phase 1 = .backlog ∧
      (step ⟨true, true⟩ s (.accept 1)).isSome = false :=
  ⟨_, rfl, by decide, by decide⟩

/-! non-vacuity: a faulty peer (panic) between two good exchanges on other connections -/
example : ∃ s, run ⟨false, false⟩ {} [.arrive 0, .arrive 1, .accept 0, .accept 1, .send 0 (.req 7), .send 1 (.boom 9),
    .serve 1, .serve 0, .send 0 (.req 8), .serve 0] = some s ∧ s.out 0 = [7, 8] ∧ s.phase 1 = .dead :=
  ⟨_, rfl, by decide, by decide⟩

end Dia.Acc
