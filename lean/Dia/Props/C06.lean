import Dia.ServerThm
import Dia.StreamSeq
import Dia.StreamAll
import Dia.NoPanic
import Dia.HistoryThm
import Dia.Examples
/-! # C06 - Stream framing is independent of how bytes are segmented. Property theorems only.
A byte stream is a script of successive `poll_read` outcomes (`REv`: a chunk, `Pending`, end, error); `flat` is the
octet sequence it delivers. `noEmpty` says the script is a well-behaved one: no i/o error, no empty chunk. -/
namespace Dia

/-- segmentation independence of the primitive: `read_exact n` returns the next `n` octets of the stream and leaves
a script that delivers exactly the rest - for every chunking and every placement of `Pending` -/
theorem C06_read_exact (n : Nat) (evs : List REv) (hne : noEmpty evs) (hn : n ≤ (flat evs).length) :
    ∃ evs', readExact n evs = (.ok ((flat evs).take n), evs') ∧ flat evs' = (flat evs).drop n ∧ noEmpty evs' :=
  readExact_flat n evs hne hn

/-- **C06, read side, one call.** On any script that delivers an acceptable frame `f` followed by anything, one call
returns `f`'s message, takes exactly `|f|` octets - never an octet of what follows - and leaves exactly the rest. -/
theorem C06_read_frame (cfg : Cfg) (dict : Lookup) (evs : List REv) (f more : Bytes) (m : Msg)
    (hne : noEmpty evs) (hflat : flat evs = f ++ more) (ha : Accepts cfg dict f m) :
    ∃ evs', Codec.decode cfg dict evs = ⟨.ok m, evs', f.length⟩ ∧ flat evs' = more ∧ noEmpty evs' :=
  Codec.decode_frame cfg dict evs f more m hne hflat ha

/-- two scripts that deliver the same octets give the same message and the same consumption, whatever their
segmentation: the literal statement of segmentation independence -/
theorem C06_read_independent (cfg : Cfg) (dict : Lookup) (evs evs2 : List REv) (f more : Bytes) (m : Msg)
    (hne : noEmpty evs) (hne2 : noEmpty evs2) (hflat : flat evs = f ++ more) (hflat2 : flat evs2 = f ++ more)
    (ha : Accepts cfg dict f m) :
    (Codec.decode cfg dict evs).consumed = (Codec.decode cfg dict evs2).consumed ∧
    (∃ r r2, Codec.decode cfg dict evs = ⟨.ok m, r, f.length⟩ ∧ Codec.decode cfg dict evs2 = ⟨.ok m, r2, f.length⟩ ∧
      flat r = flat r2) := by
  obtain ⟨r, h1, h2, _⟩ := Codec.decode_frame cfg dict evs f more m hne hflat ha
  obtain ⟨r2, g1, g2, _⟩ := Codec.decode_frame cfg dict evs2 f more m hne2 hflat2 ha
  exact ⟨by rw [h1, g1], r, r2, h1, g1, by rw [h2, g2]⟩

/-- **C06, write side.** Writing to a stream that accepts octets in arbitrary partial amounts, with arbitrary pauses,
puts exactly the octets handed to `write_all` on the stream -/
theorem C06_write (bs : Bytes) (w : List WEv) (hw : neverFails w) :
    ∃ w', writeAll bs w = (true, bs, w') ∧ neverFails w' :=
  writeAll_ok bs w hw

/-- **C06, read side, whole stream.** Reading a stream that carries a concatenation of acceptable frames - followed by
anything - yields exactly those messages, in order, the i-th call consuming exactly the i-th frame, however the
octets are delivered. (Induction over the frame list; no bound on its length.) -/
theorem C06_read_all (cfg : Cfg) (dict : Lookup) (frames : List Bytes) (msgs : List Msg) (evs : List REv) (more : Bytes)
    (hl : frames.length = msgs.length)
    (hacc : ∀ i (h1 : i < frames.length) (h2 : i < msgs.length), Accepts cfg dict frames[i] msgs[i])
    (hne : noEmpty evs) (hflat : flat evs = frames.flatten ++ more) :
    decodeSeq cfg dict frames.length evs = (msgs.zip frames).map (fun mf => (COut.ok mf.1, mf.2.length)) :=
  decodeSeq_frames cfg dict frames msgs evs more hl hacc hne hflat

/-- **C06, read side, streams that also carry refused frames.** `Framed f`: the frame announces its own size, between 20
octets and 1 MiB. On a stream of such frames - whatever the message decoder thinks of their content: unknown command,
unknown AVP, broken text - the i-th call reports exactly the verdict on the i-th frame and consumes exactly that frame,
however the octets are delivered: a refused frame never costs an octet of its successors. (This is the function the
driver runs for `sdec`.) -/
theorem C06_read_refused (cfg : Cfg) (dict : Lookup) (frames : List Bytes) (evs : List REv) (more : Bytes)
    (hfr : ∀ f ∈ frames, Framed f) (hne : noEmpty evs) (hflat : flat evs = frames.flatten ++ more) :
    decodeSeqAll cfg dict frames.length evs = frames.map (fun f => (COut.ofDec (decMsg cfg dict f), f.length)) :=
  decodeSeqAll_framed cfg dict frames evs more hfr (fun f _ => decMsg_ne_panic cfg dict f) hne hflat

/-- **C06, write side, whole codec.** `Codec::encode` of a message whose bookkeeping is consistent, over a stream that
accepts octets in arbitrary partial amounts with arbitrary pauses, reports success and has put exactly the RFC 6733
encoding of the message on the stream -/
theorem C06_encode (m : Msg) (w : List WEv) (hw : neverFails w) (hg : m.Good) (h24 : m.length < 16777216) :
    Codec.encodeTo m w = (true, Spec.encode m.abs) := by
  have hs := (Msg.enc_spec m hg.wf hg.cons hg.len h24).1
  rw [Codec.encodeTo_ok m w hw (by rw [hs]), hs]

/-! non-vacuity: a header-only frame is acceptable (`exFrame_accepts`, Dia/Examples.lean), and a script that delivers
it in two pieces with a pause in between meets the hypotheses of the read-side theorems -/
example : noEmpty [.data (exFrame.take 3), .pending, .data (exFrame.drop 3)] ∧
    flat [.data (exFrame.take 3), .pending, .data (exFrame.drop 3)] = exFrame ++ [] := by
  refine ⟨?_, by decide⟩
  simp [noEmpty, exFrame]

example : ∃ evs', Codec.decode exCfg exDictNone [.data (exFrame.take 3), .pending, .data (exFrame.drop 3)] =
    ⟨.ok exFrameMsg, evs', 20⟩ ∧ flat evs' = [] ∧ noEmpty evs' :=
  C06_read_frame exCfg exDictNone _ exFrame [] exFrameMsg (by simp [noEmpty, exFrame]) (by decide) exFrame_accepts

end Dia
