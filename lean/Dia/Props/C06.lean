import Dia.ServerThm
/-! # C06 - Stream framing is independent of how bytes are segmented. Property theorems only.
A byte stream is a script of successive `poll_read` outcomes (`REv`: a chunk, `Pending`, end, error); `flat` is the
octet sequence it delivers. `noEmpty` says the script is a well-behaved one: no i/o error, no empty chunk. -/
namespace Dia

/-- segmentation independence of the primitive: `read_exact n` returns the next `n` octets of the stream and leaves
a script that delivers exactly the rest - for every chunking and every placement of `Pending` -/
theorem C06_read_exact (n : Nat) (evs : List REv) (hne : noEmpty evs) (hn : n ≤ (flat evs).length) :
    ∃ evs', readExact n evs = (.ok ((flat evs).take n), evs') ∧ flat evs' = (flat evs).drop n ∧ noEmpty evs' :=
  readExact_flat n evs hne hn

/-- **C06, read side, one call.** On any script that delivers an acceptable frame `f` followed by anything, one call
returns `f`'s message, takes exactly `|f|` octets - never an octet of what follows - and leaves exactly the rest. -/
theorem C06_read_frame (cfg : Cfg) (dict : Lookup) (evs : List REv) (f more : Bytes) (m : Msg)
    (hne : noEmpty evs) (hflat : flat evs = f ++ more) (ha : Accepts cfg dict f m) :
    ∃ evs', Codec.decode cfg dict evs = ⟨.ok m, evs', f.length⟩ ∧ flat evs' = more ∧ noEmpty evs' :=
  Codec.decode_frame cfg dict evs f more m hne hflat ha

/-- two scripts that deliver the same octets give the same message and the same consumption, whatever their
segmentation: the literal statement of segmentation independence -/
theorem C06_read_independent (cfg : Cfg) (dict : Lookup) (evs evs2 : List REv) (f more : Bytes) (m : Msg)
    (hne : noEmpty evs) (hne2 : noEmpty evs2) (hflat : flat evs = f ++ more) (hflat2 : flat evs2 = f ++ more)
    (ha : Accepts cfg dict f m) :
    (Codec.decode cfg dict evs).consumed = (Codec.decode cfg dict evs2).consumed ∧
    (∃ r r2, Codec.decode cfg dict evs = ⟨.ok m, r, f.length⟩ ∧ Codec.decode cfg dict evs2 = ⟨.ok m, r2, f.length⟩ ∧
      flat r = flat r2) := by
  obtain ⟨r, h1, h2, _⟩ := Codec.decode_frame cfg dict evs f more m hne hflat ha
  obtain ⟨r2, g1, g2, _⟩ := Codec.decode_frame cfg dict evs2 f more m hne2 hflat2 ha
  exact ⟨by rw [h1, g1], r, r2, h1, g1, by rw [h2, g2]⟩

/-- **C06, write side.** Writing to a stream that accepts octets in arbitrary partial amounts, with arbitrary pauses,
puts exactly the octets handed to `write_all` on the stream -/
theorem C06_write (bs : Bytes) (w : List WEv) (hw : neverFails w) :
    ∃ w', writeAll bs w = (true, bs, w') ∧ neverFails w' :=
  writeAll_ok bs w hw

end Dia
