import Dia.AcceptThm
/-! Non-interference over whole schedules: what a connection sees is what it would see alone. -/
namespace Dia.Acc

/-- the component of connection `c` -/
structure Proj where
  phase : Phase
  inbox : List Item
  consumed : List Item
  out : List Nat
deriving DecidableEq

def St.proj (s : St) (c : Nat) : Proj := ⟨s.phase c, s.inbox c, s.consumed c, s.out c⟩

theorem busy_none_step {cfg : Cfg} (hinl : cfg.inline = false) {s s' : St} {l : Label} (hb : s.busy = none)
    (h : step cfg s l = some s') : s'.busy = none := by
  cases l <;> simp only [step] at h
  case arrive c => split at h <;> first | (cases h; exact hb) | cases h
  case send c it => split at h <;> first | (cases h; exact hb) | cases h
  case accept c =>
    split at h
    · cases h
    · split at h
      · cases h
      · split at h <;> (cases h; simp [hinl, hb])
  case hsDone c => split at h <;> first | (cases h; simp [hb]; done) | (cases h; done)
  case hsFail c => split at h <;> first | (cases h; simp [hb]; done) | (cases h; done)
  case serve c =>
    split at h
    · cases h
    · split at h
      · cases h
      · rename_i it rest hin; cases it <;> (cases h; exact hb)

/-- a step of connection `c` is determined by `c`'s own component (the accept loop being free) -/
theorem step_congr {cfg : Cfg} {s1 s2 s1' : St} {l : Label} {c : Nat} (hl : l.conn = c)
    (hp : s1.proj c = s2.proj c) (hb1 : s1.busy = none) (hb2 : s2.busy = none)
    (h : step cfg s1 l = some s1') : ∃ s2', step cfg s2 l = some s2' ∧ s1'.proj c = s2'.proj c := by
  simp only [St.proj, Proj.mk.injEq] at hp
  obtain ⟨p1, p2, p3, p4⟩ := hp
  cases l <;> simp only [Label.conn] at hl <;> subst hl <;> simp only [step] at h ⊢
  case arrive c =>
    split at h
    · cases h; rename_i hph; rw [p1] at hph
      exact ⟨_, by rw [if_pos hph], by simp [St.proj, upd, p2, p3, p4]⟩
    · cases h
  case send c it =>
    split at h
    · cases h
    · cases h; rename_i hph; rw [p1] at hph
      exact ⟨_, by rw [if_neg hph], by simp [St.proj, upd, p1, p2, p3, p4]⟩
  case accept c =>
    split at h
    · cases h
    · rename_i hph; rw [p1] at hph
      split at h
      · cases h
      · rw [if_neg hph, if_neg (by simp [hb2])]
        split at h
        · rename_i ht; cases h; exact ⟨_, by rw [if_pos ht], by simp [St.proj, upd, p2, p3, p4]⟩
        · rename_i ht; cases h; exact ⟨_, by rw [if_neg ht], by simp [St.proj, upd, p2, p3, p4]⟩
  case hsDone c =>
    split at h
    · cases h
    · rename_i hph; rw [p1] at hph; cases h
      exact ⟨_, by rw [if_neg hph], by simp [St.proj, upd, p2, p3, p4]⟩
  case hsFail c =>
    split at h
    · cases h
    · rename_i hph; rw [p1] at hph; cases h
      exact ⟨_, by rw [if_neg hph], by simp [St.proj, upd, p2, p3, p4]⟩
  case serve c =>
    split at h
    · cases h
    · rename_i hph; rw [p1] at hph
      rw [if_neg hph]
      split at h
      · cases h
      · rename_i it rest hin
        rw [p2] at hin
        rw [hin]
        cases it <;> (cases h; exact ⟨_, rfl, by simp [St.proj, upd, p1, p3, p4]⟩)

theorem proj_frame {cfg : Cfg} {s s' : St} {l : Label} {c : Nat} (h : step cfg s l = some s') (hc : l.conn ≠ c) :
    s'.proj c = s.proj c := by
  cases l <;> simp only [step] at h
  case arrive c' =>
    have hne : ¬ c = c' := fun e => hc (by simp [Label.conn, e])
    split at h <;> first | (cases h; simp [St.proj, upd, hne]; done) | (cases h; done)
  case send c' it =>
    have hne : ¬ c = c' := fun e => hc (by simp [Label.conn, e])
    split at h <;> first | (cases h; simp [St.proj, upd, hne]; done) | (cases h; done)
  case accept c' =>
    have hne : ¬ c = c' := fun e => hc (by simp [Label.conn, e])
    split at h
    · cases h
    · split at h
      · cases h
      · split at h <;> (cases h; simp [St.proj, upd, hne])
  case hsDone c' =>
    have hne : ¬ c = c' := fun e => hc (by simp [Label.conn, e])
    split at h <;> first | (cases h; simp [St.proj, upd, hne]; done) | (cases h; done)
  case hsFail c' =>
    have hne : ¬ c = c' := fun e => hc (by simp [Label.conn, e])
    split at h <;> first | (cases h; simp [St.proj, upd, hne]; done) | (cases h; done)
  case serve c' =>
    have hne : ¬ c = c' := fun e => hc (by simp [Label.conn, e])
    split at h
    · cases h
    · split at h
      · cases h
      · rename_i it rest hin
        cases it <;> (cases h; simp [St.proj, upd, hne])

/-- **non-interference.** With the handshake in the connection's own task: whatever the other connections do - any
labels at all, in any interleaving - connection `c` ends in exactly the state it reaches when only its own labels are
run. -/
theorem noninterference (cfg : Cfg) (hinl : cfg.inline = false) (c : Nat) :
    ∀ (ls : List Label) (s1 s2 s1' : St), s1.proj c = s2.proj c → s1.busy = none → s2.busy = none →
      run cfg s1 ls = some s1' →
      ∃ s2', run cfg s2 (ls.filter (fun l => l.conn = c)) = some s2' ∧ s1'.proj c = s2'.proj c
  | [], s1, s2, s1', hp, _, _, h => by
    simp only [run, Option.some.injEq] at h
    subst h
    exact ⟨s2, rfl, hp⟩
  | l :: ls, s1, s2, s1', hp, hb1, hb2, h => by
    simp only [run] at h
    split at h
    · rename_i sa hsa
      have hba := busy_none_step hinl hb1 hsa
      by_cases hl : l.conn = c
      · obtain ⟨sb, hsb, hpb⟩ := step_congr hl hp hb1 hb2 hsa
        have hbb := busy_none_step hinl hb2 hsb
        obtain ⟨s2', hr, hq⟩ := noninterference cfg hinl c ls sa sb s1' hpb hba hbb h
        refine ⟨s2', ?_, hq⟩
        simp only [List.filter, hl, decide_true, run, hsb]
        exact hr
      · have hfr := proj_frame hsa hl
        obtain ⟨s2', hr, hq⟩ := noninterference cfg hinl c ls sa s2 s1' (by rw [hfr, hp]) hba hb2 h
        refine ⟨s2', ?_, hq⟩
        simp only [List.filter, hl, decide_false]
        exact hr
    · cases h

end Dia.Acc
