import Dia.Spec
import Dia.EncLen
namespace Dia
open Spec

theorem epoch_agrees : (epochOffset : Int) = RFC868 := by decide

mutual
def Value.abs : Value → SData
  | .grouped ms => .grouped (absList ms)
  | .address a => .address a | .ipv4 b => .ipv4 b | .ipv6 b => .ipv6 b | .identity b => .identity b | .uri b => .uri b
  | .enumerated b => .enumerated b | .float32 b => .float32 b | .float64 b => .float64 b
  | .integer32 b => .integer32 b | .integer64 b => .integer64 b | .octets b => .octets b
  | .time secs _ => .time (secs + epochOffset).toNat
  | .unsigned32 b => .unsigned32 b | .unsigned64 b => .unsigned64 b | .utf8 b => .utf8 b
def Avp.abs : Avp → SAvp
  | .mk code vendor m p _ _ v => .mk code vendor m p v.abs
def absList : List Avp → List SAvp
  | [] => []
  | a :: as => a.abs :: absList as
end

theorem u32be_eq (n : Nat) : u32be n = be32 n := rfl
theorem u24be_eq (n : Nat) : u24be n = be24 n := rfl
theorem u64be_eq (n : Nat) : u64be n = be64 n := rfl
theorem padTo4_eq (n : Nat) : padTo4 n = pad n := rfl

/- C01 core: a consistent, well-formed tree is encoded by the code exactly as RFC 6733 prescribes -/
mutual
theorem Value.enc_spec : ∀ v : Value, v.WF → v.Cons → v.enc = ⟨v.abs.bytes, none⟩
  | .grouped ms, hwf, hc => by
    simp only [Value.WF, Value.Cons] at hwf hc
    simp only [Value.enc, Value.abs, SData.bytes]
    exact encList_spec ms hwf hc
  | .address (.v4 b), _, _ => rfl | .address (.v6 b), _, _ => rfl | .address (.e164 s), _, _ => rfl
  | .ipv4 b, _, _ => rfl | .ipv6 b, _, _ => rfl | .identity b, _, _ => rfl | .uri b, _, _ => rfl
  | .enumerated b, _, _ => rfl | .float32 b, _, _ => rfl | .float64 b, _, _ => rfl
  | .integer32 b, _, _ => rfl | .integer64 b, _, _ => rfl | .octets b, _, _ => rfl
  | .time s n, hwf, _ => by
    simp only [Value.WF, Value.leafWF] at hwf
    have hR : RFC868 = 2208988800 := rfl
    have hE : (epochOffset : Int) = 2208988800 := by decide
    simp only [Value.enc, Value.abs, SData.bytes]
    rw [if_neg (by omega), if_neg (by omega), hE, hR]
    rfl
  | .unsigned32 b, _, _ => rfl | .unsigned64 b, _, _ => rfl | .utf8 b, _, _ => rfl
theorem Avp.enc_spec : ∀ a : Avp, a.WF → a.Cons → a.enc = ⟨a.abs.encode, none⟩
  | .mk code vendor m p len padding v, hwf, hc => by
    obtain ⟨hlen24, hvwf⟩ := hwf
    obtain ⟨hc1, hc2, hc3⟩ := hc
    have hv := Value.enc_spec v hvwf hc3
    have hl := (Value.enc_len v hvwf hc3 (by rw [hv])).1
    rw [hv] at hl
    simp only at hl
    simp only [Avp.enc, Avp.abs, SAvp.encode]
    rw [encHdr_ok hlen24, Enc.andThen_ok, hv, Enc.andThen_ok]
    simp only [Enc.ok, hdrBytes, flagsByte, u32be_eq, u24be_eq, padTo4_eq, hl, hc1, hc2]
    cases vendor <;> simp [hdrLen]
theorem encList_spec : ∀ ms : List Avp, WFList ms → ConsList ms → encList ms = ⟨encodeAvps (absList ms), none⟩
  | [], _, _ => rfl
  | a :: as, hwf, hc => by
    simp only [encList, absList, encodeAvps]
    rw [Avp.enc_spec a hwf.1 hc.1, Enc.andThen_ok, encList_spec as hwf.2 hc.2]
end

def Msg.abs (m : Msg) : SMsg := ⟨m.version, m.flags, m.cmd, m.app, m.hbh, m.e2e, absList m.avps⟩

/-- C01 for the model: a consistent message is encoded exactly as `Spec.encode` says, and its reported length is the
number of octets produced. -/
theorem Msg.enc_spec (m : Msg) (hwf : WFList m.avps) (hc : ConsList m.avps)
    (hlen : m.length = 20 + lenList m.avps) (h24 : m.length < 16777216) :
    m.enc = ⟨Spec.encode m.abs, none⟩ ∧ (Spec.encode m.abs).length = m.length := by
  have hb := encList_spec m.avps hwf hc
  have hl := (encList_len m.avps hwf hc (by rw [hb])).1
  rw [hb] at hl
  simp only at hl
  constructor
  · unfold Msg.enc
    rw [if_neg (by omega)]
    simp only [Enc.ok, Enc.andThen_ok, hb, Spec.encode, Msg.abs, u24be_eq, u32be_eq, hl, hlen]
    simp
  · simp only [Spec.encode, Msg.abs, hl, List.length_append, List.length_cons, List.length_nil, u24be_eq, u32be_eq,
      be24_length, be32_length]
    omega

end Dia
