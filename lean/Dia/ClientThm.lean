import Dia.Client
/-! The invariant of the client transition system (all runs). -/
namespace Dia.Cl

structure Inv (s : St) : Prop where
  cache_ok : ∀ h w, s.cache h = some w → w < s.nW ∧ s.hbhOf w = h ∧ s.status w = .pending
  got_ok : ∀ w m, w < s.nW → s.status w = .got m → m.hbh = s.hbhOf w ∧ m ∈ s.emitted
  dec_ok : ∀ m, s.reader = .decoded m → m ∈ s.emitted
  rem_ok : ∀ m w, s.reader = .removed m w →
      m ∈ s.emitted ∧ w < s.nW ∧ s.hbhOf w = m.hbh ∧ s.status w = .pending ∧ s.cache (s.hbhOf w) ≠ some w
  wire_ok : ∀ m, Item.msg m ∈ s.wire → m ∈ s.emitted
  pending_ok : ∀ w, w < s.nW → s.status w = .pending →
      s.cache (s.hbhOf w) = some w ∨ ∃ m, s.reader = .removed m w
  stopped_ok : s.reader = .stopped → s.closed = true ∧ ∀ h, s.cache h = none

theorem inv_init : Inv init := by
  constructor <;> simp [init]

theorem inv_step {s s' : St} (l : Label) (hi : Inv s) (h : step s l = some s') : Inv s' := by
  obtain ⟨c1, c2, c3, c4, c5, c6, c7⟩ := hi
  cases l <;> simp only [step] at h
  case sendBegin hb =>
    split at h
    · cases h
    · split at h
      · cases h; exact ⟨c1, c2, c3, c4, c5, c6, c7⟩
      · cases h
        cases hc : s.cache hb <;> constructor <;> (try simp only [hc, upd]) <;> grind
  case write =>
    split at h <;> first | (cases h; constructor <;> grind) | cases h
  case sendReturn =>
    split at h <;> first | (cases h; constructor <;> grind) | cases h
  case sendFail =>
    split at h <;> first | (cases h; constructor <;> grind) | cases h
  case peerEmit it =>
    cases h
    constructor <;> grind
  case readerDecode =>
    split at h
    · cases h
    · split at h <;> first | (cases h; constructor <;> grind) | cases h
  case readerRemove =>
    split at h
    · split at h <;> (cases h; constructor <;> (try simp only [upd]) <;> grind)
    · cases h
  case readerDeliver =>
    split at h
    · cases h; constructor <;> (try simp only [upd]) <;> grind
    · cases h
  case readerStop =>
    split at h
    · cases h
    · cases h; constructor <;> grind

theorem inv_run {s s' : St} (ls : List Label) (hi : Inv s) (h : run s ls = some s') : Inv s' := by
  induction ls generalizing s with
  | nil => simp [run] at h; exact h ▸ hi
  | cons l ls ih =>
    simp only [run] at h
    split at h
    · rename_i s1 hs1; exact ih (inv_step l hi hs1) h
    · cases h

end Dia.Cl
