import Dia.EncLen
namespace Dia

theorem hdrBytes_length (code : UInt32) (vendor : Option UInt32) (m p : Bool) (len : Nat) :
    (hdrBytes code vendor m p len).length = (maskHdr vendor).length := by
  cases vendor <;> simp [hdrBytes, maskHdr]

theorem tyOf_ne_unknown (v : Value) : tyOf v ≠ .unknown := by cases v <;> simp [tyOf]

theorem match_leaf {α : Type} (A B : α) (f : Ty → α) : ∀ ty : Ty, ty ≠ .grouped → ty ≠ .unknown →
    (match ty with | .grouped => A | .unknown => B | t => f t) = f ty := by
  intro ty h1 h2
  cases ty <;> first | rfl | exact absurd rfl h1 | exact absurd rfl h2

theorem leaf_mask {v : Value} (h : tyOf v ≠ .grouped) : v.mask = List.replicate v.len .keep := by
  cases v <;> first | rfl | exact absurd rfl h

theorem pad_skip (pb r : Bytes) (k : Nat) (h : pb.length = k) : (Cur.inRange (pb ++ r)).skip k = .inRange r := by
  subst h; exact Cur.skip_append pb r

mutual
theorem decAvp_rt (cfg : Cfg) (dict : Lookup) : ∀ (fuel depth : Nat) (a : Avp) (noisy r : Bytes),
    a.Cons → a.WF → a.Typed dict → noisy.length = a.mask.length → a.enc = ⟨applyMask noisy a.mask, none⟩ →
    a.sz < fuel → depth + a.depth ≤ cfg.limit →
    decAvp cfg dict fuel depth (.inRange (noisy ++ r)) = .ok (a, .inRange r)
  | 0, _, _, _, _, _, _, _, _, _, hf, _ => by omega
  | fuel+1, depth, .mk code vendor m p len padding v, noisy, r, hc, hwf, hty, hnl, henc, hf, hd => by
    obtain ⟨hc1, hc2, hc3⟩ := hc
    obtain ⟨hlen24, hvwf⟩ := hwf
    obtain ⟨hdict, hvty⟩ := hty
    simp only [Avp.enc, Avp.mask] at henc hnl
    rw [encHdr_ok hlen24] at henc
    obtain ⟨_, he2, hbytes⟩ := Enc.andThen_eq_ok henc
    simp only at hbytes he2
    obtain ⟨hve, _, hvb⟩ := Enc.andThen_eq_ok (a := v.enc) (f := fun _ => Enc.ok (List.replicate padding 0))
      (bs := (v.enc.andThen fun _ => Enc.ok (List.replicate padding 0)).bytes) (by
        cases hx : (v.enc.andThen fun _ => Enc.ok (List.replicate padding 0)) with
        | mk b e => simp only [hx] at he2; subst he2; rfl)
    rw [hvb] at hbytes
    simp only [Enc.ok] at hbytes
    -- split the noisy octets into header, value and padding parts
    obtain ⟨hbn, rest1, hn1, hl1, hl2, hm1, hm2⟩ := applyMask_split hnl hbytes (hdrBytes_length _ _ _ _ _)
    have hvlen : v.enc.bytes.length = v.mask.length := by
      have := congrArg List.length hm2
      rw [applyMask_length _ _ hl2] at this
      simp only [List.length_append, List.length_replicate] at this
      omega
    obtain ⟨vbn, pbn, hn2, hl3, hl4, hm3, hm4⟩ := applyMask_split hl2 hm2 hvlen
    simp only [List.length_replicate] at hl4
    subst hn1 hn2
    simp only [decAvp, List.append_assoc]
    rw [decHdr_noisy hl1 hm1 hlen24]
    simp only [Out.bind_ok]
    rw [if_neg (by omega)]
    unfold checkedSub
    rw [if_neg (by omega)]
    simp only [Out.bind_ok]
    have hvl : len - hdrLen vendor = v.len := by omega
    rw [hvl, hdict]
    by_cases hg : tyOf v = .grouped
    · -- grouped value
      cases v with
      | grouped ms =>
        simp only [tyOf]
        simp only [Avp.depth, Value.depth] at hd
        rw [if_neg (by omega)]
        simp only [Value.enc] at hve hm3
        simp only [Value.mask] at hm3 hl3
        simp only [Value.Cons] at hc3
        simp only [Value.WF] at hvwf
        simp only [Value.Typed] at hvty
        simp only [Avp.sz, Value.sz] at hf
        simp only [Value.len] at hc1 hc2 hvl ⊢
        have hms : encList ms = ⟨applyMask vbn (maskList ms), none⟩ := by
          cases hx : encList ms with
          | mk b e => simp only [hx] at hve hm3; subst hve; rw [hm3]
        rw [decGroup_rt cfg dict fuel (depth+1) (lenList ms) 0 ms vbn (pbn ++ r) hc3 hvwf hvty hl3 hms
          (by omega) (by omega) (by omega) (by omega)]
        simp only [Out.bind_ok]
        rw [pad_skip pbn r _ (by omega), hc2]
      | _ => simp [tyOf] at hg
    · -- leaf value
      have hmask := leaf_mask hg
      rw [hmask] at hm3 hl3
      simp only [List.length_replicate] at hl3
      rw [applyMask_keep' vbn _ hl3] at hm3
      have hvenc : v.enc = ⟨vbn, none⟩ := by
        cases hx : v.enc with
        | mk b e => simp only [hx] at hve hm3; subst hve hm3; rfl
      have hleaf := decLeaf_rt (cfg := cfg) (r := pbn ++ r) hvwf hg hvenc
      split
      · rename_i heq; exact absurd heq hg
      · rename_i heq; exact absurd heq (tyOf_ne_unknown v)
      · rw [hleaf]
        simp only [Out.bind_ok]
        rw [pad_skip pbn r _ (by omega), hc2]
theorem decGroup_rt (cfg : Cfg) (dict : Lookup) : ∀ (fuel depth len off : Nat) (ms : List Avp) (noisy r : Bytes),
    ConsList ms → WFList ms → TypedList dict ms → noisy.length = (maskList ms).length →
    encList ms = ⟨applyMask noisy (maskList ms), none⟩ →
    szList ms < fuel → depth + depthList ms ≤ cfg.limit → off + lenList ms = len → len < 16777216 →
    decGroup cfg dict fuel depth len off (.inRange (noisy ++ r)) = .ok (ms, .inRange r)
  | 0, _, _, _, _, _, _, _, _, _, _, _, hf, _, _, _ => by omega
  | fuel+1, depth, len, off, [], noisy, r, _, _, _, hnl, _, _, _, hoff, _ => by
    simp only [maskList, List.length_nil] at hnl
    have : noisy = [] := List.eq_nil_of_length_eq_zero hnl
    subst this
    simp only [lenList] at hoff
    simp only [decGroup, List.nil_append]
    rw [if_neg (by omega), if_pos (by omega)]
  | fuel+1, depth, len, off, a :: as, noisy, r, hc, hwf, hty, hnl, henc, hf, hd, hoff, hlen => by
    simp only [maskList, encList, lenList, szList, depthList] at hnl henc hf hd hoff
    obtain ⟨hae, hase, hbytes⟩ := Enc.andThen_eq_ok henc
    obtain ⟨al1, al2⟩ := Avp.enc_len a hwf.1 hc.1 hae
    obtain ⟨an, asn, hn, hl1, hl2, hm1, hm2⟩ := applyMask_split hnl hbytes (by omega)
    subst hn
    have haenc : a.enc = ⟨applyMask an a.mask, none⟩ := by
      cases hx : a.enc with
      | mk b e => simp only [hx] at hae hm1; subst hae; rw [hm1]
    have hasenc : encList as = ⟨applyMask asn (maskList as), none⟩ := by
      cases hx : encList as with
      | mk b e => simp only [hx] at hase hm2; subst hase; rw [hm2]
    have hpos : 0 < a.padded := by
      cases a with
      | mk code vendor m p l pd v =>
        have := hc.1.1
        simp only [Avp.padded, Avp.len, Avp.padding, hdrLen] at *
        split at this <;> omega
    have hb := decAvp_bounds cfg dict fuel depth (.inRange (an ++ (asn ++ r))) (.inRange (asn ++ r)) a
      (decAvp_rt cfg dict fuel depth a an (asn ++ r) hc.1 hwf.1 hty.1 hl1 haenc (by omega)
        (by have := Nat.le_max_left a.depth (depthList as); omega))
    simp only [decGroup, List.append_assoc]
    rw [if_pos (by omega)]
    rw [decAvp_rt cfg dict fuel depth a an (asn ++ r) hc.1 hwf.1 hty.1 hl1 haenc (by omega)
      (by have := Nat.le_max_left a.depth (depthList as); omega)]
    simp only [Out.bind_ok]
    unfold checkedAdd32
    simp only [Avp.padded] at hoff hpos
    rw [if_neg (by omega)]
    simp only [Out.bind_ok]
    rw [if_neg (by omega)]
    simp only [Out.bind_ok]
    rw [decGroup_rt cfg dict fuel depth len (off + a.len + a.padding) as asn r hc.2 hwf.2 hty.2 hl2 hasenc (by omega)
      (by have := Nat.le_max_right a.depth (depthList as); omega) (by omega) hlen]
    rfl
end

end Dia
