import Dia.Accept
/-! Invariant of the listener model. -/
namespace Dia.Acc

theorem owed_append_req (l : List Item) (id : Nat) (h : ended l = false) : owed (l ++ [.req id]) = owed l ++ [id] := by
  induction l with
  | nil => rfl
  | cons x xs ih =>
    cases x with
    | req j => simp only [List.cons_append, owed]; rw [ih (by simpa [ended] using h)]
    | boom j => simp [ended] at h
    | bad => simp [ended] at h
    | close => simp [ended] at h

theorem owed_append_end (l : List Item) (it : Item) (h : ended l = false) (hit : ∀ id, it ≠ .req id) :
    owed (l ++ [it]) = owed l := by
  induction l with
  | nil => cases it <;> simp_all [owed]
  | cons x xs ih =>
    cases x with
    | req j => simp only [List.cons_append, owed]; rw [ih (by simpa [ended] using h)]
    | boom j => simp [ended] at h
    | bad => simp [ended] at h
    | close => simp [ended] at h

theorem ended_append_req (l : List Item) (id : Nat) (h : ended l = false) : ended (l ++ [.req id]) = false := by
  induction l with
  | nil => rfl
  | cons x xs ih =>
    cases x with
    | req j => simp only [List.cons_append, ended]; exact ih (by simpa [ended] using h)
    | boom j => simp [ended] at h
    | bad => simp [ended] at h
    | close => simp [ended] at h

theorem mem_owed {l : List Item} {id : Nat} (h : id ∈ owed l) : Item.req id ∈ l := by
  induction l with
  | nil => simp [owed] at h
  | cons x xs ih =>
    cases x with
    | req j =>
      simp only [owed, List.mem_cons] at h
      rcases h with rfl | h
      · exact List.mem_cons_self
      · exact List.mem_cons_of_mem _ (ih h)
    | boom j => simp [owed] at h
    | bad => simp [owed] at h
    | close => simp [owed] at h

structure Inv (cfg : Cfg) (s : St) : Prop where
  out_ok : ∀ c, s.out c = owed (s.consumed c)
  serving_ok : ∀ c, s.phase c = .serving → ended (s.consumed c) = false
  early_ok : ∀ c, (s.phase c = .absent ∨ s.phase c = .backlog ∨ s.phase c = .handshake) → s.consumed c = []
  busy_cfg : cfg.inline = false → s.busy = none
  busy_ok : ∀ c, s.busy = some c → s.phase c = .handshake

theorem inv_init (cfg : Cfg) : Inv cfg {} := by
  constructor <;> simp [owed]

theorem inv_step {cfg : Cfg} {s s' : St} (l : Label) (hi : Inv cfg s) (h : step cfg s l = some s') : Inv cfg s' := by
  obtain ⟨i1, i2, i3, i4, i5⟩ := hi
  have e0 : ended ([] : List Item) = false := rfl
  cases l with
  | arrive c =>
    simp only [step] at h
    split at h
    · cases h; constructor <;> simp only [upd] <;> grind
    · cases h
  | send c it =>
    simp only [step] at h
    split at h
    · cases h
    · cases h; constructor <;> grind
  | accept c =>
    simp only [step] at h
    split at h
    · cases h
    · split at h
      · cases h
      · split at h
        · cases h; constructor <;> simp only [upd] <;> grind
        · cases h; constructor <;> simp only [upd] <;> grind
  | hsDone c =>
    simp only [step] at h
    split at h
    · cases h
    · cases h; constructor <;> simp only [upd] <;> grind
  | hsFail c =>
    simp only [step] at h
    split at h
    · cases h
    · cases h; constructor <;> simp only [upd] <;> grind
  | serve c =>
    simp only [step] at h
    split at h
    · cases h
    · rename_i hph
      have hph' : s.phase c = .serving := by simpa using hph
      have hne := i2 c hph'
      split at h
      · cases h
      · rename_i it rest hin
        cases it with
        | req id =>
          cases h
          have e1 := owed_append_req (s.consumed c) id hne
          have e2 := ended_append_req (s.consumed c) id hne
          constructor <;> simp only [upd] <;> grind
        | boom id =>
          cases h
          have e1 := owed_append_end (s.consumed c) (.boom id) hne (by simp)
          constructor <;> simp only [upd] <;> grind
        | bad =>
          cases h
          have e1 := owed_append_end (s.consumed c) .bad hne (by simp)
          constructor <;> simp only [upd] <;> grind
        | close =>
          cases h
          have e1 := owed_append_end (s.consumed c) .close hne (by simp)
          constructor <;> simp only [upd] <;> grind

theorem inv_run {cfg : Cfg} {s s' : St} (ls : List Label) (hi : Inv cfg s) (h : run cfg s ls = some s') : Inv cfg s' := by
  induction ls generalizing s with
  | nil => simp [run] at h; exact h ▸ hi
  | cons l ls ih =>
    simp only [run] at h
    split at h
    · rename_i s1 hs1; exact ih (inv_step l hi hs1) h
    · cases h

end Dia.Acc
