import Dia.EncLen
import Dia.Rt
/-! The encoding of a consistent tree is a fixed point of its own mask: padding octets are zero and the reserved
AVP flag bits are clear. -/
namespace Dia

theorem flagsByte_fix (vendor : Option UInt32) (m p : Bool) : flagsByte vendor m p &&& 0xE0 = flagsByte vendor m p := by
  cases vendor <;> cases m <;> cases p <;> simp [flagsByte] <;> decide

theorem hdrBytes_fix (code : UInt32) (vendor : Option UInt32) (m p : Bool) (len : Nat) :
    applyMask (hdrBytes code vendor m p len) (maskHdr vendor) = hdrBytes code vendor m p len := by
  cases vendor <;>
    simp [hdrBytes, maskHdr, applyMask, applyMK, be32, be24, flagsByte_fix]

mutual
theorem Value.enc_fix : ∀ v : Value, v.WF → v.Cons → v.enc.err = none → applyMask v.enc.bytes v.mask = v.enc.bytes
  | .grouped ms, hwf, hc, he => by
    simp only [Value.WF, Value.Cons, Value.enc, Value.mask] at *
    exact encList_fix ms hwf hc he
  | .address a, hwf, hc, he => by
    rw [leaf_mask (by simp [tyOf])]; exact applyMask_keep' _ _ (Value.enc_len _ hwf hc he).1
  | .ipv4 b, hwf, hc, he => by
    rw [leaf_mask (by simp [tyOf])]; exact applyMask_keep' _ _ (Value.enc_len _ hwf hc he).1
  | .ipv6 b, hwf, hc, he => by
    rw [leaf_mask (by simp [tyOf])]; exact applyMask_keep' _ _ (Value.enc_len _ hwf hc he).1
  | .identity b, hwf, hc, he => by
    rw [leaf_mask (by simp [tyOf])]; exact applyMask_keep' _ _ (Value.enc_len _ hwf hc he).1
  | .uri b, hwf, hc, he => by
    rw [leaf_mask (by simp [tyOf])]; exact applyMask_keep' _ _ (Value.enc_len _ hwf hc he).1
  | .enumerated b, hwf, hc, he => by
    rw [leaf_mask (by simp [tyOf])]; exact applyMask_keep' _ _ (Value.enc_len _ hwf hc he).1
  | .float32 b, hwf, hc, he => by
    rw [leaf_mask (by simp [tyOf])]; exact applyMask_keep' _ _ (Value.enc_len _ hwf hc he).1
  | .float64 b, hwf, hc, he => by
    rw [leaf_mask (by simp [tyOf])]; exact applyMask_keep' _ _ (Value.enc_len _ hwf hc he).1
  | .integer32 b, hwf, hc, he => by
    rw [leaf_mask (by simp [tyOf])]; exact applyMask_keep' _ _ (Value.enc_len _ hwf hc he).1
  | .integer64 b, hwf, hc, he => by
    rw [leaf_mask (by simp [tyOf])]; exact applyMask_keep' _ _ (Value.enc_len _ hwf hc he).1
  | .octets b, hwf, hc, he => by
    rw [leaf_mask (by simp [tyOf])]; exact applyMask_keep' _ _ (Value.enc_len _ hwf hc he).1
  | .time s n, hwf, hc, he => by
    rw [leaf_mask (by simp [tyOf])]; exact applyMask_keep' _ _ (Value.enc_len _ hwf hc he).1
  | .unsigned32 b, hwf, hc, he => by
    rw [leaf_mask (by simp [tyOf])]; exact applyMask_keep' _ _ (Value.enc_len _ hwf hc he).1
  | .unsigned64 b, hwf, hc, he => by
    rw [leaf_mask (by simp [tyOf])]; exact applyMask_keep' _ _ (Value.enc_len _ hwf hc he).1
  | .utf8 b, hwf, hc, he => by
    rw [leaf_mask (by simp [tyOf])]; exact applyMask_keep' _ _ (Value.enc_len _ hwf hc he).1
theorem Avp.enc_fix : ∀ a : Avp, a.WF → a.Cons → a.enc.err = none → applyMask a.enc.bytes a.mask = a.enc.bytes
  | .mk code vendor m p len padding v, hwf, hc, he => by
    obtain ⟨hlen24, hvwf⟩ := hwf
    obtain ⟨hc1, hc2, hc3⟩ := hc
    simp only [Avp.enc] at he ⊢
    rw [encHdr_ok hlen24] at he ⊢
    obtain ⟨_, he2, hb⟩ := Enc.andThen_err_none he
    obtain ⟨hve, _, hvb⟩ := Enc.andThen_err_none he2
    obtain ⟨l1, l2⟩ := Value.enc_len v hvwf hc3 hve
    rw [hb, hvb]
    simp only [Avp.mask, Enc.ok]
    rw [applyMask_append _ _ _ _ (by rw [hdrBytes_length', mask_len_hdr]),
      applyMask_append _ _ _ _ (by rw [l1, l2]), hdrBytes_fix, Value.enc_fix v hvwf hc3 hve,
      applyMask_zero' _ _ (by simp)]
theorem encList_fix : ∀ ms : List Avp, WFList ms → ConsList ms → (encList ms).err = none →
    applyMask (encList ms).bytes (maskList ms) = (encList ms).bytes
  | [], _, _, _ => by simp [encList, Enc.ok, maskList, applyMask]
  | a :: as, hwf, hc, he => by
    simp only [encList] at he ⊢
    obtain ⟨hae, hase, hb⟩ := Enc.andThen_err_none he
    obtain ⟨a1, a2⟩ := Avp.enc_len a hwf.1 hc.1 hae
    rw [hb]
    simp only [maskList]
    rw [applyMask_append _ _ _ _ (by rw [a1, a2]), Avp.enc_fix a hwf.1 hc.1 hae, encList_fix as hwf.2 hc.2 hase]
end

end Dia
