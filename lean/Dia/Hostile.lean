import Dia.ServerThm
namespace Dia

theorem readExact_ok_len : ∀ (n : Nat) (evs : List REv) (p : Bytes) (evs1 : List REv),
    readExact n evs = (.ok p, evs1) → p.length = n := by
  intro n evs
  induction evs generalizing n with
  | nil => intro p evs1 h; cases n <;> simp [readExact] at h; exact h.1 ▸ rfl
  | cons e r ih =>
    intro p evs1 h
    cases n with
    | zero => simp [readExact] at h; exact h.1 ▸ rfl
    | succ n =>
      cases e with
      | pending => rw [readExact] at h; exact ih (n+1) p evs1 h
      | eof => simp [readExact] at h
      | fail => simp [readExact] at h
      | data bs =>
        rw [readExact] at h
        split at h
        · simp at h
        · split at h
          · simp only [Prod.mk.injEq, RO.ok.injEq] at h
            rw [← h.1]; simp; omega
          · rename_i h1 h2
            cases hx : readExact (n + 1 - bs.length) r with
            | mk o r' =>
              rw [hx] at h
              simp only [Prod.mk.injEq] at h
              cases o with
              | ok more =>
                simp only [RO.prepend, RO.ok.injEq] at h
                have := ih (n + 1 - bs.length) more r' hx
                rw [← h.1]; simp; omega
              | eof g => simp [RO.prepend] at h
              | ioerr g => simp [RO.prepend] at h

/-- C07: whatever 24-bit length a peer announces and whatever follows, the stream reader does not panic; an
announced length above 1 MiB or below a Diameter header is refused after consuming the 4-octet prefix only;
in no case are more than max(announced, 4) octets taken from the stream. -/
theorem Codec.decode_hostile (cfg : Cfg) (dict : Lookup) (evs : List REv) :
    (Codec.decode cfg dict evs).out ≠ .panic ∧
    (∀ p evs1, readExact 4 evs = (.ok p, evs1) →
      (fromBe (p.drop 1) > 1048576 → (Codec.decode cfg dict evs).out = .err .tooLarge ∧ (Codec.decode cfg dict evs).consumed = 4) ∧
      (fromBe (p.drop 1) < 20 → (Codec.decode cfg dict evs).out = .err .tooShort ∧ (Codec.decode cfg dict evs).consumed = 4) ∧
      (Codec.decode cfg dict evs).consumed ≤ max (fromBe (p.drop 1)) 4) ∧
    (∀ o evs1, readExact 4 evs = (o, evs1) → (∀ p, o ≠ .ok p) →
      (∃ e, (Codec.decode cfg dict evs).out = .err e) ∧ (Codec.decode cfg dict evs).consumed ≤ 4) := by
  have ht := readExact_taken 4 evs
  refine ⟨?_, ?_, ?_⟩
  · unfold Codec.decode
    cases hr : readExact 4 evs with
    | mk o evs1 =>
      cases o with
      | eof g => simp
      | ioerr g => simp
      | ok p =>
        simp only
        split
        · simp
        · split
          · simp
          · split
            · omega
            · cases hr2 : readExact (fromBe (p.drop 1) - 4) evs1 with
              | mk o2 evs2 =>
                cases o2 with
                | eof g => simp
                | ioerr g => simp
                | ok body =>
                  simp only
                  cases hd : decMsg cfg dict (p ++ body) with
                  | ok m => simp
                  | err e => simp
                  | panic => exact absurd hd (decMsg_ne_panic _ _ _)
  · intro p evs1 hr
    have hpl := readExact_ok_len 4 evs p evs1 hr
    unfold Codec.decode
    rw [hr]
    simp only
    refine ⟨?_, ?_, ?_⟩
    · intro h; rw [if_pos h]; simp
    · intro h; rw [if_neg (by omega), if_pos h]; simp
    · split
      · simp only; omega
      · split
        · simp only; omega
        · split
          · omega
          · rename_i h1 h2 h3
            have ht2 := readExact_taken (fromBe (p.drop 1) - 4) evs1
            split <;> rename_i hx <;> rw [hx] at ht2 <;> simp only [RO.taken] at ht2 <;> simp only <;> omega
  · intro o evs1 hr hno
    unfold Codec.decode
    rw [hr] at ht ⊢
    cases o with
    | ok p => exact absurd rfl (hno p)
    | eof g => simp only [RO.taken] at ht; exact ⟨⟨_, rfl⟩, ht⟩
    | ioerr g => simp only [RO.taken] at ht; exact ⟨⟨_, rfl⟩, ht⟩

end Dia
