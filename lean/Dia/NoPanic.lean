import Dia.Top
namespace Dia

theorem Out.bind_ne_panic {α β} {x : Out α} {f : α → Out β}
    (hx : x ≠ .panic) (hf : ∀ a, x = .ok a → f a ≠ .panic) : x.bind f ≠ .panic := by
  cases x with
  | ok a => exact hf a rfl
  | err e => simp [Out.bind]
  | panic => exact absurd rfl hx

theorem Cur.read_ne_panic (c : Cur) (n : Nat) : c.read n ≠ .panic := by
  unfold Cur.read
  split
  · simp
  · cases c with
    | inRange r => simp only; split <;> simp
    | past o => simp

theorem decHdr_ne_panic (c : Cur) : decHdr c ≠ .panic := by
  unfold decHdr
  refine Out.bind_ne_panic (Cur.read_ne_panic _ _) ?_
  intro ⟨h, c1⟩ _
  dsimp only
  split
  · refine Out.bind_ne_panic (Cur.read_ne_panic _ _) ?_
    intro ⟨vb, c2⟩ _
    simp
  · simp

theorem decAddr_ne_panic (vl : Nat) (c : Cur) : decAddr vl c ≠ .panic := by
  unfold decAddr
  refine Out.bind_ne_panic (Cur.read_ne_panic _ _) ?_
  intro ⟨f, c1⟩ _
  dsimp only
  split
  · split
    · simp
    · refine Out.bind_ne_panic (Cur.read_ne_panic _ _) ?_
      intro ⟨b, c2⟩ _; simp
  · split
    · simp
    · refine Out.bind_ne_panic (Cur.read_ne_panic _ _) ?_
      intro ⟨b, c2⟩ _; simp
  · split
    · simp
    · split
      · simp
      · unfold checkedSub
        rw [if_neg (by omega)]
        simp only [Out.bind_ok]
        rw [if_neg (by omega)]
        refine Out.bind_ne_panic (Cur.read_ne_panic _ _) ?_
        intro ⟨b, c2⟩ _
        dsimp only
        split <;> simp
  · simp

theorem decLeaf_ne_panic (cfg : Cfg) (ty : Ty) (vl : Nat) (c : Cur) : decLeaf cfg ty vl c ≠ .panic := by
  unfold decLeaf
  split
  · split
    · simp
    · split
      · simp
      · refine Out.bind_ne_panic (Cur.read_ne_panic _ _) ?_
        intro ⟨b, c2⟩ _; simp
  · split
    · exact decAddr_ne_panic _ _
    · refine Out.bind_ne_panic (Cur.read_ne_panic _ _) ?_
      intro ⟨b, c2⟩ _; dsimp only; split <;> simp
    · refine Out.bind_ne_panic (Cur.read_ne_panic _ _) ?_
      intro ⟨b, c2⟩ _; dsimp only; split <;> simp
    · refine Out.bind_ne_panic (Cur.read_ne_panic _ _) ?_
      intro ⟨b, c2⟩ _; simp
    · refine Out.bind_ne_panic (Cur.read_ne_panic _ _) ?_
      intro ⟨b, c2⟩ _; simp
    · simp

theorem pad_lt (n : Nat) : pad n < 4 := by unfold pad; omega

/-- every AVP the decoder returns carries a 24-bit length and a padding below 4 -/
theorem decAvp_bounds (cfg : Cfg) (dict : Lookup) (fuel depth : Nat) (c c' : Cur) (a : Avp)
    (h : decAvp cfg dict fuel depth c = .ok (a, c')) : a.len < 16777216 ∧ a.padding < 4 := by
  cases fuel with
  | zero => simp [decAvp] at h
  | succ fuel =>
    simp only [decAvp] at h
    rw [Out.bind_eq_ok] at h
    obtain ⟨⟨hd, c1⟩, hh, h⟩ := h
    dsimp only at h
    have hl := (decHdr_inv hh).2.1
    split at h
    · cases h
    · rw [Out.bind_eq_ok] at h
      obtain ⟨vl, hvl, h⟩ := h
      rw [Out.bind_eq_ok] at h
      obtain ⟨⟨v, c2⟩, hv, h⟩ := h
      dsimp only at h
      cases h
      exact ⟨hl, pad_lt _⟩

mutual
theorem decAvp_ne_panic (cfg : Cfg) (dict : Lookup) : ∀ (fuel depth : Nat) (c : Cur),
    decAvp cfg dict fuel depth c ≠ .panic
  | 0, _, _ => by simp [decAvp]
  | fuel+1, depth, c => by
    simp only [decAvp]
    refine Out.bind_ne_panic (decHdr_ne_panic _) ?_
    intro ⟨hd, c1⟩ hh
    dsimp only
    have hl := (decHdr_inv hh).2.1
    split
    · simp
    · rename_i hns
      unfold checkedSub
      rw [if_neg hns]
      simp only [Out.bind_ok]
      refine Out.bind_ne_panic ?_ ?_
      · split
        · split
          · simp
          · refine Out.bind_ne_panic (decGroup_ne_panic cfg dict fuel (depth+1) _ 0 c1 (by omega)) ?_
            intro ⟨ms, c3⟩ _; simp
        · simp
        · exact decLeaf_ne_panic _ _ _ _
      · intro ⟨v, c2⟩ _; simp
theorem decGroup_ne_panic (cfg : Cfg) (dict : Lookup) : ∀ (fuel depth len off : Nat) (c : Cur),
    len < 16777216 → decGroup cfg dict fuel depth len off c ≠ .panic
  | 0, _, _, _, _, _ => by simp [decGroup]
  | fuel+1, depth, len, off, c, hlen => by
    simp only [decGroup]
    split
    · rename_i hoff
      refine Out.bind_ne_panic (decAvp_ne_panic cfg dict fuel depth c) ?_
      intro ⟨a, c1⟩ ha
      dsimp only
      obtain ⟨b1, b2⟩ := decAvp_bounds cfg dict fuel depth c c1 a ha
      unfold checkedAdd32
      rw [if_neg (by omega)]
      simp only [Out.bind_ok]
      rw [if_neg (by omega)]
      simp only [Out.bind_ok]
      refine Out.bind_ne_panic (decGroup_ne_panic cfg dict fuel depth len _ c1 hlen) ?_
      intro ⟨as, c2⟩ _; simp
    · split <;> simp
end

/-- C04 for the model: no byte string makes the decoder reach a panic site -/
theorem decMsg_ne_panic (cfg : Cfg) (dict : Lookup) (bs : Bytes) : decMsg cfg dict bs ≠ .panic := by
  unfold decMsg
  refine Out.bind_ne_panic (Cur.read_ne_panic _ _) ?_
  intro ⟨hb, c1⟩ hr
  dsimp only
  obtain ⟨hl20, _, _⟩ := read_leaf hr
  obtain ⟨b0,b1,b2,b3,b4,b5,b6,b7,b8,b9,b10,b11,b12,b13,b14,b15,b16,b17,b18,b19,rfl⟩ := list_len20 hl20
  simp only [List.take, List.drop]
  split
  · simp
  · split
    · simp
    · refine Out.bind_ne_panic (decGroup_ne_panic cfg dict _ 0 _ 20 c1 (fromBe3_lt _ _ _)) ?_
      intro ⟨avps, c2⟩ _; simp

end Dia
