import Dia.RtDefs
namespace Dia

theorem Cur.read_append' (b r : Bytes) (n : Nat) (h : b.length = n) :
    (Cur.inRange (b ++ r)).read n = .ok (b, .inRange r) := by
  subst h; exact Cur.read_append b r

theorem decHdr_noisy {code : UInt32} {vendor : Option UInt32} {m p : Bool} {len : Nat} {hb r : Bytes}
    (hl : hb.length = (maskHdr vendor).length)
    (he : applyMask hb (maskHdr vendor) = hdrBytes code vendor m p len) (hlen : len < 16777216) :
    decHdr (.inRange (hb ++ r)) = .ok (⟨code, vendor, m, p, len⟩, .inRange r) := by
  cases vendor with
  | none =>
    simp only [maskHdr, Option.isSome_none, Bool.false_eq_true, if_false, List.append_nil, List.length_cons, List.length_nil] at hl
    obtain ⟨b0,b1,b2,b3,b4,b5,b6,b7,rfl⟩ := list_len8 hl
    simp only [applyMask, maskHdr, Option.isSome_none, Bool.false_eq_true, if_false, List.append_nil,
      List.zipWith_cons_cons, List.zipWith_nil_right, applyMK, hdrBytes, be32, be24, List.cons_append, List.nil_append,
      List.cons.injEq, and_true] at he
    obtain ⟨e0,e1,e2,e3,e4,e5,e6,e7⟩ := he
    have hc : [b0,b1,b2,b3] = be32 code.toNat := by simp [be32, e0, e1, e2, e3]
    have hlb : [b5,b6,b7] = be24 len := by simp [be24, e5, e6, e7]
    have hfl := flags_bits b4 false m p (by simpa [flagsByte] using e4)
    unfold decHdr
    rw [show ([b0,b1,b2,b3,b4,b5,b6,b7] ++ r) = [b0,b1,b2,b3,b4,b5,b6,b7] ++ r from rfl,
      Cur.read_append' _ r 8 rfl]
    simp only [Out.bind_ok, List.take, List.drop, List.getD_cons_succ, List.getD_cons_zero]
    rw [hc, hlb, fromBe_be32 _ code.toNat_lt, fromBe_be24 _ hlen]
    simp [hfl.1, hfl.2.1, hfl.2.2]
  | some vid =>
    simp only [maskHdr, Option.isSome_some, if_true, List.length_append, List.length_cons, List.length_nil] at hl
    have hl12 : hb.length = 12 := by omega
    have hsplit : hb = hb.take 8 ++ hb.drop 8 := by simp
    have h8 : (hb.take 8).length = 8 := by simp; omega
    have h4 : (hb.drop 8).length = 4 := by simp; omega
    obtain ⟨b0,b1,b2,b3,b4,b5,b6,b7,hb8⟩ := list_len8 h8
    obtain ⟨v0,v1,v2,v3,hb4⟩ := list_len4 h4
    rw [hsplit, hb8, hb4] at he ⊢
    simp only [applyMask, maskHdr, Option.isSome_some, if_true,
      List.zipWith_cons_cons, List.zipWith_nil_right, applyMK, hdrBytes, be32, be24, List.cons_append, List.nil_append,
      List.cons.injEq, and_true] at he
    obtain ⟨e0,e1,e2,e3,e4,e5,e6,e7,w0,w1,w2,w3⟩ := he
    have hc : [b0,b1,b2,b3] = be32 code.toNat := by simp [be32, e0, e1, e2, e3]
    have hlb : [b5,b6,b7] = be24 len := by simp [be24, e5, e6, e7]
    have hv : [v0,v1,v2,v3] = be32 vid.toNat := by simp [be32, w0, w1, w2, w3]
    have hfl := flags_bits b4 true m p (by simpa [flagsByte] using e4)
    unfold decHdr
    rw [show ([b0,b1,b2,b3,b4,b5,b6,b7] ++ [v0,v1,v2,v3] ++ r) = [b0,b1,b2,b3,b4,b5,b6,b7] ++ ([v0,v1,v2,v3] ++ r) by simp,
      Cur.read_append' _ _ 8 rfl]
    simp only [Out.bind_ok, List.take, List.drop, List.getD_cons_succ, List.getD_cons_zero]
    rw [if_pos (by simp [hfl.1]), Cur.read_append' _ r 4 rfl]
    simp only [Out.bind_ok]
    rw [hc, hlb, hv, fromBe_be32 _ code.toNat_lt, fromBe_be24 _ hlen, fromBe_be32 _ vid.toNat_lt]
    simp [hfl.2.1, hfl.2.2]

end Dia
