import Dia.RtHdr
namespace Dia

theorem decLeaf_fixed_rt {cfg : Cfg} {ty : Ty} {n : Nat} {vb r : Bytes} (hn : fixedSize ty = some n)
    (hl : vb.length = n) : decLeaf cfg ty n (.inRange (vb ++ r)) = .ok (ofFixed ty vb, .inRange r) := by
  unfold decLeaf
  rw [hn]
  simp only
  rw [if_neg (by omega), if_neg (by omega), Cur.read_append' _ _ _ hl]
  rfl

theorem u32_rt (x : UInt32) : (fromBe (be32 x.toNat)).toUInt32 = x := by
  rw [fromBe_be32 _ x.toNat_lt]; simp
theorem u64_rt (x : UInt64) : (fromBe (be64 x.toNat)).toUInt64 = x := by
  rw [fromBe_be64 _ x.toNat_lt]; simp

/-- leaf round trip: decoding the encoding of a well-formed non-grouped value gives it back -/
theorem decLeaf_rt {cfg : Cfg} {v : Value} {vb r : Bytes} (hwf : v.WF) (hng : tyOf v ≠ .grouped)
    (henc : v.enc = ⟨vb, none⟩) :
    decLeaf cfg (tyOf v) v.len (.inRange (vb ++ r)) = .ok (v, .inRange r) := by
  cases v with
  | grouped ms => exact absurd rfl hng
  | unsigned32 x =>
    simp only [Value.enc, Enc.ok, Enc.mk.injEq, and_true] at henc; subst henc
    rw [show (Value.unsigned32 x).len = 4 from rfl, decLeaf_fixed_rt (ty := tyOf (Value.unsigned32 x)) rfl (by simp)]
    simp [ofFixed, tyOf, u32_rt]
  | integer32 x =>
    simp only [Value.enc, Enc.ok, Enc.mk.injEq, and_true] at henc; subst henc
    rw [show (Value.integer32 x).len = 4 from rfl, decLeaf_fixed_rt (ty := tyOf (Value.integer32 x)) rfl (by simp)]
    simp [ofFixed, tyOf, u32_rt]
  | enumerated x =>
    simp only [Value.enc, Enc.ok, Enc.mk.injEq, and_true] at henc; subst henc
    rw [show (Value.enumerated x).len = 4 from rfl, decLeaf_fixed_rt (ty := tyOf (Value.enumerated x)) rfl (by simp)]
    simp [ofFixed, tyOf, u32_rt]
  | float32 x =>
    simp only [Value.enc, Enc.ok, Enc.mk.injEq, and_true] at henc; subst henc
    rw [show (Value.float32 x).len = 4 from rfl, decLeaf_fixed_rt (ty := tyOf (Value.float32 x)) rfl (by simp)]
    simp [ofFixed, tyOf, u32_rt]
  | unsigned64 x =>
    simp only [Value.enc, Enc.ok, Enc.mk.injEq, and_true] at henc; subst henc
    rw [show (Value.unsigned64 x).len = 8 from rfl, decLeaf_fixed_rt (ty := tyOf (Value.unsigned64 x)) rfl (by simp)]
    simp [ofFixed, tyOf, u64_rt]
  | integer64 x =>
    simp only [Value.enc, Enc.ok, Enc.mk.injEq, and_true] at henc; subst henc
    rw [show (Value.integer64 x).len = 8 from rfl, decLeaf_fixed_rt (ty := tyOf (Value.integer64 x)) rfl (by simp)]
    simp [ofFixed, tyOf, u64_rt]
  | float64 x =>
    simp only [Value.enc, Enc.ok, Enc.mk.injEq, and_true] at henc; subst henc
    rw [show (Value.float64 x).len = 8 from rfl, decLeaf_fixed_rt (ty := tyOf (Value.float64 x)) rfl (by simp)]
    simp [ofFixed, tyOf, u64_rt]
  | ipv4 b =>
    simp only [Value.enc, Enc.ok, Enc.mk.injEq, and_true] at henc; subst henc
    simp only [Value.WF, Value.leafWF] at hwf
    rw [show (Value.ipv4 b).len = 4 from rfl, decLeaf_fixed_rt (ty := tyOf (Value.ipv4 b)) rfl hwf]
    simp [ofFixed, tyOf]
  | ipv6 b =>
    simp only [Value.enc, Enc.ok, Enc.mk.injEq, and_true] at henc; subst henc
    simp only [Value.WF, Value.leafWF] at hwf
    rw [show (Value.ipv6 b).len = 16 from rfl, decLeaf_fixed_rt (ty := tyOf (Value.ipv6 b)) rfl hwf]
    simp [ofFixed, tyOf]
  | time secs nanos =>
    simp only [Value.WF, Value.leafWF] at hwf
    obtain ⟨hn0, hlo, hhi⟩ := hwf
    subst hn0
    have hR : RFC868 = 2208988800 := rfl
    simp only [Value.enc] at henc
    rw [if_neg (by omega), if_neg (by omega)] at henc
    simp only [Enc.ok, Enc.mk.injEq, and_true] at henc; subst henc
    rw [show (Value.time secs 0).len = 4 from rfl, decLeaf_fixed_rt (ty := tyOf (Value.time secs 0)) rfl (by simp)]
    simp only [ofFixed, tyOf]
    rw [fromBe_be32 _ (by omega)]
    have : (((secs + RFC868).toNat : Nat) : Int) - RFC868 = secs := by omega
    rw [this]
  | octets b =>
    simp only [Value.enc, Enc.ok, Enc.mk.injEq, and_true] at henc; subst henc
    simp only [tyOf, Value.len, decLeaf, fixedSize]
    rw [Cur.read_append]; rfl
  | uri b =>
    simp only [Value.enc, Enc.ok, Enc.mk.injEq, and_true] at henc; subst henc
    simp only [tyOf, Value.len, decLeaf, fixedSize]
    rw [Cur.read_append]; rfl
  | utf8 b =>
    simp only [Value.enc, Enc.ok, Enc.mk.injEq, and_true] at henc; subst henc
    simp only [Value.WF, Value.leafWF] at hwf
    simp only [tyOf, Value.len, decLeaf, fixedSize]
    rw [Cur.read_append]; simp [hwf]
  | identity b =>
    simp only [Value.enc, Enc.ok, Enc.mk.injEq, and_true] at henc; subst henc
    simp only [Value.WF, Value.leafWF] at hwf
    simp only [tyOf, Value.len, decLeaf, fixedSize]
    rw [Cur.read_append]; simp [hwf]
  | address a =>
    cases a with
    | v4 b =>
      simp only [Value.enc, Enc.ok, Enc.mk.injEq, and_true] at henc; subst henc
      simp only [Value.WF, Value.leafWF] at hwf
      simp only [tyOf, Value.len, decLeaf, fixedSize, decAddr]
      rw [show ([0, 1] ++ b ++ r) = [0, 1] ++ (b ++ r) by simp, Cur.read_append' _ _ 2 rfl]
      simp only [Out.bind_ok]
      rw [Cur.read_append' _ _ 4 hwf]; rfl
    | v6 b =>
      simp only [Value.enc, Enc.ok, Enc.mk.injEq, and_true] at henc; subst henc
      simp only [Value.WF, Value.leafWF] at hwf
      simp only [tyOf, Value.len, decLeaf, fixedSize, decAddr]
      rw [show ([0, 2] ++ b ++ r) = [0, 2] ++ (b ++ r) by simp, Cur.read_append' _ _ 2 rfl]
      simp only [Out.bind_ok]
      rw [Cur.read_append' _ _ 16 hwf]; rfl
    | e164 s =>
      simp only [Value.enc, Enc.ok, Enc.mk.injEq, and_true] at henc; subst henc
      simp only [Value.WF, Value.leafWF] at hwf
      obtain ⟨h1, h15, hutf⟩ := hwf
      simp only [tyOf, Value.len, decLeaf, fixedSize, decAddr]
      rw [show ([0, 8] ++ s ++ r) = [0, 8] ++ (s ++ r) by simp, Cur.read_append' _ _ 2 rfl]
      simp only [Out.bind_ok]
      rw [if_neg (by omega), if_neg (by omega)]
      unfold checkedSub
      rw [if_neg (by omega)]
      simp only [Out.bind_ok]
      rw [if_neg (by omega), Cur.read_append' _ _ _ (by omega)]
      simp [hutf]

end Dia
