import Dia.Dump
/-! The text form of octet strings shared by the driver and the harness: what `hex` / `hexOrDash` print, `unhex?` reads back
unchanged. (Part of the driver's glue - not a property theorem; it takes the hex layer out of the trusted base of the tie.) -/
namespace Dia

theorem hexVal_hexDigit : ∀ n : Fin 16, hexVal? (hexDigit n.val) = some n.val := by decide

theorem byte_split (x : UInt8) : (x.toNat / 16 * 16 + x.toNat % 16).toUInt8 = x := by
  have : x.toNat / 16 * 16 + x.toNat % 16 = x.toNat := by omega
  rw [this]; simp

theorem hexChars_cons (x : UInt8) (t : Bytes) (rest : List Char) :
    hexChars (x :: t) rest = hexDigit (x.toNat / 16) :: hexDigit (x.toNat % 16) :: hexChars t rest := by
  simp [hexChars]

theorem unhexList_hexChars (b : Bytes) (rest : List Char) (acc : Bytes) :
    unhexList (hexChars b rest) acc = unhexList rest (b.reverse ++ acc) := by
  induction b generalizing acc with
  | nil => simp [hexChars]
  | cons x t ih =>
    rw [hexChars_cons, unhexList]
    have h1 := hexVal_hexDigit ⟨x.toNat / 16, by have := x.toNat_lt; omega⟩
    have h2 := hexVal_hexDigit ⟨x.toNat % 16, by omega⟩
    simp only at h1 h2
    simp only [h1, h2]
    rw [ih, byte_split]
    simp

/-- reading back what was printed -/
theorem unhexList_hex (b : Bytes) : unhexList (hexChars b []) [] = some b := by
  rw [unhexList_hexChars]
  simp [unhexList]

theorem hexChars_length (b : Bytes) : (hexChars b []).length = 2 * b.length := by
  induction b with
  | nil => simp [hexChars]
  | cons x t ih => rw [hexChars_cons]; simp [ih]; omega

theorem unhex_hexOrDash (b : Bytes) : unhex? (hexOrDash b) = some b := by
  unfold hexOrDash
  cases b with
  | nil => simp [unhex?]
  | cons x t =>
    simp only [List.isEmpty_cons, Bool.false_eq_true, if_false]
    unfold unhex? hex
    have hne : String.ofList (hexChars (x :: t) []) ≠ "-" := by
      intro h
      have h2 := congrArg String.length h
      have h3 : ("-" : String).length = 1 := by decide
      rw [String.length_ofList, hexChars_length, h3, List.length_cons] at h2
      omega
    rw [if_neg hne]
    simpa using unhexList_hex (x :: t)

end Dia
