import Dia.Model
/-! Byte streams as scripts of `poll_read` outcomes; tokio's `read_exact`; `Codec::decode`. -/
namespace Dia

inductive REv | data (bs : Bytes) | pending | eof | fail
deriving Repr

/-- the octets a script delivers before it ends or fails -/
def flat : List REv → Bytes
  | [] => []
  | .data bs :: r => bs ++ flat r
  | .pending :: r => flat r
  | .eof :: _ => []
  | .fail :: _ => []

inductive RO | ok (bs : Bytes) | eof (got : Bytes) | ioerr (got : Bytes)
deriving Repr

def RO.prepend (b : Bytes) : RO → RO
  | .ok x => .ok (b ++ x) | .eof x => .eof (b ++ x) | .ioerr x => .ioerr (b ++ x)

def RO.taken : RO → Nat
  | .ok x => x.length | .eof x => x.length | .ioerr x => x.length

/-- tokio `read_exact(n)` over successive `poll_read` outcomes; returns what remains of the script -/
def readExact : Nat → List REv → RO × List REv
  | 0, evs => (.ok [], evs)
  | _+1, [] => (.eof [], [])                        -- script exhausted: the peer has closed
  | n+1, .pending :: r => readExact (n+1) r
  | _+1, .eof :: r => (.eof [], .eof :: r)
  | _+1, .fail :: r => (.ioerr [], .fail :: r)
  | n+1, .data bs :: r =>
    if bs.length = 0 then (.eof [], .eof :: r)      -- a read of zero octets is end of stream
    else if n + 1 ≤ bs.length then
      (.ok (bs.take (n+1)), if n + 1 = bs.length then r else .data (bs.drop (n+1)) :: r)
    else
      let (o, r') := readExact (n + 1 - bs.length) r
      (o.prepend bs, r')
termination_by n evs => (evs.length, n)
decreasing_by all_goals simp_wf <;> omega

inductive CErr | tooLarge | tooShort | io | eof | decode
deriving DecidableEq, Repr

inductive COut | ok (m : Msg) | err (e : CErr) | panic

structure DecRes where
  out : COut
  rest : List REv
  consumed : Nat

/-- `Codec::decode` (after fix D8) -/
def Codec.decode (cfg : Cfg) (dict : Lookup) (evs : List REv) : DecRes :=
  match readExact 4 evs with
  | (.ok p, evs1) =>
    let L := fromBe (p.drop 1)
    if L > 1048576 then ⟨.err .tooLarge, evs1, 4⟩
    else if L < 20 then ⟨.err .tooShort, evs1, 4⟩
    else if L < 4 then ⟨.panic, evs1, 4⟩              -- `&mut buffer[4..]` on a buffer of `L` octets
    else
      match readExact (L - 4) evs1 with
      | (.ok body, evs2) =>
        ⟨(match decMsg cfg dict (p ++ body) with
          | .ok m => .ok m | .err _ => .err .decode | .panic => .panic), evs2, 4 + body.length⟩
      | (.eof got, evs2) => ⟨.err .eof, evs2, 4 + got.length⟩
      | (.ioerr got, evs2) => ⟨.err .io, evs2, 4 + got.length⟩
  | (.eof got, evs1) => ⟨.err .eof, evs1, got.length⟩
  | (.ioerr got, evs1) => ⟨.err .io, evs1, got.length⟩

end Dia
