import Dia.SpecConc
import Dia.Strict
import Dia.RtTop
import Dia.MaskFix
import Dia.HistoryThm
/-! The decoder of the model against the independent reading relation `Spec.Parses`: sound (what it accepts without a
length lie parses), complete (what parses, within the nesting limit, is accepted), hence the reading is unique and
the strict decoder is a correct reader. -/
namespace Dia
open Spec

theorem encodeAvps_length (ms : List Avp) (hwf : WFList ms) (hc : ConsList ms) :
    (encodeAvps (absList ms)).length = lenList ms := by
  have hs := encList_spec ms hwf hc
  have := (encList_len ms hwf hc (by rw [hs])).1
  rw [hs] at this
  exact this

theorem Msg.enc_ok_small {m : Msg} (h : m.enc.err = none) : m.length < 16777216 := by
  unfold Msg.enc at h
  split at h
  · simp at h
  · omega

/-- **soundness.** A frame of its declared size that the decoder accepts without a fixed-size length lie parses, in
the sense of the independent specification, as the content of the message returned. -/
theorem decMsg_parses (cfg : Cfg) (dict : Lookup) (bs : Bytes) (m : Msg)
    (h : decMsg cfg dict bs = .ok m) (hlen : bs.length = m.length) (hnl : NoLieList m.avps) :
    Parses cfg.tables dict bs m.abs := by
  obtain ⟨hb, body, e1, e2, e3, e4, hc, hw, hl⟩ := decMsg_faithful cfg dict bs m h hlen hnl
  obtain ⟨t1, _, t3, t4⟩ := decMsg_typed cfg dict bs m h
  have h24 : m.length < 16777216 := Msg.enc_ok_small (by rw [e4])
  have hs := Msg.enc_spec m hw hc hl h24
  have hmask : m.abs.mask = List.replicate 20 .keep ++ maskList m.avps := by
    simp only [SMsg.mask, Msg.abs, absList_mask m.avps hw hc]
  refine ⟨t3, t4, absList_valid m.avps hw hc, (absList_typed dict m.avps).mpr t1, by rw [hs.2]; exact h24,
    by rw [hs.2, hlen], ?_⟩
  rw [hmask, e1, applyMask_append _ _ _ _ (by simp [e2]), applyMask_keep' hb 20 e2]
  rw [hs.1] at e4
  exact (Enc.mk.inj e4).1.symm

/-- the model message of a spec message: stored lengths and paddings computed from the content -/
def Spec.SMsg.conc (s : SMsg) : Msg :=
  ⟨s.version, 20 + lenList (concAvps s.avps), s.flags, s.cmd, s.app, s.hbh, s.e2e, concAvps s.avps⟩

theorem SMsg.conc_abs (s : SMsg) (hv : ValidAvps s.avps) : s.conc.abs = s := by
  obtain ⟨_, _, h3⟩ := concAvps_good s.avps hv
  simp only [SMsg.conc, Msg.abs, h3]

/-- **completeness.** Whatever parses as `s`, with groups nested no deeper than the decoder's limit, is accepted -
under any leniency, whatever its padding octets and reserved flag bits contain - and what is returned has content `s`. -/
theorem decMsg_of_parses (cfg : Cfg) (dict : Lookup) (bs : Bytes) (s : SMsg) (hf : cfg.tables.Fit)
    (hp : Parses cfg.tables dict bs s)
    (hd : depthAvps s.avps ≤ cfg.limit) : decMsg cfg dict bs = .ok s.conc ∧ s.conc.abs = s := by
  obtain ⟨hcmd, happ, hv, hty, hsmall, hsize, hmasked⟩ := hp
  obtain ⟨g1, g2, g3⟩ := concAvps_good s.avps hv
  have habs := SMsg.conc_abs s hv
  refine ⟨?_, habs⟩
  have hgood : s.conc.Good := ⟨g1, g2, rfl⟩
  have hbodylen : (encodeAvps s.avps).length = lenList (concAvps s.avps) := by
    have := encodeAvps_length (concAvps s.avps) g1 g2
    rwa [g3] at this
  have henc_len : (Spec.encode s).length = 20 + (encodeAvps s.avps).length := by
    simp [Spec.encode, u24be, u32be]; omega
  have h24 : s.conc.length < 16777216 := by
    simp only [SMsg.conc]; omega
  have hmask : maskAvps s.avps = maskList (concAvps s.avps) := by
    have := absList_mask (concAvps s.avps) g1 g2
    rwa [g3] at this
  -- the encoding splits into the 20 header octets and the AVPs
  have hsplit : Spec.encode s = s.conc.hdrBytes ++ encodeAvps s.avps := by
    simp only [Spec.encode, Msg.hdrBytes, SMsg.conc, hbodylen, u24be_eq, u32be_eq]
    simp
  have hml : (maskList (concAvps s.avps)).length = lenList (concAvps s.avps) :=
    (encList_len (concAvps s.avps) g1 g2 (by rw [encList_spec _ g1 g2])).2
  have hh20 : s.conc.hdrBytes.length = 20 := by simp [Msg.hdrBytes]
  have hbl : bs.length = ((List.replicate 20 MK.keep) ++ maskAvps s.avps).length := by
    rw [hsize, henc_len, hmask]; simp [hml, hbodylen]; omega
  obtain ⟨x1, x2, hx, hx1, hx2, hm1, hm2⟩ := applyMask_split (m1 := List.replicate 20 MK.keep) (m2 := maskAvps s.avps)
    hbl (by rw [← SMsg.mask]; rw [hmasked, hsplit]) (by simp [hh20])
  have hx1' : x1 = s.conc.hdrBytes := by
    rw [applyMask_keep' x1 20 (by simpa using hx1)] at hm1
    exact hm1
  subst hx
  rw [hx1']
  have hty' : TypedList dict (concAvps s.avps) := by
    have := (absList_typed dict (concAvps s.avps)).mp
    rw [g3] at this
    exact this hty
  have hdep : depthList (concAvps s.avps) ≤ cfg.limit := by
    have := absList_depth (concAvps s.avps)
    rw [g3] at this
    omega
  have hca : s.conc.avps = concAvps s.avps := rfl
  refine decMsg_rt cfg dict s.conc x2 g2 g1 hty' rfl h24 hcmd happ ?_ ?_ hdep (by rw [hx2, hmask, hca]) ?_
  · exact Tables.cmd_lt hf hcmd
  · exact Tables.app_lt hf happ
  · rw [hca, ← hmask, hm2]
    have := encList_spec (concAvps s.avps) g1 g2
    rwa [g3] at this

/-- **uniqueness.** The octets determine the message: two readings of one frame are equal. -/
theorem parses_unique (T : Tables) (hf : T.Fit) (dict : Lookup) (bs : Bytes) (s s' : SMsg)
    (h : Parses T dict bs s) (h' : Parses T dict bs s') :
    s = s' := by
  let cfg : Cfg := ⟨fun _ _ => false, max (depthAvps s.avps) (depthAvps s'.avps), T⟩
  obtain ⟨d1, a1⟩ := decMsg_of_parses cfg dict bs s hf h (Nat.le_max_left _ _)
  obtain ⟨d2, a2⟩ := decMsg_of_parses cfg dict bs s' hf h' (Nat.le_max_right _ _)
  rw [d1] at d2
  have : s.conc = s'.conc := by injection d2
  rw [← a1, ← a2, this]

end Dia

namespace Dia
open Spec

/- every nesting level costs at least the 8 octets of an AVP header -/
mutual
theorem SData.depth_le : ∀ d : SData, 8 * d.depth ≤ d.bytes.length + 8
  | .grouped ms => by
    have := depthAvps_le ms
    simp only [SData.depth, SData.bytes]; omega
  | .address _ => by simp [SData.depth] | .ipv4 _ => by simp [SData.depth] | .ipv6 _ => by simp [SData.depth]
  | .identity _ => by simp [SData.depth] | .uri _ => by simp [SData.depth] | .enumerated _ => by simp [SData.depth]
  | .float32 _ => by simp [SData.depth] | .float64 _ => by simp [SData.depth] | .integer32 _ => by simp [SData.depth]
  | .integer64 _ => by simp [SData.depth] | .octets _ => by simp [SData.depth] | .time _ => by simp [SData.depth]
  | .unsigned32 _ => by simp [SData.depth] | .unsigned64 _ => by simp [SData.depth] | .utf8 _ => by simp [SData.depth]
theorem SAvp.depth_le : ∀ a : SAvp, 8 * a.depth ≤ a.encode.length
  | .mk code vendor m p d => by
    have := SData.depth_le d
    cases vendor <;> simp [SAvp.depth, SAvp.encode, u32be, u24be] <;> omega
theorem depthAvps_le : ∀ ms : List SAvp, 8 * depthAvps ms ≤ (encodeAvps ms).length
  | [] => by simp [depthAvps]
  | a :: as => by
    have h1 := SAvp.depth_le a
    have h2 := depthAvps_le as
    simp only [depthAvps, encodeAvps, List.length_append]
    omega
end

/-- the executable reader used as run-time oracle: the model decoder with no leniency and a nesting budget as large as
the frame (i.e. none), accepting only frames of exactly their declared size -/
def Spec.read (T : Tables) (dict : Lookup) (bs : Bytes) : Option SMsg :=
  match decMsg ⟨fun _ _ => false, bs.length, T⟩ dict bs with
  | .ok m => if bs.length = m.length then some m.abs else none
  | _ => none

/-- **the reader is correct**: it returns `s` exactly when `bs` parses as `s` -/
theorem read_correct (T : Tables) (hf : T.Fit) (dict : Lookup) (bs : Bytes) (s : SMsg) :
    Spec.read T dict bs = some s ↔ Parses T dict bs s := by
  constructor
  · intro h
    unfold Spec.read at h
    split at h
    · rename_i m hm
      split at h
      · rename_i hl
        simp only [Option.some.injEq] at h
        subst h
        exact decMsg_parses _ dict bs m hm hl (decMsg_strict _ dict (fun _ _ => rfl) bs m hm)
      · cases h
    · cases h
  · intro hp
    have hlen : (Spec.encode s).length = 20 + (encodeAvps s.avps).length := by
      simp [Spec.encode, u24be, u32be]; omega
    have hdep : depthAvps s.avps ≤ bs.length := by
      have := depthAvps_le s.avps
      rw [hp.size, hlen]; omega
    obtain ⟨hd, ha⟩ := decMsg_of_parses ⟨fun _ _ => false, bs.length, T⟩ dict bs s hf hp hdep
    obtain ⟨g1, g2, g3⟩ := concAvps_good s.avps hp.valid
    have hbody : (encodeAvps s.avps).length = lenList (concAvps s.avps) := by
      have := encodeAvps_length (concAvps s.avps) g1 g2
      rwa [g3] at this
    unfold Spec.read
    rw [hd]
    simp only
    rw [if_pos (by rw [hp.size, hlen, hbody]; rfl), ha]

end Dia

namespace Dia
open Spec

/-- what the encoder produces for a consistent, typed message is a frame that an independent reader reads back as
exactly that content -/
theorem enc_parses (T : Tables) (dict : Lookup) (m : Msg) (hg : m.Good) (hcmd : T.cmdKnown m.cmd = true)
    (happ : T.appKnown m.app = true)
    (hty : TypedList dict m.avps) (h24 : m.length < 16777216) : Parses T dict (Spec.encode m.abs) m.abs := by
  have hs := Msg.enc_spec m hg.wf hg.cons hg.len h24
  have hls := encList_spec m.avps hg.wf hg.cons
  have hfix := encList_fix m.avps hg.wf hg.cons (by rw [hls])
  rw [hls] at hfix
  simp only at hfix
  have hmask : m.abs.mask = List.replicate 20 .keep ++ maskList m.avps := by
    simp only [SMsg.mask, Msg.abs, absList_mask m.avps hg.wf hg.cons]
  refine ⟨hcmd, happ, absList_valid m.avps hg.wf hg.cons, (absList_typed dict m.avps).mpr hty, by rw [hs.2]; exact h24,
    rfl, ?_⟩
  have hsplit : Spec.encode m.abs = m.hdrBytes ++ encodeAvps (absList m.avps) := by
    have hbl := encodeAvps_length m.avps hg.wf hg.cons
    simp only [Spec.encode, Msg.hdrBytes, Msg.abs, hbl, hg.len, u24be_eq, u32be_eq]
    simp
  have hh20 : m.hdrBytes.length = 20 := by simp [Msg.hdrBytes]
  rw [hmask, hsplit, applyMask_append _ _ _ _ (by simp [hh20]), applyMask_keep' _ 20 hh20, hfix]

end Dia
