import Dia.Model
namespace Dia

theorem Out.bind_eq_ok {α β} {x : Out α} {f : α → Out β} {r : β} :
    x.bind f = .ok r ↔ ∃ a, x = .ok a ∧ f a = .ok r := by
  cases x <;> simp [Out.bind]

@[simp] theorem Out.bind_ok {α β} (a : α) (f : α → Out β) : (Out.ok a).bind f = f a := rfl

/-! ## big-endian numbers -/

theorem be16_nat (a b : Nat) (ha : a < 256) (hb : b < 256) :
    let n := a * 256 + b
    n / 256 % 256 = a ∧ n % 256 = b := by
  intro n; omega

theorem be24_nat (b c d : Nat) (hb : b < 256) (hc : c < 256) (hd : d < 256) :
    let n := (b * 256 + c) * 256 + d
    n / 65536 % 256 = b ∧ n / 256 % 256 = c ∧ n % 256 = d := by
  intro n; omega

theorem be32_nat (a b c d : Nat) (ha : a < 256) (hb : b < 256) (hc : c < 256) (hd : d < 256) :
    let n := ((a * 256 + b) * 256 + c) * 256 + d
    n / 16777216 % 256 = a ∧ n / 65536 % 256 = b ∧ n / 256 % 256 = c ∧ n % 256 = d := by
  intro n; omega

theorem fromBe_be24 (n : Nat) (h : n < 16777216) : fromBe (be24 n) = n := by
  simp [fromBe, be24]; omega
theorem fromBe_be32 (n : Nat) (h : n < 4294967296) : fromBe (be32 n) = n := by
  simp [fromBe, be32]; omega

theorem be32_fromBe (a b c d : UInt8) : be32 (fromBe [a,b,c,d]) = [a,b,c,d] := by
  have ⟨h1, h2, h3, h4⟩ := be32_nat a.toNat b.toNat c.toNat d.toNat a.toNat_lt b.toNat_lt c.toNat_lt d.toNat_lt
  simp only [fromBe, be32, List.foldl, Nat.zero_mul, Nat.zero_add]
  simp only [h1, h2, h3, h4]
  simp

theorem be24_fromBe (b c d : UInt8) : be24 (fromBe [b,c,d]) = [b,c,d] := by
  have ⟨h2, h3, h4⟩ := be24_nat b.toNat c.toNat d.toNat b.toNat_lt c.toNat_lt d.toNat_lt
  simp only [fromBe, be24, List.foldl, Nat.zero_mul, Nat.zero_add]
  simp only [h2, h3, h4]
  simp

theorem fromBe3_lt (b c d : UInt8) : fromBe [b,c,d] < 16777216 := by
  have hb := b.toNat_lt; have hc := c.toNat_lt; have hd := d.toNat_lt
  simp only [fromBe, List.foldl]; omega

theorem fromBe4_lt (a b c d : UInt8) : fromBe [a,b,c,d] < 4294967296 := by
  have ha := a.toNat_lt; have hb := b.toNat_lt; have hc := c.toNat_lt; have hd := d.toNat_lt
  simp only [fromBe, List.foldl]; omega

theorem fromBe_append4 (a b c d : UInt8) (r : Bytes) :
    fromBe ([a,b,c,d] ++ r) = r.foldl (fun acc x => acc * 256 + x.toNat) (fromBe [a,b,c,d]) := by
  simp [fromBe]

theorem fromBe8 (a b c d e f g h : UInt8) :
    fromBe [a,b,c,d,e,f,g,h] = fromBe [a,b,c,d] * 4294967296 + fromBe [e,f,g,h] := by
  simp only [fromBe, List.foldl]; omega

theorem fromBe8_lt (a b c d e f g h : UInt8) : fromBe [a,b,c,d,e,f,g,h] < 18446744073709551616 := by
  rw [fromBe8]
  have := fromBe4_lt a b c d; have := fromBe4_lt e f g h; omega

theorem be64_fromBe (a b c d e f g h : UInt8) : be64 (fromBe [a,b,c,d,e,f,g,h]) = [a,b,c,d,e,f,g,h] := by
  rw [fromBe8]
  have h1 := fromBe4_lt a b c d; have h2 := fromBe4_lt e f g h
  unfold be64
  have e1 : (fromBe [a,b,c,d] * 4294967296 + fromBe [e,f,g,h]) / 4294967296 = fromBe [a,b,c,d] := by omega
  have e2 : (fromBe [a,b,c,d] * 4294967296 + fromBe [e,f,g,h]) % 4294967296 = fromBe [e,f,g,h] := by omega
  rw [e1, e2, be32_fromBe, be32_fromBe]; rfl

theorem fromBe_be64 (n : Nat) (h : n < 18446744073709551616) : fromBe (be64 n) = n := by
  have h1 : n / 4294967296 < 4294967296 := by omega
  have h2 : n % 4294967296 < 4294967296 := by omega
  have e1 := fromBe_be32 _ h1; have e2 := fromBe_be32 _ h2
  unfold be64 be32 at *
  simp only [List.cons_append, List.nil_append]
  rw [fromBe8]
  simp only [e1, e2]; omega

@[simp] theorem be24_length (n : Nat) : (be24 n).length = 3 := rfl
@[simp] theorem be32_length (n : Nat) : (be32 n).length = 4 := rfl
@[simp] theorem be64_length (n : Nat) : (be64 n).length = 8 := rfl

theorem list_len2 {bs : Bytes} (h : bs.length = 2) : ∃ a b, bs = [a,b] := by
  match bs, h with
  | [a,b], _ => exact ⟨a,b,rfl⟩
theorem list_len4 {bs : Bytes} (h : bs.length = 4) : ∃ a b c d, bs = [a,b,c,d] := by
  match bs, h with
  | [a,b,c,d], _ => exact ⟨a,b,c,d,rfl⟩
theorem list_len8 {bs : Bytes} (h : bs.length = 8) : ∃ a b c d e f g i, bs = [a,b,c,d,e,f,g,i] := by
  match bs, h with
  | [a,b,c,d,e,f,g,i], _ => exact ⟨a,b,c,d,e,f,g,i,rfl⟩

/-! ## cursor -/

def Cur.isIn : Cur → Prop
  | .inRange _ => True
  | .past _ => False

theorem Cur.read_spec {c c' : Cur} {n : Nat} {b : Bytes} (h : c.read n = .ok (b, c')) :
    b.length = n ∧ (c'.isIn ↔ c.isIn) ∧
      (∀ r', c' = .inRange r' → ∃ r, c = .inRange r ∧ r = b ++ r') := by
  unfold Cur.read at h
  split at h
  · cases h; refine ⟨by simp_all, Iff.rfl, ?_⟩
    intro r' hr; exact ⟨r', hr, by simp⟩
  · cases c with
    | inRange r =>
      simp only at h
      split at h
      · cases h
        refine ⟨by simp; omega, by simp [Cur.isIn], ?_⟩
        intro r' hr; cases hr; exact ⟨r, rfl, by simp⟩
      · cases h
    | past o => cases h

theorem Cur.read_append (b r : Bytes) : (Cur.inRange (b ++ r)).read b.length = .ok (b, .inRange r) := by
  unfold Cur.read
  by_cases hb : b.length = 0
  · have : b = [] := List.eq_nil_of_length_eq_zero hb
    subst this; simp
  · simp [hb]

theorem Cur.skip_isIn {c : Cur} {k : Nat} (h : (c.skip k).isIn) : c.isIn := by
  unfold Cur.skip at h
  split at h
  · exact h
  · cases c with
    | inRange r => trivial
    | past o => exact h

theorem Cur.skip_spec {c : Cur} {k : Nat} {r' : Bytes} (h : c.skip k = .inRange r') :
    ∃ r, c = .inRange r ∧ k ≤ r.length ∧ r' = r.drop k := by
  unfold Cur.skip at h
  split at h
  · rename_i hk; subst hk; exact ⟨r', h, by simp, by simp⟩
  · cases c with
    | inRange r =>
      simp only at h
      split at h
      · cases h; exact ⟨r, rfl, by assumption, rfl⟩
      · cases h
    | past o => cases h

theorem Cur.skip_append (b r : Bytes) : (Cur.inRange (b ++ r)).skip b.length = .inRange r := by
  unfold Cur.skip
  by_cases hb : b.length = 0
  · have : b = [] := List.eq_nil_of_length_eq_zero hb
    subst this; simp
  · simp [hb]

end Dia
