import Dia.ServerCut
/-! A reset (read error) behaves like an orderly close as far as handler calls and written octets are concerned: only
the way the loop reports its end differs. -/
namespace Dia

/-- the same script with every read error replaced by end of stream -/
def toEof : List REv → List REv
  | [] => []
  | .fail :: r => .eof :: toEof r
  | e :: r => e :: toEof r

def RO.eofy : RO → RO
  | .ioerr g => .eof g
  | o => o

theorem RO.eofy_prepend (b : Bytes) (o : RO) : (o.prepend b).eofy = o.eofy.prepend b := by
  cases o <;> rfl

theorem readExact_toEof : ∀ (n : Nat) (evs : List REv),
    readExact n (toEof evs) = ((readExact n evs).1.eofy, toEof (readExact n evs).2) := by
  intro n evs
  induction evs generalizing n with
  | nil => cases n <;> simp [readExact, toEof, RO.eofy]
  | cons e r ih =>
    cases n with
    | zero => simp [readExact, RO.eofy]
    | succ n =>
      cases e with
      | pending => simp only [toEof]; rw [readExact, readExact]; exact ih (n+1)
      | eof => simp [toEof, readExact, RO.eofy]
      | fail => simp [toEof, readExact, RO.eofy]
      | data bs =>
        simp only [toEof]
        rw [readExact, readExact]
        split
        · simp [RO.eofy, toEof]
        · split
          · split <;> simp [RO.eofy, toEof]
          · rw [ih]
            simp [RO.eofy_prepend]

def COut.eofy : COut → COut
  | .err .io => .err .eof
  | o => o

theorem Codec.decode_toEof (cfg : Cfg) (dict : Lookup) (evs : List REv) :
    Codec.decode cfg dict (toEof evs) =
      ⟨(Codec.decode cfg dict evs).out.eofy, toEof (Codec.decode cfg dict evs).rest, (Codec.decode cfg dict evs).consumed⟩ := by
  unfold Codec.decode
  rw [readExact_toEof]
  cases h1 : readExact 4 evs with
  | mk o evs1 =>
    cases o with
    | eof g => simp [RO.eofy, COut.eofy]
    | ioerr g => simp [RO.eofy, COut.eofy]
    | ok p =>
      simp only [RO.eofy]
      split
      · simp [COut.eofy]
      · split
        · simp [COut.eofy]
        · split
          · simp [COut.eofy]
          · rw [readExact_toEof]
            cases h2 : readExact (fromBe (p.drop 1) - 4) evs1 with
            | mk o2 evs2 =>
              cases o2 with
              | eof g => simp [RO.eofy, COut.eofy]
              | ioerr g => simp [RO.eofy, COut.eofy]
              | ok body =>
                simp only [RO.eofy]
                cases decMsg cfg dict (p ++ body) <;> simp [COut.eofy]

/-- **a reset is as harmless as a close**: the handler calls and the octets written are the same whether the read side
ends with an error (connection reset) or with end of stream, at whatever point -/
theorem serve_toEof (cfg : Cfg) (dict : Lookup) : ∀ (hs : List HRes) (evs : List REv) (w : List WEv),
    (serve cfg dict hs (toEof evs) w).calls = (serve cfg dict hs evs w).calls ∧
    (serve cfg dict hs (toEof evs) w).written = (serve cfg dict hs evs w).written
  | hs, evs, w => by
    rw [serve, serve, Codec.decode_toEof]
    cases hd : (Codec.decode cfg dict evs).out with
    | panic => simp [COut.eofy]
    | err e => cases e <;> simp [COut.eofy]
    | ok req =>
      simp only [COut.eofy]
      cases hs with
      | nil => simp
      | cons h hs' =>
        cases h with
        | err => simp
        | ok ans =>
          simp only
          cases he : ans.enc.err with
          | some e => simp
          | none =>
            simp only
            cases hw : writeAll ans.enc.bytes w with
            | mk ok rest =>
              obtain ⟨wr, w'⟩ := rest
              simp only
              cases ok with
              | false => simp
              | true =>
                simp only [if_true, ServeLog.cons]
                obtain ⟨i1, i2⟩ := serve_toEof cfg dict hs' (Codec.decode cfg dict evs).rest w'
                rw [i1, i2]
                exact ⟨rfl, rfl⟩
termination_by hs => hs.length

end Dia
