import Dia.DictRefine
/-! Application and command names over dictionary histories: the last declaration of a name wins. -/
namespace Dia

def docApps (doc : Doc) : List (String × Nat) := doc.map fun app => (app.name, app.id)
def docCmds (doc : Doc) : List (String × Nat) := doc.flatMap fun app => app.cmds.map fun c => (c.2, c.1)

def DOp.declApps (acc : List (String × Nat)) : DOp → List (String × Nat)
  | .construct docs => docs.flatMap docApps
  | .load doc => acc ++ docApps doc
  | .add _ => acc
def DOp.declCmds (acc : List (String × Nat)) : DOp → List (String × Nat)
  | .construct docs => docs.flatMap docCmds
  | .load doc => acc ++ docCmds doc
  | .add _ => acc

/-- every application / command declaration supplied since the last construction, oldest first -/
def declaredApps (ops : List DOp) : List (String × Nat) := ops.foldl DOp.declApps []
def declaredCmds (ops : List DOp) : List (String × Nat) := ops.foldl DOp.declCmds []

theorem loadApp_apps_cmds (D : Dict) (app : DocApp) :
    (D.loadApp app).apps = (app.name, app.id) :: D.apps ∧
    (D.loadApp app).cmds = (app.cmds.map fun c => (c.2, c.1)).reverse ++ D.cmds := by
  unfold Dict.loadApp
  simp only
  have ha : ∀ (as : List DocAvp) (D : Dict), (as.foldl (fun D a => D.add a.toDef) D).apps = D.apps ∧
      (as.foldl (fun D a => D.add a.toDef) D).cmds = D.cmds := by
    intro as
    induction as with
    | nil => intro D; exact ⟨rfl, rfl⟩
    | cons a as ih => intro D; simp only [List.foldl_cons]; obtain ⟨h1, h2⟩ := ih (D.add a.toDef); exact ⟨h1, h2⟩
  have hc : ∀ (cs : List (Nat × String)) (D : Dict),
      (cs.foldl (fun D c => { D with cmds := (c.2, c.1) :: D.cmds }) D).apps = D.apps ∧
      (cs.foldl (fun D c => { D with cmds := (c.2, c.1) :: D.cmds }) D).cmds =
        (cs.map fun c => (c.2, c.1)).reverse ++ D.cmds := by
    intro cs
    induction cs with
    | nil => intro D; exact ⟨rfl, rfl⟩
    | cons c cs ih =>
      intro D
      simp only [List.foldl_cons, List.map_cons, List.reverse_cons, List.append_assoc]
      obtain ⟨h1, h2⟩ := ih { D with cmds := (c.2, c.1) :: D.cmds }
      exact ⟨h1, by rw [h2]; simp⟩
  obtain ⟨a1, a2⟩ := ha app.avps _
  obtain ⟨c1, c2⟩ := hc app.cmds { D with apps := (app.name, app.id) :: D.apps }
  exact ⟨by rw [a1, c1], by rw [a2, c2]⟩

theorem loadDoc_apps_cmds (D : Dict) (doc : Doc) :
    (D.loadDoc doc).apps = (docApps doc).reverse ++ D.apps ∧ (D.loadDoc doc).cmds = (docCmds doc).reverse ++ D.cmds := by
  unfold Dict.loadDoc docApps docCmds
  induction doc generalizing D with
  | nil => exact ⟨rfl, rfl⟩
  | cons app apps ih =>
    simp only [List.foldl_cons, List.map_cons, List.flatMap_cons, List.reverse_cons, List.reverse_append,
      List.append_assoc]
    obtain ⟨h1, h2⟩ := ih (D.loadApp app)
    obtain ⟨l1, l2⟩ := loadApp_apps_cmds D app
    exact ⟨by rw [h1, l1]; simp, by rw [h2, l2]⟩

theorem construct_apps_cmds (docs : List Doc) (D : Dict) :
    (docs.foldl Dict.loadDoc D).apps = (docs.flatMap docApps).reverse ++ D.apps ∧
    (docs.foldl Dict.loadDoc D).cmds = (docs.flatMap docCmds).reverse ++ D.cmds := by
  induction docs generalizing D with
  | nil => exact ⟨rfl, rfl⟩
  | cons d ds ih =>
    simp only [List.foldl_cons, List.flatMap_cons, List.reverse_append, List.append_assoc]
    obtain ⟨h1, h2⟩ := ih (D.loadDoc d)
    obtain ⟨l1, l2⟩ := loadDoc_apps_cmds D d
    exact ⟨by rw [h1, l1], by rw [h2, l2]⟩

/-- the concrete tables are the declarations in reverse order (newest first) -/
theorem run_apps_cmds (ops : List DOp) :
    (runD ops).apps = (declaredApps ops).reverse ∧ (runD ops).cmds = (declaredCmds ops).reverse := by
  unfold runD declaredApps declaredCmds
  have : ∀ (ops : List DOp) (D : Dict) (a c : List (String × Nat)), D.apps = a.reverse → D.cmds = c.reverse →
      (ops.foldl DOp.apply D).apps = (ops.foldl DOp.declApps a).reverse ∧
      (ops.foldl DOp.apply D).cmds = (ops.foldl DOp.declCmds c).reverse := by
    intro ops
    induction ops with
    | nil => intro D a c h1 h2; exact ⟨h1, h2⟩
    | cons op ops ih =>
      intro D a c h1 h2
      simp only [List.foldl_cons]
      apply ih
      · cases op with
        | construct docs => simpa [DOp.apply, DOp.declApps, Dict.empty] using (construct_apps_cmds docs Dict.empty).1
        | load doc => simp [DOp.apply, DOp.declApps, (loadDoc_apps_cmds D doc).1, h1]
        | add d => simpa [DOp.apply, DOp.declApps, Dict.add] using h1
      · cases op with
        | construct docs => simpa [DOp.apply, DOp.declCmds, Dict.empty] using (construct_apps_cmds docs Dict.empty).2
        | load doc => simp [DOp.apply, DOp.declCmds, (loadDoc_apps_cmds D doc).2, h2]
        | add d => simpa [DOp.apply, DOp.declCmds, Dict.add] using h2
  exact this ops Dict.empty [] [] rfl rfl

theorem lookupName_eq_find (l : List (String × Nat)) (n : String) :
    lookupName l n = (l.find? (fun p => p.1 = n)).map (·.2) := by
  induction l with
  | nil => rfl
  | cons x xs ih =>
    obtain ⟨k, v⟩ := x
    simp only [lookupName, List.find?_cons]
    by_cases h : k = n <;> simp [h, ih]

end Dia
