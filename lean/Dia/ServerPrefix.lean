import Dia.ServerThm
/-! The server loop after a prefix of good requests: the general induction from which "all good", "stops at the first
bad position" and "read cut at any offset" follow. -/
namespace Dia

def ServeLog.prepend (rs : List Msg) (bs : Bytes) (l : ServeLog) : ServeLog := ⟨rs ++ l.calls, bs ++ l.written, l.clean⟩

theorem ServeLog.prepend_nil (l : ServeLog) : l.prepend [] [] = l := by
  cases l; simp [ServeLog.prepend]

theorem ServeLog.cons_prepend (req : Msg) (wr : Bytes) (rs : List Msg) (bs : Bytes) (l : ServeLog) :
    (l.prepend rs bs).cons req wr = l.prepend (req :: rs) (wr ++ bs) := by
  simp [ServeLog.prepend, ServeLog.cons]

/-- after `k` acceptable requests, answered without encoding error over a writer that never fails, the loop is in
the state "serve the rest of the script", having called the handler with exactly those requests and written exactly
their answers -/
theorem serve_prefix (cfg : Cfg) (dict : Lookup) :
    ∀ (frames : List Bytes) (reqs answers : List Msg) (hs : List HRes) (evs : List REv) (rest : Bytes) (w : List WEv),
    frames.length = reqs.length → answers.length = reqs.length →
    (∀ i (h1 : i < frames.length) (h2 : i < reqs.length), Accepts cfg dict frames[i] reqs[i]) →
    (∀ a ∈ answers, a.enc.err = none) →
    noEmpty evs → flat evs = frames.flatten ++ rest → neverFails w →
    ∃ evs' w', flat evs' = rest ∧ noEmpty evs' ∧ neverFails w' ∧
      serve cfg dict (answers.map .ok ++ hs) evs w =
        (serve cfg dict hs evs' w').prepend reqs (answers.map (fun a => a.enc.bytes)).flatten := by
  intro frames
  induction frames with
  | nil =>
    intro reqs answers hs evs rest w hl1 hl2 _ _ hne hflat hw
    have hr : reqs = [] := List.eq_nil_of_length_eq_zero (by simpa using hl1.symm)
    subst hr
    have ha : answers = [] := List.eq_nil_of_length_eq_zero (by simpa using hl2)
    subst ha
    exact ⟨evs, w, by simpa using hflat, hne, hw, by simp [ServeLog.prepend_nil]⟩
  | cons f fs ih =>
    intro reqs answers hs evs rest w hl1 hl2 hacc henc hne hflat hw
    cases reqs with
    | nil => simp at hl1
    | cons req reqs =>
      cases answers with
      | nil => simp at hl2
      | cons ans answers =>
        have ha0 : Accepts cfg dict f req := hacc 0 (Nat.zero_lt_succ _) (Nat.zero_lt_succ _)
        obtain ⟨evs1, hd, hf1, hne1⟩ := Codec.decode_frame cfg dict evs f (fs.flatten ++ rest) req hne
          (by simpa [List.append_assoc] using hflat) ha0
        have hanse : ans.enc.err = none := henc ans (List.mem_cons_self ..)
        obtain ⟨w1, hwr, hw1⟩ := writeAll_ok ans.enc.bytes w hw
        obtain ⟨evs', w', g1, g2, g3, g4⟩ := ih reqs answers hs evs1 rest w1 (by simpa using hl1) (by simpa using hl2)
          (fun i h1 h2 => by
            have := hacc (i+1) (Nat.succ_lt_succ h1) (Nat.succ_lt_succ h2)
            simpa using this)
          (fun a ha => henc a (List.mem_cons_of_mem _ ha)) hne1 hf1 hw1
        refine ⟨evs', w', g1, g2, g3, ?_⟩
        rw [serve]
        simp only [hd, List.map_cons, List.cons_append, hanse, hwr, if_true]
        rw [g4, ServeLog.cons_prepend]
        simp

/-- fewer octets than asked for, then the end of a well-behaved script: `read_exact` reports end of stream -/
theorem readExact_short : ∀ (n : Nat) (evs : List REv), noEmpty evs → (flat evs).length < n →
    ∃ got evs', readExact n evs = (.eof got, evs') := by
  intro n evs
  induction evs generalizing n with
  | nil =>
    intro _ h
    cases n with
    | zero => simp [flat] at h
    | succ n => exact ⟨[], [], by simp [readExact]⟩
  | cons e r ih =>
    intro hne h
    cases n with
    | zero => simp at h
    | succ n =>
      cases e with
      | pending =>
        obtain ⟨got, evs', hh⟩ := ih (n+1) hne (by simpa [flat] using h)
        exact ⟨got, evs', by rw [readExact]; exact hh⟩
      | eof => exact ⟨[], .eof :: r, by simp [readExact]⟩
      | fail => exact absurd hne (by simp [noEmpty])
      | data bs =>
        obtain ⟨hb, hne'⟩ := hne
        have hbl : bs.length ≠ 0 := by intro h0; exact hb (List.eq_nil_of_length_eq_zero h0)
        simp only [flat, List.length_append] at h
        rw [readExact]
        rw [if_neg hbl, if_neg (by omega)]
        obtain ⟨got, evs', hh⟩ := ih (n + 1 - bs.length) hne' (by omega)
        rw [hh]
        exact ⟨bs ++ got, evs', rfl⟩

/-- a stream that ends inside a frame - anywhere: in the length prefix, the header, an AVP - makes the stream reader
report end of stream -/
theorem Codec.decode_cut (cfg : Cfg) (dict : Lookup) (evs : List REv) (f : Bytes) (m : Msg) (q : Nat)
    (hne : noEmpty evs) (ha : Accepts cfg dict f m) (hq : q < f.length) (hflat : flat evs = f.take q) :
    (Codec.decode cfg dict evs).out = .err .eof := by
  obtain ⟨_, hlen, hlo, hhi⟩ := ha
  have hfl : (flat evs).length = q := by rw [hflat]; simp; omega
  unfold Codec.decode
  by_cases h4 : q < 4
  · obtain ⟨got, evs1, hr⟩ := readExact_short 4 evs hne (by omega)
    rw [hr]
  · obtain ⟨evs1, r1, f1, n1⟩ := readExact_flat 4 evs hne (by omega)
    rw [r1]
    have hp : (flat evs).take 4 = f.take 4 := by
      rw [hflat, List.take_take]; congr 1; omega
    have hL : fromBe (((flat evs).take 4).drop 1) = f.length := by rw [hp]; exact hlen
    simp only [hL]
    rw [if_neg (by omega), if_neg (by omega), if_neg (by omega)]
    obtain ⟨got, evs2, hr2⟩ := readExact_short (f.length - 4) evs1 n1 (by rw [f1]; simp; omega)
    rw [hr2]

end Dia
