import Dia.Leaf2
namespace Dia

theorem tyOf_ofFixed {ty : Ty} {n : Nat} (hn : fixedSize ty = some n) (b : Bytes) : tyOf (ofFixed ty b) = ty := by
  cases ty <;> simp only [fixedSize, reduceCtorEq] at hn <;> rfl

theorem decLeaf_ty {cfg : Cfg} {ty : Ty} {vl : Nat} {c c' : Cur} {v : Value}
    (h : decLeaf cfg ty vl c = .ok (v, c')) : tyOf v = ty := by
  cases hf : fixedSize ty with
  | some n =>
    obtain ⟨b, _, rfl⟩ := decLeaf_fixed hf h
    exact tyOf_ofFixed hf b
  | none => exact (decLeaf_inv h (by intro n hn; rw [hf] at hn; cases hn)).1

theorem decLeaf_isIn {cfg : Cfg} {ty : Ty} {vl : Nat} {c c' : Cur} {v : Value}
    (h : decLeaf cfg ty vl c = .ok (v, c')) : (c'.isIn ↔ c.isIn) := by
  cases hf : fixedSize ty with
  | some n =>
    obtain ⟨b, hr, _⟩ := decLeaf_fixed hf h
    exact (read_leaf hr).2.1
  | none => exact (decLeaf_inv h (by intro n hn; rw [hf] at hn; cases hn)).2.2.2.2.2.1

theorem Enc.andThen_ok (x : Bytes) (f : Unit → Enc) : (Enc.mk x none).andThen f = ⟨x ++ (f ()).bytes, (f ()).err⟩ := rfl

theorem encHdr_ok {code : UInt32} {vendor : Option UInt32} {m p : Bool} {len : Nat} (h : len < 16777216) :
    encHdr code vendor m p len = ⟨hdrBytes code vendor m p len, none⟩ := by
  unfold encHdr; rw [if_neg (by omega)]; rfl

/-! `isIn` can only be lost, never regained -/
mutual
theorem decAvp_isIn (cfg : Cfg) (dict : Lookup) : ∀ (fuel depth : Nat) (c c' : Cur) (a : Avp),
    decAvp cfg dict fuel depth c = .ok (a, c') → c'.isIn → c.isIn
  | 0, _, _, _, _, h, _ => by simp [decAvp] at h
  | fuel+1, depth, c, c', a, h, hin => by
    simp only [decAvp] at h
    rw [Out.bind_eq_ok] at h
    obtain ⟨⟨hd, c1⟩, hh, h⟩ := h
    dsimp only at h
    have e1 := (decHdr_inv hh).1
    split at h
    · cases h
    · rw [Out.bind_eq_ok] at h
      obtain ⟨vl, hvl, h⟩ := h
      rw [Out.bind_eq_ok] at h
      obtain ⟨⟨v, c2⟩, hv, h⟩ := h
      dsimp only at h
      cases h
      have hin2 : c2.isIn := Cur.skip_isIn hin
      have hin1 : c1.isIn := by
        split at hv
        · split at hv
          · cases hv
          · rw [Out.bind_eq_ok] at hv
            obtain ⟨⟨ms, c3⟩, hg, hv⟩ := hv
            dsimp only at hv
            cases hv
            exact decGroup_isIn cfg dict fuel (depth+1) _ 0 c1 c2 ms hg hin2
        · cases hv
        · exact (decLeaf_isIn hv).mp hin2
      exact e1.mp hin1
theorem decGroup_isIn (cfg : Cfg) (dict : Lookup) : ∀ (fuel depth len off : Nat) (c c' : Cur) (ms : List Avp),
    decGroup cfg dict fuel depth len off c = .ok (ms, c') → c'.isIn → c.isIn
  | 0, _, _, _, _, _, _, h, _ => by simp [decGroup] at h
  | fuel+1, depth, len, off, c, c', ms, h, hin => by
    simp only [decGroup] at h
    split at h
    · rw [Out.bind_eq_ok] at h
      obtain ⟨⟨a, c1⟩, ha, h⟩ := h
      dsimp only at h
      rw [Out.bind_eq_ok] at h
      obtain ⟨o1, ho1, h⟩ := h
      rw [Out.bind_eq_ok] at h
      obtain ⟨o2, ho2, h⟩ := h
      rw [Out.bind_eq_ok] at h
      obtain ⟨⟨as, c2⟩, hg, h⟩ := h
      dsimp only at h
      cases h
      exact decAvp_isIn cfg dict fuel depth c c1 a ha (decGroup_isIn cfg dict fuel depth len o2 c1 _ as hg hin)
    · split at h
      · cases h; exact hin
      · cases h
end

end Dia
