import Dia.DecTyped
/-! The fuel of the model decoder is an artefact (Lean needs structural recursion); the code has none. Here: the fuel
`decMsg` hands out is always enough - the model never answers `err fuel` - because every successful AVP decode
consumes at least the 8 octets of its header. -/
namespace Dia

def Cur.rem : Cur → Nat
  | .inRange r => r.length
  | .past _ => 0

theorem Cur.read_rem {c c' : Cur} {n : Nat} {b : Bytes} (h : c.read n = .ok (b, c')) : c'.rem + n = c.rem ∨ (n = 0 ∧ c' = c) := by
  unfold Cur.read at h
  split at h
  · rename_i hn; cases h; exact Or.inr ⟨hn, rfl⟩
  · cases c with
    | inRange r =>
      simp only at h
      split at h
      · cases h; left; simp [Cur.rem]; omega
      · cases h
    | past o => cases h

theorem Cur.read_rem_le {c c' : Cur} {n : Nat} {b : Bytes} (h : c.read n = .ok (b, c')) : c'.rem + n ≤ c.rem ∨ n = 0 ∧ c' = c := by
  rcases Cur.read_rem h with h1 | h2
  · left; omega
  · right; exact h2

theorem Cur.read_rem_mono {c c' : Cur} {n : Nat} {b : Bytes} (h : c.read n = .ok (b, c')) : c'.rem ≤ c.rem := by
  rcases Cur.read_rem h with h1 | ⟨_, h2⟩
  · omega
  · rw [h2]; exact Nat.le_refl _

theorem Cur.skip_rem (c : Cur) (k : Nat) : (c.skip k).rem ≤ c.rem := by
  unfold Cur.skip
  split
  · exact Nat.le_refl _
  · cases c with
    | inRange r =>
      simp only
      split
      · simp [Cur.rem]
      · simp [Cur.rem]
    | past o => simp [Cur.rem]

theorem decHdr_rem {c c' : Cur} {h : Hdr} (hd : decHdr c = .ok (h, c')) : c'.rem + 8 ≤ c.rem := by
  unfold decHdr at hd
  rw [Out.bind_eq_ok] at hd
  obtain ⟨⟨b8, c1⟩, hr, hd⟩ := hd
  dsimp only at hd
  have h8 : c1.rem + 8 = c.rem := by
    rcases Cur.read_rem hr with h1 | ⟨h2, _⟩
    · exact h1
    · omega
  split at hd
  · rw [Out.bind_eq_ok] at hd
    obtain ⟨⟨b4, c2⟩, hr2, hd⟩ := hd
    dsimp only at hd
    cases hd
    have := Cur.read_rem_mono hr2
    omega
  · cases hd; omega

theorem decAddr_rem {vl : Nat} {c c' : Cur} {v : Value} (h : decAddr vl c = .ok (v, c')) : c'.rem ≤ c.rem := by
  unfold decAddr at h
  rw [Out.bind_eq_ok] at h
  obtain ⟨⟨f, c1⟩, hr, h⟩ := h
  dsimp only at h
  have m1 := Cur.read_rem_mono hr
  split at h
  · split at h
    · cases h
    · rw [Out.bind_eq_ok] at h
      obtain ⟨⟨b, c2⟩, hr2, h⟩ := h
      dsimp only at h; cases h
      have := Cur.read_rem_mono hr2; omega
  · split at h
    · cases h
    · rw [Out.bind_eq_ok] at h
      obtain ⟨⟨b, c2⟩, hr2, h⟩ := h
      dsimp only at h; cases h
      have := Cur.read_rem_mono hr2; omega
  · split at h
    · cases h
    · split at h
      · cases h
      · rw [Out.bind_eq_ok] at h
        obtain ⟨n, hn, h⟩ := h
        split at h
        · cases h
        · rw [Out.bind_eq_ok] at h
          obtain ⟨⟨b, c2⟩, hr2, h⟩ := h
          dsimp only at h
          have := Cur.read_rem_mono hr2
          split at h
          · cases h; omega
          · cases h
  · cases h

theorem decLeaf_rem {cfg : Cfg} {ty : Ty} {vl : Nat} {c c' : Cur} {v : Value}
    (h : decLeaf cfg ty vl c = .ok (v, c')) : c'.rem ≤ c.rem := by
  unfold decLeaf at h
  split at h
  · split at h
    · cases h
    · split at h
      · cases h
      · rw [Out.bind_eq_ok] at h
        obtain ⟨⟨b, c2⟩, hr, h⟩ := h
        dsimp only at h; cases h
        exact Cur.read_rem_mono hr
  · split at h
    · exact decAddr_rem h
    all_goals first
      | (rw [Out.bind_eq_ok] at h
         obtain ⟨⟨b, c2⟩, hr, h⟩ := h
         dsimp only at h
         have := Cur.read_rem_mono hr
         first
           | (cases h; exact this)
           | (split at h <;> first | (cases h; exact this) | cases h))
      | cases h

mutual
theorem decAvp_rem (cfg : Cfg) (dict : Lookup) : ∀ (fuel depth : Nat) (c c' : Cur) (a : Avp),
    decAvp cfg dict fuel depth c = .ok (a, c') → c'.rem + 8 ≤ c.rem
  | 0, _, _, _, _, h => by simp [decAvp] at h
  | fuel+1, depth, c, c', a, h => by
    simp only [decAvp] at h
    rw [Out.bind_eq_ok] at h
    obtain ⟨⟨hdr, c1⟩, hh, h⟩ := h
    dsimp only at h
    have h8 := decHdr_rem hh
    split at h
    · cases h
    · rw [Out.bind_eq_ok] at h
      obtain ⟨vl, hvl, h⟩ := h
      rw [Out.bind_eq_ok] at h
      obtain ⟨⟨v, c2⟩, hv, h⟩ := h
      dsimp only at h
      cases h
      have hs := Cur.skip_rem c2 (pad vl)
      have h2 : c2.rem ≤ c1.rem := by
        split at hv
        · split at hv
          · cases hv
          · rw [Out.bind_eq_ok] at hv
            obtain ⟨⟨ms, c3⟩, hgr, hv⟩ := hv
            dsimp only at hv
            cases hv
            exact decGroup_rem cfg dict fuel (depth+1) vl 0 c1 _ ms hgr
        · cases hv
        · exact decLeaf_rem hv
      omega
theorem decGroup_rem (cfg : Cfg) (dict : Lookup) : ∀ (fuel depth len off : Nat) (c c' : Cur) (ms : List Avp),
    decGroup cfg dict fuel depth len off c = .ok (ms, c') → c'.rem ≤ c.rem
  | 0, _, _, _, _, _, _, h => by simp [decGroup] at h
  | fuel+1, depth, len, off, c, c', ms, h => by
    simp only [decGroup] at h
    split at h
    · rw [Out.bind_eq_ok] at h
      obtain ⟨⟨a, c1⟩, ha, h⟩ := h
      dsimp only at h
      rw [Out.bind_eq_ok] at h
      obtain ⟨o1, ho1, h⟩ := h
      rw [Out.bind_eq_ok] at h
      obtain ⟨o2, ho2, h⟩ := h
      rw [Out.bind_eq_ok] at h
      obtain ⟨⟨as, c2⟩, hg, h⟩ := h
      dsimp only at h
      cases h
      have := decAvp_rem cfg dict fuel depth c c1 a ha
      have := decGroup_rem cfg dict fuel depth len o2 c1 _ as hg
      omega
    · split at h
      · cases h; exact Nat.le_refl _
      · cases h
end

theorem Out.bind_ne_fuel {α β} {x : Out α} {f : α → Out β}
    (hx : x ≠ .err .fuel) (hf : ∀ a, x = .ok a → f a ≠ .err .fuel) : x.bind f ≠ .err .fuel := by
  cases x with
  | ok a => exact hf a rfl
  | err e => simpa [Out.bind] using hx
  | panic => simp [Out.bind]

theorem Cur.read_ne_fuel (c : Cur) (n : Nat) : c.read n ≠ .err .fuel := by
  unfold Cur.read
  split
  · simp
  · cases c with
    | inRange r => simp only; split <;> simp
    | past o => simp

theorem decHdr_ne_fuel (c : Cur) : decHdr c ≠ .err .fuel := by
  unfold decHdr
  refine Out.bind_ne_fuel (Cur.read_ne_fuel _ _) ?_
  intro ⟨b, c1⟩ _
  dsimp only
  split
  · refine Out.bind_ne_fuel (Cur.read_ne_fuel _ _) ?_
    intro ⟨b4, c2⟩ _; simp
  · simp

theorem decAddr_ne_fuel (vl : Nat) (c : Cur) : decAddr vl c ≠ .err .fuel := by
  unfold decAddr
  refine Out.bind_ne_fuel (Cur.read_ne_fuel _ _) ?_
  intro ⟨f, c1⟩ _
  dsimp only
  split
  · split
    · simp
    · refine Out.bind_ne_fuel (Cur.read_ne_fuel _ _) ?_; intro ⟨b, c2⟩ _; simp
  · split
    · simp
    · refine Out.bind_ne_fuel (Cur.read_ne_fuel _ _) ?_; intro ⟨b, c2⟩ _; simp
  · split
    · simp
    · split
      · simp
      · unfold checkedSub
        split
        · simp [Out.bind]
        · simp only [Out.bind_ok]
          split
          · simp
          · refine Out.bind_ne_fuel (Cur.read_ne_fuel _ _) ?_
            intro ⟨b, c2⟩ _; dsimp only; split <;> simp
  · simp

theorem decLeaf_ne_fuel (cfg : Cfg) (ty : Ty) (vl : Nat) (c : Cur) : decLeaf cfg ty vl c ≠ .err .fuel := by
  unfold decLeaf
  split
  · split
    · simp
    · split
      · simp
      · refine Out.bind_ne_fuel (Cur.read_ne_fuel _ _) ?_; intro ⟨b, c2⟩ _; simp
  · split
    · exact decAddr_ne_fuel vl c
    all_goals first
      | (refine Out.bind_ne_fuel (Cur.read_ne_fuel _ _) ?_
         intro ⟨b, c2⟩ _
         dsimp only
         first | (simp; done) | (split <;> simp))
      | simp

mutual
theorem decAvp_ne_fuel (cfg : Cfg) (dict : Lookup) : ∀ (fuel depth : Nat) (c : Cur),
    c.rem / 4 + 1 ≤ fuel → decAvp cfg dict fuel depth c ≠ .err .fuel
  | 0, _, _, h => by omega
  | fuel+1, depth, c, hf => by
    simp only [decAvp]
    refine Out.bind_ne_fuel (decHdr_ne_fuel c) ?_
    intro ⟨hdr, c1⟩ hh
    dsimp only
    have h8 := decHdr_rem hh
    split
    · simp
    · unfold checkedSub
      split
      · simp [Out.bind]
      · simp only [Out.bind_ok]
        refine Out.bind_ne_fuel ?_ ?_
        · split
          · split
            · simp
            · refine Out.bind_ne_fuel (decGroup_ne_fuel cfg dict fuel (depth+1) _ 0 c1 (by omega)) ?_
              intro ⟨ms, c3⟩ _; simp
          · simp
          · exact decLeaf_ne_fuel cfg _ _ c1
        · intro ⟨v, c2⟩ _; simp
theorem decGroup_ne_fuel (cfg : Cfg) (dict : Lookup) : ∀ (fuel depth len off : Nat) (c : Cur),
    c.rem / 4 + 2 ≤ fuel → decGroup cfg dict fuel depth len off c ≠ .err .fuel
  | 0, _, _, _, _, h => by omega
  | fuel+1, depth, len, off, c, hf => by
    simp only [decGroup]
    split
    · refine Out.bind_ne_fuel (decAvp_ne_fuel cfg dict fuel depth c (by omega)) ?_
      intro ⟨a, c1⟩ ha
      dsimp only
      have h8 := decAvp_rem cfg dict fuel depth c c1 a ha
      unfold checkedAdd32
      split
      · simp [Out.bind]
      · simp only [Out.bind_ok]
        split
        · simp [Out.bind]
        · simp only [Out.bind_ok]
          refine Out.bind_ne_fuel (decGroup_ne_fuel cfg dict fuel depth len _ c1 (by omega)) ?_
          intro ⟨as, c2⟩ _; simp
    · split <;> simp
end

/-- the fuel `decMsg` hands out is always sufficient: the model never reports running out of it -/
theorem decMsg_ne_fuel (cfg : Cfg) (dict : Lookup) (bs : Bytes) : decMsg cfg dict bs ≠ .err .fuel := by
  unfold decMsg
  refine Out.bind_ne_fuel (Cur.read_ne_fuel _ _) ?_
  intro ⟨hb, c1⟩ hr
  dsimp only
  have hrem : c1.rem + 20 = bs.length := by
    rcases Cur.read_rem hr with h1 | ⟨h2, _⟩
    · simpa [Cur.rem] using h1
    · omega
  split
  · simp
  · split
    · simp
    · refine Out.bind_ne_fuel (decGroup_ne_fuel cfg dict _ 0 _ 20 c1 (by omega)) ?_
      intro ⟨avps, c2⟩ _; simp

end Dia
