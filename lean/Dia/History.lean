import Dia.Dict
import Dia.SpecEq
/-! The public construction API as a small stack machine (`DiameterMessage::new/add/add_avp/add_avp_by_name/
decode_from`, `Avp::new/from_name`, `Grouped::new/add/add_avp`, `get_grouped().clone()`), plus the read-only
accessors (`get_avp`, `get_avps`, the 16 typed getters, `Grouped::avps`). One `Op` per line of the harness
protocol; `hx` interprets the same lines with the real API. -/
namespace Dia

def Msg.new (cmd app : Nat) (flags : UInt8) (hbh e2e : UInt32) : Msg := ⟨1, 20, flags, cmd, app, hbh, e2e, []⟩

/-- `DiameterMessage::add`: running length, push -/
def Msg.add (m : Msg) (a : Avp) : Msg := { m with length := m.length + a.len + a.padding, avps := m.avps ++ [a] }

def Msg.addAvp (m : Msg) (code : UInt32) (vendor : Option UInt32) (flags : UInt8) (v : Value) : Msg :=
  m.add (Avp.new code vendor flags v)

/-- `Avp::from_name` -/
def Avp.fromName (D : Dict) (n : String) (v : Value) : Option Avp :=
  (D.getByName n).map fun d => Avp.new d.code d.vendor (if d.m then 0x40 else 0) v

/-- `DiameterMessage::add_avp_by_name`: on an unknown name the message is untouched -/
def Msg.addByName (m : Msg) (D : Dict) (n : String) (v : Value) : Option Msg :=
  (Avp.fromName D n v).map m.add

/-- `get_avp(code)`: first AVP with that code -/
def Msg.getAvp (m : Msg) (code : UInt32) : Option Avp := m.avps.find? (fun a => a.code == code)

/-- index of the AVP `get_avp` returns (what the harness reports: position of the returned reference) -/
def Msg.getAvpIdx (m : Msg) (code : UInt32) : Option Nat := m.avps.findIdx? (fun a => a.code == code)

/-- the 16 typed getters: `Some` exactly on the matching variant -/
def Avp.getTyped (a : Avp) (acc : Ty) : Option Value := if tyOf a.value = acc then some a.value else none

def Avp.groupMembers (a : Avp) : Option (List Avp) :=
  match a.value with
  | .grouped ms => some ms
  | _ => none

inductive Item
  | val (v : Value)
  | avp (a : Avp)

structure MState where
  dict : Dict := {}
  msg : Msg := Msg.new 272 4 0 0 0
  stack : List Item := []

inductive Op
  | new (cmd app : Nat) (flags : UInt8) (hbh e2e : UInt32)
  | val (v : Value)
  | grpNew
  | grpAddAvp (code : UInt32) (vendor : Option UInt32) (flags : UInt8)
  | grpAdd
  | avpNew (code : UInt32) (vendor : Option UInt32) (flags : UInt8)
  | avpName (n : String)
  | add
  | addAvp (code : UInt32) (vendor : Option UInt32) (flags : UInt8)
  | addByName (n : String)
  | decode (bs : Bytes)
  | grpFromAvp (i : Nat)
  | avpFromMsg (i : Nat)
  | reencode

inductive Status | ok | err | bad
deriving DecidableEq, Repr

/-- one API call. `bad`: the operation does not apply to the stack (never generated); `err`: the API returned `Err`
(or `None`), in which case only the consumed argument is gone -/
def MState.step (cfg : Cfg) (s : MState) : Op → MState × Status
  | .new cmd app flags hbh e2e =>
    if cfg.tables.cmdKnown cmd && cfg.tables.appKnown app then ({ s with msg := Msg.new cmd app flags hbh e2e }, .ok) else (s, .bad)
  | .val v => ({ s with stack := .val v :: s.stack }, .ok)
  | .grpNew => ({ s with stack := .val (.grouped []) :: s.stack }, .ok)
  | .grpAddAvp code vendor flags =>
    match s.stack with
    | .val v :: .val (.grouped ms) :: rest =>
      ({ s with stack := .val (.grouped (ms ++ [Avp.new code vendor flags v])) :: rest }, .ok)
    | _ => (s, .bad)
  | .grpAdd =>
    match s.stack with
    | .avp a :: .val (.grouped ms) :: rest => ({ s with stack := .val (.grouped (ms ++ [a])) :: rest }, .ok)
    | _ => (s, .bad)
  | .avpNew code vendor flags =>
    match s.stack with
    | .val v :: rest => ({ s with stack := .avp (Avp.new code vendor flags v) :: rest }, .ok)
    | _ => (s, .bad)
  | .avpName n =>
    match s.stack with
    | .val v :: rest =>
      match Avp.fromName s.dict n v with
      | some a => ({ s with stack := .avp a :: rest }, .ok)
      | none => ({ s with stack := rest }, .err)
    | _ => (s, .bad)
  | .add =>
    match s.stack with
    | .avp a :: rest => ({ s with msg := s.msg.add a, stack := rest }, .ok)
    | _ => (s, .bad)
  | .addAvp code vendor flags =>
    match s.stack with
    | .val v :: rest => ({ s with msg := s.msg.addAvp code vendor flags v, stack := rest }, .ok)
    | _ => (s, .bad)
  | .addByName n =>
    match s.stack with
    | .val v :: rest =>
      match s.msg.addByName s.dict n v with
      | some m => ({ s with msg := m, stack := rest }, .ok)
      | none => ({ s with stack := rest }, .err)
    | _ => (s, .bad)
  | .decode bs =>
    match decMsg cfg s.dict.lookup bs with
    | .ok m => ({ s with msg := m }, .ok)
    | _ => (s, .err)
  | .grpFromAvp i =>
    match s.msg.avps[i]? with
    | some a =>
      match a.value with
      | .grouped ms => ({ s with stack := .val (.grouped ms) :: s.stack }, .ok)
      | _ => (s, .err)
    | none => (s, .err)
  | .avpFromMsg i =>
    match s.msg.avps[i]? with
    | some a => ({ s with stack := .avp a :: s.stack }, .ok)
    | none => (s, .err)
  | .reencode =>
    match s.msg.enc.err with
    | some _ => (s, .err)
    | none =>
      match decMsg cfg s.dict.lookup s.msg.enc.bytes with
      | .ok m => ({ s with msg := m }, .ok)
      | _ => (s, .err)

def MState.run (cfg : Cfg) (s : MState) (ops : List Op) : MState := ops.foldl (fun s op => (s.step cfg op).1) s

end Dia
