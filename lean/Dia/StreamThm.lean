import Dia.Stream
import Dia.NoPanic
namespace Dia

def noEmpty : List REv → Prop
  | [] => True
  | .data bs :: r => bs ≠ [] ∧ noEmpty r
  | .pending :: r => noEmpty r
  | .eof :: _ => True
  | .fail :: _ => False

/-- what a `read_exact` takes from the stream never exceeds what was asked for -/
theorem readExact_taken : ∀ (n : Nat) (evs : List REv), (readExact n evs).1.taken ≤ n := by
  intro n evs
  induction evs generalizing n with
  | nil => cases n <;> simp [readExact, RO.taken]
  | cons e r ih =>
    cases n with
    | zero => simp [readExact, RO.taken]
    | succ n =>
      cases e with
      | pending => rw [readExact]; exact ih (n+1)
      | eof => simp [readExact, RO.taken]
      | fail => simp [readExact, RO.taken]
      | data bs =>
        rw [readExact]
        split
        · simp [RO.taken]
        · split
          · simp [RO.taken]; omega
          · rename_i h1 h2
            have := ih (n + 1 - bs.length)
            simp only
            cases hx : (readExact (n + 1 - bs.length) r).1 <;> simp [hx, RO.prepend, RO.taken] at this ⊢ <;> omega

/-- segmentation independence of `read_exact`: the result depends only on the octets the script delivers -/
theorem readExact_flat : ∀ (n : Nat) (evs : List REv), noEmpty evs → n ≤ (flat evs).length →
    ∃ evs', readExact n evs = (.ok ((flat evs).take n), evs') ∧ flat evs' = (flat evs).drop n ∧ noEmpty evs' := by
  intro n evs
  induction evs generalizing n with
  | nil =>
    intro _ h
    simp [flat] at h; subst h
    exact ⟨[], by simp [readExact, flat], by simp [flat], trivial⟩
  | cons e r ih =>
    intro hne h
    cases n with
    | zero => exact ⟨e :: r, by simp [readExact], by simp, hne⟩
    | succ n =>
      cases e with
      | pending =>
        simp only [flat] at h ⊢
        obtain ⟨evs', h1, h2, h3⟩ := ih (n+1) hne h
        exact ⟨evs', by rw [readExact]; exact h1, h2, h3⟩
      | eof => simp [flat] at h
      | fail => simp [flat] at h
      | data bs =>
        simp only [flat, noEmpty] at h hne ⊢
        have hbl : bs.length ≠ 0 := by
          intro h0; exact hne.1 (List.eq_nil_of_length_eq_zero h0)
        rw [readExact]
        simp only [hbl, if_false]
        by_cases hle : n + 1 ≤ bs.length
        · simp only [hle, if_true]
          refine ⟨_, by rw [List.take_append_of_le_length hle], ?_, ?_⟩
          · split
            · rename_i he
              rw [List.drop_append_of_le_length (by omega)]
              simp [he, List.drop_eq_nil_of_le]
            · simp only [flat]
              rw [List.drop_append_of_le_length hle]
          · split
            · exact hne.2
            · simp only [noEmpty]
              refine ⟨?_, hne.2⟩
              intro hd
              have : (bs.drop (n+1)).length = 0 := by rw [hd]; rfl
              simp at this; omega
        · simp only [hle, if_false]
          have hlen : n + 1 - bs.length ≤ (flat r).length := by simp at h; omega
          obtain ⟨evs', h1, h2, h3⟩ := ih (n + 1 - bs.length) hne.2 hlen
          rw [h1]
          refine ⟨evs', ?_, ?_, h3⟩
          · simp only [RO.prepend, Prod.mk.injEq, RO.ok.injEq, and_true]
            rw [List.take_append]
            simp [List.take_of_length_le (Nat.le_of_lt (Nat.lt_of_not_le hle))]
          · rw [h2, List.drop_append]
            simp [List.drop_eq_nil_of_le (Nat.le_of_lt (Nat.lt_of_not_le hle))]

end Dia
