import Dia.CodecThm
/-! A concrete acceptable frame, shared by the non-vacuity examples of the stream and server properties. -/
namespace Dia

def exCfg : Cfg := ⟨fun _ _ => false, 32, {}⟩
def exDictNone : Lookup := fun _ _ => .unknown
/-- a header-only Credit-Control request: 20 octets -/
def exFrame : Bytes := [1, 0, 0, 20, 0x80, 0, 1, 16, 0, 0, 0, 4, 0, 0, 0, 1, 0, 0, 0, 2]
def exFrameMsg : Msg := ⟨1, 20, 0x80, 272, 4, 1, 2, []⟩

theorem exFrame_accepts : Accepts exCfg exDictNone exFrame exFrameMsg := by
  refine ⟨?_, by decide, by decide, by decide⟩
  simp [decMsg, exFrame, exCfg, exDictNone, Cur.read, fromBe, Tables.cmdKnown, Tables.appKnown, decGroup, exFrameMsg, Out.bind]

theorem exFrameMsg_enc : exFrameMsg.enc = ⟨exFrame, none⟩ := by
  simp [Msg.enc, exFrameMsg, exFrame, Enc.ok, Enc.andThen, encList, be24, be32]

end Dia
