import Dia.ClientMultiThm
/-! The single-connection client model `Dia.Cl` is the one-connection slice of the multi-connection model `Dia.Cm`:
every run of the former is, label for label, a run of the latter after one `connect`. -/
namespace Dia.Cm
open Dia.Cl (Msg WStatus Item Reader SendPhase upd)

def lift (s : Cl.St) : St :=
  { nW := s.nW, hbhOf := s.hbhOf, status := s.status, cache := s.cache, closed := s.closed, nC := 1,
    wire := fun c => if c = 0 then s.wire else [], reader := fun c => if c = 0 then s.reader else .running,
    emitted := s.emitted, send := s.send, sentOn := fun _ => 0, started := s.started }

def liftL : Cl.Label → Label
  | .sendBegin h => .sendBegin h
  | .write => .write
  | .sendReturn => .sendReturn
  | .sendFail => .sendFail
  | .peerEmit it => .peerEmit 0 it
  | .readerDecode => .readerDecode 0
  | .readerRemove => .readerRemove 0
  | .readerDeliver => .readerDeliver 0
  | .readerStop => .readerStop 0

theorem St.ext' {a b : St} (h1 : a.nW = b.nW) (h2 : a.hbhOf = b.hbhOf) (h3 : a.status = b.status) (h4 : a.cache = b.cache)
    (h5 : a.closed = b.closed) (h6 : a.nC = b.nC) (h7 : a.wire = b.wire) (h8 : a.reader = b.reader)
    (h9 : a.emitted = b.emitted) (h10 : a.send = b.send) (h11 : a.sentOn = b.sentOn) (h12 : a.started = b.started) : a = b := by
  cases a; cases b; simp_all

theorem lift_init : step init .connect = some (lift Cl.init) := by
  simp only [step, init, lift, Cl.init]
  simp

theorem lift_step {s s' : Cl.St} (l : Cl.Label) (h : Cl.step s l = some s') :
    step (lift s) (liftL l) = some (lift s') := by
  cases l <;> simp only [Cl.step] at h <;> simp only [liftL, step]
  case sendBegin hb =>
    split at h
    · cases h
    · rename_i hidle
      split at h
      · cases h; simp_all [lift]
      · rename_i hcl
        cases h
        have : s.send = SendPhase.idle := by simpa using hidle
        simp only [lift, this, hcl]
        simp
        refine ⟨?_, ?_⟩
        · cases s.cache hb <;> rfl
        · funext x; simp [upd]
  case write =>
    split at h <;> first | (cases h; simp_all [lift]) | cases h
  case sendReturn =>
    split at h <;> first | (cases h; simp_all [lift]) | cases h
  case sendFail =>
    split at h <;> first | (cases h; simp_all [lift]) | cases h
  case peerEmit it =>
    cases h
    simp [lift]
    refine ⟨?_, ?_⟩
    · funext x; simp [upd]; split <;> simp_all
    · cases it <;> rfl
  case readerDecode =>
    split at h
    · cases h
    · rename_i hr
      have hr' : s.reader = Reader.running := by simpa using hr
      split at h
      · cases h
      · rename_i m rest hw
        cases h
        simp [lift, hr', hw]
        refine ⟨?_, ?_⟩ <;> (funext x; simp [upd]; try (split <;> simp_all))
      · rename_i rest hw
        cases h
        simp [lift, hr', hw]
        refine ⟨?_, ?_⟩ <;> (funext x; simp [upd]; try (split <;> simp_all))
  case readerRemove =>
    split at h
    · rename_i m hr
      split at h
      · rename_i w hc
        cases h
        simp [lift, hr, hc]
        funext x; simp [upd]; split <;> simp_all
      · rename_i hc
        cases h
        simp [lift, hr, hc]
        funext x; simp [upd]; split <;> simp_all
    · cases h
  case readerDeliver =>
    split at h
    · rename_i m w hr
      cases h
      simp [lift, hr]
      funext x; simp [upd]; try (split <;> simp_all)
    · cases h
  case readerStop =>
    split at h
    · cases h
    · rename_i hr
      have hr' : s.reader = Reader.stopping := by simpa using hr
      cases h
      simp [lift, hr']
      funext x; simp [upd]; split <;> simp_all

/-- every run of the single-connection model is a run of the multi-connection model after one `connect` -/
theorem lift_run (ls : List Cl.Label) (s s' : Cl.St) (h : Cl.run s ls = some s') :
    run (lift s) (ls.map liftL) = some (lift s') := by
  induction ls generalizing s with
  | nil => simp [Cl.run] at h; simp [run, h]
  | cons l ls ih =>
    simp only [Cl.run] at h
    split at h
    · rename_i s1 hs1
      simp only [List.map, run, lift_step l hs1]
      exact ih s1 h
    · cases h

theorem embed (ls : List Cl.Label) (s' : Cl.St) (h : Cl.run Cl.init ls = some s') :
    run init (.connect :: ls.map liftL) = some (lift s') := by
  simp only [run, lift_init]
  exact lift_run ls _ _ h

end Dia.Cm
